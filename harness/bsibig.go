package main

import (
	"github.com/RoaringBitmap/roaring/v2/roaring64"
)

func init() {
	// bcmpabs s w OP k [k2] f : roaring64.BSI.CompareBigValue(w, OP, k, k2, f) with a found-set f (not nil) that MAY contain columns
	// holding no value.  Pure query (nothing is stored).  Output:
	//   <digest of the raw result> <digest of result AND existence bitmap> <same|changed: the index> <digest of f>
	// The map semantics only speaks about the second token (columns that hold a value); the first one is compared with the
	// per-column model of the code (Impl/BSI64Big.compareBigValue).
	reg("bcmpabs", func(e *env, a []string) string {
		need(a, 5)
		s, w, opn := e.bs(a[0]), workers(a[1]), a[2]
		only64(s)
		rest := a[3:]
		k1 := rest[0]
		k2 := "0"
		rest = rest[1:]
		if opn == "RANGE" {
			if len(rest) == 0 {
				panic(skipErr{"arity"})
			}
			k2 = rest[0]
			rest = rest[1:]
		}
		if len(rest) != 1 {
			panic(skipErr{"arity"})
		}
		f := e.fsNN(s, rest[0])
		op := op64(opn)
		if op == roaring64.MIN || op == roaring64.MAX {
			panic(skipErr{"op"})
		}
		b1, b2 := bigOf(k1), bigOf(k2)
		snap := s.raw()
		res := s.b64.CompareBigValue(w, op, b1, b2, f.f64)
		ex := roaring64.And(res, s.b64.GetExistenceBitmap())
		return d64(res) + " " + d64(ex) + " " + same(snap, s) + " " + f.d()
	})
}
