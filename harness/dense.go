package main

import (
	"fmt"
	"math/bits"

	roaring "github.com/RoaringBitmap/roaring/v2"
	"github.com/bits-and-blooms/bitset"
)

func ivsOfWords(ws []uint64) []iv {
	var b ivBuilder
	for wi, w := range ws {
		for w != 0 {
			t := bits.TrailingZeros64(w)
			r := bits.TrailingZeros64(^(w >> uint(t)))
			lo := uint64(wi*64 + t)
			b.add(lo, lo+uint64(r)-1)
			if t+r >= 64 {
				w = 0
			} else {
				w &^= ((uint64(1) << uint(r)) - 1) << uint(t)
			}
		}
	}
	return b.out
}

func eqWords(a, b []uint64) bool {
	if len(a) != len(b) {
		return false
	}
	for i := range a {
		if a[i] != b[i] {
			return false
		}
	}
	return true
}

func init() {
	// dense x : ToDense / WriteDenseTo / ToBitSet
	reg("dense", func(e *env, a []string) string {
		need(a, 1)
		x := e.b(a[0])
		ws := x.ToDense()
		sz := x.DenseSize()
		buf := make([]uint64, sz)
		x.WriteDenseTo(buf)
		bs := x.ToBitSet()
		agree := eqWords(ws, buf) && eqWords(ws, bs.Bytes())
		return fmt.Sprintf("%d %d %s %s", len(ws), sz, digest(ivsOfWords(ws)), bstr(agree))
	})
	// fromdense y copy=0|1 words : FromDense; the caller's words must be unchanged afterwards
	reg("fromdense", func(e *env, a []string) string {
		need(a, 3)
		ws := parseCont("B:0:" + a[2]).Words
		whole := ws
		if hasTok(a[3:], "spare") {
			// the caller's words are the front of a larger buffer whose remainder holds other (non-zero) data
			whole = make([]uint64, len(ws)+2048)
			for i := range whole {
				whole[i] = 0xFFFFFFFFFFFFFFFF
			}
			copy(whole, ws)
			ws = whole[:len(ws)]
		}
		orig := append([]uint64(nil), whole...)
		var y *roaring.Bitmap
		if a[1] == "1" {
			y = roaring.FromDense(ws, true)
		} else {
			y = roaring.FromDense(ws, false)
		}
		e.bm[a[0]] = y
		e.dense = append(e.dense, denseRef{name: a[0], words: whole, orig: orig})
		return fmt.Sprintf("%s %s", d32(y), bstr(eqWords(whole, orig)))
	})
	reg("frombitset", func(e *env, a []string) string {
		need(a, 2)
		ws := parseCont("B:0:" + a[1]).Words
		orig := append([]uint64(nil), ws...)
		y := roaring.FromBitSet(bitset.From(ws))
		e.bm[a[0]] = y
		e.dense = append(e.dense, denseRef{name: a[0], words: ws, orig: orig})
		return fmt.Sprintf("%s %s", d32(y), bstr(eqWords(ws, orig)))
	})
	// densechk : none of the word slices handed to FromDense/FromBitSet so far has been written to
	reg("densechk", func(e *env, a []string) string {
		for _, d := range e.dense {
			if !eqWords(d.words, d.orig) {
				return "written:" + d.name
			}
		}
		return "ok"
	})
}

type denseRef struct {
	name  string
	words []uint64
	orig  []uint64
}
