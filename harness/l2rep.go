package main

// Exact-representation tie of the bitmap-level (roaringArray) L2 model (lean/RModel/Impl/RepOps.lean).
//
//   l2op <and|or|xor|andnot> z x y
//       z = roaring.And/Or/Xor/AndNot(x, y)  (the STATIC functions), registered as bitmap z.
//       output: <repr32(x) before> <repr32(y) before> <repr32(z)> <ok|xchg|ychg>
//       the 4th token says whether the raw representation of the operands (containers, cached cardinalities,
//       needCopyOnWrite flags, copyOnWrite switch) is the same after the call as before it.
//       z may be one of x / y (the name is rebound after the call).

import (
	roaring "github.com/RoaringBitmap/roaring/v2"
)

func init() {
	reg("l2op", func(e *env, a []string) string {
		need(a, 4)
		var f func(p, q *roaring.Bitmap) *roaring.Bitmap
		switch a[0] {
		case "and":
			f = roaring.And
		case "or":
			f = roaring.Or
		case "xor":
			f = roaring.Xor
		case "andnot":
			f = roaring.AndNot
		default:
			panic(skipErr{"unknown l2op " + a[0]})
		}
		x, y := e.b(a[2]), e.b(a[3])
		rx, ry := repr32(x), repr32(y)
		z := f(x, y)
		st := "ok"
		if repr32(x) != rx {
			st = "xchg"
		} else if repr32(y) != ry {
			st = "ychg"
		}
		e.bm[a[1]] = z
		return rx + " " + ry + " " + repr32(z) + " " + st
	})
}
