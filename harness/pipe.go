package main

import (
	"io"
	"os"
)

// viaPipe feeds data through an OS pipe to f (which reads from the read end, an *os.File) and reports what f returned plus the number
// of bytes f left unread. The writer goroutine ends when everything is written or the read end is closed.
func viaPipe(data []byte, f func(r io.Reader) (int64, error)) (n int64, rest int, err error) {
	pr, pw, perr := os.Pipe()
	if perr != nil {
		panic(skipErr{"pipe"})
	}
	done := make(chan struct{})
	go func() {
		defer close(done)
		defer pw.Close()
		_, _ = pw.Write(data)
	}()
	func() {
		defer func() {
			if r := recover(); r != nil {
				pr.Close()
				<-done
				panic(r)
			}
		}()
		n, err = f(pr)
	}()
	left, _ := io.ReadAll(pr)
	rest = len(left)
	pr.Close()
	<-done
	return
}
