package main

import (
	"fmt"
	"sync"

	"github.com/RoaringBitmap/roaring/v2/roaring64"
)

func init() {
	// concagg64 k w a... : k goroutines run roaring64.ParOr over the SAME input bitmaps at the same time, each with its own
	// argument slice (inputs are only read by a correct library); every result must be the union, the inputs must not change.
	// Output: <digest of the first result> same=<all k results equal> in=<ok|changed>
	reg("concagg64", func(e *env, a []string) string {
		need(a, 3)
		k := int(u64(a[0]))
		if k < 1 || k > 64 {
			panic(skipErr{"domain"})
		}
		w := int(u64(a[1]))
		var ins []*roaring64.Bitmap
		for _, n := range a[2:] {
			ins = append(ins, e.b64(n))
		}
		before := make([]string, len(ins))
		for i, b := range ins {
			before[i] = d64(b)
		}
		res := make([][]string, k)
		var wg sync.WaitGroup
		start := make(chan struct{})
		for g := 0; g < k; g++ {
			wg.Add(1)
			go func(g int) {
				defer wg.Done()
				defer func() {
					if r := recover(); r != nil {
						res[g] = append(res[g], "panic")
					}
				}()
				<-start
				// rotate everything but the first operand, so that concurrent calls differ in what they append after it
				passed := append([]*roaring64.Bitmap(nil), ins...)
				if len(passed) > 2 {
					rot := 1 + g%(len(passed)-1)
					tail := append(append([]*roaring64.Bitmap(nil), passed[rot:]...), passed[1:rot]...)
					passed = append(passed[:1:1], tail...)
				}
				for r := 0; r < 40; r++ {
					res[g] = append(res[g], d64(roaring64.ParOr(w, passed...)))
				}
			}(g)
		}
		close(start)
		wg.Wait()
		same := true
		for _, rs := range res {
			for _, r := range rs {
				if r != res[0][0] {
					same = false
				}
			}
		}
		in := "in=ok"
		for i, b := range ins {
			if d64(b) != before[i] {
				in = "in=changed"
			}
		}
		return fmt.Sprintf("%s same=%s %s", res[0][0], bstr(same), in)
	})
}
