package main

// roaring64.Bitmap command family (suffix "64").  See the grammar at the top of tools/gen_r64.py.
//
// Conventions:
//   * every mutating command prints the digest (d64) of the mutated bitmap, computed from the RAW bucket /
//     container representation (roaring64.VerifView64 + roaring.VerifView), never through a library algorithm;
//   * static binary operations print "digest(result) digest(a) digest(b)";
//   * decoders are run under recover; decodes whose bucket-count field is absurd are run in a child process with
//     an address-space limit (see safeDecode64) because a huge *successful* allocation or a runtime
//     "fatal error: out of memory" cannot be recovered in-process.

import (
	"bytes"
	"encoding/base64"
	"encoding/binary"
	"encoding/hex"
	"fmt"
	"io"
	"os"
	"os/exec"
	"strconv"
	"strings"
	"syscall"
	"testing/iotest"
	"time"

	roaring "github.com/RoaringBitmap/roaring/v2"
	"github.com/RoaringBitmap/roaring/v2/roaring64"
)

// ---------------------------------------------------------------------------------------------- iterators

type iter64 struct {
	kind string // fwd | rev | many
	fwd  roaring64.IntPeekable64
	rev  roaring64.IntIterable64
	many roaring64.ManyIntIterable64
}

// one harness process = one env, so a package-level table is enough (keeps main.go/stubs.go untouched)
var its64 = map[string]*iter64{}

func it64of(name string) *iter64 {
	it, ok := its64[name]
	if !ok {
		panic(skipErr{"undefined iterator " + name})
	}
	return it
}

// toArrCap: commands that would materialise more values than this print "toobig" instead (both sides agree on
// the mathematical cardinality, so this is part of the command's definition, not a quirk)
const toArrCap = 1 << 22

func sortedInc64(a []uint64) bool {
	for i := 1; i < len(a); i++ {
		if a[i-1] >= a[i] {
			return false
		}
	}
	return true
}

func rawCard64(x *roaring64.Bitmap) (uint64, bool) {
	var n uint64
	for _, p := range ivs64(x) {
		d := p.hi - p.lo + 1
		if d == 0 || n+d < n {
			return 0, false
		}
		n += d
	}
	return n, true
}

func valsOut(vals []uint64) string {
	return fmt.Sprintf("%d %s", len(vals), digest(ivsOfSorted64(vals)))
}

// lenientRunSize (command "lenient64 runsize"): tolerate Validate()'s ErrRunIntervalSize, which the 32-bit layer
// reports for library-made run containers that are not the cheapest encoding (FINDINGS.md F7).  Off by default.
var lenientRunSize = false

// wf64str: Validate()==nil plus an independent structural walk
func wf64str(x *roaring64.Bitmap) string {
	k, c, f := roaring64.VerifShape64(x)
	if k != c || c != f {
		return fmt.Sprintf("err:shape_%d_%d_%d", k, c, f)
	}
	_, bs := roaring64.VerifView64(x)
	for i, b := range bs {
		if b.Inner == nil {
			return fmt.Sprintf("err:nilbucket@%d", i)
		}
		if i > 0 && bs[i-1].Key >= b.Key {
			return fmt.Sprintf("err:keyorder@%d", i)
		}
		_, cs := roaring.VerifView(b.Inner)
		if len(cs) == 0 {
			return fmt.Sprintf("err:emptybucket@%d", i)
		}
		for j := range cs {
			if cs[j].Card == 0 {
				return fmt.Sprintf("err:emptycontainer@%d/%d", i, j)
			}
			if j > 0 && cs[j-1].Key >= cs[j].Key {
				return fmt.Sprintf("err:innerkeyorder@%d/%d", i, j)
			}
		}
	}
	if err := x.Validate(); err != nil {
		tolerated := false
		if lenientRunSize && err == roaring.ErrRunIntervalSize {
			// finding F7 (32-bit layer): look at every bucket separately and tolerate only this verdict
			tolerated = true
			for _, b := range bs {
				if e2 := b.Inner.Validate(); e2 != nil && e2 != roaring.ErrRunIntervalSize {
					return "err:validate:" + spaceless(e2.Error())
				}
			}
		}
		if !tolerated {
			return "err:validate:" + spaceless(err.Error())
		}
	}
	n, ok := rawCard64(x)
	if ok {
		if x.IsEmpty() != (n == 0) {
			return "err:isempty"
		}
		if x.GetCardinality() != n {
			return "err:card"
		}
	}
	return "ok"
}

// ---------------------------------------------------------------------------------------------- serialization helpers

var entries64 = map[string]bool{"readfrom": true, "readfrom1": true, "readpipe": true, "fromunsafe": true, "unmarshal": true, "base64": true}

// buffers handed to FromUnsafeBytes, with a pristine copy: the library must never write into them (bufchk64)
type unsafeBuf struct{ live, pristine []byte }

var unsafeBufs = map[string]*unsafeBuf{}
var lastUnsafe *unsafeBuf

type decRes struct {
	class string // ok | err | panic:... | fatal:...
	n     int64  // byte count returned (-1 when the entry point returns none)
	cons  int64  // bytes consumed from the reader (-1 when not observable)
	emsg  string
}

// decode64 runs one decoder entry point on raw bytes, in-process, under recover.
// For "base64" the bytes are base64-encoded first (so that all entry points take the same raw stream).
func decode64(rb *roaring64.Bitmap, entry string, data []byte) (res decRes) {
	res.n, res.cons = -1, -1
	defer func() {
		if r := recover(); r != nil {
			if s, ok := r.(skipErr); ok {
				panic(s)
			}
			res.class = panicClass(r)
		}
	}()
	var err error
	switch entry {
	case "readfrom":
		r := bytes.NewReader(data)
		res.n, err = rb.ReadFrom(r)
		res.cons = int64(len(data) - r.Len())
	case "readfrom1":
		// a reader that delivers one byte per Read call
		r := bytes.NewReader(data)
		res.n, err = rb.ReadFrom(iotest.OneByteReader(r))
		res.cons = int64(len(data) - r.Len())
	case "readpipe":
		// the read end of an OS pipe: an *os.File (it HAS Seek, ReadAt, ... methods) that cannot seek
		var rest int
		res.n, rest, err = viaPipe(data, func(r io.Reader) (int64, error) { return rb.ReadFrom(r) })
		res.cons = int64(len(data) - rest)
	case "fromunsafe":
		// the bitmap keeps references into the buffer: give it a private copy
		buf := append(make([]byte, 0, len(data)), data...)
		lastUnsafe = &unsafeBuf{live: buf, pristine: append([]byte(nil), data...)}
		res.n, err = rb.FromUnsafeBytes(buf)
	case "unmarshal":
		err = rb.UnmarshalBinary(data)
	case "base64":
		res.n, err = rb.FromBase64(base64.StdEncoding.EncodeToString(data))
	default:
		panic(skipErr{"bad entry " + entry})
	}
	if err != nil {
		res.class = "err"
		res.emsg = err.Error()
		return
	}
	res.class = "ok"
	return
}

// inProcCountCap: a stream whose first 8 bytes (the bucket count) exceed this is decoded in a child process with
// RLIMIT_AS = childASLimit.  Measured on /repo (see FINDINGS.md): count=2^28 -> 3.3 GB allocated and 12 s,
// count=2^32 -> 53 GB and ~3 min, 2^34..2^46 -> unrecoverable "fatal error: runtime: out of memory",
// >= 2^47 -> recoverable panic "makeslice: len out of range", >= 2^63 -> recoverable "slice bounds out of range".
const inProcCountCap = 1 << 22
const childASLimit = 2 << 30
const childTimeout = 30 * time.Second

func countField(data []byte) uint64 {
	if len(data) < 8 {
		return 0
	}
	return binary.LittleEndian.Uint64(data)
}

// safeDecode64 = decode64 with protection against attacker-chosen allocation sizes.
func safeDecode64(rb *roaring64.Bitmap, entry string, data []byte) decRes {
	if !entries64[entry] {
		panic(skipErr{"bad entry " + entry})
	}
	if countField(data) <= inProcCountCap {
		return decode64(rb, entry, data)
	}
	return childDecode64(entry, data)
}

func childDecode64(entry string, data []byte) decRes {
	exe, err := os.Executable()
	if err != nil {
		return decRes{class: "fatal:noexe", n: -1, cons: -1}
	}
	cmd := exec.Command(exe, "-dec64child", entry)
	cmd.Stdin = strings.NewReader(hex.EncodeToString(data))
	var so, se bytes.Buffer
	cmd.Stdout, cmd.Stderr = &so, &se
	if err := cmd.Start(); err != nil {
		return decRes{class: "fatal:nostart", n: -1, cons: -1}
	}
	done := make(chan error, 1)
	go func() { done <- cmd.Wait() }()
	select {
	case err = <-done:
	case <-time.After(childTimeout):
		_ = cmd.Process.Kill()
		<-done
		return decRes{class: "fatal:timeout", n: -1, cons: -1}
	}
	out := strings.TrimSpace(so.String())
	if err == nil && out != "" {
		f := strings.SplitN(out, " ", 2)
		r := decRes{class: f[0], n: -1, cons: -1}
		if f[0] == "panic" && len(f) > 1 {
			r.class = "panic:" + f[1]
		}
		if f[0] == "ok" && len(f) > 1 {
			r.n, _ = strconv.ParseInt(f[1], 10, 64)
		}
		return r
	}
	es := se.String()
	switch {
	case strings.Contains(es, "out of memory") || strings.Contains(es, "cannot allocate memory"):
		return decRes{class: fmt.Sprintf("fatal:oom(limit=%dMiB)", childASLimit>>20), n: -1, cons: -1}
	default:
		first := strings.SplitN(es, "\n", 2)[0]
		return decRes{class: "fatal:" + spaceless(first), n: -1, cons: -1}
	}
}

// child mode: "harness -dec64child <entry>", hex stream on stdin; prints "ok n" | "err" | "panic msg".
func init() {
	if len(os.Args) >= 3 && os.Args[1] == "-dec64child" {
		lim := syscall.Rlimit{Cur: childASLimit, Max: childASLimit}
		_ = syscall.Setrlimit(syscall.RLIMIT_AS, &lim)
		in, _ := io.ReadAll(os.Stdin)
		data, err := hex.DecodeString(strings.TrimSpace(string(in)))
		if err != nil {
			fmt.Println("fatal badhex")
			os.Exit(0)
		}
		r := decode64(roaring64.New(), os.Args[2], data)
		switch {
		case r.class == "ok":
			fmt.Printf("ok %d\n", r.n)
		case r.class == "err":
			fmt.Println("err")
		default:
			fmt.Println("panic " + strings.TrimPrefix(r.class, "panic:"))
		}
		os.Exit(0)
	}
}

// bucketOffsets returns, for a library-made bitmap, the byte offset of every bucket's key field in its
// serialisation (the inner 32-bit stream starts 4 bytes later).
func bucketOffsets(x *roaring64.Bitmap) []int {
	_, bs := roaring64.VerifView64(x)
	off := 8
	var out []int
	for _, b := range bs {
		out = append(out, off)
		off += 4 + int(b.Inner.GetSerializedSizeInBytes())
	}
	return out
}

func garbage(k int) []byte {
	g := make([]byte, k)
	for i := range g {
		g[i] = byte(0xA5 ^ (i * 37))
	}
	return g
}

func optI64(v int64) string {
	if v < 0 {
		return "-"
	}
	return strconv.FormatInt(v, 10)
}

// ---------------------------------------------------------------------------------------------- commands

func init() {
	u64s := func(a []string) []uint64 {
		vals := make([]uint64, 0, len(a))
		for _, s := range a {
			vals = append(vals, u64(s))
		}
		return vals
	}
	reg("lenient64", func(e *env, a []string) string {
		need(a, 1)
		if a[0] != "runsize" {
			panic(skipErr{"unknown leniency"})
		}
		lenientRunSize = true
		return "ok"
	})
	reg("alias64", func(e *env, a []string) string {
		// among the named bitmaps: no object under two names, and an inner *roaring.Bitmap reachable from two
		// distinct objects must carry the needCopyOnWrite flag in both (otherwise a write through one is visible
		// through the other)
		need(a, 1)
		type ref struct {
			name string
			key  uint32
			flag bool
		}
		seenObj := map[*roaring64.Bitmap]string{}
		inner := map[*roaring.Bitmap][]ref{}
		var order []*roaring.Bitmap
		for _, n := range a {
			x := e.b64(n)
			if m, ok := seenObj[x]; ok {
				if m != n {
					return "same:" + m + "=" + n
				}
				continue
			}
			seenObj[x] = n
			_, bs := roaring64.VerifView64(x)
			for _, b := range bs {
				if _, ok := inner[b.Inner]; !ok {
					order = append(order, b.Inner)
				}
				inner[b.Inner] = append(inner[b.Inner], ref{n, b.Key, b.NeedCOW})
			}
		}
		for _, p := range order {
			rs := inner[p]
			if len(rs) < 2 {
				continue
			}
			for _, r := range rs {
				if !r.flag {
					return fmt.Sprintf("shared:%s/%s@%d", rs[0].name, rs[1].name, r.key)
				}
			}
		}
		return "ok"
	})
	reg("new64", func(e *env, a []string) string {
		need(a, 1)
		e.bm64[a[0]] = roaring64.New()
		return d64(e.bm64[a[0]])
	})
	reg("of64", func(e *env, a []string) string {
		need(a, 1)
		e.bm64[a[0]] = roaring64.BitmapOf(u64s(a[1:])...)
		return d64(e.bm64[a[0]])
	})
	reg("clone64", func(e *env, a []string) string {
		need(a, 2)
		x := e.b64(a[1])
		y := x.Clone()
		e.bm64[a[0]] = y
		return d64(y) + " " + d64(x)
	})
	reg("cowclone64", func(e *env, a []string) string {
		need(a, 2)
		x := e.b64(a[1])
		x.SetCopyOnWrite(true)
		y := x.Clone()
		e.bm64[a[0]] = y
		return d64(y) + " " + d64(x)
	})
	reg("setcow64", func(e *env, a []string) string {
		need(a, 2)
		x := e.b64(a[0])
		x.SetCopyOnWrite(a[1] == "1")
		return bstr(x.GetCopyOnWrite())
	})
	unary := func(f func(x *roaring64.Bitmap)) cmdFunc {
		return func(e *env, a []string) string {
			need(a, 1)
			x := e.b64(a[0])
			f(x)
			return d64(x)
		}
	}
	reg("detach64", unary(func(x *roaring64.Bitmap) { x.CloneCopyOnWriteContainers() }))
	reg("opt64", unary(func(x *roaring64.Bitmap) { x.RunOptimize() }))
	reg("clear64", unary(func(x *roaring64.Bitmap) { x.Clear() }))
	reg("add64", func(e *env, a []string) string {
		need(a, 2)
		x := e.b64(a[0])
		x.Add(u64(a[1]))
		return d64(x)
	})
	reg("addint64", func(e *env, a []string) string {
		need(a, 2)
		x := e.b64(a[0])
		x.AddInt(int(u64(a[1]))) // the int is cast back to uint64 by the library
		return d64(x)
	})
	reg("cadd64", func(e *env, a []string) string {
		need(a, 2)
		x := e.b64(a[0])
		r := x.CheckedAdd(u64(a[1]))
		return bstr(r) + " " + d64(x)
	})
	reg("rem64", func(e *env, a []string) string {
		need(a, 2)
		x := e.b64(a[0])
		x.Remove(u64(a[1]))
		return d64(x)
	})
	reg("crem64", func(e *env, a []string) string {
		need(a, 2)
		x := e.b64(a[0])
		r := x.CheckedRemove(u64(a[1]))
		return bstr(r) + " " + d64(x)
	})
	reg("addmany64", func(e *env, a []string) string {
		need(a, 1)
		x := e.b64(a[0])
		x.AddMany(u64s(a[1:]))
		return d64(x)
	})
	// addstride64 x start step count : the values start + i*step, i < count (many buckets without a megabyte of script)
	reg("addstride64", func(e *env, a []string) string {
		need(a, 4)
		x := e.b64(a[0])
		start, step, cnt := u64(a[1]), u64(a[2]), u64(a[3])
		if cnt > 1<<20 || step == 0 || (cnt > 0 && (^uint64(0)-start)/step < cnt-1) {
			panic(skipErr{"stride out of range"})
		}
		vals := make([]uint64, cnt)
		for i := range vals {
			vals[i] = start + uint64(i)*step
		}
		x.AddMany(vals)
		return d64(x)
	})
	// sermany64 x1 x2 … : serialize all of them first (keeping the returned slices), then look at the slices
	reg("sermany64", func(e *env, a []string) string {
		need(a, 1)
		xs := make([]*roaring64.Bitmap, len(a))
		for i, n := range a {
			xs[i] = e.b64(n)
		}
		kept := make([][]byte, 0, 3*len(xs))
		strs := make([]string, 0, len(xs))
		for _, x := range xs {
			b1, err1 := x.ToBytes()
			b2, err2 := x.MarshalBinary()
			s3, err3 := x.ToBase64()
			if err1 != nil || err2 != nil || err3 != nil {
				return "err:serialize"
			}
			kept = append(kept, b1, b2)
			strs = append(strs, s3)
		}
		for i, x := range xs {
			var w bytes.Buffer
			if _, err := x.WriteTo(&w); err != nil {
				return "err:writeto"
			}
			if !bytes.Equal(kept[2*i], w.Bytes()) || !bytes.Equal(kept[2*i+1], w.Bytes()) || strs[i] != base64.StdEncoding.EncodeToString(w.Bytes()) {
				return fmt.Sprintf("changed@%d", i)
			}
			y := roaring64.New()
			if _, err := y.FromUnsafeBytes(kept[2*i]); err != nil || !y.Equals(x) {
				return fmt.Sprintf("undecodable@%d", i)
			}
		}
		return "ok"
	})
	rangeOp := func(f func(x *roaring64.Bitmap, s, t uint64)) cmdFunc {
		return func(e *env, a []string) string {
			need(a, 3)
			x := e.b64(a[0])
			f(x, u64(a[1]), u64(a[2]))
			return d64(x)
		}
	}
	reg("addr64", rangeOp(func(x *roaring64.Bitmap, s, t uint64) { x.AddRange(s, t) }))
	reg("remr64", rangeOp(func(x *roaring64.Bitmap, s, t uint64) { x.RemoveRange(s, t) }))
	reg("flip64", rangeOp(func(x *roaring64.Bitmap, s, t uint64) { x.Flip(s, t) }))
	reg("flipint64", rangeOp(func(x *roaring64.Bitmap, s, t uint64) { x.FlipInt(int(s), int(t)) }))
	reg("sflip64", func(e *env, a []string) string {
		need(a, 4)
		x := e.b64(a[1])
		y := roaring64.Flip(x, u64(a[2]), u64(a[3]))
		e.bm64[a[0]] = y
		return d64(y) + " " + d64(x)
	})
	static := func(f func(p, q *roaring64.Bitmap) *roaring64.Bitmap) cmdFunc {
		return func(e *env, a []string) string {
			need(a, 3)
			p, q := e.b64(a[1]), e.b64(a[2])
			y := f(p, q)
			e.bm64[a[0]] = y
			return d64(y) + " " + d64(p) + " " + d64(q)
		}
	}
	reg("and64", static(roaring64.And))
	reg("or64", static(roaring64.Or))
	reg("xor64", static(roaring64.Xor))
	reg("andnot64", static(roaring64.AndNot))
	inplace := func(f func(p, q *roaring64.Bitmap)) cmdFunc {
		return func(e *env, a []string) string {
			need(a, 2)
			p, q := e.b64(a[0]), e.b64(a[1])
			f(p, q)
			return d64(p) + " " + d64(q)
		}
	}
	reg("iand64", inplace(func(p, q *roaring64.Bitmap) { p.And(q) }))
	reg("ior64", inplace(func(p, q *roaring64.Bitmap) { p.Or(q) }))
	reg("ixor64", inplace(func(p, q *roaring64.Bitmap) { p.Xor(q) }))
	reg("iandnot64", inplace(func(p, q *roaring64.Bitmap) { p.AndNot(q) }))
	reg("andcard64", func(e *env, a []string) string {
		need(a, 2)
		return strconv.FormatUint(e.b64(a[0]).AndCardinality(e.b64(a[1])), 10)
	})
	reg("orcard64", func(e *env, a []string) string {
		need(a, 2)
		return strconv.FormatUint(e.b64(a[0]).OrCardinality(e.b64(a[1])), 10)
	})
	reg("isect64", func(e *env, a []string) string {
		need(a, 2)
		return bstr(e.b64(a[0]).Intersects(e.b64(a[1])))
	})
	// ---- queries
	reg("card64", func(e *env, a []string) string {
		need(a, 1)
		return strconv.FormatUint(e.b64(a[0]).GetCardinality(), 10)
	})
	reg("empty64", func(e *env, a []string) string { need(a, 1); return bstr(e.b64(a[0]).IsEmpty()) })
	reg("has64", func(e *env, a []string) string { need(a, 2); return bstr(e.b64(a[0]).Contains(u64(a[1]))) })
	reg("hasint64", func(e *env, a []string) string {
		need(a, 2)
		return bstr(e.b64(a[0]).ContainsInt(int(u64(a[1]))))
	})
	reg("min64", func(e *env, a []string) string {
		need(a, 1)
		return strconv.FormatUint(e.b64(a[0]).Minimum(), 10)
	})
	reg("max64", func(e *env, a []string) string {
		need(a, 1)
		return strconv.FormatUint(e.b64(a[0]).Maximum(), 10)
	})
	reg("rank64", func(e *env, a []string) string {
		need(a, 2)
		return strconv.FormatUint(e.b64(a[0]).Rank(u64(a[1])), 10)
	})
	reg("sel64", func(e *env, a []string) string {
		need(a, 2)
		v, err := e.b64(a[0]).Select(u64(a[1]))
		if err != nil {
			return "err"
		}
		return strconv.FormatUint(v, 10)
	})
	reg("eq64", func(e *env, a []string) string { need(a, 2); return bstr(e.b64(a[0]).Equals(e.b64(a[1]))) })
	reg("toarr64", func(e *env, a []string) string {
		need(a, 1)
		x := e.b64(a[0])
		if n, ok := rawCard64(x); !ok || n > toArrCap {
			return "toobig"
		}
		arr := x.ToArray()
		if !sortedInc64(arr) {
			return "unsorted"
		}
		return valsOut(arr)
	})
	reg("str64", func(e *env, a []string) string {
		// String(): "{v,v,...}" ; only for small sets (the library truncates after 0x40000 values)
		need(a, 1)
		x := e.b64(a[0])
		if n, ok := rawCard64(x); !ok || n > 4096 {
			return "toobig"
		}
		s := x.String()
		if len(s) < 2 || s[0] != '{' || s[len(s)-1] != '}' {
			return "malformed"
		}
		var vals []uint64
		if len(s) > 2 {
			for _, t := range strings.Split(s[1:len(s)-1], ",") {
				v, err := strconv.ParseUint(t, 10, 64)
				if err != nil {
					return "malformed"
				}
				vals = append(vals, v)
			}
		}
		if !sortedInc64(vals) {
			return "unsorted"
		}
		return valsOut(vals)
	})
	reg("dump64", func(e *env, a []string) string { need(a, 1); return dumpIvs(ivs64(e.b64(a[0]))) })
	reg("dig64", func(e *env, a []string) string { need(a, 1); return d64(e.b64(a[0])) })
	reg("wf64", func(e *env, a []string) string { need(a, 1); return wf64str(e.b64(a[0])) })
	reg("runs64", func(e *env, a []string) string {
		// HasRunCompression must agree with the raw representation
		need(a, 1)
		x := e.b64(a[0])
		raw := false
		_, bs := roaring64.VerifView64(x)
		for _, b := range bs {
			_, cs := roaring.VerifView(b.Inner)
			for i := range cs {
				if cs[i].Kind == 'R' {
					raw = true
				}
			}
		}
		return bstr(x.HasRunCompression() == raw)
	})
	reg("stats64", func(e *env, a []string) string {
		// Stats().Cardinality and the container count against the raw walk
		need(a, 1)
		x := e.b64(a[0])
		st := x.Stats()
		var nc uint64
		_, bs := roaring64.VerifView64(x)
		for _, b := range bs {
			_, cs := roaring.VerifView(b.Inner)
			nc += uint64(len(cs))
		}
		return fmt.Sprintf("%d %s", st.Cardinality, bstr(st.Containers == nc &&
			st.ArrayContainers+st.BitmapContainers+st.RunContainers == nc &&
			st.ArrayContainerValues+st.BitmapContainerValues+st.RunContainerValues == st.Cardinality))
	})
	// ---- aggregates
	many := func(f func(bs []*roaring64.Bitmap) *roaring64.Bitmap, first int) cmdFunc {
		return func(e *env, a []string) string {
			need(a, first)
			var bs []*roaring64.Bitmap
			for _, n := range a[first:] {
				bs = append(bs, e.b64(n))
			}
			saved := append([]*roaring64.Bitmap(nil), bs...)
			var y *roaring64.Bitmap
			if first == 2 {
				w := int(u64(a[1]))
				y = roaring64.ParOr(w, bs...)
			} else {
				y = f(bs)
			}
			e.bm64[a[0]] = y
			args := "args=same"
			for i := range saved {
				if saved[i] != bs[i] {
					args = "args=mut"
				}
			}
			var sb strings.Builder
			sb.WriteString(d64(y))
			sb.WriteString(" " + args)
			for _, b := range saved {
				sb.WriteString(" " + d64(b))
			}
			return sb.String()
		}
	}
	reg("fastor64", many(func(bs []*roaring64.Bitmap) *roaring64.Bitmap { return roaring64.FastOr(bs...) }, 1))
	reg("fastand64", many(func(bs []*roaring64.Bitmap) *roaring64.Bitmap { return roaring64.FastAnd(bs...) }, 1))
	reg("paror64", many(nil, 2))
	reg("as64", func(e *env, a []string) string {
		// Roaring32AsRoaring64 documents "No copy is made": the harness hands it a private clone so that the
		// 32-bit and the 64-bit object stay independent on both sides.
		need(a, 2)
		x := e.b(a[1])
		y := roaring64.Roaring32AsRoaring64(x.Clone())
		e.bm64[a[0]] = y
		return d64(y) + " " + d32(x)
	})
	// ---- iterators
	reg("it64", func(e *env, a []string) string {
		need(a, 2)
		its64[a[0]] = &iter64{kind: "fwd", fwd: e.b64(a[1]).Iterator()}
		return "ok"
	})
	reg("rit64", func(e *env, a []string) string {
		need(a, 2)
		its64[a[0]] = &iter64{kind: "rev", rev: e.b64(a[1]).ReverseIterator()}
		return "ok"
	})
	reg("mit64", func(e *env, a []string) string {
		need(a, 2)
		its64[a[0]] = &iter64{kind: "many", many: e.b64(a[1]).ManyIterator()}
		return "ok"
	})
	reg("reit64", func(e *env, a []string) string {
		// re-Initialize an existing iterator object (exported Initialize of IntIterator64 / IntReverseIterator64 /
		// ManyIntIterator64) on another bitmap
		need(a, 2)
		it := it64of(a[0])
		x := e.b64(a[1])
		switch it.kind {
		case "fwd":
			p, ok := it.fwd.(*roaring64.IntIterator64)
			if !ok {
				return "err:type"
			}
			p.Initialize(x)
		case "rev":
			p, ok := it.rev.(*roaring64.IntReverseIterator64)
			if !ok {
				return "err:type"
			}
			p.Initialize(x)
		case "many":
			p, ok := it.many.(*roaring64.ManyIntIterator64)
			if !ok {
				return "err:type"
			}
			p.Initialize(x)
		}
		return "ok"
	})
	reg("hasnext64", func(e *env, a []string) string {
		need(a, 1)
		it := it64of(a[0])
		switch it.kind {
		case "fwd":
			return bstr(it.fwd.HasNext())
		case "rev":
			return bstr(it.rev.HasNext())
		}
		panic(skipErr{"kind"})
	})
	reg("next64", func(e *env, a []string) string {
		// Next is only defined while HasNext: prints "end" otherwise (without calling Next)
		need(a, 1)
		it := it64of(a[0])
		switch it.kind {
		case "fwd":
			if !it.fwd.HasNext() {
				return "end"
			}
			return strconv.FormatUint(it.fwd.Next(), 10)
		case "rev":
			if !it.rev.HasNext() {
				return "end"
			}
			return strconv.FormatUint(it.rev.Next(), 10)
		}
		panic(skipErr{"kind"})
	})
	reg("peek64", func(e *env, a []string) string {
		need(a, 1)
		it := it64of(a[0])
		if it.kind != "fwd" {
			panic(skipErr{"kind"})
		}
		if !it.fwd.HasNext() {
			return "end"
		}
		return strconv.FormatUint(it.fwd.PeekNext(), 10)
	})
	reg("adv64", func(e *env, a []string) string {
		// AdvanceIfNeeded(m), then the observable state: "end" or the peeked value
		need(a, 2)
		it := it64of(a[0])
		if it.kind != "fwd" {
			panic(skipErr{"kind"})
		}
		it.fwd.AdvanceIfNeeded(u64(a[1]))
		if !it.fwd.HasNext() {
			return "end"
		}
		return strconv.FormatUint(it.fwd.PeekNext(), 10)
	})
	reg("many64", func(e *env, a []string) string {
		need(a, 2)
		it := it64of(a[0])
		n := int(u64(a[1]))
		if n > toArrCap {
			panic(skipErr{"n too big"})
		}
		if it.kind != "many" {
			panic(skipErr{"kind"})
		}
		buf := make([]uint64, n)
		k := it.many.NextMany(buf)
		if k < 0 || k > n {
			return fmt.Sprintf("badcount:%d", k)
		}
		if !sortedInc64(buf[:k]) {
			return "unsorted"
		}
		return valsOut(buf[:k])
	})
	reg("drain64", func(e *env, a []string) string {
		// up to n calls of Next (guarded by HasNext); prints count and digest of the values
		need(a, 2)
		it := it64of(a[0])
		n := int(u64(a[1]))
		if n > toArrCap {
			panic(skipErr{"n too big"})
		}
		var vals []uint64
		switch it.kind {
		case "fwd":
			for len(vals) < n && it.fwd.HasNext() {
				vals = append(vals, it.fwd.Next())
			}
			if !sortedInc64(vals) {
				return "unsorted"
			}
		case "rev":
			for len(vals) < n && it.rev.HasNext() {
				vals = append(vals, it.rev.Next())
			}
			for i, j := 0, len(vals)-1; i < j; i, j = i+1, j-1 {
				vals[i], vals[j] = vals[j], vals[i]
			}
			if !sortedInc64(vals) {
				return "unsorted"
			}
		default:
			panic(skipErr{"kind"})
		}
		return valsOut(vals)
	})
	reg("seq64", func(e *env, a []string) string {
		// range-over-func iterators Values / Backward, stopping after n values
		need(a, 3)
		x := e.b64(a[0])
		n := int(u64(a[2]))
		if n > toArrCap {
			panic(skipErr{"n too big"})
		}
		var vals []uint64
		switch a[1] {
		case "fwd":
			if n > 0 {
				for v := range roaring64.Values(x) {
					vals = append(vals, v)
					if len(vals) >= n {
						break
					}
				}
			}
		case "rev":
			if n > 0 {
				for v := range roaring64.Backward(x) {
					vals = append(vals, v)
					if len(vals) >= n {
						break
					}
				}
			}
			for i, j := 0, len(vals)-1; i < j; i, j = i+1, j-1 {
				vals[i], vals[j] = vals[j], vals[i]
			}
		default:
			panic(skipErr{"dir"})
		}
		if !sortedInc64(vals) {
			return "unsorted"
		}
		return valsOut(vals)
	})
	// ---- serialization
	reg("ser64", func(e *env, a []string) string {
		// len(ToBytes) GetSerializedSizeInBytes n(WriteTo) marshal==tobytes base64==tobytes
		need(a, 1)
		x := e.b64(a[0])
		bs, err := x.ToBytes()
		if err != nil {
			return "err:tobytes"
		}
		bs = append([]byte(nil), bs...)
		var w bytes.Buffer
		n, err := x.WriteTo(&w)
		if err != nil {
			return "err:writeto"
		}
		mb, err := x.MarshalBinary()
		if err != nil {
			return "err:marshal"
		}
		s, err := x.ToBase64()
		if err != nil {
			return "err:tobase64"
		}
		sb, err := base64.StdEncoding.DecodeString(s)
		if err != nil {
			return "err:base64syntax"
		}
		return fmt.Sprintf("%d %d %d %s %s %s", len(bs), x.GetSerializedSizeInBytes(), n,
			bstr(bytes.Equal(w.Bytes(), bs)), bstr(bytes.Equal(mb, bs)), bstr(bytes.Equal(sb, bs)))
	})
	reg("hex64", func(e *env, a []string) string {
		need(a, 1)
		bs, err := e.b64(a[0]).ToBytes()
		if err != nil {
			return "err"
		}
		if len(bs) > 1<<16 {
			return "toobig"
		}
		return hex.EncodeToString(bs)
	})
	reg("rd64", func(e *env, a []string) string {
		// rd64 y <entry> x [extra=<k>] [reuse]
		need(a, 3)
		entry := a[1]
		if !entries64[entry] {
			panic(skipErr{"bad entry"})
		}
		x := e.b64(a[2])
		extra, reuse := 0, false
		for _, t := range a[3:] {
			if strings.HasPrefix(t, "extra=") {
				extra = int(u64(t[6:]))
			} else if t == "reuse" {
				reuse = true
			} else {
				panic(skipErr{"bad option"})
			}
		}
		var ser []byte
		var err error
		switch entry {
		case "readfrom", "readfrom1", "readpipe":
			var w bytes.Buffer
			_, err = x.WriteTo(&w)
			ser = w.Bytes()
		case "fromunsafe":
			ser, err = x.ToBytes()
		case "unmarshal":
			ser, err = x.MarshalBinary()
		case "base64":
			var s string
			s, err = x.ToBase64()
			if err == nil {
				ser, err = base64.StdEncoding.DecodeString(s)
			}
		}
		if err != nil {
			return "err:serialize"
		}
		L := len(ser)
		data := append(append(make([]byte, 0, L+extra), ser...), garbage(extra)...)
		var y *roaring64.Bitmap
		if old, ok := e.bm64[a[0]]; ok && reuse {
			y = old
		} else {
			y = roaring64.New()
		}
		r := decode64(y, entry, data)
		if r.class == "ok" && entry != "fromunsafe" {
			// the copying entry points must not keep a reference to the caller's bytes
			for i := range data {
				data[i] ^= 0xFF
			}
		}
		if r.class != "ok" {
			delete(e.bm64, a[0])
			if r.class == "err" {
				return "err:" + spaceless(r.emsg)
			}
			return r.class
		}
		e.bm64[a[0]] = y
		if entry == "fromunsafe" {
			unsafeBufs[a[0]] = lastUnsafe
		}
		return fmt.Sprintf("%s %s %d %s %s", d64(y), optI64(r.n), L, optI64(r.cons), wf64str(y))
	})
	// rdfail64 y entry x cut v… : the first `cut` bytes of x's serialization are decoded into the previously used bitmap y (must
	// fail); y is then used further and validated, and finally discarded (the 64-bit sibling of rdfail)
	reg("rdfail64", func(e *env, a []string) string {
		need(a, 4)
		y := e.b64(a[0])
		x := e.b64(a[2])
		if !entries64[a[1]] {
			panic(skipErr{"bad entry"})
		}
		bs, err := x.ToBytes()
		if err != nil {
			return "err:serialize"
		}
		cut := int(u64(a[3]))
		if cut >= len(bs) {
			panic(skipErr{"cut beyond the stream"})
		}
		r := decode64(y, a[1], append([]byte(nil), bs[:cut]...))
		delete(e.bm64, a[0])
		if r.class == "ok" {
			return "accepted"
		}
		if r.class != "err" {
			return r.class
		}
		res := func() (out string) {
			defer func() {
				if p := recover(); p != nil {
					out = "panic-on-use:" + spaceless(fmt.Sprint(p))
				}
			}()
			for _, t := range a[4:] {
				v := u64(t)
				y.Remove(v)
				y.Add(v ^ 1)
				y.RemoveRange(v, v+3)
				_ = y.GetCardinality()
				_ = y.ToArray()
			}
			if verr := y.Validate(); verr != nil {
				return "invalid-after-use:" + spaceless(verr.Error())
			}
			return "ok"
		}()
		return "err " + res
	})
	reg("dec64", func(e *env, a []string) string {
		// dec64 y <entry> <hex> [reuse]  ->  "ok <n> <wf> <dump>" | "err" | panic:.. | fatal:..
		need(a, 3)
		entry := a[1]
		if !entries64[entry] {
			panic(skipErr{"bad entry"})
		}
		var data []byte
		if a[2] != "-" { // "-" = the empty stream
			var err error
			data, err = hex.DecodeString(a[2])
			if err != nil {
				panic(skipErr{"bad hex"})
			}
		}
		var y *roaring64.Bitmap
		if old, ok := e.bm64[a[0]]; ok && len(a) > 3 && a[3] == "reuse" {
			y = old
		} else {
			y = roaring64.New()
		}
		delete(e.bm64, a[0])
		r := safeDecode64(y, entry, data)
		if r.class != "ok" {
			return r.class
		}
		wf := wf64str(y)
		if wf == "ok" {
			e.bm64[a[0]] = y
			if entry == "fromunsafe" && countField(data) <= inProcCountCap {
				unsafeBufs[a[0]] = lastUnsafe
			}
		}
		return fmt.Sprintf("ok %s %s %s", optI64(r.n), wf, dumpIvs(ivs64(y)))
	})
	reg("bufchk64", func(e *env, a []string) string {
		// the buffer last given to FromUnsafeBytes for the bitmap of this name is still byte-identical
		need(a, 1)
		e.b64(a[0])
		ub, ok := unsafeBufs[a[0]]
		if !ok {
			return "ok"
		}
		for i := range ub.pristine {
			if ub.live[i] != ub.pristine[i] {
				return fmt.Sprintf("modified@%d", i)
			}
		}
		return "ok"
	})
	reg("trunc64", func(e *env, a []string) string {
		// every proper prefix of x's serialisation through the entry point: "allerr" or "ok@<k|-> panic@<k|->"
		need(a, 2)
		x := e.b64(a[0])
		entry := a[1]
		if !entries64[entry] {
			panic(skipErr{"bad entry"})
		}
		ser, err := x.ToBytes()
		if err != nil {
			return "err:serialize"
		}
		step := 1
		if len(ser) > 1<<15 {
			// big streams: every prefix of the first 300 bytes (the outer count, the first key, the first inner header), then samples
			step = len(ser) / 700
		}
		firstOk, firstPanic := -1, -1
		reused := roaring64.New()
		for k := 0; k < len(ser); k++ {
			if step > 1 && k > 300 && k%step != 0 && k%step != 1 && k < len(ser)-40 {
				continue
			}
			y := reused
			if k%2 == 0 {
				y = roaring64.New()
			}
			r := decode64(y, entry, ser[:k])
			switch {
			case r.class == "ok":
				if firstOk < 0 {
					firstOk = k
				}
			case r.class == "err":
			default:
				if firstPanic < 0 {
					firstPanic = k
				}
				reused = roaring64.New()
			}
		}
		if firstOk < 0 && firstPanic < 0 {
			return "allerr"
		}
		return fmt.Sprintf("ok@%s panic@%s", optI64(int64(firstOk)), optI64(int64(firstPanic)))
	})
	reg("cor64", func(e *env, a []string) string {
		// cor64 x <entry> <field> <value>   field: count | key:<i> | cookie:<i> | isize:<i> | byte:<off>
		// serialise x, overwrite the field, decode.  "ok <n> <wf>" | "err" | panic:.. | fatal:.. | skip:nofield
		need(a, 4)
		x := e.b64(a[0])
		entry := a[1]
		if !entries64[entry] {
			panic(skipErr{"bad entry"})
		}
		ser, err := x.ToBytes()
		if err != nil {
			return "err:serialize"
		}
		data := append([]byte(nil), ser...)
		v := u64(a[3])
		f := strings.SplitN(a[2], ":", 2)
		idx := 0
		if len(f) == 2 {
			idx = int(u64(f[1]))
		}
		offs := bucketOffsets(x)
		put32 := func(off int) {
			if v > 0xFFFFFFFF {
				panic(skipErr{"value not uint32"})
			}
			if off+4 > len(data) {
				panic(skipErr{"nofield"})
			}
			binary.LittleEndian.PutUint32(data[off:], uint32(v))
		}
		switch f[0] {
		case "count":
			binary.LittleEndian.PutUint64(data[0:], v)
		case "key", "cookie", "isize":
			if idx >= len(offs) {
				panic(skipErr{"nofield"})
			}
			put32(offs[idx] + map[string]int{"key": 0, "cookie": 4, "isize": 8}[f[0]])
		case "byte":
			if idx >= len(data) || v > 255 {
				panic(skipErr{"nofield"})
			}
			data[idx] = byte(v)
		default:
			panic(skipErr{"bad field"})
		}
		y := roaring64.New()
		r := safeDecode64(y, entry, data)
		if r.class != "ok" {
			return r.class
		}
		// a decoded bitmap may be arbitrary garbage; only its well-formedness verdict is reported
		wf := "invalid"
		func() {
			defer func() {
				if rr := recover(); rr != nil {
					wf = "invalid(" + panicClass(rr) + ")"
				}
			}()
			if wf64str(y) == "ok" {
				wf = "valid"
			}
		}()
		return fmt.Sprintf("ok %s %s", optI64(r.n), wf)
	})
}
