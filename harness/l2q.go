package main

// Exact tie of the bitmap-level L2 model of the READ-ONLY drivers (lean/RModel/Impl/RepQuery.lean).
//
//   l2q <query> x [args...]      output: <repr32(x)> <answer>
//       card | empty | has v | min | max | rank v | sel i | cir a b | iwi a b | nv t | pv t | nav t | pav t
//       answers as the L1 commands of the same names print them (numbers, true/false, `err` for Select's error,
//       `panic` for a Go panic inside the query — Minimum/Maximum of an empty bitmap)
//   l2q2 <andcard|orcard|isect|eq> x y      output: <repr32(x)> <repr32(y)> <answer>
//       (`eq` is the one-directional x.Equals(y))
// The raw representation is printed BEFORE the call; if the call changes it (a query must not), `!chg` is appended
// to the answer.

import "strconv"

func l2qGuard(f func() string) (ans string) {
	defer func() {
		if r := recover(); r != nil {
			if se, ok := r.(skipErr); ok {
				panic(se)
			}
			ans = "panic"
		}
	}()
	return f()
}

func init() {
	reg("l2q", func(e *env, a []string) string {
		need(a, 2)
		q := a[0]
		x := e.b(a[1])
		args := a[2:]
		var f func() string
		u := func(v uint64) string { return strconv.FormatUint(v, 10) }
		i := func(v int64) string { return strconv.FormatInt(v, 10) }
		switch q {
		case "card":
			f = func() string { return u(x.GetCardinality()) }
		case "empty":
			f = func() string { return bstr(x.IsEmpty()) }
		case "has":
			need(args, 1)
			v := u32(args[0])
			f = func() string { return bstr(x.Contains(v)) }
		case "min":
			f = func() string { return u(uint64(x.Minimum())) }
		case "max":
			f = func() string { return u(uint64(x.Maximum())) }
		case "rank":
			need(args, 1)
			v := u32(args[0])
			f = func() string { return u(x.Rank(v)) }
		case "sel":
			need(args, 1)
			v := u32(args[0])
			f = func() string {
				r, err := x.Select(v)
				if err != nil {
					return "err"
				}
				return u(uint64(r))
			}
		case "cir":
			need(args, 2)
			s, t := u64(args[0]), u64(args[1])
			f = func() string { return u(x.CardinalityInRange(s, t)) }
		case "iwi":
			need(args, 2)
			s, t := u64(args[0]), u64(args[1])
			f = func() string { return bstr(x.IntersectsWithInterval(s, t)) }
		case "nv":
			need(args, 1)
			v := u32(args[0])
			f = func() string { return i(x.NextValue(v)) }
		case "pv":
			need(args, 1)
			v := u32(args[0])
			f = func() string { return i(x.PreviousValue(v)) }
		case "nav":
			need(args, 1)
			v := u32(args[0])
			f = func() string { return i(x.NextAbsentValue(v)) }
		case "pav":
			need(args, 1)
			v := u32(args[0])
			f = func() string { return i(x.PreviousAbsentValue(v)) }
		default:
			panic(skipErr{"unknown l2q " + q})
		}
		rx := repr32(x)
		ans := l2qGuard(f)
		if repr32(x) != rx {
			ans += "!chg"
		}
		return rx + " " + ans
	})
	reg("l2q2", func(e *env, a []string) string {
		need(a, 3)
		x, y := e.b(a[1]), e.b(a[2])
		var f func() string
		switch a[0] {
		case "andcard":
			f = func() string { return strconv.FormatUint(x.AndCardinality(y), 10) }
		case "orcard":
			f = func() string { return strconv.FormatUint(x.OrCardinality(y), 10) }
		case "isect":
			f = func() string { return bstr(x.Intersects(y)) }
		case "eq":
			f = func() string { return bstr(x.Equals(y)) }
		default:
			panic(skipErr{"unknown l2q2 " + a[0]})
		}
		rx, ry := repr32(x), repr32(y)
		ans := l2qGuard(f)
		if repr32(x) != rx || repr32(y) != ry {
			ans += "!chg"
		}
		return rx + " " + ry + " " + ans
	})
}
