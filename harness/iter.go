package main

// Iteration protocols of the 32-bit bitmap (property C04): Iterator / ReverseIterator / ManyIterator /
// UnsetIterator objects driven call by call, and the callback / range-func forms with early stop.
//
// Every value printed here comes out of the library's iterators; the only thing the harness computes by
// itself is the SHADOW cursor used by the unguarded commands `next! i` / `peek! i`: they call Next/PeekNext
// WITHOUT a preceding HasNext, which is only legal when a next element exists, so the harness decides that
// from the raw representation (intervals walked through the verif hooks when the iterator was created) and
// from the values returned so far.  The shadow never influences what is printed for a value.

import (
	"fmt"
	"sort"
	"strconv"
	"strings"

	roaring "github.com/RoaringBitmap/roaring/v2"
)

type iterState struct {
	kind string // "fwd" | "rev" | "many" | "unset"
	it   roaring.IntIterable
	pk   roaring.IntPeekable     // fwd, unset
	many roaring.ManyIntIterable // many
	bm   *roaring.Bitmap         // keeps the snapshot alive
	// shadow (guard of next!/peek! only)
	snap []iv   // inclusive intervals of the enumerated set
	cur  uint64 // fwd/unset: members >= cur remain; rev: members < cur remain
}

const maxDrain = 1 << 26

// complementIn returns [a,b) minus the given sorted disjoint inclusive intervals.
func complementIn(x []iv, a, b uint64) []iv {
	var out []iv
	pos := a
	for _, p := range x {
		if p.hi < pos {
			continue
		}
		if p.lo >= b {
			break
		}
		if p.lo > pos {
			out = append(out, iv{pos, p.lo - 1})
		}
		pos = p.hi + 1
		if pos >= b {
			break
		}
	}
	if pos < b {
		out = append(out, iv{pos, b - 1})
	}
	return out
}

func (s *iterState) shadowHas() bool {
	if s.kind == "rev" {
		return len(s.snap) > 0 && s.snap[0].lo < s.cur
	}
	n := len(s.snap)
	return n > 0 && s.snap[n-1].hi >= s.cur
}

func (s *iterState) shadowMove(v uint32) {
	if s.kind == "rev" {
		s.cur = uint64(v)
	} else {
		s.cur = uint64(v) + 1
	}
}

func (e *env) iter(name string) *iterState {
	s, ok := e.its[name]
	if !ok {
		panic(skipErr{"undefined iterator " + name})
	}
	return s
}

// seqCollector receives the items of a callback / range-func enumeration and asks for an early stop after k
// items (k < 0: never; k == 0: refuse the very first item).
type seqCollector struct {
	k       int64
	vals    []uint32
	stopped bool
	overrun bool // called again after having returned false
}

func (c *seqCollector) yield(v uint32) bool {
	if c.stopped {
		c.overrun = true
		return false
	}
	if c.k == 0 {
		c.stopped = true
		return false
	}
	c.vals = append(c.vals, v)
	if len(c.vals) > maxDrain {
		panic("toolong")
	}
	if c.k > 0 && int64(len(c.vals)) >= c.k {
		c.stopped = true
		return false
	}
	return true
}

func reverse32(a []uint32) {
	for i, j := 0, len(a)-1; i < j; i, j = i+1, j-1 {
		a[i], a[j] = a[j], a[i]
	}
}

// render prints "count digest" when the values came strictly ascending (descending when desc);
// otherwise "unord count digest-of-sorted-distinct [dup]".
func (c *seqCollector) render(desc bool) string {
	if c.overrun {
		return "overrun"
	}
	return renderVals(c.vals, desc)
}

func renderVals(vals []uint32, desc bool) string {
	if desc {
		reverse32(vals)
	}
	if sorted32(vals) {
		return fmt.Sprintf("%d %s", len(vals), digest(ivsOfSorted32(vals)))
	}
	n := len(vals)
	sort.Slice(vals, func(i, j int) bool { return vals[i] < vals[j] })
	dup := ""
	w := 0
	for i, v := range vals {
		if i > 0 && v == vals[i-1] {
			dup = " dup"
			continue
		}
		vals[w] = v
		w++
	}
	return fmt.Sprintf("unord %d %s%s", n, digest(ivsOfSorted32(vals[:w])), dup)
}

func kArg(s string) int64 {
	k := i64(s)
	if k < -1 {
		panic(skipErr{"bad k"})
	}
	return k
}

func init() {
	mk := func(kind string) cmdFunc {
		return func(e *env, a []string) string {
			need(a, 2)
			x := e.b(a[1])
			s := &iterState{kind: kind, bm: x, snap: ivs32(x)}
			switch kind {
			case "fwd":
				s.pk = x.Iterator()
				s.it = s.pk
			case "rev":
				s.it = x.ReverseIterator()
				s.cur = 1 << 32
			case "many":
				s.many = x.ManyIterator()
			}
			e.its[a[0]] = s
			return "ok"
		}
	}
	reg("it", mk("fwd"))
	reg("rit", mk("rev"))
	reg("mit", mk("many"))
	reg("uit", func(e *env, a []string) string {
		need(a, 4)
		x := e.b(a[1])
		lo, hi := u64(a[2]), u64(a[3])
		s := &iterState{kind: "unset", bm: x}
		s.pk = x.UnsetIterator(lo, hi) // panics for hi > 2^32
		s.it = s.pk
		s.snap = complementIn(ivs32(x), lo, hi)
		s.cur = 0
		e.its[a[0]] = s
		return "ok"
	})
	// reinit i x [a b] : re-Initialize the SAME iterator object on bitmap x (the exported IntIterator /
	// IntReverseIterator / ManyIntIterator types are meant to be reused that way)
	reg("reinit", func(e *env, a []string) string {
		need(a, 2)
		s := e.iter(a[0])
		x := e.b(a[1])
		switch s.kind {
		case "fwd":
			s.pk.(*roaring.IntIterator).Initialize(x)
			s.cur = 0
		case "rev":
			s.it.(*roaring.IntReverseIterator).Initialize(x)
			s.cur = 1 << 32
		case "many":
			s.many.(*roaring.ManyIntIterator).Initialize(x)
			s.cur = 0
		case "unset":
			need(a, 4)
			lo, hi := u64(a[2]), u64(a[3])
			s.pk.(interface {
				Initialize(*roaring.Bitmap, uint64, uint64)
			}).Initialize(x, lo, hi)
			s.snap = complementIn(ivs32(x), lo, hi)
			s.cur = 0
		}
		s.bm = x
		if s.kind != "unset" {
			s.snap = ivs32(x)
		}
		return "ok"
	})
	reg("hasnext", func(e *env, a []string) string {
		need(a, 1)
		s := e.iter(a[0])
		if s.it == nil {
			panic(skipErr{"kind"})
		}
		return bstr(s.it.HasNext())
	})
	next := func(guarded bool) cmdFunc {
		return func(e *env, a []string) string {
			need(a, 1)
			s := e.iter(a[0])
			if s.it == nil {
				panic(skipErr{"kind"})
			}
			if guarded {
				if !s.it.HasNext() {
					return "none"
				}
			} else if !s.shadowHas() {
				return "none"
			}
			v := s.it.Next()
			s.shadowMove(v)
			return strconv.FormatUint(uint64(v), 10)
		}
	}
	reg("next?", next(true))
	reg("next!", next(false))
	peek := func(guarded bool) cmdFunc {
		return func(e *env, a []string) string {
			need(a, 1)
			s := e.iter(a[0])
			if s.pk == nil {
				panic(skipErr{"kind"})
			}
			if guarded {
				if !s.pk.HasNext() {
					return "none"
				}
			} else if !s.shadowHas() {
				return "none"
			}
			return strconv.FormatUint(uint64(s.pk.PeekNext()), 10)
		}
	}
	reg("peek?", peek(true))
	reg("peek!", peek(false))
	reg("adv", func(e *env, a []string) string {
		need(a, 2)
		s := e.iter(a[0])
		if s.pk == nil {
			panic(skipErr{"kind"})
		}
		m := u32(a[1])
		s.pk.AdvanceIfNeeded(m)
		if uint64(m) > s.cur {
			s.cur = uint64(m)
		}
		return "ok"
	})
	// advrel i d : if HasNext, AdvanceIfNeeded(PeekNext()+d) clipped to [0, 2^32-1]; prints the target
	reg("advrel", func(e *env, a []string) string {
		need(a, 2)
		s := e.iter(a[0])
		if s.pk == nil {
			panic(skipErr{"kind"})
		}
		d := i64(a[1])
		if !s.pk.HasNext() {
			return "none"
		}
		t := int64(s.pk.PeekNext()) + d
		if t < 0 {
			t = 0
		}
		if t > 0xFFFFFFFF {
			t = 0xFFFFFFFF
		}
		s.pk.AdvanceIfNeeded(uint32(t))
		if uint64(t) > s.cur {
			s.cur = uint64(t)
		}
		return "ok " + strconv.FormatInt(t, 10)
	})
	reg("many", func(e *env, a []string) string {
		need(a, 2)
		s := e.iter(a[0])
		if s.many == nil {
			panic(skipErr{"kind"})
		}
		n := u64(a[1])
		if n > 1<<24 {
			panic(skipErr{"buffer too large"})
		}
		buf := make([]uint32, n)
		c := s.many.NextMany(buf)
		if c < 0 || c > len(buf) {
			return fmt.Sprintf("badcount %d", c)
		}
		vals := buf[:c]
		if !sorted32(vals) {
			return "unsorted"
		}
		if c > 0 && uint64(vals[0]) < s.cur {
			return "unsorted" // not above what an earlier call returned
		}
		if c > 0 {
			s.cur = uint64(vals[c-1]) + 1
		}
		return fmt.Sprintf("%d %s", c, digest(ivsOfSorted32(vals)))
	})
	reg("manyhs", func(e *env, a []string) string {
		need(a, 3)
		s := e.iter(a[0])
		if s.many == nil {
			panic(skipErr{"kind"})
		}
		n := u64(a[1])
		hs := u64(a[2])
		if n > 1<<24 {
			panic(skipErr{"buffer too large"})
		}
		if hs&0xFFFFFFFF != 0 {
			panic(skipErr{"mask overlaps the low 32 bits"})
		}
		buf := make([]uint64, n)
		c := s.many.NextMany64(hs, buf)
		if c < 0 || c > len(buf) {
			return fmt.Sprintf("badcount %d", c)
		}
		vals := buf[:c]
		for i := 1; i < c; i++ {
			if vals[i-1] >= vals[i] {
				return "unsorted"
			}
		}
		if c > 0 {
			if vals[0]&^0xFFFFFFFF != hs || vals[0]&0xFFFFFFFF < s.cur {
				return "unsorted"
			}
			s.cur = vals[c-1]&0xFFFFFFFF + 1
		}
		return fmt.Sprintf("%d %s", c, digest(ivsOfSorted64(vals)))
	})
	reg("drain", func(e *env, a []string) string {
		need(a, 1)
		s := e.iter(a[0])
		limit := int64(-1)
		if len(a) > 1 {
			limit = kArg(a[1])
		}
		var vals []uint32
		if s.many != nil {
			for limit < 0 || int64(len(vals)) < limit {
				sz := 1000
				if limit >= 0 && limit-int64(len(vals)) < int64(sz) {
					sz = int(limit - int64(len(vals)))
				}
				buf := make([]uint32, sz)
				c := s.many.NextMany(buf)
				if c < 0 || c > sz {
					return fmt.Sprintf("badcount %d", c)
				}
				if c == 0 {
					break
				}
				vals = append(vals, buf[:c]...)
				if len(vals) > maxDrain {
					return "toolong"
				}
			}
			if len(vals) > 0 && uint64(vals[0]) < s.cur {
				return "unsorted"
			}
		} else {
			for (limit < 0 || int64(len(vals)) < limit) && s.it.HasNext() {
				vals = append(vals, s.it.Next())
				if len(vals) > maxDrain {
					return "toolong"
				}
			}
		}
		if len(vals) > 0 {
			s.shadowMove(vals[len(vals)-1])
		}
		return renderVals(vals, s.kind == "rev")
	})

	// ---- callback / range-func forms
	reg("iterate", func(e *env, a []string) string {
		need(a, 2)
		x := e.b(a[0])
		c := &seqCollector{k: kArg(a[1])}
		x.Iterate(c.yield)
		return c.render(false)
	})
	reg("values", func(e *env, a []string) string {
		need(a, 2)
		x := e.b(a[0])
		c := &seqCollector{k: kArg(a[1])}
		roaring.Values(x)(c.yield)
		return c.render(false)
	})
	reg("backward", func(e *env, a []string) string {
		need(a, 2)
		x := e.b(a[0])
		c := &seqCollector{k: kArg(a[1])}
		roaring.Backward(x)(c.yield)
		return c.render(true)
	})
	// unset x a b k : the window is the half-open [a,b), 0 <= a < b <= 2^32, passed to Unset as the
	// inclusive pair (a, b-1) its doc comment asks for
	reg("unset", func(e *env, a []string) string {
		need(a, 4)
		x := e.b(a[0])
		lo, hi := u64(a[1]), u64(a[2])
		if !(lo < hi && hi <= 1<<32) {
			panic(skipErr{"window"})
		}
		c := &seqCollector{k: kArg(a[3])}
		roaring.Unset(x, uint32(lo), uint32(hi-1))(c.yield)
		return c.render(false)
	})
	// seqlate <ranges|values|backward> x v : the sequence VALUE is taken first, then the bitmap gets the value v (possibly a new
	// chunk), then the sequence is ranged over — twice: a range-over-func sequence is evaluated when it is ranged over and can be
	// restarted. Output: "<digest of what the first pass yields> <digest of the second pass> <digest of x>"
	reg("seqlate", func(e *env, a []string) string {
		need(a, 3)
		x := e.b(a[1])
		v := u32(a[2])
		pass := func(run func(yield func(lo uint32, hi uint64) bool)) string {
			var ivs []iv
			bad := false
			run(func(lo uint32, hi uint64) bool {
				if hi <= uint64(lo) {
					bad = true
					return false
				}
				if n := len(ivs); n > 0 && ivs[n-1].hi+1 == uint64(lo) {
					ivs[n-1].hi = hi - 1
				} else {
					ivs = append(ivs, iv{uint64(lo), hi - 1})
				}
				return true
			})
			if bad {
				return "bad"
			}
			return digest(ivs)
		}
		var run func(yield func(lo uint32, hi uint64) bool)
		switch a[0] {
		case "ranges":
			seq := x.Ranges()
			run = func(y func(uint32, uint64) bool) { seq(y) }
		case "values":
			seq := roaring.Values(x)
			run = func(y func(uint32, uint64) bool) { seq(func(w uint32) bool { return y(w, uint64(w)+1) }) }
		case "backward":
			seq := roaring.Backward(x)
			run = func(y func(uint32, uint64) bool) {
				var vals []uint32
				seq(func(w uint32) bool { vals = append(vals, w); return true })
				for i := len(vals) - 1; i >= 0; i-- {
					if !y(vals[i], uint64(vals[i])+1) {
						return
					}
				}
			}
		default:
			panic(skipErr{"kind"})
		}
		x.Add(v)
		p1 := pass(run)
		p2 := pass(run)
		return p1 + " " + p2 + " " + d32(x)
	})
	// ranges x k : the yielded pairs, rendered one by one (no coalescing here)
	reg("ranges", func(e *env, a []string) string {
		need(a, 2)
		x := e.b(a[0])
		k := kArg(a[1])
		var sb strings.Builder
		n := int64(0)
		stopped, overrun := false, false
		x.Ranges()(func(s uint32, end uint64) bool {
			if stopped {
				overrun = true
				return false
			}
			if k == 0 {
				stopped = true
				return false
			}
			if n > 0 {
				sb.WriteByte(',')
			}
			switch {
			case end <= uint64(s) || end > 1<<32:
				fmt.Fprintf(&sb, "bad:%d:%d", s, end)
			case end == uint64(s)+1:
				fmt.Fprintf(&sb, "%d", s)
			default:
				fmt.Fprintf(&sb, "%d-%d", s, end-1)
			}
			n++
			if k > 0 && n >= k {
				stopped = true
				return false
			}
			return true
		})
		if overrun {
			return "overrun"
		}
		if n == 0 {
			return "-"
		}
		return sb.String()
	})
}
