package main

import (
	"fmt"
	"strconv"
	"strings"

	roaring "github.com/RoaringBitmap/roaring/v2"
)

// parseCont parses "A:v,v" | "B:card:w.w*n" | "R:s+l,s+l" (the rendering of reprContainer without key)
func parseCont(s string) *roaring.VerifContainer {
	if s == "-" {
		return nil
	}
	c := &roaring.VerifContainer{}
	parts := strings.Split(s, ":")
	if len(parts) < 2 {
		panic(skipErr{"bad container"})
	}
	switch parts[0] {
	case "A":
		c.Kind = 'A'
		if parts[1] != "" {
			for _, t := range strings.Split(parts[1], ",") {
				c.Array = append(c.Array, uint16(u64(t)))
			}
		}
		c.Card = len(c.Array)
	case "B":
		if len(parts) < 3 {
			panic(skipErr{"bad bitmap container"})
		}
		c.Kind = 'B'
		c.Card = int(i64(parts[1]))
		if parts[2] != "" {
			for _, t := range strings.Split(parts[2], ".") {
				rep := 1
				if i := strings.IndexByte(t, '*'); i >= 0 {
					rep = int(u64(t[i+1:]))
					t = t[:i]
				}
				w, err := strconv.ParseUint(t, 16, 64)
				if err != nil {
					panic(skipErr{"bad word"})
				}
				for k := 0; k < rep; k++ {
					c.Words = append(c.Words, w)
				}
			}
		}
	case "R":
		c.Kind = 'R'
		if parts[1] != "" {
			for _, t := range strings.Split(parts[1], ",") {
				i := strings.IndexByte(t, '+')
				if i < 0 {
					panic(skipErr{"bad run"})
				}
				c.Runs = append(c.Runs, [2]uint16{uint16(u64(t[:i])), uint16(u64(t[i+1:]))})
			}
		}
	default:
		panic(skipErr{"bad kind"})
	}
	return c
}

func init() {
	// kern op c1 c2|- [int args]  ->  <res|-> <scalar|-> <alias|-> <c1 after> <c2 after|->
	kern := func(e *env, a []string) string {
		need(a, 3)
		c1 := parseCont(a[1])
		if c1 == nil {
			panic(skipErr{"no receiver"})
		}
		c2 := parseCont(a[2])
		var args []int
		for _, s := range a[3:] {
			args = append(args, int(i64(s)))
		}
		r, err := roaring.VerifKernel(a[0], c1, c2, args...)
		if err != nil {
			panic(skipErr{err.Error()})
		}
		res, sc, al, bAfter := "-", "-", "-", "-"
		if r.Res != nil {
			res = reprContainer(r.Res, false)
			al = r.Alias
		}
		if r.HasScal {
			sc = strconv.FormatInt(r.Scalar, 10)
		}
		if c2 != nil {
			bAfter = reprContainer(&r.B, false)
		}
		return fmt.Sprintf("%s %s %s %s %s", res, sc, al, reprContainer(&r.A, false), bAfter)
	}
	reg("kern", kern)
	reg("kernwf", kern) // same call; the checker looks at the well-formedness of the result instead of its contents
	// popcnt kind hexwords hexwords : dispatched (assembly) popcount vs portable
	reg("popcnt", func(e *env, a []string) string {
		need(a, 3)
		s := parseCont("B:0:" + a[1]).Words
		m := parseCont("B:0:" + a[2]).Words
		if a[0] != "slice" && len(m) < len(s) {
			panic(skipErr{"mask shorter than slice"})
		}
		f, p := roaring.VerifPopcnt(a[0], s, m)
		return fmt.Sprintf("%d %d", f, p)
	})
	// mkrepr x <repr> : build a bitmap directly from a raw representation
	reg("mkrepr", func(e *env, a []string) string {
		need(a, 2)
		parts := strings.Split(a[1], ";")
		cow := parts[0] == "cow=1"
		var cs []roaring.VerifContainer
		for _, p := range parts[1:] {
			if p == "" {
				continue
			}
			flag := strings.HasSuffix(p, "/f")
			p = strings.TrimSuffix(p, "/f")
			i := strings.IndexByte(p, ':')
			if i < 0 {
				panic(skipErr{"bad slot"})
			}
			c := parseCont(p[i+1:])
			c.Key = uint16(u64(p[:i]))
			c.NeedCOW = flag
			cs = append(cs, *c)
		}
		x := roaring.VerifFromContainers(cow, cs)
		e.bm[a[0]] = x
		return d32(x)
	})
}
