package main

import (
	"fmt"
	"sync"

	roaring "github.com/RoaringBitmap/roaring/v2"
)

func init() {
	// concagg fn k w a... : k goroutines run the same parallel aggregate over the SAME input bitmaps at the same time (inputs are
	// only read by a correct library, so this is allowed); every result must equal the sequential one. Under a race-detector build
	// any write to an input bitmap (even of an unchanged value) is reported.
	reg("concagg", func(e *env, a []string) string {
		need(a, 4)
		f, ok := parFns[a[0]]
		if !ok {
			panic(skipErr{"bad fn"})
		}
		k := int(u64(a[1]))
		if k < 1 || k > 64 {
			panic(skipErr{"domain"})
		}
		w := aggWorkers(a[2])
		ins := e.operands(a[3:])
		before := make([]string, len(ins))
		for i, b := range ins {
			before[i] = d32(b)
		}
		res := make([]string, k)
		var wg sync.WaitGroup
		start := make(chan struct{})
		for g := 0; g < k; g++ {
			wg.Add(1)
			go func(g int) {
				defer wg.Done()
				defer func() {
					if r := recover(); r != nil {
						res[g] = "panic"
					}
				}()
				<-start
				passed := append([]*roaring.Bitmap(nil), ins...)
				for r := 0; r < 4; r++ {
					res[g] = d32(f(w, passed...))
				}
			}(g)
		}
		close(start)
		wg.Wait()
		same := true
		for _, r := range res {
			if r != res[0] {
				same = false
			}
		}
		in := "in=ok"
		for i, b := range ins {
			if d32(b) != before[i] {
				in = "in=changed"
			}
		}
		return fmt.Sprintf("%s same=%s %s", res[0], bstr(same), in)
	})
}
