// Command harness executes a verification script against the real roaring code (built with
// -tags verif) and writes a transcript: one line "<command> => <output>" per script line.
package main

import (
	"bufio"
	"fmt"
	"os"
	"runtime/debug"
	"strconv"
	"strings"

	roaring "github.com/RoaringBitmap/roaring/v2"
	"github.com/RoaringBitmap/roaring/v2/roaring64"
)

type env struct {
	bm    map[string]*roaring.Bitmap
	bm64  map[string]*roaring64.Bitmap
	its   map[string]*iterState
	bufs  map[string][]byte
	bsis  map[string]*bsiState
	maps  []mapping // mprotect-ed buffers
	dense []denseRef
}

type cmdFunc func(e *env, a []string) string

var cmds = map[string]cmdFunc{}

func reg(name string, f cmdFunc) { cmds[name] = f }

type skipErr struct{ why string }

func (e *env) b(name string) *roaring.Bitmap {
	x, ok := e.bm[name]
	if !ok {
		panic(skipErr{"undefined " + name})
	}
	return x
}

func (e *env) b64(name string) *roaring64.Bitmap {
	x, ok := e.bm64[name]
	if !ok {
		panic(skipErr{"undefined " + name})
	}
	return x
}

func u64(s string) uint64 {
	v, err := strconv.ParseUint(s, 10, 64)
	if err != nil {
		panic(skipErr{"bad int " + s})
	}
	return v
}

func i64(s string) int64 {
	v, err := strconv.ParseInt(s, 10, 64)
	if err != nil {
		panic(skipErr{"bad int " + s})
	}
	return v
}

func u32(s string) uint32 {
	v := u64(s)
	if v > 0xFFFFFFFF {
		panic(skipErr{"not uint32 " + s})
	}
	return uint32(v)
}

func need(a []string, n int) {
	if len(a) < n {
		panic(skipErr{"arity"})
	}
}

func bstr(b bool) string {
	if b {
		return "true"
	}
	return "false"
}

func panicClass(r interface{}) string {
	s := fmt.Sprint(r)
	s = strings.ReplaceAll(s, "\n", " ")
	if len(s) > 60 {
		s = s[:60]
	}
	return "panic:" + s
}

func (e *env) exec(line string) (out string) {
	defer func() {
		if r := recover(); r != nil {
			if s, ok := r.(skipErr); ok {
				out = "skip:" + s.why
				return
			}
			out = panicClass(r)
			if os.Getenv("VERIF_TRACE") != "" {
				out += " " + strings.ReplaceAll(string(debug.Stack()), "\n", "|")
			}
		}
	}()
	f := strings.Fields(line)
	if len(f) == 0 {
		return "skip:empty"
	}
	c, ok := cmds[f[0]]
	if !ok {
		return "skip:unknown"
	}
	return c(e, f[1:])
}

func main() {
	debug.SetPanicOnFault(true)
	e := &env{bm: map[string]*roaring.Bitmap{}, bm64: map[string]*roaring64.Bitmap{}, its: map[string]*iterState{},
		bufs: map[string][]byte{}, bsis: map[string]*bsiState{}}
	in := bufio.NewReaderSize(os.Stdin, 1<<20)
	out := bufio.NewWriterSize(os.Stdout, 1<<16)
	defer out.Flush()
	for {
		line, err := in.ReadString('\n')
		line = strings.TrimRight(line, "\r\n")
		if line != "" && !strings.HasPrefix(line, "#") {
			res := e.exec(line)
			// long argument lists are abbreviated in the transcript: the checker re-reads the script
			fmt.Fprintf(out, "%s\n", res)
			out.Flush()
		} else if err == nil {
			fmt.Fprintf(out, "\n")
		}
		if err != nil {
			break
		}
	}
}
