package main

// Exact-representation tie of the whole-bitmap transforms (lean/RModel/Impl/RepXform.lean).
//
//   l2off z x d          z = roaring.AddOffset64(x, d)
//   l2sflip z x lo hi    z = roaring.Flip(x, lo, hi)          (the STATIC function)
//       output: <repr32(x) before> <repr32(z)> <ok|xchg>
//       the 3rd token says whether the raw representation of the operand is the same after the call as before it.
//       z may be x (the name is rebound after the call).
//   l2dense x            output: <repr32(x)> <words of x.ToDense()> <x.DenseSize()> <true|false>
//       words in the compact syntax of bitmap containers (hex, `*count` for repeats, `.` separated; `-` = no words);
//       the boolean: WriteDenseTo into DenseSize() zero words gives the same words.
//   l2fromdense y copy words     y = roaring.FromDense(words, copy == "1"); output: <repr32(y)>
//       (`-` = no words); the word slice is remembered for `densechk` like `fromdense` does.

import (
	"fmt"
	"strings"

	roaring "github.com/RoaringBitmap/roaring/v2"
)

func l2wordsStr(ws []uint64) string {
	if len(ws) == 0 {
		return "-"
	}
	var sb strings.Builder
	j := 0
	for j < len(ws) {
		k := j
		for k < len(ws) && ws[k] == ws[j] {
			k++
		}
		if j > 0 {
			sb.WriteByte('.')
		}
		fmt.Fprintf(&sb, "%x", ws[j])
		if k-j > 1 {
			fmt.Fprintf(&sb, "*%d", k-j)
		}
		j = k
	}
	return sb.String()
}

func l2parseWords(s string) []uint64 {
	if s == "-" {
		return []uint64{}
	}
	return parseCont("B:0:" + s).Words
}

func init() {
	unary := func(f func(x *roaring.Bitmap, a []string) *roaring.Bitmap, nargs int) cmdFunc {
		return func(e *env, a []string) string {
			need(a, nargs)
			x := e.b(a[1])
			rx := repr32(x)
			z := f(x, a[2:])
			st := "ok"
			if repr32(x) != rx {
				st = "xchg"
			}
			e.bm[a[0]] = z
			return rx + " " + repr32(z) + " " + st
		}
	}
	reg("l2off", unary(func(x *roaring.Bitmap, a []string) *roaring.Bitmap {
		return roaring.AddOffset64(x, i64(a[0]))
	}, 3))
	reg("l2sflip", unary(func(x *roaring.Bitmap, a []string) *roaring.Bitmap {
		lo, hi := u64(a[0]), u64(a[1])
		return roaring.Flip(x, lo, hi)
	}, 4))
	reg("l2dense", func(e *env, a []string) string {
		need(a, 1)
		x := e.b(a[0])
		rx := repr32(x)
		ws := x.ToDense()
		sz := x.DenseSize()
		buf := make([]uint64, sz)
		x.WriteDenseTo(buf)
		return fmt.Sprintf("%s %s %d %s", rx, l2wordsStr(ws), sz, bstr(eqWords(ws, buf) && repr32(x) == rx))
	})
	reg("l2fromdense", func(e *env, a []string) string {
		need(a, 3)
		ws := l2parseWords(a[2])
		orig := append([]uint64(nil), ws...)
		y := roaring.FromDense(ws, a[1] == "1")
		e.bm[a[0]] = y
		e.dense = append(e.dense, denseRef{name: a[0], words: ws, orig: orig})
		return repr32(y)
	})
}
