package main

import "encoding/base64"

func b64(b []byte) string { return base64.StdEncoding.EncodeToString(b) }
