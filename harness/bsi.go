package main

// Bit-sliced index command family (prefix "b"; properties C19 / C20).
//
// Two implementations behind one state type: roaring64.BSI ("64": uint64 columns, sign plane, big.Int
// API) and BitSliceIndexing.BSI ("32": uint32 columns, no sign plane).
//
// Canonical renderings
//   dump string      = "col:val,col:val,..." sorted by column ("-" for the empty map); obtained by walking
//                      the RAW existence bitmap (view hooks) and calling GetBigValue / GetValue per column.
//   map digest  D(s) = "<n>:<16 hex FNV-1a over the dump string>"
//   found-set token  = "-" (nil) | "@" (the index's own existence bitmap, the real pointer) | name of a
//                      64-bit bitmap (e.bm64) for a 64 index / 32-bit bitmap (e.bm) for a 32 index
//   fsd(f)           = "-" for nil, interval digest of the found-set AFTER the command otherwise
//   same             = "same" | "changed": serialised index (all planes) compared before/after a query
//
// Grammar (s,t = index names; r = result bitmap name; f,g = found-set tokens; w = worker count)
//   fs64 f v...  | fs32 f v...  | fsr64 f lo hi | fsr32 f lo hi        define a found-set      -> digest
//   fsflip64 f v... | fsflip32 f v...                                  toggle members          -> digest
//   fsdig64 f | fsdump64 f                                             (32-bit: use dig / dump)
//   bnew s 64|32 [max min]                                             -> D(s)
//   bset s col v | bsetbig s col v                                     -> D(s)
//   bsetmany s f v | bsetmanybig s f v | bclr s f                      -> D(s) fsd(f)
//   bretain s f                    (64)                                -> dropped D(s) fsd(f)
//   bparor s w t...                                                    -> D(s) D(t)...
//   badd s t                                                           -> D(s) D(t)
//   binc s f | bincall s | bopt s (RunOptimize)                        -> D(s) [fsd(f)]
//   bget s col -> "v true" | "0 false"         bgetbig s col (64) -> "v true" | "nil false"
//   bgets s col... (64, GetValues)  bgetsbig s col... (64, GetBigValues)  -> v,v,-,v   ("-" absent)
//   bexists s col | bcard s | bbits s ("bits=N", not checked) | bdump s (digest when > 32 columns)
//   bchk s                         every plane is a subset of the existence bitmap -> ok | bad:planeN
//   bclone t s | bmarsh t s                                            -> D(t) D(s)
//   bretainset t s f                                                   -> D(t) D(s) fsd(f)
//   bstream t s                    (64)                                -> D(t) D(s) ok|badn | n=.. len=.. rn=..
//   bequals s t                    (64)                                -> true|false
//   bcmp r s w OP k [k2] [f] | bcmpbig ...    OP in LT LE EQ GE GT RANGE  -> digest(r) same fsd(f)
//   bcmpbsi r s OP t [f]           (64)                                -> digest(r) same same fsd(f)
//   beq r s w v... | beqbig r s w v... (64)                            -> digest(r) same
//   beqvals s w f v...             (64)                                -> col:val,...  | -
//   bminmax s w MIN|MAX f | bminmaxbig (64)                            -> value
//   bsum s f | bsumbig s f (64)                                        -> sum count
//   btrans r s                                                         -> digest(r) same
//   bitrans r s w f                                                    -> digest(r) same fsd(f)
//   btwc t s w f g                 (32: g must be "-")                 -> D(t) same
// A command on the wrong implementation, an undefined name or a malformed number gives "skip:...".

import (
	"bytes"
	"fmt"
	"math/big"
	"sort"
	"strconv"
	"strings"

	roaring "github.com/RoaringBitmap/roaring/v2"
	bsi32 "github.com/RoaringBitmap/roaring/v2/BitSliceIndexing"
	"github.com/RoaringBitmap/roaring/v2/roaring64"
)

type bsiState struct {
	is64 bool
	b64  *roaring64.BSI
	b32  *bsi32.BSI
}

func (e *env) bs(name string) *bsiState {
	x, ok := e.bsis[name]
	if !ok {
		panic(skipErr{"undefined " + name})
	}
	return x
}

func bigOf(s string) *big.Int {
	v, ok := new(big.Int).SetString(s, 10)
	if !ok {
		panic(skipErr{"bad bigint " + s})
	}
	return v
}

func fnvStr(s string) string {
	h := uint64(14695981039346656037)
	for i := 0; i < len(s); i++ {
		h = (h ^ uint64(s[i])) * 1099511628211
	}
	return fmt.Sprintf("%016x", h)
}

func expandIvs(x []iv) []uint64 {
	var out []uint64
	for _, p := range x {
		if p.hi-p.lo > 1<<20 || len(out) > 1<<20 {
			panic("existence bitmap too large to dump")
		}
		for v := p.lo; ; v++ {
			out = append(out, v)
			if v == p.hi {
				break
			}
		}
	}
	return out
}

// cols returns the columns of the raw existence bitmap.
func (s *bsiState) cols() []uint64 {
	if s.is64 {
		return expandIvs(ivs64(s.b64.GetExistenceBitmap()))
	}
	return expandIvs(ivs32(s.b32.GetExistenceBitmap()))
}

// pairs renders the whole map, per column through the point-query API.
func (s *bsiState) pairs() (int, string) {
	cs := s.cols()
	if len(cs) == 0 {
		return 0, "-"
	}
	var sb strings.Builder
	for i, c := range cs {
		if i > 0 {
			sb.WriteByte(',')
		}
		if s.is64 {
			v, ok := s.b64.GetBigValue(c)
			if !ok {
				fmt.Fprintf(&sb, "%d:absent", c)
			} else {
				fmt.Fprintf(&sb, "%d:%s", c, v.String())
			}
		} else {
			v, ok := s.b32.GetValue(c)
			if !ok {
				fmt.Fprintf(&sb, "%d:absent", c)
			} else {
				fmt.Fprintf(&sb, "%d:%d", c, v)
			}
		}
	}
	return len(cs), sb.String()
}

func (s *bsiState) D() string {
	n, p := s.pairs()
	return fmt.Sprintf("%d:%s", n, fnvStr(p))
}

// found-set resolution -------------------------------------------------------------------------

type fset struct {
	f64 *roaring64.Bitmap
	f32 *roaring.Bitmap
	nil bool
}

func (e *env) fs(s *bsiState, tok string) fset {
	if tok == "-" {
		return fset{nil: true}
	}
	if tok == "@" {
		if s.is64 {
			return fset{f64: s.b64.GetExistenceBitmap()}
		}
		return fset{f32: s.b32.GetExistenceBitmap()}
	}
	if s.is64 {
		return fset{f64: e.b64(tok)}
	}
	return fset{f32: e.b(tok)}
}

// fsNN resolves a found-set that must not be nil
func (e *env) fsNN(s *bsiState, tok string) fset {
	f := e.fs(s, tok)
	if f.nil {
		panic(skipErr{"nil found-set not allowed"})
	}
	return f
}

func (f fset) d() string {
	switch {
	case f.nil:
		return "-"
	case f.f64 != nil:
		return d64(f.f64)
	default:
		return d32(f.f32)
	}
}

func op64(s string) roaring64.Operation {
	switch s {
	case "LT":
		return roaring64.LT
	case "LE":
		return roaring64.LE
	case "EQ":
		return roaring64.EQ
	case "GE":
		return roaring64.GE
	case "GT":
		return roaring64.GT
	case "RANGE":
		return roaring64.RANGE
	case "MIN":
		return roaring64.MIN
	case "MAX":
		return roaring64.MAX
	}
	panic(skipErr{"bad op " + s})
}

func op32(s string) bsi32.Operation {
	switch s {
	case "LT":
		return bsi32.LT
	case "LE":
		return bsi32.LE
	case "EQ":
		return bsi32.EQ
	case "GE":
		return bsi32.GE
	case "GT":
		return bsi32.GT
	case "RANGE":
		return bsi32.RANGE
	case "MIN":
		return bsi32.MIN
	case "MAX":
		return bsi32.MAX
	}
	panic(skipErr{"bad op " + s})
}

func workers(s string) int {
	w := u64(s)
	if w > 64 {
		panic(skipErr{"too many workers"})
	}
	return int(w)
}

func only64(s *bsiState) {
	if !s.is64 {
		panic(skipErr{"64-bit BSI only"})
	}
}

func col32(s string) uint64 { return uint64(u32(s)) }

func (s *bsiState) col(tok string) uint64 {
	if s.is64 {
		return u64(tok)
	}
	return col32(tok)
}

// planes returns existence bitmap + planes as interval lists, obtained through the serialisers
// (WriteTo for the 64-bit index: it writes every plane; MarshalBinary for the 32-bit one).
func (s *bsiState) planeSubsetOK() string {
	if s.is64 {
		var buf bytes.Buffer
		if _, err := s.b64.WriteTo(&buf); err != nil {
			return "err"
		}
		rd := bytes.NewReader(buf.Bytes())
		var ebm *roaring64.Bitmap
		i := 0
		for rd.Len() > 0 {
			bm := roaring64.New()
			if _, err := bm.ReadFrom(rd); err != nil {
				return "err"
			}
			if ebm == nil {
				ebm = bm
			} else {
				if !roaring64.AndNot(bm, ebm).IsEmpty() {
					return fmt.Sprintf("bad:plane%d", i-1)
				}
			}
			i++
		}
		return "ok"
	}
	data, err := s.b32.MarshalBinary()
	if err != nil {
		return "err"
	}
	ebm := roaring.New()
	if err := ebm.UnmarshalBinary(data[0]); err != nil {
		return "err"
	}
	for i := 1; i < len(data); i++ {
		bm := roaring.New()
		if err := bm.UnmarshalBinary(data[i]); err != nil {
			return "err"
		}
		if !roaring.AndNot(bm, ebm).IsEmpty() {
			return fmt.Sprintf("bad:plane%d", i-1)
		}
	}
	return "ok"
}

// raw returns the serialised index (existence bitmap and every plane); used to show that a query
// left the index physically untouched.
func (s *bsiState) raw() []byte {
	var buf bytes.Buffer
	if s.is64 {
		if _, err := s.b64.WriteTo(&buf); err != nil {
			panic("raw: " + err.Error())
		}
		return buf.Bytes()
	}
	data, err := s.b32.MarshalBinary()
	if err != nil {
		panic("raw: " + err.Error())
	}
	for _, d := range data {
		fmt.Fprintf(&buf, "%d:", len(d))
		buf.Write(d)
	}
	return buf.Bytes()
}

func same(before []byte, s *bsiState) string {
	if bytes.Equal(before, s.raw()) {
		return "same"
	}
	return "changed"
}

type plainReader struct{ r *bytes.Reader }

func (p plainReader) Read(b []byte) (int, error) { return p.r.Read(b) }

func newLike(s *bsiState) *bsiState {
	if s.is64 {
		if s.b64.MaxValue != 0 || s.b64.MinValue != 0 {
			return &bsiState{is64: true, b64: roaring64.NewBSI(s.b64.MaxValue, s.b64.MinValue)}
		}
		return &bsiState{is64: true, b64: roaring64.NewDefaultBSI()}
	}
	if s.b32.MaxValue != 0 || s.b32.MinValue != 0 {
		return &bsiState{b32: bsi32.NewBSI(s.b32.MaxValue, s.b32.MinValue)}
	}
	return &bsiState{b32: bsi32.NewDefaultBSI()}
}

func init() {
	// ---- found-set helpers (minimal; the 64-bit bitmap family proper lives elsewhere)
	reg("fs64", func(e *env, a []string) string {
		need(a, 1)
		vals := make([]uint64, 0, len(a)-1)
		for _, t := range a[1:] {
			vals = append(vals, u64(t))
		}
		e.bm64[a[0]] = roaring64.BitmapOf(vals...)
		return d64(e.bm64[a[0]])
	})
	reg("fs32", func(e *env, a []string) string {
		need(a, 1)
		vals := make([]uint32, 0, len(a)-1)
		for _, t := range a[1:] {
			vals = append(vals, u32(t))
		}
		e.bm[a[0]] = roaring.BitmapOf(vals...)
		return d32(e.bm[a[0]])
	})
	reg("fsflip64", func(e *env, a []string) string {
		need(a, 1)
		x := e.b64(a[0])
		vals := make([]uint64, 0, len(a)-1)
		for _, t := range a[1:] {
			vals = append(vals, u64(t))
		}
		for _, v := range vals {
			if x.Contains(v) {
				x.Remove(v)
			} else {
				x.Add(v)
			}
		}
		return d64(x)
	})
	reg("fsflip32", func(e *env, a []string) string {
		need(a, 1)
		x := e.b(a[0])
		vals := make([]uint32, 0, len(a)-1)
		for _, t := range a[1:] {
			vals = append(vals, u32(t))
		}
		for _, v := range vals {
			if x.Contains(v) {
				x.Remove(v)
			} else {
				x.Add(v)
			}
		}
		return d32(x)
	})
	reg("fsr64", func(e *env, a []string) string {
		need(a, 3)
		lo, hi := u64(a[1]), u64(a[2])
		x := roaring64.New()
		if lo < hi {
			x.AddRange(lo, hi)
		}
		e.bm64[a[0]] = x
		return d64(x)
	})
	reg("fsr32", func(e *env, a []string) string {
		need(a, 3)
		lo, hi := u64(a[1]), u64(a[2])
		if hi > 1<<32 {
			panic(skipErr{"range"})
		}
		x := roaring.New()
		if lo < hi {
			x.AddRange(lo, hi)
		}
		e.bm[a[0]] = x
		return d32(x)
	})
	reg("fsdig64", func(e *env, a []string) string { need(a, 1); return d64(e.b64(a[0])) })
	reg("fsdump64", func(e *env, a []string) string { need(a, 1); return dumpIvs(ivs64(e.b64(a[0]))) })

	// ---- construction
	reg("bnew", func(e *env, a []string) string {
		need(a, 2)
		var s *bsiState
		switch {
		case a[1] == "64" && len(a) == 2:
			s = &bsiState{is64: true, b64: roaring64.NewDefaultBSI()}
		case a[1] == "32" && len(a) == 2:
			s = &bsiState{b32: bsi32.NewDefaultBSI()}
		case a[1] == "64" && len(a) == 4:
			s = &bsiState{is64: true, b64: roaring64.NewBSI(i64(a[2]), i64(a[3]))}
		case a[1] == "32" && len(a) == 4:
			s = &bsiState{b32: bsi32.NewBSI(i64(a[2]), i64(a[3]))}
		default:
			panic(skipErr{"bnew"})
		}
		e.bsis[a[0]] = s
		return s.D()
	})

	// ---- updates
	reg("bset", func(e *env, a []string) string {
		need(a, 3)
		s := e.bs(a[0])
		c, v := s.col(a[1]), i64(a[2])
		if s.is64 {
			s.b64.SetValue(c, v)
		} else {
			s.b32.SetValue(c, v)
		}
		return s.D()
	})
	reg("bsetbig", func(e *env, a []string) string {
		need(a, 3)
		s := e.bs(a[0])
		only64(s)
		s.b64.SetBigValue(u64(a[1]), bigOf(a[2]))
		return s.D()
	})
	reg("bsetmany", func(e *env, a []string) string {
		need(a, 3)
		s := e.bs(a[0])
		f := e.fsNN(s, a[1])
		v := i64(a[2])
		if s.is64 {
			s.b64.SetMany(f.f64, v)
		} else {
			s.b32.SetMany(f.f32, v)
		}
		return s.D() + " " + f.d()
	})
	reg("bsetmanybig", func(e *env, a []string) string {
		need(a, 3)
		s := e.bs(a[0])
		only64(s)
		f := e.fsNN(s, a[1])
		s.b64.SetBigMany(f.f64, bigOf(a[2]))
		return s.D() + " " + f.d()
	})
	reg("bclr", func(e *env, a []string) string {
		need(a, 2)
		s := e.bs(a[0])
		f := e.fsNN(s, a[1])
		if s.is64 {
			s.b64.ClearValues(f.f64)
		} else {
			s.b32.ClearValues(f.f32)
		}
		return s.D() + " " + f.d()
	})
	reg("bretain", func(e *env, a []string) string {
		need(a, 2)
		s := e.bs(a[0])
		only64(s)
		f := e.fsNN(s, a[1])
		dropped := s.b64.Retain(f.f64)
		return fmt.Sprintf("%d %s %s", dropped, s.D(), f.d())
	})
	reg("bparor", func(e *env, a []string) string {
		need(a, 3)
		s := e.bs(a[0])
		w := workers(a[1])
		var ts []*bsiState
		for _, n := range a[2:] {
			t := e.bs(n)
			if t.is64 != s.is64 {
				panic(skipErr{"mixed implementations"})
			}
			ts = append(ts, t)
		}
		if s.is64 {
			xs := make([]*roaring64.BSI, len(ts))
			for i, t := range ts {
				xs[i] = t.b64
			}
			s.b64.ParOr(w, xs...)
		} else {
			xs := make([]*bsi32.BSI, len(ts))
			for i, t := range ts {
				xs[i] = t.b32
			}
			s.b32.ParOr(w, xs...)
		}
		out := s.D()
		for _, t := range ts {
			out += " " + t.D()
		}
		return out
	})
	reg("badd", func(e *env, a []string) string {
		need(a, 2)
		s, t := e.bs(a[0]), e.bs(a[1])
		if s.is64 != t.is64 {
			panic(skipErr{"mixed implementations"})
		}
		if s.is64 {
			s.b64.Add(t.b64)
		} else {
			s.b32.Add(t.b32)
		}
		return s.D() + " " + t.D()
	})
	reg("binc", func(e *env, a []string) string {
		need(a, 2)
		s := e.bs(a[0])
		f := e.fs(s, a[1])
		if s.is64 {
			s.b64.Increment(f.f64)
		} else {
			s.b32.Increment(f.f32)
		}
		return s.D() + " " + f.d()
	})
	reg("bincall", func(e *env, a []string) string {
		need(a, 1)
		s := e.bs(a[0])
		if s.is64 {
			s.b64.IncrementAll()
		} else {
			s.b32.IncrementAll()
		}
		return s.D()
	})

	reg("bopt", func(e *env, a []string) string {
		need(a, 1)
		s := e.bs(a[0])
		if s.is64 {
			s.b64.RunOptimize()
		} else {
			s.b32.RunOptimize()
		}
		return s.D()
	})

	// ---- point queries
	reg("bget", func(e *env, a []string) string {
		need(a, 2)
		s := e.bs(a[0])
		c := s.col(a[1])
		var v int64
		var ok bool
		if s.is64 {
			v, ok = s.b64.GetValue(c)
		} else {
			v, ok = s.b32.GetValue(c)
		}
		return fmt.Sprintf("%d %s", v, bstr(ok))
	})
	reg("bgetbig", func(e *env, a []string) string {
		need(a, 2)
		s := e.bs(a[0])
		only64(s)
		v, ok := s.b64.GetBigValue(u64(a[1]))
		if !ok {
			if v != nil {
				return "nonnil false"
			}
			return "nil false"
		}
		return v.String() + " true"
	})
	reg("bgets", func(e *env, a []string) string {
		need(a, 1)
		s := e.bs(a[0])
		only64(s)
		cs := make([]uint64, 0, len(a)-1)
		for _, t := range a[1:] {
			cs = append(cs, u64(t))
		}
		vals, ex := s.b64.GetValues(cs)
		if len(vals) != len(cs) || len(ex) != len(cs) {
			return "badlen"
		}
		out := make([]string, len(cs))
		for i := range cs {
			if ex[i] {
				out[i] = strconv.FormatInt(vals[i], 10)
			} else if vals[i] != 0 {
				out[i] = "-!" // absent entries must carry the zero value
			} else {
				out[i] = "-"
			}
		}
		if len(out) == 0 {
			return "-"
		}
		return strings.Join(out, ",")
	})
	reg("bgetsbig", func(e *env, a []string) string {
		need(a, 1)
		s := e.bs(a[0])
		only64(s)
		cs := make([]uint64, 0, len(a)-1)
		for _, t := range a[1:] {
			cs = append(cs, u64(t))
		}
		vals := s.b64.GetBigValues(cs)
		if len(vals) != len(cs) {
			return "badlen"
		}
		out := make([]string, len(cs))
		for i := range cs {
			if vals[i] != nil {
				out[i] = vals[i].String()
			} else {
				out[i] = "-"
			}
		}
		// returned values must be independent cells: scribbling on them must not change the index
		for _, v := range vals {
			if v != nil {
				v.SetInt64(424242)
			}
		}
		if len(out) == 0 {
			return "-"
		}
		return strings.Join(out, ",")
	})
	reg("bexists", func(e *env, a []string) string {
		need(a, 2)
		s := e.bs(a[0])
		c := s.col(a[1])
		if s.is64 {
			return bstr(s.b64.ValueExists(c))
		}
		return bstr(s.b32.ValueExists(c))
	})
	reg("bcard", func(e *env, a []string) string {
		need(a, 1)
		s := e.bs(a[0])
		if s.is64 {
			return strconv.FormatUint(s.b64.GetCardinality(), 10)
		}
		return strconv.FormatUint(s.b32.GetCardinality(), 10)
	})
	reg("bbits", func(e *env, a []string) string {
		need(a, 1)
		s := e.bs(a[0])
		if s.is64 {
			return fmt.Sprintf("bits=%d", s.b64.BitCount())
		}
		return fmt.Sprintf("bits=%d", s.b32.BitCount())
	})
	reg("bdump", func(e *env, a []string) string {
		need(a, 1)
		s := e.bs(a[0])
		n, p := s.pairs()
		if n > 32 {
			return fmt.Sprintf("%d:%s", n, fnvStr(p))
		}
		return p
	})
	reg("bchk", func(e *env, a []string) string {
		need(a, 1)
		return e.bs(a[0]).planeSubsetOK()
	})

	// ---- copies
	reg("bclone", func(e *env, a []string) string {
		need(a, 2)
		s := e.bs(a[1])
		var t *bsiState
		if s.is64 {
			t = &bsiState{is64: true, b64: s.b64.Clone()}
		} else {
			t = &bsiState{b32: s.b32.Clone()}
		}
		e.bsis[a[0]] = t
		return t.D() + " " + s.D()
	})
	reg("bretainset", func(e *env, a []string) string {
		need(a, 3)
		s := e.bs(a[1])
		f := e.fsNN(s, a[2])
		var t *bsiState
		if s.is64 {
			t = &bsiState{is64: true, b64: s.b64.NewBSIRetainSet(f.f64)}
		} else {
			t = &bsiState{b32: s.b32.NewBSIRetainSet(f.f32)}
		}
		e.bsis[a[0]] = t
		return t.D() + " " + s.D() + " " + f.d()
	})
	reg("bmarsh", func(e *env, a []string) string {
		need(a, 2)
		s := e.bs(a[1])
		t := newLike(s)
		if len(a) >= 3 {
			// `bmarsh t s u`: load into the previously used index u (which is consumed)
			u := e.bs(a[2])
			if u.is64 != s.is64 || u == s {
				panic(skipErr{"receiver of another kind"})
			}
			t = u
			delete(e.bsis, a[2])
		}
		var data [][]byte
		var err error
		if s.is64 {
			data, err = s.b64.MarshalBinary()
		} else {
			data, err = s.b32.MarshalBinary()
		}
		if err != nil {
			return "err:marshal"
		}
		// private copies: the decoder may alias its input
		cp := make([][]byte, len(data))
		for i := range data {
			if data[i] != nil {
				cp[i] = append([]byte{}, data[i]...)
			}
		}
		if s.is64 {
			err = t.b64.UnmarshalBinary(cp)
		} else {
			err = t.b32.UnmarshalBinary(cp)
		}
		if err != nil {
			return "err:unmarshal"
		}
		// the caller reuses its buffers: the loaded index must not depend on them any more
		for i := range cp {
			for j := range cp[i] {
				cp[i][j] ^= 0xFF
			}
		}
		e.bsis[a[0]] = t
		return t.D() + " " + s.D()
	})
	reg("bstream", func(e *env, a []string) string {
		need(a, 2)
		s := e.bs(a[1])
		only64(s)
		var buf bytes.Buffer
		n, err := s.b64.WriteTo(&buf)
		if err != nil {
			return "err:write"
		}
		total := buf.Len()
		t := newLike(s)
		if len(a) >= 3 {
			u := e.bs(a[2])
			if !u.is64 || u == s {
				panic(skipErr{"receiver of another kind"})
			}
			t = u
			delete(e.bsis, a[2])
		}
		// a plain io.Reader (no ReadByte, no WriteTo), as a file or a socket is
		rn, err := t.b64.ReadFrom(plainReader{bytes.NewReader(append([]byte{}, buf.Bytes()...))})
		if err != nil {
			return "err:read"
		}
		e.bsis[a[0]] = t
		acc := "ok"
		if n != int64(total) || rn != int64(total) {
			acc = "badn"
		}
		return fmt.Sprintf("%s %s %s | n=%d len=%d rn=%d", t.D(), s.D(), acc, n, total, rn)
	})
	reg("bequals", func(e *env, a []string) string {
		need(a, 2)
		s, t := e.bs(a[0]), e.bs(a[1])
		only64(s)
		only64(t)
		return bstr(s.b64.Equals(t.b64))
	})

	// ---- comparison queries
	cmp := func(big bool) cmdFunc {
		return func(e *env, a []string) string {
			need(a, 5)
			r, s, w, opn := a[0], e.bs(a[1]), workers(a[2]), a[3]
			rest := a[4:]
			k1 := rest[0]
			k2 := "0"
			rest = rest[1:]
			if opn == "RANGE" {
				if len(rest) == 0 {
					panic(skipErr{"arity"})
				}
				k2 = rest[0]
				rest = rest[1:]
			}
			ftok := "-"
			if len(rest) > 0 {
				ftok = rest[0]
			}
			f := e.fs(s, ftok)
			snap := s.raw()
			if s.is64 {
				var res *roaring64.Bitmap
				if big {
					res = s.b64.CompareBigValue(w, op64(opn), bigOf(k1), bigOf(k2), f.f64)
				} else {
					res = s.b64.CompareValue(w, op64(opn), i64(k1), i64(k2), f.f64)
				}
				e.bm64[r] = res
				return d64(res) + " " + same(snap, s) + " " + f.d()
			}
			if big {
				panic(skipErr{"64-bit BSI only"})
			}
			res := s.b32.CompareValue(w, op32(opn), i64(k1), i64(k2), f.f32)
			e.bm[r] = res
			return d32(res) + " " + same(snap, s) + " " + f.d()
		}
	}
	reg("bcmp", cmp(false))
	reg("bcmpbig", cmp(true))
	reg("bcmpbsi", func(e *env, a []string) string {
		need(a, 4)
		r, s, opn, t := a[0], e.bs(a[1]), a[2], e.bs(a[3])
		only64(s)
		only64(t)
		ftok := "-"
		if len(a) > 4 {
			ftok = a[4]
		}
		f := e.fs(s, ftok)
		if opn == "RANGE" || opn == "MIN" || opn == "MAX" {
			panic(skipErr{"op"})
		}
		snap, snapT := s.raw(), t.raw()
		res := s.b64.CompareBSI(op64(opn), t.b64, f.f64)
		e.bm64[r] = res
		return d64(res) + " " + same(snap, s) + " " + same(snapT, t) + " " + f.d()
	})
	reg("beq", func(e *env, a []string) string {
		need(a, 3)
		r, s, w := a[0], e.bs(a[1]), workers(a[2])
		vals := make([]int64, 0, len(a)-3)
		for _, t := range a[3:] {
			vals = append(vals, i64(t))
		}
		snap := s.raw()
		if s.is64 {
			res := s.b64.BatchEqual(w, vals)
			e.bm64[r] = res
			return d64(res) + " " + same(snap, s)
		}
		res := s.b32.BatchEqual(w, vals)
		e.bm[r] = res
		return d32(res) + " " + same(snap, s)
	})
	reg("beqbig", func(e *env, a []string) string {
		need(a, 3)
		r, s, w := a[0], e.bs(a[1]), workers(a[2])
		only64(s)
		vals := make([]*big.Int, 0, len(a)-3)
		for _, t := range a[3:] {
			vals = append(vals, bigOf(t))
		}
		snap := s.raw()
		res := s.b64.BatchEqualBig(w, vals)
		e.bm64[r] = res
		return d64(res) + " " + same(snap, s)
	})
	reg("beqvals", func(e *env, a []string) string {
		need(a, 3)
		s, w := e.bs(a[0]), workers(a[1])
		only64(s)
		f := e.fs(s, a[2])
		vals := make([]int64, 0, len(a)-3)
		for _, t := range a[3:] {
			vals = append(vals, i64(t))
		}
		ps := s.b64.BatchEqualValues(w, vals, f.f64)
		sort.Slice(ps, func(i, j int) bool {
			if ps[i].ColumnID != ps[j].ColumnID {
				return ps[i].ColumnID < ps[j].ColumnID
			}
			return ps[i].Value < ps[j].Value
		})
		if len(ps) == 0 {
			return "-"
		}
		out := make([]string, len(ps))
		for i, p := range ps {
			out[i] = fmt.Sprintf("%d:%d", p.ColumnID, p.Value)
		}
		return strings.Join(out, ",")
	})
	reg("bminmax", func(e *env, a []string) string {
		need(a, 4)
		s, w, opn := e.bs(a[0]), workers(a[1]), a[2]
		if opn != "MIN" && opn != "MAX" {
			panic(skipErr{"op"})
		}
		f := e.fs(s, a[3])
		if s.is64 {
			return strconv.FormatInt(s.b64.MinMax(w, op64(opn), f.f64), 10)
		}
		return strconv.FormatInt(s.b32.MinMax(w, op32(opn), f.f32), 10)
	})
	reg("bminmaxbig", func(e *env, a []string) string {
		need(a, 4)
		s, w, opn := e.bs(a[0]), workers(a[1]), a[2]
		only64(s)
		if opn != "MIN" && opn != "MAX" {
			panic(skipErr{"op"})
		}
		f := e.fs(s, a[3])
		return s.b64.MinMaxBig(w, op64(opn), f.f64).String()
	})
	reg("bsum", func(e *env, a []string) string {
		need(a, 2)
		s := e.bs(a[0])
		f := e.fs(s, a[1])
		if s.is64 {
			v, c := s.b64.Sum(f.f64)
			return fmt.Sprintf("%d %d", v, c)
		}
		v, c := s.b32.Sum(f.f32)
		return fmt.Sprintf("%d %d", v, c)
	})
	reg("bsumbig", func(e *env, a []string) string {
		need(a, 2)
		s := e.bs(a[0])
		only64(s)
		f := e.fs(s, a[1])
		v, c := s.b64.SumBigValues(f.f64)
		return fmt.Sprintf("%s %d", v.String(), c)
	})
	reg("btrans", func(e *env, a []string) string {
		need(a, 2)
		r, s := a[0], e.bs(a[1])
		snap := s.raw()
		if s.is64 {
			res := s.b64.Transpose()
			e.bm64[r] = res
			return d64(res) + " " + same(snap, s)
		}
		res := s.b32.Transpose()
		e.bm[r] = res
		return d32(res) + " " + same(snap, s)
	})
	reg("bitrans", func(e *env, a []string) string {
		need(a, 4)
		r, s, w := a[0], e.bs(a[1]), workers(a[2])
		f := e.fs(s, a[3])
		snap := s.raw()
		if s.is64 {
			res := s.b64.IntersectAndTranspose(w, f.f64)
			e.bm64[r] = res
			return d64(res) + " " + same(snap, s) + " " + f.d()
		}
		res := s.b32.IntersectAndTranspose(w, f.f32)
		e.bm[r] = res
		return d32(res) + " " + same(snap, s) + " " + f.d()
	})
	reg("btwc", func(e *env, a []string) string {
		need(a, 5)
		s, w := e.bs(a[1]), workers(a[2])
		f := e.fs(s, a[3])
		snap := s.raw()
		var t *bsiState
		if s.is64 {
			g := e.fs(s, a[4])
			t = &bsiState{is64: true, b64: s.b64.TransposeWithCounts(w, f.f64, g.f64)}
		} else {
			if a[4] != "-" {
				panic(skipErr{"32-bit TransposeWithCounts has no filter set"})
			}
			t = &bsiState{b32: s.b32.TransposeWithCounts(w, f.f32)}
		}
		e.bsis[a[0]] = t
		return t.D() + " " + same(snap, s)
	})
}
