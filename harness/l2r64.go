package main

// Exact-representation tie of the roaring64 bucket-level L2 model (lean/RModel/Impl/Rep64.lean).
//
// repr64(x) = "cow=<0|1>" then, per bucket, "|<high>@<0|1>@<repr32 of the inner bitmap>"   (the middle field is the
// bucket's needCopyOnWrite flag; '|' and '@' do not occur in repr32).  Everything is read from the raw bucket /
// container arrays through the hooks (roaring64.VerifView64, roaring.VerifView), never through a library algorithm.
//
//   l2op64 <and|or|xor|andnot> z x y
//       z = roaring64.And/Or/Xor/AndNot(x, y)  (the STATIC functions), registered as 64-bit bitmap z.
//       output: <repr64(x) before> <repr64(y) before> <repr64(z)> ok
//           or: <repr64(x) before> <repr64(y) before> <repr64(z)> chg <repr64(x) after> <repr64(y) after>
//       (chg: the raw representation of an operand differs after the call).  z may be one of x / y.
//   l2flip64 z x lo hi
//       z = roaring64.Flip(x, lo, hi).  output: <repr64(x) before> <repr64(z)> ok | ... chg <repr64(x) after>
//   l2range64 <add|remove|flip> x lo hi
//       x.AddRange / x.RemoveRange / x.Flip (lo, hi) in place.  output: <repr64(x) before> <repr64(x) after>
//   l2iop64 <and|or|xor|andnot> x y
//       x.And(y) ... in place.  output: <repr64(x) before> <repr64(y) before> <repr64(x) after> <repr64(y) after>

import (
	"strconv"
	"strings"

	"github.com/RoaringBitmap/roaring/v2/roaring64"
)

func repr64(rb *roaring64.Bitmap) string {
	cow, bs := roaring64.VerifView64(rb)
	var sb strings.Builder
	if cow {
		sb.WriteString("cow=1")
	} else {
		sb.WriteString("cow=0")
	}
	for _, b := range bs {
		sb.WriteByte('|')
		sb.WriteString(strconv.FormatUint(uint64(b.Key), 10))
		if b.NeedCOW {
			sb.WriteString("@1@")
		} else {
			sb.WriteString("@0@")
		}
		if b.Inner == nil {
			sb.WriteString("nil")
		} else {
			sb.WriteString(repr32(b.Inner))
		}
	}
	return sb.String()
}

func init() {
	reg("l2op64", func(e *env, a []string) string {
		need(a, 4)
		var f func(p, q *roaring64.Bitmap) *roaring64.Bitmap
		switch a[0] {
		case "and":
			f = roaring64.And
		case "or":
			f = roaring64.Or
		case "xor":
			f = roaring64.Xor
		case "andnot":
			f = roaring64.AndNot
		default:
			panic(skipErr{"unknown l2op64 " + a[0]})
		}
		x, y := e.b64(a[2]), e.b64(a[3])
		rx, ry := repr64(x), repr64(y)
		z := f(x, y)
		rx2, ry2 := repr64(x), repr64(y)
		e.bm64[a[1]] = z
		out := rx + " " + ry + " " + repr64(z)
		if rx2 == rx && ry2 == ry {
			return out + " ok"
		}
		return out + " chg " + rx2 + " " + ry2
	})
	reg("l2flip64", func(e *env, a []string) string {
		need(a, 4)
		x := e.b64(a[1])
		lo, hi := u64(a[2]), u64(a[3])
		rx := repr64(x)
		z := roaring64.Flip(x, lo, hi)
		rx2 := repr64(x)
		e.bm64[a[0]] = z
		out := rx + " " + repr64(z)
		if rx2 == rx {
			return out + " ok"
		}
		return out + " chg " + rx2
	})
	reg("l2range64", func(e *env, a []string) string {
		need(a, 4)
		var f func(x *roaring64.Bitmap, s, t uint64)
		switch a[0] {
		case "add":
			f = func(x *roaring64.Bitmap, s, t uint64) { x.AddRange(s, t) }
		case "remove":
			f = func(x *roaring64.Bitmap, s, t uint64) { x.RemoveRange(s, t) }
		case "flip":
			f = func(x *roaring64.Bitmap, s, t uint64) { x.Flip(s, t) }
		default:
			panic(skipErr{"unknown l2range64 " + a[0]})
		}
		x := e.b64(a[1])
		lo, hi := u64(a[2]), u64(a[3])
		rx := repr64(x)
		f(x, lo, hi)
		return rx + " " + repr64(x)
	})
	reg("l2iop64", func(e *env, a []string) string {
		need(a, 3)
		var f func(p, q *roaring64.Bitmap)
		switch a[0] {
		case "and":
			f = func(p, q *roaring64.Bitmap) { p.And(q) }
		case "or":
			f = func(p, q *roaring64.Bitmap) { p.Or(q) }
		case "xor":
			f = func(p, q *roaring64.Bitmap) { p.Xor(q) }
		case "andnot":
			f = func(p, q *roaring64.Bitmap) { p.AndNot(q) }
		default:
			panic(skipErr{"unknown l2iop64 " + a[0]})
		}
		x, y := e.b64(a[1]), e.b64(a[2])
		rx, ry := repr64(x), repr64(y)
		f(x, y)
		return rx + " " + ry + " " + repr64(x) + " " + repr64(y)
	})
}
