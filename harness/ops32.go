package main

import (
	"fmt"
	"strconv"

	roaring "github.com/RoaringBitmap/roaring/v2"
)

func init() {
	reg("new", func(e *env, a []string) string {
		need(a, 1)
		e.bm[a[0]] = roaring.New()
		return d32(e.bm[a[0]])
	})
	reg("of", func(e *env, a []string) string {
		need(a, 1)
		vals := make([]uint32, 0, len(a)-1)
		for _, s := range a[1:] {
			vals = append(vals, u32(s))
		}
		e.bm[a[0]] = roaring.BitmapOf(vals...)
		return d32(e.bm[a[0]])
	})
	reg("clone", func(e *env, a []string) string {
		need(a, 2)
		y := e.b(a[1]).Clone()
		e.bm[a[0]] = y
		return d32(y)
	})
	reg("cowclone", func(e *env, a []string) string {
		need(a, 2)
		x := e.b(a[1])
		x.SetCopyOnWrite(true)
		y := x.Clone()
		e.bm[a[0]] = y
		return d32(y)
	})
	reg("setcow", func(e *env, a []string) string {
		need(a, 2)
		e.b(a[0]).SetCopyOnWrite(a[1] == "1")
		return "ok"
	})
	reg("detach", func(e *env, a []string) string {
		need(a, 1)
		x := e.b(a[0])
		x.CloneCopyOnWriteContainers()
		return d32(x)
	})
	reg("opt", func(e *env, a []string) string {
		need(a, 1)
		x := e.b(a[0])
		x.RunOptimize()
		return d32(x)
	})
	reg("clear", func(e *env, a []string) string {
		need(a, 1)
		x := e.b(a[0])
		x.Clear()
		return d32(x)
	})
	reg("add", func(e *env, a []string) string {
		need(a, 2)
		x := e.b(a[0])
		x.Add(u32(a[1]))
		return d32(x)
	})
	reg("addint", func(e *env, a []string) string {
		need(a, 2)
		x := e.b(a[0])
		x.AddInt(int(u32(a[1])))
		return d32(x)
	})
	reg("cadd", func(e *env, a []string) string {
		need(a, 2)
		x := e.b(a[0])
		r := x.CheckedAdd(u32(a[1]))
		return bstr(r) + " " + d32(x)
	})
	reg("rem", func(e *env, a []string) string {
		need(a, 2)
		x := e.b(a[0])
		x.Remove(u32(a[1]))
		return d32(x)
	})
	reg("crem", func(e *env, a []string) string {
		need(a, 2)
		x := e.b(a[0])
		r := x.CheckedRemove(u32(a[1]))
		return bstr(r) + " " + d32(x)
	})
	// addstride x start step count : AddMany of start + i*step, i < count (e.g. one value in each of the 65536 chunks)
	reg("addstride", func(e *env, a []string) string {
		need(a, 4)
		x := e.b(a[0])
		start, step, cnt := u64(a[1]), u64(a[2]), u64(a[3])
		if cnt > 1<<20 || step == 0 || (cnt > 0 && start+(cnt-1)*step >= 1<<32) {
			panic(skipErr{"stride out of range"})
		}
		vals := make([]uint32, cnt)
		for i := range vals {
			vals[i] = uint32(start + uint64(i)*step)
		}
		x.AddMany(vals)
		return d32(x)
	})
	// addmanyfrom x v n : AddMany([m, m+2, m+4, …]) (n+1 values, clipped below 2^32) where m is the smallest member >= v:
	// a batch whose FIRST value is already present and whose later values of the same chunk are mostly new
	reg("addmanyfrom", func(e *env, a []string) string {
		need(a, 3)
		x := e.b(a[0])
		v, n := u32(a[1]), int(u64(a[2]))
		step := uint64(2)
		if len(a) > 3 {
			step = u64(a[3])
		}
		if n > 100000 || step == 0 || step > 1<<20 {
			panic(skipErr{"too many"})
		}
		var m uint64
		found := false
		for _, iv := range ivs32(x) { // raw representation walk, not NextValue
			if iv.hi >= uint64(v) {
				m = iv.lo
				if m < uint64(v) {
					m = uint64(v)
				}
				found = true
				break
			}
		}
		if !found {
			return "none"
		}
		vals := make([]uint32, 0, n+1)
		for i := 0; i <= n; i++ {
			if w := m + step*uint64(i); w < 1<<32 {
				vals = append(vals, uint32(w))
			}
		}
		x.AddMany(vals)
		return d32(x)
	})
	reg("addmany", func(e *env, a []string) string {
		need(a, 1)
		x := e.b(a[0])
		vals := make([]uint32, 0, len(a)-1)
		for _, s := range a[1:] {
			vals = append(vals, u32(s))
		}
		x.AddMany(vals)
		return d32(x)
	})
	rangeOp := func(f func(x *roaring.Bitmap, s, t uint64)) cmdFunc {
		return func(e *env, a []string) string {
			need(a, 3)
			x := e.b(a[0])
			s, t := u64(a[1]), u64(a[2])
			f(x, s, t)
			return d32(x)
		}
	}
	reg("addr", rangeOp(func(x *roaring.Bitmap, s, t uint64) { x.AddRange(s, t) }))
	reg("remr", rangeOp(func(x *roaring.Bitmap, s, t uint64) { x.RemoveRange(s, t) }))
	reg("flip", rangeOp(func(x *roaring.Bitmap, s, t uint64) { x.Flip(s, t) }))
	reg("sflip", func(e *env, a []string) string {
		need(a, 4)
		x := e.b(a[1])
		y := roaring.Flip(x, u64(a[2]), u64(a[3]))
		e.bm[a[0]] = y
		return d32(y) + " " + d32(x)
	})
	static := func(f func(p, q *roaring.Bitmap) *roaring.Bitmap) cmdFunc {
		return func(e *env, a []string) string {
			need(a, 3)
			p, q := e.b(a[1]), e.b(a[2])
			y := f(p, q)
			e.bm[a[0]] = y
			return d32(y) + " " + d32(p) + " " + d32(q)
		}
	}
	reg("and", static(roaring.And))
	reg("or", static(roaring.Or))
	reg("xor", static(roaring.Xor))
	reg("andnot", static(roaring.AndNot))
	inplace := func(f func(p, q *roaring.Bitmap)) cmdFunc {
		return func(e *env, a []string) string {
			need(a, 2)
			p, q := e.b(a[0]), e.b(a[1])
			f(p, q)
			return d32(p) + " " + d32(q)
		}
	}
	reg("iand", inplace(func(p, q *roaring.Bitmap) { p.And(q) }))
	reg("ior", inplace(func(p, q *roaring.Bitmap) { p.Or(q) }))
	reg("ixor", inplace(func(p, q *roaring.Bitmap) { p.Xor(q) }))
	reg("iandnot", inplace(func(p, q *roaring.Bitmap) { p.AndNot(q) }))
	reg("andcard", func(e *env, a []string) string {
		need(a, 2)
		return strconv.FormatUint(e.b(a[0]).AndCardinality(e.b(a[1])), 10)
	})
	reg("orcard", func(e *env, a []string) string {
		need(a, 2)
		return strconv.FormatUint(e.b(a[0]).OrCardinality(e.b(a[1])), 10)
	})
	reg("isect", func(e *env, a []string) string {
		need(a, 2)
		return bstr(e.b(a[0]).Intersects(e.b(a[1])))
	})
	// queries
	reg("card", func(e *env, a []string) string {
		need(a, 1)
		return strconv.FormatUint(e.b(a[0]).GetCardinality(), 10)
	})
	reg("empty", func(e *env, a []string) string { need(a, 1); return bstr(e.b(a[0]).IsEmpty()) })
	reg("has", func(e *env, a []string) string { need(a, 2); return bstr(e.b(a[0]).Contains(u32(a[1]))) })
	reg("min", func(e *env, a []string) string {
		need(a, 1)
		return strconv.FormatUint(uint64(e.b(a[0]).Minimum()), 10)
	})
	reg("max", func(e *env, a []string) string {
		need(a, 1)
		return strconv.FormatUint(uint64(e.b(a[0]).Maximum()), 10)
	})
	reg("rank", func(e *env, a []string) string {
		need(a, 2)
		return strconv.FormatUint(e.b(a[0]).Rank(u32(a[1])), 10)
	})
	reg("sel", func(e *env, a []string) string {
		need(a, 2)
		v, err := e.b(a[0]).Select(u32(a[1]))
		if err != nil {
			return "err"
		}
		return strconv.FormatUint(uint64(v), 10)
	})
	reg("cir", func(e *env, a []string) string {
		need(a, 3)
		return strconv.FormatUint(e.b(a[0]).CardinalityInRange(u64(a[1]), u64(a[2])), 10)
	})
	reg("iwi", func(e *env, a []string) string {
		need(a, 3)
		return bstr(e.b(a[0]).IntersectsWithInterval(u64(a[1]), u64(a[2])))
	})
	reg("eq", func(e *env, a []string) string {
		need(a, 2)
		x, y := e.b(a[0]), e.b(a[1])
		r1, r2 := x.Equals(y), y.Equals(x)
		if r1 != r2 {
			return fmt.Sprintf("asymmetric:%v/%v", r1, r2)
		}
		return bstr(r1)
	})
	reg("toarr", func(e *env, a []string) string {
		need(a, 1)
		arr := e.b(a[0]).ToArray()
		if !sorted32(arr) {
			return "unsorted"
		}
		return fmt.Sprintf("%d %s", len(arr), digest(ivsOfSorted32(arr)))
	})
	reg("toexarr", func(e *env, a []string) string {
		need(a, 1)
		buf := make([]uint32, 3, 7)
		p := e.b(a[0]).ToExistingArray(&buf)
		arr := *p
		if !sorted32(arr) {
			return "unsorted"
		}
		return fmt.Sprintf("%d %s", len(arr), digest(ivsOfSorted32(arr)))
	})
	nb := func(f func(x *roaring.Bitmap, t uint32) int64) cmdFunc {
		return func(e *env, a []string) string {
			need(a, 2)
			return strconv.FormatInt(f(e.b(a[0]), u32(a[1])), 10)
		}
	}
	reg("nv", nb(func(x *roaring.Bitmap, t uint32) int64 { return x.NextValue(t) }))
	reg("pv", nb(func(x *roaring.Bitmap, t uint32) int64 { return x.PreviousValue(t) }))
	reg("nav", nb(func(x *roaring.Bitmap, t uint32) int64 { return x.NextAbsentValue(t) }))
	reg("pav", nb(func(x *roaring.Bitmap, t uint32) int64 { return x.PreviousAbsentValue(t) }))
	reg("dump", func(e *env, a []string) string { need(a, 1); return dumpIvs(ivs32(e.b(a[0]))) })
	reg("dig", func(e *env, a []string) string { need(a, 1); return d32(e.b(a[0])) })
	reg("chk", func(e *env, a []string) string {
		need(a, 1)
		return strconv.FormatUint(e.b(a[0]).Checksum(), 10)
	})
	reg("chkeq", func(e *env, a []string) string {
		// checksum stable under Clone and a serialize/deserialize round trip
		need(a, 1)
		x := e.b(a[0])
		c0 := x.Checksum()
		c1 := x.Clone().Checksum()
		bs, err := x.ToBytes()
		if err != nil {
			return "err:" + err.Error()
		}
		y := roaring.New()
		if _, err := y.FromUnsafeBytes(bs); err != nil {
			return "err:" + err.Error()
		}
		c2 := y.Checksum()
		return bstr(c0 == c1 && c0 == c2)
	})
	// well-formedness: Validate() + raw representation for the model's WF predicate
	reg("wf", func(e *env, a []string) string {
		need(a, 1)
		x := e.b(a[0])
		k, c, f := roaring.VerifShape(x)
		if k != c || c != f {
			return fmt.Sprintf("err:shape %d %d %d", k, c, f)
		}
		st := "ok"
		if err := x.Validate(); err != nil {
			st = "err:" + spaceless(err.Error())
		}
		return st + " " + repr32(x)
	})
	// size bound (C14): serialized size, N, max+1
	reg("size", func(e *env, a []string) string {
		need(a, 1)
		x := e.b(a[0])
		sz := x.GetSerializedSizeInBytes()
		bs, err := x.ToBytes()
		if err != nil {
			return "err:" + spaceless(err.Error())
		}
		n := x.GetCardinality()
		var u uint64
		if n > 0 {
			u = uint64(x.Maximum()) + 1
		}
		return fmt.Sprintf("%d %d %d", sz, len(bs), roaring.BoundSerializedSizeInBytes(n, u))
	})
	reg("off", func(e *env, a []string) string {
		need(a, 3)
		x := e.b(a[1])
		y := roaring.AddOffset64(x, i64(a[2]))
		e.bm[a[0]] = y
		return d32(y) + " " + d32(x)
	})
	reg("off32", func(e *env, a []string) string {
		need(a, 3)
		x := e.b(a[1])
		y := roaring.AddOffset(x, u32(a[2]))
		e.bm[a[0]] = y
		return d32(y) + " " + d32(x)
	})
}

func sorted32(a []uint32) bool {
	for i := 1; i < len(a); i++ {
		if a[i-1] >= a[i] {
			return false
		}
	}
	return true
}

func spaceless(s string) string {
	b := []byte(s)
	for i, c := range b {
		if c == ' ' || c == '\n' || c == '\t' {
			b[i] = '_'
		}
	}
	return string(b)
}
