package main

import (
	"strconv"
	"strings"

	"github.com/RoaringBitmap/roaring/v2/roaring64"
)

func init() {
	// bplanes s : the plane-level representation of a roaring64 BSI: number of planes, digest of the existence bitmap,
	// digest of every plane (least significant first, sign plane last)
	reg("bplanes", func(e *env, a []string) string {
		need(a, 1)
		s := e.bs(a[0])
		if !s.is64 {
			panic(skipErr{"32-bit index"})
		}
		planes, ebm := roaring64.VerifBSIPlanes(s.b64)
		out := []string{strconv.Itoa(len(planes)), d64(ebm)}
		for _, p := range planes {
			out = append(out, d64(p))
		}
		return strings.Join(out, " ")
	})
}
