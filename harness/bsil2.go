package main

import (
	"strconv"
	"strings"

	bsi32 "github.com/RoaringBitmap/roaring/v2/BitSliceIndexing"
	"github.com/RoaringBitmap/roaring/v2/roaring64"
)

func init() {
	// bplanes s : the plane-level representation of a BSI (roaring64.BSI or BitSliceIndexing.BSI): number of planes, digest of the existence bitmap,
	// digest of every plane (least significant first, sign plane last)
	reg("bplanes", func(e *env, a []string) string {
		need(a, 1)
		s := e.bs(a[0])
		if !s.is64 {
			// BitSliceIndexing.BSI (hook BitSliceIndexing.VerifBSIPlanes): same rendering; there is no sign plane, plane 63
			// (when the index has 64 planes) is the two's complement sign bit of the int64 value
			planes, ebm := bsi32.VerifBSIPlanes(s.b32)
			out := []string{strconv.Itoa(len(planes)), d32(ebm)}
			for _, p := range planes {
				out = append(out, d32(p))
			}
			return strings.Join(out, " ")
		}
		planes, ebm := roaring64.VerifBSIPlanes(s.b64)
		out := []string{strconv.Itoa(len(planes)), d64(ebm)}
		for _, p := range planes {
			out = append(out, d64(p))
		}
		return strings.Join(out, " ")
	})
}
