package main

import (
	"fmt"
	"math/bits"
	"strings"

	roaring "github.com/RoaringBitmap/roaring/v2"
	"github.com/RoaringBitmap/roaring/v2/roaring64"
)

// iv is an inclusive interval.
type iv struct{ lo, hi uint64 }

type ivBuilder struct {
	out []iv
}

func (b *ivBuilder) add(lo, hi uint64) {
	n := len(b.out)
	if n > 0 && b.out[n-1].hi+1 == lo && b.out[n-1].hi != ^uint64(0) {
		b.out[n-1].hi = hi
		return
	}
	b.out = append(b.out, iv{lo, hi})
}

// walkContainer appends the contents of one raw container (as stored, no library algorithm involved).
func walkContainer(b *ivBuilder, base uint64, c *roaring.VerifContainer) {
	switch c.Kind {
	case 'A':
		for _, v := range c.Array {
			b.add(base+uint64(v), base+uint64(v))
		}
	case 'B':
		for wi, w := range c.Words {
			for w != 0 {
				t := bits.TrailingZeros64(w)
				// run of ones starting at t
				r := bits.TrailingZeros64(^(w >> uint(t)))
				lo := base + uint64(wi*64+t)
				b.add(lo, lo+uint64(r)-1)
				if t+r >= 64 {
					w = 0
				} else {
					w &^= ((uint64(1) << uint(r)) - 1) << uint(t)
				}
			}
		}
	case 'R':
		for _, r := range c.Runs {
			b.add(base+uint64(r[0]), base+uint64(r[0])+uint64(r[1]))
		}
	}
}

func walk32(rb *roaring.Bitmap, base uint64, b *ivBuilder) {
	_, cs := roaring.VerifView(rb)
	for i := range cs {
		walkContainer(b, base+uint64(cs[i].Key)<<16, &cs[i])
	}
}

func ivs32(rb *roaring.Bitmap) []iv {
	var b ivBuilder
	walk32(rb, 0, &b)
	return b.out
}

func ivs64(rb *roaring64.Bitmap) []iv {
	var b ivBuilder
	_, bs := roaring64.VerifView64(rb)
	for _, bk := range bs {
		walk32(bk.Inner, uint64(bk.Key)<<32, &b)
	}
	return b.out
}

func ivsOfSorted32(vals []uint32) []iv {
	var b ivBuilder
	for _, v := range vals {
		b.add(uint64(v), uint64(v))
	}
	return b.out
}

func ivsOfSorted64(vals []uint64) []iv {
	var b ivBuilder
	for _, v := range vals {
		b.add(v, v)
	}
	return b.out
}

func digest(x []iv) string {
	h := uint64(1469598103934665603)
	for _, p := range x {
		h = (h ^ p.lo) * 1099511628211
		h = (h ^ p.hi) * 1099511628211
	}
	return fmt.Sprintf("%d:%016x", len(x), h)
}

func dumpIvs(x []iv) string {
	if len(x) == 0 {
		return "-"
	}
	var sb strings.Builder
	for i, p := range x {
		if i > 0 {
			sb.WriteByte(',')
		}
		if p.lo == p.hi {
			fmt.Fprintf(&sb, "%d", p.lo)
		} else {
			fmt.Fprintf(&sb, "%d-%d", p.lo, p.hi)
		}
	}
	return sb.String()
}

func d32(rb *roaring.Bitmap) string   { return digest(ivs32(rb)) }
func d64(rb *roaring64.Bitmap) string { return digest(ivs64(rb)) }

// repr32 renders the raw representation: "cow=0;key:A:v,v;key:B:card:w.w*n;key:R:s+l,s+l" (+"/f" when flagged)
func repr32(rb *roaring.Bitmap) string {
	cow, cs := roaring.VerifView(rb)
	var sb strings.Builder
	if cow {
		sb.WriteString("cow=1")
	} else {
		sb.WriteString("cow=0")
	}
	for i := range cs {
		sb.WriteByte(';')
		sb.WriteString(reprContainer(&cs[i], true))
	}
	return sb.String()
}

func reprContainer(c *roaring.VerifContainer, withKey bool) string {
	var sb strings.Builder
	if withKey {
		fmt.Fprintf(&sb, "%d:", c.Key)
	}
	switch c.Kind {
	case 'A':
		sb.WriteString("A:")
		for j, v := range c.Array {
			if j > 0 {
				sb.WriteByte(',')
			}
			fmt.Fprintf(&sb, "%d", v)
		}
	case 'B':
		fmt.Fprintf(&sb, "B:%d:", c.Card)
		j := 0
		first := true
		for j < len(c.Words) {
			k := j
			for k < len(c.Words) && c.Words[k] == c.Words[j] {
				k++
			}
			if !first {
				sb.WriteByte('.')
			}
			first = false
			fmt.Fprintf(&sb, "%x", c.Words[j])
			if k-j > 1 {
				fmt.Fprintf(&sb, "*%d", k-j)
			}
			j = k
		}
	case 'R':
		sb.WriteString("R:")
		for j, r := range c.Runs {
			if j > 0 {
				sb.WriteByte(',')
			}
			fmt.Fprintf(&sb, "%d+%d", r[0], r[1])
		}
	default:
		sb.WriteString("?")
	}
	if c.NeedCOW {
		sb.WriteString("/f")
	}
	return sb.String()
}
