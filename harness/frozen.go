package main

// Command family of the CRoaring "frozen" format (property C13, and the FrozenView part of C10).
//
//   frz x                          Freeze / FreezeTo (exact, +1, +4096) / WriteFrozenTo agree; prints the bytes
//   frzsmall x k                   FreezeTo into a buffer k bytes too small (k >= size: empty buffer)
//   frzwfail x off                 WriteFrozenTo into a writer failing after `off` bytes
//   fview y x [must] [reuse] [rw] [misalign=N] [place=end|heap]
//                                  y := FrozenView(Freeze(x)) on a read-only mapping (`rw`: left writable, so that a
//                                  stray write shows up in `fchk` as a modified buffer instead of as a fault)
//   fdec y hex [must] [misalign=N] [place=end|heap]
//                                  FrozenView on raw bytes (on a read-only mapping)
//   fspec y hex digest [misalign=N] [place=end|heap]
//                                  FrozenView on a layout-conformant stream made by an independent encoder
//   fchk y                         the buffer behind frozen view y still holds the bytes it was created with
//   fgc                            force garbage collections and recycle freed memory
//
// Every buffer handed to FrozenView lives in an anonymous mapping that is made read-only (PROT_READ) before the
// call and is followed by an inaccessible guard page, so a write through the view or a read past the mapping is a
// fault, which main() turns into a recoverable panic (debug.SetPanicOnFault).
//
// Alignment: by default the data starts at the beginning of the mapping (page aligned, so the 32-byte alignment the
// CRoaring layout asks for holds and every arena has its native alignment).  `misalign=N` moves the start N bytes
// up, `place=end` puts the data flush against the guard page (start address = -len mod page size, in general odd),
// `place=heap` uses an ordinary Go heap buffer instead of a mapping.
// The Go code casts the byte slice to []uint16 / []uint64 / []interval16 with unsafe.Slice without looking at the
// address: on amd64 misaligned loads work, so misaligned buffers behave exactly like aligned ones (observed: suite
// `frozenmis`); strict-alignment CPUs may fault.  A binary built with -race (checkptr) tolerates the misalignment too
// (checkptr only insists on alignment for element types that contain pointers) but aborts, with a fatal throw that
// cannot be recovered, on heap buffers shorter than 8 bytes, i.e. on the 4-byte stream of the empty bitmap
// (see FINDINGS.md).  The suites `frozen` and `fuzzfrozen` only use aligned buffers.

import (
	"bytes"
	"encoding/hex"
	"fmt"
	"runtime"
	"syscall"

	roaring "github.com/RoaringBitmap/roaring/v2"
)

type frozenBuf struct {
	mapping  []byte // the whole mapping (kept forever: views point into it)
	view     []byte // what FrozenView was given
	pristine []byte // heap copy of the bytes
}

// frozenBufs: name of a frozen view -> its buffer
var frozenBufs = map[string]*frozenBuf{}

const frozenSentinel = 0xA5

func protectedCopy(data []byte, misalign int, atEnd bool, writable ...bool) *frozenBuf {
	fb := &frozenBuf{pristine: append([]byte(nil), data...)}
	pg := syscall.Getpagesize()
	body := (len(data) + misalign + pg - 1) / pg * pg
	if body == 0 {
		body = pg
	}
	m, err := syscall.Mmap(-1, 0, body+pg, syscall.PROT_READ|syscall.PROT_WRITE, syscall.MAP_ANON|syscall.MAP_PRIVATE)
	if err != nil {
		panic(skipErr{"mmap: " + err.Error()})
	}
	start := misalign
	if atEnd {
		start = body - len(data)
	}
	copy(m[start:], data)
	if len(writable) == 0 || !writable[0] {
		if err := syscall.Mprotect(m[:body], syscall.PROT_READ); err != nil {
			panic(skipErr{"mprotect: " + err.Error()})
		}
	}
	if err := syscall.Mprotect(m[body:], syscall.PROT_NONE); err != nil {
		panic(skipErr{"mprotect: " + err.Error()})
	}
	fb.mapping = m
	fb.view = m[start : start+len(data) : start+len(data)]
	return fb
}

// heapCopy: an ordinary garbage-collected buffer (`place=heap`): no write protection and no guard page, but a
// harness built with -race then has checkptr look at the unsafe casts of the library (it knows heap allocations only).
func heapCopy(data []byte, misalign int) *frozenBuf {
	fb := &frozenBuf{pristine: append([]byte(nil), data...)}
	m := make([]byte, misalign+len(data))
	copy(m[misalign:], data)
	fb.mapping = m
	fb.view = m[misalign : misalign+len(data) : misalign+len(data)]
	return fb
}

func placement(opts []string) (misalign int, atEnd bool) {
	misalign = optInt(opts, "misalign", 0)
	if misalign < 0 || misalign > 4096 {
		panic(skipErr{"bad misalign"})
	}
	return misalign, hasTok(opts, "place=end")
}

func makeBuf(data []byte, opts []string) *frozenBuf {
	mis, atEnd := placement(opts)
	if hasTok(opts, "place=heap") {
		return heapCopy(data, mis)
	}
	return protectedCopy(data, mis, atEnd, hasTok(opts, "rw"))
}

func filled(n int) []byte {
	return bytes.Repeat([]byte{frozenSentinel}, n)
}

func allSentinel(b []byte) bool {
	for _, c := range b {
		if c != frozenSentinel {
			return false
		}
	}
	return true
}

func init() {
	reg("frz", func(e *env, a []string) string {
		need(a, 1)
		x := e.b(a[0])
		rep := repr32(x)
		size := x.GetFrozenSizeInBytes()
		bs, err := x.Freeze()
		if err != nil {
			return "err:" + spaceless(err.Error())
		}
		agree := "true"
		fail := func(why string) {
			if agree == "true" {
				agree = "false:" + why
			}
		}
		if uint64(len(bs)) != size {
			fail("len(Freeze)")
		}
		for _, extra := range []int{0, 1, 4096} {
			buf := filled(int(size) + extra)
			n, err := x.FreezeTo(buf)
			switch {
			case err != nil:
				fail(fmt.Sprintf("FreezeTo+%d:err", extra))
			case uint64(n) != size:
				fail(fmt.Sprintf("FreezeTo+%d:n=%d", extra, n))
			case !bytes.Equal(buf[:n], bs):
				fail(fmt.Sprintf("FreezeTo+%d:bytes", extra))
			case !allSentinel(buf[n:]):
				fail(fmt.Sprintf("FreezeTo+%d:tail-written", extra))
			}
		}
		var w bytes.Buffer
		n, err := x.WriteFrozenTo(&w)
		switch {
		case err != nil:
			fail("WriteFrozenTo:err")
		case uint64(n) != size:
			fail(fmt.Sprintf("WriteFrozenTo:n=%d", n))
		case !bytes.Equal(w.Bytes(), bs):
			fail("WriteFrozenTo:bytes")
		}
		if repr32(x) != rep {
			fail("receiver-changed")
		}
		return fmt.Sprintf("%s %s %d %s", rep, hex.EncodeToString(bs), size, agree)
	})
	reg("frzsmall", func(e *env, a []string) string {
		need(a, 2)
		x := e.b(a[0])
		k := int(u64(a[1]))
		if k < 1 {
			panic(skipErr{"k must be >= 1"})
		}
		size := int(x.GetFrozenSizeInBytes())
		n := size - k
		if n < 0 {
			n = 0
		}
		// the too-short destination is a window of a larger region (spare capacity behind it): the region beyond the
		// window belongs to the caller just as much as the window does
		region := filled(size + 64)
		buf := region[:n]
		if hasTok(a[2:], "exact") {
			buf = filled(n)
			region = buf
		}
		if hasTok(a[2:], "nil") && n == 0 {
			buf = nil
		}
		w, err := x.FreezeTo(buf)
		st := "ok"
		if err != nil {
			st = "err"
		}
		if w != 0 && err != nil {
			st = fmt.Sprintf("err:n=%d", w)
		}
		t := "untouched"
		if !allSentinel(buf) || !allSentinel(region) {
			t = "modified"
		}
		return st + " " + t
	})
	reg("frzwfail", func(e *env, a []string) string {
		need(a, 2)
		x := e.b(a[0])
		fw := &failWriter{limit: int(u64(a[1]))}
		n, err := x.WriteFrozenTo(fw)
		st := "ok"
		if err != nil {
			st = "err"
		}
		return fmt.Sprintf("%s %d %d", st, n, x.GetFrozenSizeInBytes())
	})
	reg("fview", func(e *env, a []string) string {
		need(a, 2)
		x := e.b(a[1])
		opts := a[2:]
		xrep := repr32(x)
		bs, err := x.Freeze()
		if err != nil {
			return "err:" + spaceless(err.Error())
		}
		fb := makeBuf(bs, opts)
		var y *roaring.Bitmap
		if hasTok(opts, "reuse") {
			y = e.bm[a[0]]
		}
		if y == nil {
			y = roaring.New()
		}
		delete(e.bm, a[0])
		if hasTok(opts, "must") {
			err = y.MustFrozenView(fb.view)
		} else {
			err = y.FrozenView(fb.view)
		}
		if err != nil {
			return "err:" + spaceless(err.Error())
		}
		e.bm[a[0]] = y
		e.bufs[a[0]] = fb.view
		frozenBufs[a[0]] = fb
		v := "ok"
		if verr := y.Validate(); verr != nil {
			v = "invalid:" + spaceless(verr.Error())
		}
		k, c, f := roaring.VerifShape(y)
		if k != c || c != f {
			v = fmt.Sprintf("shape:%d,%d,%d", k, c, f)
		}
		return fmt.Sprintf("%s %s %s %s %s", d32(y), v, bstr(y.Equals(x)), xrep, repr32(y))
	})
	reg("fdec", func(e *env, a []string) string {
		need(a, 2)
		hx := a[1]
		if hx == "-" {
			hx = ""
		}
		data, err := hex.DecodeString(hx)
		if err != nil {
			panic(skipErr{"bad hex"})
		}
		opts := a[2:]
		delete(e.bm, a[0])
		fb := makeBuf(data, opts)
		view := fb.view
		if hasTok(opts, "nil") && len(data) == 0 {
			view = nil
		}
		y := roaring.New()
		if hasTok(opts, "must") {
			err = y.MustFrozenView(view)
		} else {
			err = y.FrozenView(view)
		}
		if err != nil {
			return "err"
		}
		v := "valid"
		if verr := y.Validate(); verr != nil {
			v = "invalid"
		} else {
			e.bm[a[0]] = y
			e.bufs[a[0]] = fb.view
			frozenBufs[a[0]] = fb
		}
		return fmt.Sprintf("ok %s %s", repr32(y), v)
	})
	// fspec y hex digest : a layout-conformant stream produced by an independent encoder
	reg("fspec", func(e *env, a []string) string {
		need(a, 3)
		data, err := hex.DecodeString(a[1])
		if err != nil {
			panic(skipErr{"bad hex"})
		}
		delete(e.bm, a[0])
		fb := makeBuf(data, a[3:])
		y := roaring.New()
		if err := y.FrozenView(fb.view); err != nil {
			return "err:" + spaceless(err.Error())
		}
		e.bm[a[0]] = y
		e.bufs[a[0]] = fb.view
		frozenBufs[a[0]] = fb
		return fmt.Sprintf("ok %s", d32(y))
	})
	reg("fchk", func(e *env, a []string) string {
		need(a, 1)
		fb, ok := frozenBufs[a[0]]
		if !ok {
			panic(skipErr{"no frozen buffer " + a[0]})
		}
		if bytes.Equal(fb.view, fb.pristine) {
			return "intact"
		}
		for i := range fb.view {
			if fb.view[i] != fb.pristine[i] {
				return fmt.Sprintf("modified@%d", i)
			}
		}
		return "modified"
	})
	reg("fgc", func(e *env, a []string) string {
		// collect twice (so that unreachable objects are swept), then recycle the freed memory of the small size classes
		runtime.GC()
		runtime.GC()
		var keep [][]uint64
		for _, words := range []int{1, 2, 3, 4, 6, 8, 12, 16, 32, 64, 128, 1024} {
			for i := 0; i < 4000/words+64; i++ {
				s := make([]uint64, words)
				for j := range s {
					s[j] = 0xDEADDEADDEADDEAD
				}
				keep = append(keep, s)
			}
		}
		runtime.KeepAlive(keep)
		return "ok"
	})
}
