package main

// The byte-input layer (internal.ByteInput: ByteBuffer vs ByteInputAdapter), driven through the hook
// roaring.VerifByteInputRun (verif_hooks_bytein.go).
//
//   bytein <buf|adapter> <data> <chunks> <errAt|-1> <op>...
//     data   : hex string | "-" (empty) | g<len>:<seed>  (byte i = (((i+seed)*2654435761) mod 2^32) >> 24)
//     chunks : csv of chunk sizes | "-" (no limit), an optional trailing "!" = the reader returns its final error together
//              with the last bytes (eager EOF); ignored by `buf`
//     errAt  : the reader fails once that many bytes were delivered (-1: never); ignored by `buf`
//     op     : n<k> Next(k) | s<k> SkipBytes(k) | u32 | u16
//   output: one token per op
//     ok:<v>:<GetReadBytes>   v = hex of the bytes ("-" if none, "#<len>.<fnv64>" if more than 24), the integer in decimal, "." for a skip
//     eof:<rb> (io.EOF) | ueof:<rb> (io.ErrUnexpectedEOF) | err:<rb> (another error) | panic
//   and a final token  safe=<NextReturnsSafeSlice>,alias=<Next results inside the input slice>,stable=<results intact and disjoint>

import (
	"encoding/hex"
	"fmt"
	"strconv"
	"strings"

	roaring "github.com/RoaringBitmap/roaring/v2"
)

func byteinData(s string) []byte {
	if s == "-" {
		return []byte{}
	}
	if strings.HasPrefix(s, "g") {
		p := strings.SplitN(s[1:], ":", 2)
		if len(p) != 2 {
			panic(skipErr{"bad data " + s})
		}
		n, seed := u64(p[0]), u64(p[1])
		if n > 1<<24 || seed > 1<<32 {
			panic(skipErr{"bad data " + s})
		}
		out := make([]byte, n)
		for i := range out {
			out[i] = byte((((uint64(i) + seed) * 2654435761) & 0xFFFFFFFF) >> 24)
		}
		return out
	}
	b, err := hex.DecodeString(s)
	if err != nil {
		panic(skipErr{"bad hex"})
	}
	return b
}

func byteinBytes(b []byte) string {
	if len(b) == 0 {
		return "-"
	}
	if len(b) <= 24 {
		return hex.EncodeToString(b)
	}
	h := uint64(1469598103934665603)
	for _, x := range b {
		h = (h ^ uint64(x)) * 1099511628211
	}
	return fmt.Sprintf("#%d.%016x", len(b), h)
}

func init() {
	reg("bytein", func(e *env, a []string) string {
		need(a, 4)
		var adapter bool
		switch a[0] {
		case "buf":
		case "adapter":
			adapter = true
		default:
			panic(skipErr{"bad kind"})
		}
		data := byteinData(a[1])
		cs := a[2]
		eager := strings.HasSuffix(cs, "!")
		cs = strings.TrimSuffix(cs, "!")
		var chunks []int
		if cs != "-" {
			for _, t := range strings.Split(cs, ",") {
				chunks = append(chunks, int(u32(t)))
			}
		}
		errAt := int(i64(a[3]))
		if errAt < -1 {
			panic(skipErr{"bad errAt"})
		}
		var ops []roaring.VerifByteOp
		for _, t := range a[4:] {
			switch {
			case t == "u32":
				ops = append(ops, roaring.VerifByteOp{Kind: '4'})
			case t == "u16":
				ops = append(ops, roaring.VerifByteOp{Kind: '2'})
			case len(t) > 1 && (t[0] == 'n' || t[0] == 's'):
				k := u64(t[1:])
				if k > 1<<26 {
					panic(skipErr{"request too large"})
				}
				ops = append(ops, roaring.VerifByteOp{Kind: t[0], N: int(k)})
			default:
				panic(skipErr{"bad op " + t})
			}
		}
		run := roaring.VerifByteInputRun(data, chunks, errAt, eager, adapter, ops)
		out := make([]string, 0, len(ops)+1)
		for i, r := range run.Res {
			rb := strconv.FormatInt(r.ReadBytes, 10)
			switch r.Class {
			case 'k':
				v := "."
				switch ops[i].Kind {
				case 'n':
					v = byteinBytes(r.Data)
				case '4', '2':
					v = strconv.FormatUint(uint64(r.Val), 10)
				}
				out = append(out, "ok:"+v+":"+rb)
			case 'e':
				out = append(out, "eof:"+rb)
			case 'u':
				out = append(out, "ueof:"+rb)
			case 'x':
				out = append(out, "err:"+rb)
			default:
				out = append(out, "panic")
			}
		}
		b01 := func(b bool) string {
			if b {
				return "1"
			}
			return "0"
		}
		out = append(out, "safe="+b01(run.Safe)+",alias="+strconv.Itoa(run.Aliased)+",stable="+b01(run.Stable))
		return strings.Join(out, " ")
	})
}
