package main

// Many-way aggregates (C11), their value semantics (C07) and the goroutine-parallel code (C12).
//
//   fastor y a…  | fastand y a…  | heapor y a…  | heapxor y a…
//   paror y w a… | parand y w a… | parheapor y w a…            (w = parallelism, >= 0)
//        => "<digest y> <digest a1> … <digest an> slice=ok|changed"
//   andany x a…   (in place on x, non-empty list; the empty list is outside the property's domain => skip:domain)
//        => "<digest x> <digest a1> … <digest an> slice=ok|changed"
//   aggindep y a res|in [b…]  => "<digest of the mutated one> <digest of the other> <digest b>…"   (see below)
//   sched <fn> gomaxprocs=<n> workers=<w> reps=<r> [noise=<k>] a…   fn ∈ paror | parand | parheapor
//        => "<digest> same=<bool> leak=<n> in=ok|changed"   |  "hang" (then the harness exits)
//   concdec k x [readfrom|frombuffer|mixed]   => "ok" | "diff" | "err" | "panic"
//
// The operand digests are taken AFTER the call through the raw representation; "slice" tells whether the caller's
// []*Bitmap still holds the same pointers in the same order.

import (
	"bytes"
	"fmt"
	"os"
	"runtime"
	"strconv"
	"strings"
	"sync"
	"time"

	roaring "github.com/RoaringBitmap/roaring/v2"
)

// watchdog for one call of a parallel aggregate (override: VERIF_WATCHDOG_MS)
var aggWatchdog = func() time.Duration {
	if v := os.Getenv("VERIF_WATCHDOG_MS"); v != "" {
		if ms, err := strconv.Atoi(v); err == nil && ms > 0 {
			return time.Duration(ms) * time.Millisecond
		}
	}
	return 20 * time.Second
}()

type aggOutcome struct {
	res *roaring.Bitmap
	pan interface{}
}

// guarded runs f on its own goroutine under a watchdog.  A deadlock inside the library must not block the harness
// forever: on timeout the line "hang" is written and the process exits (a stuck goroutine cannot be killed).
func guarded(f func() *roaring.Bitmap) *roaring.Bitmap {
	done := make(chan aggOutcome, 1)
	go func() {
		var o aggOutcome
		defer func() {
			if r := recover(); r != nil {
				o.pan = r
			}
			done <- o
		}()
		o.res = f()
	}()
	select {
	case o := <-done:
		if o.pan != nil {
			panic(o.pan) // re-raise on the command goroutine: becomes "panic:<msg>"
		}
		return o.res
	case <-time.After(aggWatchdog):
		fmt.Fprintln(os.Stdout, "hang")
		os.Stdout.Sync()
		os.Exit(0)
	}
	return nil
}

func (e *env) operands(names []string) []*roaring.Bitmap {
	ops := make([]*roaring.Bitmap, len(names))
	for i, n := range names {
		ops[i] = e.b(n)
	}
	return ops
}

func sliceToken(orig, passed []*roaring.Bitmap) string {
	if len(orig) != len(passed) {
		return "slice=changed"
	}
	for i := range orig {
		if orig[i] != passed[i] {
			return "slice=changed"
		}
	}
	return "slice=ok"
}

func aggReport(first *roaring.Bitmap, orig, passed []*roaring.Bitmap) string {
	var sb strings.Builder
	sb.WriteString(d32(first))
	for _, o := range orig {
		sb.WriteByte(' ')
		sb.WriteString(d32(o))
	}
	sb.WriteByte(' ')
	sb.WriteString(sliceToken(orig, passed))
	// the result of an aggregate is a library-made bitmap: it validates (C09)
	if err := first.Validate(); err != nil {
		sb.WriteString(" valid=no:" + spaceless(err.Error()))
	} else {
		sb.WriteString(" valid=ok")
	}
	return sb.String()
}

func aggWorkers(s string) int {
	v := u64(s)
	if v > 1<<16 {
		panic(skipErr{"workers out of domain"})
	}
	return int(v)
}

type parFn func(w int, bs ...*roaring.Bitmap) *roaring.Bitmap

var parFns = map[string]parFn{
	"paror":     roaring.ParOr,
	"parand":    roaring.ParAnd,
	"parheapor": roaring.ParHeapOr,
}

func init() {
	seq := func(f func(bs ...*roaring.Bitmap) *roaring.Bitmap) cmdFunc {
		return func(e *env, a []string) string {
			need(a, 1)
			orig := e.operands(a[1:])
			passed := append([]*roaring.Bitmap(nil), orig...)
			y := f(passed...)
			out := aggReport(y, orig, passed)
			e.bm[a[0]] = y
			return out
		}
	}
	reg("fastor", seq(roaring.FastOr))
	reg("fastand", seq(roaring.FastAnd))
	reg("heapor", seq(roaring.HeapOr))
	reg("heapxor", seq(roaring.HeapXor))

	par := func(f parFn) cmdFunc {
		return func(e *env, a []string) string {
			need(a, 2)
			w := aggWorkers(a[1])
			orig := e.operands(a[2:])
			passed := append([]*roaring.Bitmap(nil), orig...)
			y := guarded(func() *roaring.Bitmap { return f(w, passed...) })
			out := aggReport(y, orig, passed)
			e.bm[a[0]] = y
			return out
		}
	}
	for name, f := range parFns {
		reg(name, par(f))
	}

	reg("andany", func(e *env, a []string) string {
		need(a, 1)
		x := e.b(a[0])
		orig := e.operands(a[1:])
		if len(orig) == 0 {
			panic(skipErr{"domain"})
		}
		passed := append([]*roaring.Bitmap(nil), orig...)
		x.AndAny(passed...)
		return aggReport(x, orig, passed)
	})

	// aggmany <fn> w n k1 k2 : an aggregate over a LONG list of n small bitmaps built here (not named): bitmap i holds the two common
	// values k1<<16|1 and k2<<16|2 and the two own values k1<<16|(10+i%60000), k2<<16|(10+i%50000).  Output: digest of the result.
	reg("aggmany", func(e *env, a []string) string {
		need(a, 5)
		w, n := aggWorkers(a[1]), int(u64(a[2]))
		k1, k2 := uint32(u64(a[3])), uint32(u64(a[4]))
		if n < 1 || n > 1<<18 || k1 > 65535 || k2 > 65535 || k1 == k2 {
			panic(skipErr{"domain"})
		}
		list := make([]*roaring.Bitmap, n)
		for i := range list {
			list[i] = roaring.BitmapOf(k1<<16|1, k2<<16|2, k1<<16|uint32(10+i%60000), k2<<16|uint32(10+i%50000))
		}
		var y *roaring.Bitmap
		switch a[0] {
		case "fastor":
			y = roaring.FastOr(list...)
		case "fastand":
			y = roaring.FastAnd(list...)
		case "heapor":
			y = roaring.HeapOr(list...)
		case "paror", "parand", "parheapor":
			y = parFns[a[0]](w, list...)
		default:
			panic(skipErr{"function"})
		}
		v := "valid=ok"
		if err := y.Validate(); err != nil {
			v = "valid=no:" + spaceless(err.Error())
		}
		return d32(y) + " " + v
	})
	// aggindep y a res|in: y was produced by an aggregate from inputs including a.  For every chunk of a, with m = the
	// smallest member of a in that chunk and g = the first value after m absent from a (if still inside the chunk):
	// Add(g) then Remove(m) on the target (res: the result y; in: the input a) - single-value updates, which work in
	// place on whatever container the target holds.  Output "<digest target> <digest other>": the other one must not move.
	reg("aggindep", func(e *env, a []string) string {
		need(a, 3)
		if a[0] == a[1] {
			panic(skipErr{"domain"})
		}
		y, x := e.b(a[0]), e.b(a[1])
		for _, n := range a[3:] {
			e.b(n) // undefined names => skip before anything is mutated
		}
		var target, other *roaring.Bitmap
		switch a[2] {
		case "res":
			target, other = y, x
		case "in":
			target, other = x, y
		default:
			panic(skipErr{"direction"})
		}
		type upd struct {
			m    uint32
			g    uint32
			hasG bool
		}
		var ups []upd
		lastKey := int64(-1)
		for _, p := range ivs32(x) {
			for k := p.lo >> 16; k <= p.hi>>16; k++ {
				if int64(k) == lastKey {
					continue
				}
				lastKey = int64(k)
				u := upd{}
				if p.lo > k<<16 {
					u.m = uint32(p.lo)
				} else {
					u.m = uint32(k << 16)
				}
				if p.hi>>16 == k && (p.hi+1)>>16 == k {
					u.g, u.hasG = uint32(p.hi+1), true
				}
				ups = append(ups, u)
			}
		}
		for _, u := range ups {
			if u.hasG {
				target.Add(u.g)
			}
			target.Remove(u.m)
		}
		out := d32(target) + " " + d32(other)
		// further names (the other operands of the aggregate): none of them may move either
		for _, n := range a[3:] {
			out += " " + d32(e.b(n))
		}
		return out
	})

	reg("sched", func(e *env, a []string) string {
		need(a, 1)
		f, ok := parFns[a[0]]
		if !ok {
			panic(skipErr{"unknown fn"})
		}
		var names []string
		for _, s := range a[1:] {
			if !strings.Contains(s, "=") {
				names = append(names, s)
			}
		}
		procs := optInt(a, "gomaxprocs", 1)
		w := optInt(a, "workers", 0)
		reps := optInt(a, "reps", 1)
		noise := optInt(a, "noise", 0)
		if noise < 0 || noise > 64 {
			panic(skipErr{"domain"})
		}
		if procs < 1 || procs > 256 || w < 0 || w > 1<<16 || reps < 1 || reps > 10000 {
			panic(skipErr{"domain"})
		}
		orig := e.operands(names)
		before := make([]string, len(orig))
		for i, o := range orig {
			before[i] = d32(o)
		}
		// let goroutines of earlier commands finish before taking the baseline
		base := stableGoroutines()
		prev := runtime.GOMAXPROCS(procs)
		defer runtime.GOMAXPROCS(prev)
		// optional schedule noise: goroutines that do nothing but yield, to shake the interleavings
		stop := make(chan struct{})
		var nwg sync.WaitGroup
		for i := 0; i < noise; i++ {
			nwg.Add(1)
			go func() {
				defer nwg.Done()
				for {
					select {
					case <-stop:
						return
					default:
						runtime.Gosched()
					}
				}
			}()
		}
		first := ""
		same := true
		for i := 0; i < reps; i++ {
			passed := append([]*roaring.Bitmap(nil), orig...) // fresh slice: ParOr may compact its argument
			y := guarded(func() *roaring.Bitmap { return f(w, passed...) })
			d := d32(y)
			if i == 0 {
				first = d
			} else if d != first {
				same = false
			}
		}
		close(stop)
		nwg.Wait()
		now := settle(base, time.Second)
		leak := 0
		if now > base {
			leak = now - base
		}
		in := "in=ok"
		for i, o := range orig {
			if d32(o) != before[i] {
				in = "in=changed"
			}
		}
		return fmt.Sprintf("%s same=%s leak=%d %s", first, bstr(same), leak, in)
	})

	// concdec k x: k independent serialisations of x decoded concurrently (ReadFrom on a non-ByteInput reader goes
	// through the process-wide ByteInputAdapterPool); every goroutine decodes several times from trickling readers so
	// that adapters are recycled while other decodes are in flight.
	reg("concdec", func(e *env, a []string) string {
		need(a, 2)
		k := int(u64(a[0]))
		if k < 1 || k > 256 {
			panic(skipErr{"domain"})
		}
		x := e.b(a[1])
		mode := "readfrom"
		if len(a) > 2 {
			mode = a[2]
			if mode != "readfrom" && mode != "frombuffer" && mode != "mixed" && mode != "afterfail" {
				panic(skipErr{"mode"})
			}
		}
		want := d32(x)
		src, err := x.ToBytes()
		if err != nil {
			return "err"
		}
		if mode == "afterfail" {
			// failed decodes first (truncated streams, a reader that errors, empty input) through every pooled path: whatever
			// they leave in the process-wide pools must not disturb the concurrent decodes that follow
			for i := 0; i < 48; i++ {
				cut := (i * 7) % (len(src))
				y := roaring.New()
				switch i % 3 {
				case 0:
					_, err = y.ReadFrom(bytes.NewReader(src[:cut]))
				case 1:
					_, err = y.FromBuffer(src[:cut:cut])
				default:
					_, err = y.ReadFrom(&chunkReader{data: src[:cut], chunk: 1 + i%5})
				}
				if err == nil {
					return fmt.Sprintf("accepted-prefix@%d", cut)
				}
			}
			mode = "readfrom"
		}
		const rounds = 8
		results := make([]string, k)
		var wg sync.WaitGroup
		start := make(chan struct{})
		for g := 0; g < k; g++ {
			buf := append([]byte(nil), src...) // independent source
			wg.Add(1)
			go func(g int, buf []byte) {
				defer wg.Done()
				defer func() {
					if r := recover(); r != nil {
						results[g] = "panic"
					}
				}()
				<-start
				res := "ok"
				for r := 0; r < rounds; r++ {
					y := roaring.New()
					var n int64
					var err error
					if mode == "frombuffer" || (mode == "mixed" && (g+r)%2 == 1) {
						// FromBuffer borrows a *ByteBuffer from the process-wide ByteBufferPool
						n, err = y.FromBuffer(buf)
						runtime.Gosched()
					} else {
						rd := &yieldReader{r: bytes.NewReader(buf), chunk: 1 + (g+r)%7}
						n, err = y.ReadFrom(rd)
					}
					if err != nil || n != int64(len(buf)) || d32(y) != want {
						res = "diff"
					}
				}
				results[g] = res
			}(g, buf)
		}
		close(start)
		wg.Wait()
		for _, r := range results {
			if r != "ok" {
				return r
			}
		}
		if d32(x) != want {
			return "diff"
		}
		return "ok"
	})
}

// stableGoroutines waits (at most ~300 ms) until the goroutine count stops moving and returns it.
func stableGoroutines() int {
	n := runtime.NumGoroutine()
	streak := 0
	for i := 0; i < 600 && streak < 4; i++ {
		time.Sleep(300 * time.Microsecond)
		m := runtime.NumGoroutine()
		if m == n {
			streak++
		} else {
			n, streak = m, 0
		}
	}
	return n
}

// settle polls NumGoroutine until it is <= target or the deadline passes; returns the last count.
func settle(target int, max time.Duration) int {
	deadline := time.Now().Add(max)
	n := runtime.NumGoroutine()
	for n > target && time.Now().Before(deadline) {
		runtime.Gosched()
		time.Sleep(2 * time.Millisecond)
		n = runtime.NumGoroutine()
	}
	return n
}

// yieldReader hands out small pieces and yields the processor between them.
type yieldReader struct {
	r     *bytes.Reader
	chunk int
	calls int
}

func (y *yieldReader) Read(p []byte) (int, error) {
	if len(p) > y.chunk*64 {
		p = p[:y.chunk*64]
	}
	y.calls++
	if y.calls%3 == 0 {
		runtime.Gosched()
	}
	return y.r.Read(p)
}
