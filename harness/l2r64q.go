package main

// Exact-representation tie of the roaring64 point mutators and read-only drivers
// (lean/RModel/Impl/Rep64Mut.lean, lean/RModel/Impl/Rep64Query.lean; checker lean/RModel/Driver/L2R64Q.lean).
//
// repr64 as in l2r64.go.
//
//   l2mut64 <op> x args...        output: <repr64(x) before> <result token> <repr64(x) after>
//       add v | cadd v | rem v | crem v      v a decimal uint64           result token: - | true/false (Checked*)
//       addint v                             v a decimal int64 (may be negative: AddInt casts to uint64)
//       addmany v...                         (possibly no value)
//       clear
//   l2q64 <query> x [args...]     output: <repr64(x)> <answer>
//       card | empty | has v | hasint v | min | max | rank v | sel i
//       answers as the L1 commands card64 .. print them; `err` for Select's error, `panic` for a Go panic inside the query
//       (Minimum / Maximum of an empty bitmap)
//   l2q64 <andcard|orcard|isect|eq> x y     output: <repr64(x)> <repr64(y)> <answer>     (`eq` is x.Equals(y))
//   l2agg64 <fastor|fastand> z x1 .. xn      z = roaring64.FastOr / FastAnd (x1, .., xn)  (n >= 0), registered as 64-bit bitmap z
//       output: <repr64(x1) before> .. <repr64(xn) before> <repr64(z)> <repr64(x1) after> .. <repr64(xn) after>
// The raw representation is printed BEFORE a query; if the call changes it (a query must not), `!chg` is appended.

import (
	"runtime" // [paror]
	"strconv"
	"strings" // [paror]
	"time"    // [paror]

	"github.com/RoaringBitmap/roaring/v2/roaring64"
)

// [paror] l2agg64 paror:<w> z x1 .. xn     z = roaring64.ParOr(w, x1, .., xn)   (w >= 0 the `parallelism` argument, 0 = runtime.NumCPU())
//     output: as for fastor, followed by one more token `ncpu=<runtime.NumCPU()>`.  The call runs in its own goroutine; if it has
//     not returned after 60 s the line is `panic:timeout..` (a lost work item / a blocked channel).
func parOr64Guarded(w int) func(bs ...*roaring64.Bitmap) *roaring64.Bitmap {
	return func(bs ...*roaring64.Bitmap) *roaring64.Bitmap {
		type res struct {
			z   *roaring64.Bitmap
			err interface{}
		}
		passed := append([]*roaring64.Bitmap(nil), bs...)
		done := make(chan res, 1)
		go func() {
			defer func() {
				if r := recover(); r != nil {
					done <- res{nil, r}
				}
			}()
			done <- res{roaring64.ParOr(w, passed...), nil}
		}()
		select {
		case r := <-done:
			if r.err != nil {
				panic(r.err)
			}
			return r.z
		case <-time.After(60 * time.Second):
			panic("timeout: roaring64.ParOr did not return within 60 s")
		}
	}
}

func init() {
	reg("l2mut64", func(e *env, a []string) string {
		need(a, 2)
		op := a[0]
		x := e.b64(a[1])
		args := a[2:]
		var f func() string
		switch op {
		case "add":
			need(args, 1)
			v := u64(args[0])
			f = func() string { x.Add(v); return "-" }
		case "cadd":
			need(args, 1)
			v := u64(args[0])
			f = func() string { return bstr(x.CheckedAdd(v)) }
		case "addint":
			need(args, 1)
			v := i64(args[0])
			f = func() string { x.AddInt(int(v)); return "-" }
		case "rem":
			need(args, 1)
			v := u64(args[0])
			f = func() string { x.Remove(v); return "-" }
		case "crem":
			need(args, 1)
			v := u64(args[0])
			f = func() string { return bstr(x.CheckedRemove(v)) }
		case "addmany":
			vs := make([]uint64, len(args))
			for i, t := range args {
				vs[i] = u64(t)
			}
			f = func() string { x.AddMany(vs); return "-" }
		case "clear":
			f = func() string { x.Clear(); return "-" }
		default:
			panic(skipErr{"unknown l2mut64 " + op})
		}
		rx := repr64(x)
		tok := f()
		return rx + " " + tok + " " + repr64(x)
	})
	reg("l2agg64", func(e *env, a []string) string {
		need(a, 2)
		var f func(bs ...*roaring64.Bitmap) *roaring64.Bitmap
		switch a[0] {
		case "fastor":
			f = roaring64.FastOr
		case "fastand":
			f = roaring64.FastAnd
		default:
			if strings.HasPrefix(a[0], "paror:") { // [paror]
				w := int(u64(a[0][6:]))
				if w < 0 || w > 1<<20 {
					panic(skipErr{"domain"})
				}
				f = parOr64Guarded(w)
				break
			}
			panic(skipErr{"unknown l2agg64 " + a[0]})
		}
		var bs []*roaring64.Bitmap
		for _, n := range a[2:] {
			bs = append(bs, e.b64(n))
		}
		out := ""
		for _, b := range bs {
			out += repr64(b) + " "
		}
		z := f(bs...)
		out += repr64(z)
		for _, b := range bs {
			out += " " + repr64(b)
		}
		e.bm64[a[1]] = z
		if strings.HasPrefix(a[0], "paror:") { // [paror]
			out += " ncpu=" + strconv.Itoa(runtime.NumCPU())
		}
		return out
	})
	reg("l2q64", func(e *env, a []string) string {
		need(a, 2)
		q := a[0]
		x := e.b64(a[1])
		args := a[2:]
		u := func(v uint64) string { return strconv.FormatUint(v, 10) }
		var y *roaring64.Bitmap
		var f func() string
		switch q {
		case "card":
			f = func() string { return u(x.GetCardinality()) }
		case "empty":
			f = func() string { return bstr(x.IsEmpty()) }
		case "has":
			need(args, 1)
			v := u64(args[0])
			f = func() string { return bstr(x.Contains(v)) }
		case "hasint":
			need(args, 1)
			v := i64(args[0])
			f = func() string { return bstr(x.ContainsInt(int(v))) }
		case "min":
			f = func() string { return u(x.Minimum()) }
		case "max":
			f = func() string { return u(x.Maximum()) }
		case "rank":
			need(args, 1)
			v := u64(args[0])
			f = func() string { return u(x.Rank(v)) }
		case "sel":
			need(args, 1)
			v := u64(args[0])
			f = func() string {
				r, err := x.Select(v)
				if err != nil {
					return "err"
				}
				return u(r)
			}
		case "andcard":
			need(args, 1)
			y = e.b64(args[0])
			f = func() string { return u(x.AndCardinality(y)) }
		case "orcard":
			need(args, 1)
			y = e.b64(args[0])
			f = func() string { return u(x.OrCardinality(y)) }
		case "isect":
			need(args, 1)
			y = e.b64(args[0])
			f = func() string { return bstr(x.Intersects(y)) }
		case "eq":
			need(args, 1)
			y = e.b64(args[0])
			f = func() string { return bstr(x.Equals(y)) }
		default:
			panic(skipErr{"unknown l2q64 " + q})
		}
		rx := repr64(x)
		out := rx
		ry := ""
		if y != nil {
			ry = repr64(y)
			out += " " + ry
		}
		ans := l2qGuard(f)
		if repr64(x) != rx || (y != nil && repr64(y) != ry) {
			ans += "!chg"
		}
		return out + " " + ans
	})
}
