package main

// Exact-representation tie of the L2 model of the bulk entry points (lean/RModel/Impl/RepBulk.lean).
//
//   l2addmany x tok…            x.AddMany(vals)          output: <repr32(x) before> <repr32(x) after>
//   l2bitmapof x tok…           x = roaring.BitmapOf(vals…), registered as x      output: <repr32(x)>
//       value tokens (expanded IN ORDER, the same way on both sides):
//           v          one value
//           a..b       a, a+1, …, b   (a <= b)   or   a, a-1, …, b   (a > b: a descending batch)
//           a..b/s     the same with step s >= 1 (stops at the last value not beyond b)
//   l2heap <or|xor> y x1 x2 …   y = roaring.HeapOr / HeapXor(x1, x2, …)  (0 or more operands), registered as y
//       output: <repr32 of every operand BEFORE the call> | <repr32(y)> | ok
//               <repr32 of every operand BEFORE the call> | <repr32(y)> | changed:<i> <repr32(operand i AFTER the call)>
//   l2toarr x                   x.ToArray()              output: <repr32(x)> <len>:<FNV-1a style hash of the sequence, 16 hex digits>
//   l2toex x n                  x.ToExistingArray(&buf) with len(buf) = n, buf[i] = 0xA5000000 + i beforehand
//                               output: <repr32(x)> <len(buf after)>:<hash of buf after> <same|moved>   (moved: another slice came back)
//   l2stats x                   x.Stats()                output: <repr32(x)> <Cardinality> <Containers> <ArrayContainers> <ArrayContainerBytes>
//                                                                <ArrayContainerValues> <Bitmap…> ×3 <Run…> ×3
//
// repr32 is the RAW representation read through the verification hooks, see view.go.

import (
	"fmt"
	"strconv"
	"strings"

	roaring "github.com/RoaringBitmap/roaring/v2"
)

func bulkVals(toks []string) []uint32 {
	var vals []uint32
	for _, t := range toks {
		step := uint64(1)
		body := t
		if i := strings.IndexByte(t, '/'); i >= 0 {
			s, err := strconv.ParseUint(t[i+1:], 10, 32)
			if err != nil || s == 0 {
				panic(skipErr{"bad step"})
			}
			step = s
			body = t[:i]
		}
		if i := strings.Index(body, ".."); i >= 0 {
			a, b := uint64(u32(body[:i])), uint64(u32(body[i+2:]))
			if a <= b {
				for v := a; v <= b; v += step {
					vals = append(vals, uint32(v))
				}
			} else {
				for v := int64(a); v >= int64(b); v -= int64(step) {
					vals = append(vals, uint32(v))
				}
			}
		} else {
			if step != 1 {
				panic(skipErr{"step without range"})
			}
			vals = append(vals, u32(body))
		}
	}
	return vals
}

func seqHash(x []uint32) string {
	h := uint64(1469598103934665603)
	for _, v := range x {
		h = (h ^ uint64(v)) * 1099511628211
	}
	return fmt.Sprintf("%d:%016x", len(x), h)
}

func init() {
	reg("l2addmany", func(e *env, a []string) string {
		need(a, 1)
		x := e.b(a[0])
		vals := bulkVals(a[1:])
		before := repr32(x)
		x.AddMany(vals)
		return before + " " + repr32(x)
	})
	reg("l2bitmapof", func(e *env, a []string) string {
		need(a, 1)
		vals := bulkVals(a[1:])
		x := roaring.BitmapOf(vals...)
		e.bm[a[0]] = x
		return repr32(x)
	})
	reg("l2heap", func(e *env, a []string) string {
		need(a, 2)
		fn := a[0]
		if fn != "or" && fn != "xor" {
			panic(skipErr{"unknown l2heap " + fn})
		}
		ops := e.operands(a[2:])
		before := make([]string, len(ops))
		for i, o := range ops {
			before[i] = repr32(o)
		}
		passed := append([]*roaring.Bitmap(nil), ops...)
		var z *roaring.Bitmap
		if fn == "or" {
			z = roaring.HeapOr(passed...)
		} else {
			z = roaring.HeapXor(passed...)
		}
		st := "ok"
		for i := range ops {
			if r := repr32(ops[i]); r != before[i] {
				st = fmt.Sprintf("changed:%d %s", i, r)
				break
			}
		}
		e.bm[a[1]] = z
		var sb strings.Builder
		for _, b := range before {
			sb.WriteString(b)
			sb.WriteByte(' ')
		}
		sb.WriteString("| ")
		sb.WriteString(repr32(z))
		sb.WriteString(" | ")
		sb.WriteString(st)
		return sb.String()
	})
	reg("l2toarr", func(e *env, a []string) string {
		need(a, 1)
		x := e.b(a[0])
		return repr32(x) + " " + seqHash(x.ToArray())
	})
	reg("l2toex", func(e *env, a []string) string {
		need(a, 2)
		x := e.b(a[0])
		n := int(u32(a[1]))
		if n > 1<<24 {
			panic(skipErr{"domain"})
		}
		buf := make([]uint32, n)
		for i := range buf {
			buf[i] = 0xA5000000 + uint32(i)
		}
		r := repr32(x)
		p := x.ToExistingArray(&buf)
		same := "same"
		if p != &buf {
			same = "moved"
		}
		return r + " " + seqHash(*p) + " " + same
	})
	reg("l2stats", func(e *env, a []string) string {
		need(a, 1)
		x := e.b(a[0])
		s := x.Stats()
		return fmt.Sprintf("%s %d %d %d %d %d %d %d %d %d %d %d", repr32(x), s.Cardinality, s.Containers,
			s.ArrayContainers, s.ArrayContainerBytes, s.ArrayContainerValues,
			s.BitmapContainers, s.BitmapContainerBytes, s.BitmapContainerValues,
			s.RunContainers, s.RunContainerBytes, s.RunContainerValues)
	})
}
