package main

type iterState struct{}
type mapping struct{}
