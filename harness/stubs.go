package main

type iterState struct{}
type bsiState struct{}
type mapping struct{}
