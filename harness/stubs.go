package main
