package main

type iterState struct{}
