package main

import (
	"bytes"
	"encoding/hex"
	"errors"
	"fmt"
	"io"
	"strings"

	roaring "github.com/RoaringBitmap/roaring/v2"
)

// chunkReader delivers at most `chunk` bytes per Read and counts what it handed out.
type chunkReader struct {
	data  []byte
	off   int
	chunk int
}

func (c *chunkReader) Read(p []byte) (int, error) {
	if c.off >= len(c.data) {
		return 0, io.EOF
	}
	n := len(p)
	if c.chunk > 0 && n > c.chunk {
		n = c.chunk
	}
	if n > len(c.data)-c.off {
		n = len(c.data) - c.off
	}
	copy(p, c.data[c.off:c.off+n])
	c.off += n
	return n, nil
}

// failWriter accepts `limit` bytes, then fails.
type failWriter struct {
	limit int
	got   int
}

var errInjected = errors.New("injected write failure")

func (f *failWriter) Write(p []byte) (int, error) {
	if f.got+len(p) > f.limit {
		n := f.limit - f.got
		f.got = f.limit
		return n, errInjected
	}
	f.got += len(p)
	return len(p), nil
}

// entry points that copy what they decode (the others borrow the caller's bytes by contract)
var copying = map[string]bool{"readfrom": true, "readpipe": true, "readfromck": true, "must": true, "mustck": true, "unmarshal": true, "base64": true}

func optInt(a []string, key string, def int) int {
	for _, s := range a {
		if strings.HasPrefix(s, key+"=") {
			return int(i64(s[len(key)+1:]))
		}
	}
	return def
}

func hasTok(a []string, t string) bool {
	for _, s := range a {
		if s == t {
			return true
		}
	}
	return false
}

// decodeInto runs one decode entry point. Returns bytes consumed (as reported), bytes actually pulled from the
// source where measurable (-1 otherwise), error.
func decodeInto(e *env, y *roaring.Bitmap, entry string, data []byte, chunk int) (n int64, pulled int, err error) {
	pulled = -1
	switch entry {
	case "readfrom":
		cr := &chunkReader{data: data, chunk: chunk}
		n, err = y.ReadFrom(cr)
		pulled = cr.off
	case "readpipe":
		var rest int
		n, rest, err = viaPipe(data, func(r io.Reader) (int64, error) { return y.ReadFrom(r) })
		pulled = len(data) - rest
	case "readfromck":
		// the caller has already consumed the 4-byte cookie and hands it over separately; the byte counts are reported
		// relative to the whole stream (cookie included) so that they compare with the other entry points
		k := len(data)
		if k > 4 {
			k = 4
		}
		cr := &chunkReader{data: data[k:], chunk: chunk}
		n, err = y.ReadFrom(cr, data[:k]...)
		if err == nil {
			n += int64(k)
		}
		pulled = cr.off + k
	case "must":
		cr := &chunkReader{data: data, chunk: chunk}
		n, err = y.MustReadFrom(cr)
		pulled = cr.off
	case "mustck":
		// MustReadFrom with the cookie handed over separately (same accounting as readfromck)
		k := len(data)
		if k > 4 {
			k = 4
		}
		cr := &chunkReader{data: data[k:], chunk: chunk}
		n, err = y.MustReadFrom(cr, data[:k]...)
		if err == nil {
			n += int64(k)
		}
		pulled = cr.off + k
	case "frombuffer":
		n, err = y.FromBuffer(data)
	case "fromunsafe":
		n, err = y.FromUnsafeBytes(data)
	case "unmarshal":
		err = y.UnmarshalBinary(data)
		n = -1
	case "base64":
		// the caller passes raw bytes; we encode them as base64 text first
		n, err = y.FromBase64(b64(data))
	case "frozen":
		err = y.FrozenView(data)
		n = -1
	default:
		panic(skipErr{"bad entry " + entry})
	}
	return
}

func init() {
	// ser x : representation + bytes + the three size figures
	reg("ser", func(e *env, a []string) string {
		need(a, 1)
		x := e.b(a[0])
		bs, err := x.ToBytes()
		if err != nil {
			return "err:" + spaceless(err.Error())
		}
		var buf bytes.Buffer
		n, err := x.WriteTo(&buf)
		if err != nil {
			return "err:" + spaceless(err.Error())
		}
		mb, _ := x.MarshalBinary()
		s64, _ := x.ToBase64()
		agree := bytes.Equal(bs, buf.Bytes()) && bytes.Equal(bs, mb) && s64 == b64(bs)
		return fmt.Sprintf("%s %s %d %d %s", repr32(x), hex.EncodeToString(bs), x.GetSerializedSizeInBytes(), n, bstr(agree))
	})
	// rd y entry x [chunk=n] [reuse] [extra=k]
	reg("rd", func(e *env, a []string) string {
		need(a, 3)
		x := e.b(a[2])
		bs, err := x.ToBytes()
		if err != nil {
			return "err:" + spaceless(err.Error())
		}
		extra := optInt(a[3:], "extra", 0)
		data := append(append([]byte(nil), bs...), bytes.Repeat([]byte{0xA5}, extra)...)
		var y *roaring.Bitmap
		if hasTok(a[3:], "reuse") {
			if old, ok := e.bm[a[0]]; ok {
				y = old
			}
		}
		if y == nil {
			y = roaring.New()
		}
		entry := a[1]
		if entry == "unmarshal" || entry == "base64" {
			// no byte count is reported by these; trailing bytes are not part of their contract
			data = data[:len(bs)]
		}
		n, pulled, err := decodeInto(e, y, entry, data, optInt(a[3:], "chunk", 0))
		if err == nil && copying[entry] {
			// the copying entry points must not keep a reference to the caller's bytes: the caller reuses its buffer
			for i := range data {
				data[i] ^= 0xFF
			}
		}
		if err != nil {
			// a failed round trip leaves no object behind (on either side of the comparison), so that the script can go on
			delete(e.bm, a[0])
			return "err:" + spaceless(err.Error())
		}
		e.bm[a[0]] = y
		e.bufs[a[0]] = data
		v := "ok"
		if verr := y.Validate(); verr != nil {
			v = "invalid:" + spaceless(verr.Error())
		}
		eq := y.Equals(x)
		counted := !(entry == "unmarshal" || entry == "base64" || entry == "frozen")
		if v != "ok" || !eq || d32(y) != d32(x) || (counted && n != int64(len(bs))) || (pulled != -1 && pulled != len(bs)) {
			delete(e.bm, a[0])
		}
		return fmt.Sprintf("%s %d %d %d %s %s", d32(y), n, pulled, len(bs), v, bstr(eq))
	})
	// wrfail x off : WriteTo into a writer that fails after `off` bytes
	reg("wrfail", func(e *env, a []string) string {
		need(a, 2)
		x := e.b(a[0])
		fw := &failWriter{limit: int(u64(a[1]))}
		n, err := x.WriteTo(fw)
		st := "ok"
		if err != nil {
			st = "err"
		}
		return fmt.Sprintf("%s %d %d", st, n, x.GetSerializedSizeInBytes())
	})
	// dec y entry hex [chunk=n] : decode raw bytes
	reg("dec", func(e *env, a []string) string {
		need(a, 3)
		data, err := hex.DecodeString(a[2])
		if err != nil {
			panic(skipErr{"bad hex"})
		}
		y := roaring.New()
		if hasTok(a[3:], "reuse") {
			if old, ok := e.bm[a[0]]; ok {
				y = old // a previously used receiver
			}
		}
		delete(e.bm, a[0])
		n, _, derr := decodeInto(e, y, a[1], data, optInt(a[3:], "chunk", 0))
		if derr != nil {
			return "err"
		}
		v := "valid"
		if verr := y.Validate(); verr != nil {
			v = "invalid"
		} else {
			e.bm[a[0]] = y
			e.bufs[a[0]] = data
		}
		return fmt.Sprintf("ok %d %s %s", n, v, repr32(y))
	})
	// spec y entry hex digest : a spec-conformant stream produced by an independent encoder
	reg("spec", func(e *env, a []string) string {
		need(a, 4)
		data, err := hex.DecodeString(a[2])
		if err != nil {
			panic(skipErr{"bad hex"})
		}
		y := roaring.New()
		if hasTok(a[4:], "reuse") {
			if old, ok := e.bm[a[0]]; ok {
				y = old
			}
		}
		delete(e.bm, a[0])
		n, _, derr := decodeInto(e, y, a[1], data, optInt(a[4:], "chunk", 0))
		if derr != nil {
			return "err:" + spaceless(derr.Error())
		}
		if copying[a[1]] {
			for i := range data {
				data[i] ^= 0xFF
			}
		}
		e.bm[a[0]] = y
		e.bufs[a[0]] = data
		return fmt.Sprintf("ok %s %d", d32(y), n)
	})
	// trunc x entry : every proper prefix of x's serialization must be rejected
	reg("trunc", func(e *env, a []string) string {
		need(a, 2)
		x := e.b(a[0])
		bs, err := x.ToBytes()
		if err != nil {
			return "err:" + spaceless(err.Error())
		}
		step := 1
		if len(bs) > 3000 {
			step = len(bs) / 1500
		}
		for k := 0; k < len(bs); k += step {
			res := func() (r string) {
				defer func() {
					if p := recover(); p != nil {
						r = fmt.Sprintf("panic@%d", k)
					}
				}()
				y := roaring.New()
				_, _, derr := decodeInto(e, y, a[1], bs[:k:k], 0)
				if derr == nil {
					return fmt.Sprintf("accepted@%d", k)
				}
				return ""
			}()
			if res != "" {
				return res
			}
			if k > 64 && k < len(bs)-64 && step == 1 && len(bs) > 600 {
				// dense at both ends, sampled in the middle
				k += 6
			}
		}
		return "allerr"
	})
	// rdfail y entry x cut v… : decode the first `cut` bytes of x's serialization into the previously used bitmap y (must fail),
	// then keep USING y (the values v… are added, removed, flipped around) and finally discard it: a failed read must not leave
	// y in a state where using it panics or reaches into another bitmap (the lines that follow look at the other bitmaps)
	reg("rdfail", func(e *env, a []string) string {
		need(a, 4)
		y := e.b(a[0])
		x := e.b(a[2])
		bs, err := x.ToBytes()
		if err != nil {
			return "err:" + spaceless(err.Error())
		}
		cut := int(u64(a[3]))
		if cut >= len(bs) {
			panic(skipErr{"cut beyond the stream"})
		}
		data := append([]byte(nil), bs[:cut]...)
		_, _, derr := decodeInto(e, y, a[1], data, 0)
		delete(e.bm, a[0])
		if derr == nil {
			return "accepted"
		}
		res := func() (r string) {
			defer func() {
				if p := recover(); p != nil {
					r = "panic-on-use:" + spaceless(fmt.Sprint(p))
				}
			}()
			for _, t := range a[4:] {
				v := u32(t)
				y.Remove(v)
				y.Add(v ^ 1)
				y.RemoveRange(uint64(v), uint64(v)+3)
				hi := uint64(v) + 2
				if hi > 1<<32 {
					hi = 1 << 32 // Flip's documented domain ends at 2^32
				}
				y.Flip(uint64(v), hi)
				_ = y.GetCardinality()
				_ = y.ToArray()
			}
			if verr := y.Validate(); verr != nil {
				return "invalid-after-use:" + spaceless(verr.Error())
			}
			return "ok"
		}()
		return "err " + res
	})
	// wrfailall x : a writer failing at any offset below the serialized size makes WriteTo report an error
	reg("wrfailall", func(e *env, a []string) string {
		need(a, 1)
		x := e.b(a[0])
		sz := int(x.GetSerializedSizeInBytes())
		step := 1
		if sz > 3000 {
			step = sz / 1500
		}
		for k := 0; k < sz; k += step {
			fw := &failWriter{limit: k}
			n, err := x.WriteTo(fw)
			if err == nil {
				return fmt.Sprintf("noerr@%d", k)
			}
			if n > int64(k) {
				return fmt.Sprintf("overcount@%d:%d", k, n)
			}
			if k > 64 && k < sz-64 && step == 1 && sz > 600 {
				k += 6
			}
		}
		return "allerr"
	})
	// rdsplit x : ReadFrom on a stream cut once at every offset (plus foreign trailing bytes) decodes the same bitmap
	// and consumes exactly the serialized size
	reg("rdsplit", func(e *env, a []string) string {
		need(a, 1)
		x := e.b(a[0])
		bs, err := x.ToBytes()
		if err != nil {
			return "err:" + spaceless(err.Error())
		}
		data := append(append([]byte(nil), bs...), 0xA5, 0x5A, 0xA5)
		step := 1
		if len(bs) > 3000 {
			step = len(bs) / 1500
		}
		for k := 1; k < len(bs); k += step {
			sr := &splitReader{data: data, cut: k}
			y := roaring.New()
			n, derr := y.ReadFrom(sr)
			if derr != nil {
				return fmt.Sprintf("err@%d", k)
			}
			if n != int64(len(bs)) || sr.off != len(bs) {
				return fmt.Sprintf("count@%d:%d:%d", k, n, sr.off)
			}
			if !y.Equals(x) {
				return fmt.Sprintf("differs@%d", k)
			}
			if k > 64 && k < len(bs)-64 && step == 1 && len(bs) > 600 {
				k += 6
			}
		}
		return "allok"
	})
}

// splitReader delivers data[:cut] and then the rest, never crossing the cut in one Read.
type splitReader struct {
	data []byte
	cut  int
	off  int
}

func (c *splitReader) Read(p []byte) (int, error) {
	if c.off >= len(c.data) {
		return 0, io.EOF
	}
	n := len(p)
	if c.off < c.cut && n > c.cut-c.off {
		n = c.cut - c.off
	}
	if n > len(c.data)-c.off {
		n = len(c.data) - c.off
	}
	copy(p, c.data[c.off:c.off+n])
	c.off += n
	return n, nil
}
