package main

// Tie of the L2 iterator state machines (lean/RModel/Impl/Iter.lean): iterators created on a bitmap whose raw
// representation is printed at creation, so that the checker can run the modelled Go state machine
// (intIterator / intReverseIterator / manyIntIterator chaining the per-container iterators) next to the real one.
//
//   l2it <fwd|rev|many> i x   creates the iterator exactly like `it` / `rit` / `mit`      -> "ok <repr32(x)>"
//   l2reinit i x              re-Initializes the SAME iterator object on bitmap x (like `reinit`, kinds fwd|rev|many)
//                                                                                          -> "ok <repr32(x)>"
//   l2it unset i x lo hi      creates the unset iterator over [lo,hi) exactly like `uit`     -> "ok <repr32(x)>"
//   l2reinit i x lo hi        (kind unset) re-Initializes the same unsetIterator object      -> "ok <repr32(x)>"
//   l2it64 <fwd|rev|many> i x creates the roaring64 iterator exactly like `it64`/`rit64`/`mit64` -> "ok <repr64(x)>"
//   l2reit64 i x              re-Initializes the SAME roaring64 iterator object (like `reit64`)  -> "ok <repr64(x)>"
//   l2iterate x k             x.Iterate(cb) where cb records every value it is handed and answers false on its
//                             k-th call (k = -1: never; k = 0 like k = 1)
//                                                         -> "<repr32(x)> <renderVals of the values seen>"
//                             (renderVals = "<n> <digest>" for a strictly ascending sequence, "unord .." otherwise)
//   l2seq <values|backward|unset> x k [lo hi]   the range-over-func forms with the same recording yield function
//                                                         -> "<repr32(x)> <renderVals of the values seen>"
//   l2ranges x k              x.Ranges()(yield), same recording yield      -> "<repr32(x)> <pairs as `ranges` prints them>"
// The 64-bit iterator commands (hasnext64 / next64 / peek64 / adv64 / many64 / drain64) are the ones of r64.go.
// All other iterator commands (hasnext / next? / next! / peek? / peek! / adv / advrel / many / manyhs / drain) are the
// ones of iter.go; the checker steps its L2 state with each of them and requires the model's answer to be the Go answer.

import (
	"fmt"
	"strings"

	roaring "github.com/RoaringBitmap/roaring/v2"
	"github.com/RoaringBitmap/roaring/v2/roaring64"
)

func init() {
	reg("l2it", func(e *env, a []string) string {
		need(a, 3)
		kind := a[0]
		x := e.b(a[2])
		if kind == "unset" {
			need(a, 5)
			lo, hi := u64(a[3]), u64(a[4])
			s := &iterState{kind: "unset", bm: x}
			s.pk = x.UnsetIterator(lo, hi) // panics for hi > 2^32
			s.it = s.pk
			s.snap = complementIn(ivs32(x), lo, hi)
			s.cur = 0
			e.its[a[1]] = s
			return "ok " + repr32(x)
		}
		s := &iterState{kind: kind, bm: x, snap: ivs32(x)}
		switch kind {
		case "fwd":
			s.pk = x.Iterator()
			s.it = s.pk
		case "rev":
			s.it = x.ReverseIterator()
			s.cur = 1 << 32
		case "many":
			s.many = x.ManyIterator()
		default:
			panic(skipErr{"unknown iterator kind " + kind})
		}
		e.its[a[1]] = s
		return "ok " + repr32(x)
	})
	reg("l2reinit", func(e *env, a []string) string {
		need(a, 2)
		s := e.iter(a[0])
		x := e.b(a[1])
		switch s.kind {
		case "fwd":
			s.pk.(*roaring.IntIterator).Initialize(x)
			s.cur = 0
		case "rev":
			s.it.(*roaring.IntReverseIterator).Initialize(x)
			s.cur = 1 << 32
		case "many":
			s.many.(*roaring.ManyIntIterator).Initialize(x)
			s.cur = 0
		case "unset":
			need(a, 4)
			lo, hi := u64(a[2]), u64(a[3])
			s.pk.(interface {
				Initialize(*roaring.Bitmap, uint64, uint64)
			}).Initialize(x, lo, hi)
			s.bm = x
			s.snap = complementIn(ivs32(x), lo, hi)
			s.cur = 0
			return "ok " + repr32(x)
		default:
			panic(skipErr{"kind"})
		}
		s.bm = x
		s.snap = ivs32(x)
		return "ok " + repr32(x)
	})
	reg("l2it64", func(e *env, a []string) string {
		need(a, 3)
		x := e.b64(a[2])
		switch a[0] {
		case "fwd":
			its64[a[1]] = &iter64{kind: "fwd", fwd: x.Iterator()}
		case "rev":
			its64[a[1]] = &iter64{kind: "rev", rev: x.ReverseIterator()}
		case "many":
			its64[a[1]] = &iter64{kind: "many", many: x.ManyIterator()}
		default:
			panic(skipErr{"unknown iterator kind " + a[0]})
		}
		return "ok " + repr64(x)
	})
	reg("l2reit64", func(e *env, a []string) string {
		need(a, 2)
		it := it64of(a[0])
		x := e.b64(a[1])
		switch it.kind {
		case "fwd":
			p, ok := it.fwd.(*roaring64.IntIterator64)
			if !ok {
				return "err:type"
			}
			p.Initialize(x)
		case "rev":
			p, ok := it.rev.(*roaring64.IntReverseIterator64)
			if !ok {
				return "err:type"
			}
			p.Initialize(x)
		case "many":
			p, ok := it.many.(*roaring64.ManyIntIterator64)
			if !ok {
				return "err:type"
			}
			p.Initialize(x)
		}
		return "ok " + repr64(x)
	})
	// l2seq <values|backward|unset> x k [lo hi] : the range-over-func forms roaring.Values / Backward / Unset(x, lo, hi-1)
	// with the same recording yield function as l2iterate (window [lo,hi), 0 <= lo < hi <= 2^32)
	reg("l2seq", func(e *env, a []string) string {
		need(a, 3)
		x := e.b(a[1])
		k := kArg(a[2])
		var vals []uint32
		overrun, stopped := false, false
		yield := func(v uint32) bool {
			if stopped {
				overrun = true
				return false
			}
			vals = append(vals, v)
			if len(vals) > maxDrain {
				panic("toolong")
			}
			if k >= 0 && int64(len(vals)) >= k {
				stopped = true
				return false
			}
			return true
		}
		rep := repr32(x)
		switch a[0] {
		case "values":
			roaring.Values(x)(yield)
		case "backward":
			roaring.Backward(x)(yield)
		case "unset":
			need(a, 5)
			lo, hi := u64(a[3]), u64(a[4])
			if !(lo < hi && hi <= 1<<32) {
				panic(skipErr{"window"})
			}
			roaring.Unset(x, uint32(lo), uint32(hi-1))(yield)
		default:
			panic(skipErr{"unknown l2seq " + a[0]})
		}
		if overrun {
			return rep + " overrun"
		}
		return rep + " " + renderVals(vals, a[0] == "backward")
	})
	// l2ranges x k : x.Ranges()(yield) with the recording yield function (false on its k-th call); the pairs are rendered
	// one by one as the `ranges` command does: "lo-hi" (inclusive), "v", "bad:s:end"; "-" when nothing was yielded
	reg("l2ranges", func(e *env, a []string) string {
		need(a, 2)
		x := e.b(a[0])
		k := kArg(a[1])
		var sb strings.Builder
		n := int64(0)
		overrun, stopped := false, false
		rep := repr32(x)
		x.Ranges()(func(s uint32, end uint64) bool {
			if stopped {
				overrun = true
				return false
			}
			if n > 0 {
				sb.WriteByte(',')
			}
			switch {
			case end <= uint64(s) || end > 1<<32:
				fmt.Fprintf(&sb, "bad:%d:%d", s, end)
			case end == uint64(s)+1:
				fmt.Fprintf(&sb, "%d", s)
			default:
				fmt.Fprintf(&sb, "%d-%d", s, end-1)
			}
			n++
			if k >= 0 && n >= k {
				stopped = true
				return false
			}
			return true
		})
		if overrun {
			return rep + " overrun"
		}
		if n == 0 {
			return rep + " -"
		}
		return rep + " " + sb.String()
	})
	reg("l2iterate", func(e *env, a []string) string {
		need(a, 2)
		x := e.b(a[0])
		k := kArg(a[1])
		var vals []uint32
		overrun, stopped := false, false
		rep := repr32(x)
		x.Iterate(func(v uint32) bool {
			if stopped {
				overrun = true
				return false
			}
			vals = append(vals, v)
			if len(vals) > maxDrain {
				panic("toolong")
			}
			if k >= 0 && int64(len(vals)) >= k {
				stopped = true
				return false
			}
			return true
		})
		if overrun {
			return rep + " overrun"
		}
		return rep + " " + renderVals(vals, false)
	})
}
