package main

// Tie of the L2 iterator state machines (lean/RModel/Impl/Iter.lean): iterators created on a bitmap whose raw
// representation is printed at creation, so that the checker can run the modelled Go state machine
// (intIterator / intReverseIterator / manyIntIterator chaining the per-container iterators) next to the real one.
//
//   l2it <fwd|rev|many> i x   creates the iterator exactly like `it` / `rit` / `mit`      -> "ok <repr32(x)>"
//   l2reinit i x              re-Initializes the SAME iterator object on bitmap x (like `reinit`, kinds fwd|rev|many)
//                                                                                          -> "ok <repr32(x)>"
// All other iterator commands (hasnext / next? / next! / peek? / peek! / adv / advrel / many / manyhs / drain) are the
// ones of iter.go; the checker steps its L2 state with each of them and requires the model's answer to be the Go answer.

import (
	roaring "github.com/RoaringBitmap/roaring/v2"
)

func init() {
	reg("l2it", func(e *env, a []string) string {
		need(a, 3)
		kind := a[0]
		x := e.b(a[2])
		s := &iterState{kind: kind, bm: x, snap: ivs32(x)}
		switch kind {
		case "fwd":
			s.pk = x.Iterator()
			s.it = s.pk
		case "rev":
			s.it = x.ReverseIterator()
			s.cur = 1 << 32
		case "many":
			s.many = x.ManyIterator()
		default:
			panic(skipErr{"unknown iterator kind " + kind})
		}
		e.its[a[1]] = s
		return "ok " + repr32(x)
	})
	reg("l2reinit", func(e *env, a []string) string {
		need(a, 2)
		s := e.iter(a[0])
		x := e.b(a[1])
		switch s.kind {
		case "fwd":
			s.pk.(*roaring.IntIterator).Initialize(x)
			s.cur = 0
		case "rev":
			s.it.(*roaring.IntReverseIterator).Initialize(x)
			s.cur = 1 << 32
		case "many":
			s.many.(*roaring.ManyIntIterator).Initialize(x)
			s.cur = 0
		default:
			panic(skipErr{"kind"})
		}
		s.bm = x
		s.snap = ivs32(x)
		return "ok " + repr32(x)
	})
}
