package main

// Exact-representation tie of the L2 DATA model of the parallel aggregates (lean/RModel/Impl/ParData.lean).
//
//   l2par <paror|parand|parheapor> z w x1 x2 … xn      z = roaring.ParOr / ParAnd / ParHeapOr(w, x1, …, xn), registered as z
//                                                      (n >= 0; w >= 0 is the `parallelism` argument, 0 = runtime.NumCPU())
//       output (space separated tokens):
//           <repr32 of every operand BEFORE the call> | <repr32(z)> | ok | ncpu=<runtime.NumCPU()>
//           <repr32 of every operand BEFORE the call> | <repr32(z)> | changed:<i> <repr32(operand i AFTER the call)> | ncpu=<n>
//       <i> is the index of the FIRST operand whose raw representation (containers, cached cardinalities, needCopyOnWrite
//       flags, copyOnWrite switch) differs after the call.
//       The call runs in its own goroutine; if it has not returned after 60 s the line is `timeout` (a lost work item).

import (
	"fmt"
	"runtime"
	"strings"
	"time"

	roaring "github.com/RoaringBitmap/roaring/v2"
)

func init() {
	reg("l2par", func(e *env, a []string) string {
		need(a, 3)
		var fn func(int, ...*roaring.Bitmap) *roaring.Bitmap
		switch a[0] {
		case "paror":
			fn = roaring.ParOr
		case "parand":
			fn = roaring.ParAnd
		case "parheapor":
			fn = roaring.ParHeapOr
		default:
			panic(skipErr{"unknown l2par " + a[0]})
		}
		w := int(u64(a[2]))
		if w < 0 || w > 1<<20 {
			panic(skipErr{"domain"})
		}
		names := a[3:]
		ops := e.operands(names)
		before := make([]string, len(ops))
		for i, o := range ops {
			before[i] = repr32(o)
		}
		passed := append([]*roaring.Bitmap(nil), ops...)
		type res struct {
			z   *roaring.Bitmap
			err interface{}
		}
		done := make(chan res, 1)
		go func() {
			defer func() {
				if r := recover(); r != nil {
					done <- res{nil, r}
				}
			}()
			done <- res{fn(w, passed...), nil}
		}()
		var z *roaring.Bitmap
		select {
		case r := <-done:
			if r.err != nil {
				panic(r.err)
			}
			z = r.z
		case <-time.After(60 * time.Second):
			return "timeout"
		}
		st := "ok"
		for i := range ops {
			if r := repr32(ops[i]); r != before[i] {
				st = fmt.Sprintf("changed:%d %s", i, r)
				break
			}
		}
		e.bm[a[1]] = z
		var sb strings.Builder
		for _, b := range before {
			sb.WriteString(b)
			sb.WriteByte(' ')
		}
		sb.WriteString("| ")
		sb.WriteString(repr32(z))
		sb.WriteString(" | ")
		sb.WriteString(st)
		fmt.Fprintf(&sb, " | ncpu=%d", runtime.NumCPU())
		return sb.String()
	})
}
