package main

// Exact tie of the 64-bit serialization model (lean/RModel/Impl/Serial64.lean).
//
//   l2ser64 x
//       -> <repr64(x)> <len(ToBytes)> <GetSerializedSizeInBytes> <hex of ToBytes | toobig>
//       (repr64 is read from the raw bucket / container arrays through the hooks; "toobig" when the stream is longer
//       than 64 KiB — the two sizes are still compared with the model)
//   l2dec64 y <entry> <hex|-> [reuse]        entry: readfrom | readfrom1 | fromunsafe | unmarshal | base64
//       -> ok <n|-> <consumed|-> <valid|invalid> cow0=<0|1> <repr64(y)>  |  err  |  panic:..  |  fatal:..
//       n = the byte count the entry point returns ("-" for UnmarshalBinary), consumed = bytes pulled from the reader
//       (readfrom / readfrom1 only), valid = Validate()==nil, cow0 = the receiver's copyOnWrite switch before the call
//       (0 for a fresh bitmap; "reuse" decodes into the existing y).  y is defined afterwards iff ok and valid.
//       A stream whose count field exceeds inProcCountCap is decoded in a child process (see safeDecode64); such a stream
//       cannot be complete within a script line, so anything but "err" is a disagreement: "ok <n> child".

import (
	"encoding/hex"
	"fmt"

	"github.com/RoaringBitmap/roaring/v2/roaring64"
)

func init() {
	reg("l2ser64", func(e *env, a []string) string {
		need(a, 1)
		x := e.b64(a[0])
		rep := repr64(x)
		bs, err := x.ToBytes()
		if err != nil {
			return "err:tobytes"
		}
		hx := "toobig"
		if len(bs) <= 1<<16 {
			hx = hex.EncodeToString(bs)
		}
		return fmt.Sprintf("%s %d %d %s", rep, len(bs), x.GetSerializedSizeInBytes(), hx)
	})
	reg("l2dec64", func(e *env, a []string) string {
		need(a, 3)
		entry := a[1]
		if !entries64[entry] {
			panic(skipErr{"bad entry"})
		}
		var data []byte
		if a[2] != "-" {
			var err error
			data, err = hex.DecodeString(a[2])
			if err != nil {
				panic(skipErr{"bad hex"})
			}
		}
		for _, o := range a[3:] {
			if o != "reuse" {
				panic(skipErr{"bad option"})
			}
		}
		var y *roaring64.Bitmap
		if old, ok := e.bm64[a[0]]; ok && len(a) > 3 {
			y = old
		} else {
			y = roaring64.New()
		}
		cow0 := 0
		if y.GetCopyOnWrite() {
			cow0 = 1
		}
		delete(e.bm64, a[0])
		delete(unsafeBufs, a[0])
		inProc := countField(data) <= inProcCountCap
		r := safeDecode64(y, entry, data)
		if r.class != "ok" {
			return r.class
		}
		if !inProc {
			return fmt.Sprintf("ok %s child", optI64(r.n))
		}
		valid := "invalid"
		if y.Validate() == nil {
			valid = "valid"
			e.bm64[a[0]] = y
			if entry == "fromunsafe" {
				unsafeBufs[a[0]] = lastUnsafe
			}
		}
		return fmt.Sprintf("ok %s %s %s cow0=%d %s", optI64(r.n), optI64(r.cons), valid, cow0, repr64(y))
	})
}
