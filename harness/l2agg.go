package main

// Exact-representation tie of the L2 model of the many-way aggregates (lean/RModel/Impl/LazyOps.lean).
//
//   l2agg <fastor|fastand> z x1 x2 …      z = roaring.FastOr / FastAnd(x1, x2, …)   (0 or more operands), registered as z
//   l2agg andany x y1 y2 …                x.AndAny(y1, y2, …) in place (at least one y; the empty list is outside the domain)
//       output (space separated tokens):
//           <repr32 of every operand BEFORE the call> | <repr32(result)> | ok
//           <repr32 of every operand BEFORE the call> | <repr32(result)> | changed:<i> <repr32(operand i AFTER the call)>
//       For andany the first operand token is the receiver x before the call and the result is x after it; the
//       "changed" test then looks at the arguments y only (operand indices count the receiver as 0).
//       <i> is the index of the FIRST operand whose raw representation (containers, cached cardinalities, needCopyOnWrite
//       flags, copyOnWrite switch) differs after the call.
//
//   l2lazy <lazyOR|lazyIOR|iand|ior> c1 c2      direct call of one container kernel on freshly built containers
//       output: <repr of the returned container> <repr of c2 after>

import (
	"fmt"
	"strings"

	roaring "github.com/RoaringBitmap/roaring/v2"
)

func init() {
	reg("l2agg", func(e *env, a []string) string {
		need(a, 2)
		fn := a[0]
		var ops []*roaring.Bitmap
		var names []string
		switch fn {
		case "fastor", "fastand":
			names = a[2:]
		case "andany":
			names = a[1:]
			if len(names) < 2 {
				panic(skipErr{"domain"})
			}
		default:
			panic(skipErr{"unknown l2agg " + fn})
		}
		ops = e.operands(names)
		before := make([]string, len(ops))
		for i, o := range ops {
			before[i] = repr32(o)
		}
		passed := append([]*roaring.Bitmap(nil), ops...)
		var z *roaring.Bitmap
		first := 0
		switch fn {
		case "fastor":
			z = roaring.FastOr(passed...)
		case "fastand":
			z = roaring.FastAnd(passed...)
		case "andany":
			z = ops[0]
			z.AndAny(passed[1:]...)
			first = 1
		}
		st := "ok"
		for i := first; i < len(ops); i++ {
			if ops[i] == z && fn == "andany" {
				continue // the receiver passed as its own argument
			}
			if r := repr32(ops[i]); r != before[i] {
				st = fmt.Sprintf("changed:%d %s", i, r)
				break
			}
		}
		if fn != "andany" {
			e.bm[a[1]] = z
		}
		var sb strings.Builder
		for _, b := range before {
			sb.WriteString(b)
			sb.WriteByte(' ')
		}
		sb.WriteString("| ")
		sb.WriteString(repr32(z))
		sb.WriteString(" | ")
		sb.WriteString(st)
		return sb.String()
	})

	reg("l2lazy", func(e *env, a []string) string {
		need(a, 3)
		switch a[0] {
		case "lazyOR", "lazyIOR", "iand", "ior":
		default:
			panic(skipErr{"unknown l2lazy " + a[0]})
		}
		c1, c2 := parseCont(a[1]), parseCont(a[2])
		if c1 == nil || c2 == nil {
			panic(skipErr{"two containers"})
		}
		r, err := roaring.VerifKernel(a[0], c1, c2)
		if err != nil {
			panic(skipErr{err.Error()})
		}
		if r.Res == nil {
			return "- " + reprContainer(&r.B, false)
		}
		return reprContainer(r.Res, false) + " " + reprContainer(&r.B, false)
	})
}
