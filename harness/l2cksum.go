package main

// Checksum (C03): `l2cksum x` prints
//   <repr32(x)> <x.Checksum()> <x.Clone().Checksum()> <readfrom> <frombuffer> <fromunsafe> <unmarshal> <frozenview|-> <toarray-rebuilt-equal>
// where the four middle tokens are the checksums of x serialized with ToBytes and read back through the named entry point
// (`err:<..>` when a step fails), `frozenview` is the checksum of FrozenView(Freeze(x)), and a trailing `!chg` marks a Checksum call that
// changed the raw representation of x (a query must not). All numbers in decimal.

import (
	"bytes"
	"strconv"

	"github.com/RoaringBitmap/roaring/v2"
)

func init() {
	reg("l2cksum", func(e *env, a []string) string {
		need(a, 1)
		x := e.b(a[0])
		before := repr32(x)
		u := func(v uint64) string { return strconv.FormatUint(v, 10) }
		ck := x.Checksum()
		chg := repr32(x) != before // judged before Clone: under copy-on-write a Clone legitimately flags the source's containers
		out := before + " " + u(ck) + " " + u(x.Clone().Checksum())
		bs, err := x.ToBytes()
		if err != nil {
			return out + " err:tobytes"
		}
		for _, entry := range []string{"readfrom", "frombuffer", "fromunsafe", "unmarshal"} {
			y := roaring.New()
			cp := append([]byte(nil), bs...)
			var err error
			switch entry {
			case "readfrom":
				_, err = y.ReadFrom(bytes.NewReader(cp))
			case "frombuffer":
				_, err = y.FromBuffer(cp)
			case "fromunsafe":
				_, err = y.FromUnsafeBytes(cp)
			case "unmarshal":
				err = y.UnmarshalBinary(cp)
			}
			if err != nil {
				out += " err:" + entry
			} else {
				out += " " + u(y.Checksum())
			}
		}
		fz, err := x.Freeze()
		if err != nil {
			out += " -"
		} else {
			v := roaring.New()
			if err := v.FrozenView(fz); err != nil {
				out += " err:frozenview"
			} else {
				out += " " + u(v.Checksum())
			}
		}
		if chg {
			out += " !chg"
		}
		return out
	})
}
