package main

// Exact-representation tie of the L2 model of the BITMAP-level mutators and in-place binary operations
// (lean/RModel/Impl/RepMut.lean).
//
//   l2mut add|cadd|rem|crem x v          x.Add / CheckedAdd / Remove / CheckedRemove(v)
//   l2mut addr|remr|flip x lo hi         x.AddRange / RemoveRange / Flip(lo, hi)        (half-open, 64-bit arguments)
//   l2mut opt x                          x.RunOptimize()
//   l2mut setcow x 0|1                   x.SetCopyOnWrite(..)
//   l2mut detach x                       x.CloneCopyOnWriteContainers()
//       output: <repr32(x) before> <repr32(x) after> <true|false|->     (the boolean of the Checked* forms, else "-")
//   l2mut clone x y                      y = x.Clone(), registered as bitmap y
//       output: <repr32(x) before> <repr32(x) after> <repr32(y)>
//
//   l2iop iand|ior|ixor|iandnot x y      x.And / Or / Xor / AndNot(y)   (in place; y may be x itself)
//       output: <repr32(x) before> <repr32(y) before> <repr32(x) after> <repr32(y) after>
//
// repr32 is the RAW representation read through the verification hooks (keys, container kinds, payloads, cached
// cardinalities, needCopyOnWrite flags, the copyOnWrite switch), see view.go.

import (
	roaring "github.com/RoaringBitmap/roaring/v2"
)

func init() {
	reg("l2mut", func(e *env, a []string) string {
		need(a, 2)
		op := a[0]
		x := e.b(a[1])
		third := "-"
		var run func()
		switch op {
		case "add", "cadd", "rem", "crem":
			need(a, 3)
			v := u32(a[2])
			run = func() {
				switch op {
				case "add":
					x.Add(v)
				case "cadd":
					third = bstr(x.CheckedAdd(v))
				case "rem":
					x.Remove(v)
				case "crem":
					third = bstr(x.CheckedRemove(v))
				}
			}
		case "addr", "remr", "flip":
			need(a, 4)
			s, t := u64(a[2]), u64(a[3])
			run = func() {
				switch op {
				case "addr":
					x.AddRange(s, t)
				case "remr":
					x.RemoveRange(s, t)
				case "flip":
					x.Flip(s, t)
				}
			}
		case "opt":
			run = func() { x.RunOptimize() }
		case "setcow":
			need(a, 3)
			run = func() { x.SetCopyOnWrite(a[2] == "1") }
		case "detach":
			run = func() { x.CloneCopyOnWriteContainers() }
		case "clone":
			need(a, 3)
			run = func() {
				y := x.Clone()
				e.bm[a[2]] = y
				third = repr32(y)
			}
		default:
			panic(skipErr{"unknown l2mut " + op})
		}
		before := repr32(x)
		run()
		return before + " " + repr32(x) + " " + third
	})

	reg("l2iop", func(e *env, a []string) string {
		need(a, 3)
		var f func(p, q *roaring.Bitmap)
		switch a[0] {
		case "iand":
			f = func(p, q *roaring.Bitmap) { p.And(q) }
		case "ior":
			f = func(p, q *roaring.Bitmap) { p.Or(q) }
		case "ixor":
			f = func(p, q *roaring.Bitmap) { p.Xor(q) }
		case "iandnot":
			f = func(p, q *roaring.Bitmap) { p.AndNot(q) }
		default:
			panic(skipErr{"unknown l2iop " + a[0]})
		}
		x, y := e.b(a[1]), e.b(a[2])
		rx, ry := repr32(x), repr32(y)
		f(x, y)
		return rx + " " + ry + " " + repr32(x) + " " + repr32(y)
	})
}
