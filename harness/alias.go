package main

// Value-semantics / container-sharing (C07) and zero-copy buffer (C08, C16) command family.
//
//   safe                       pointer graph of ALL live 32-bit bitmaps (canonical ids) - the Lean side evaluates `Safe`
//   digall                     name=digest of ALL live 32-bit bitmaps
//   drop x                     forget bitmap x
//   zbuf b x                   ToBytes(x) into an anonymous mapping registered as b, then mprotect(PROT_READ)
//   zfrozen b x                Freeze(x)  into such a mapping
//   zrd y entry b              entry in frombuffer|fromunsafe|frozen : decode (zero-copy) from mapping b;
//                              entry in readfrom|must|unmarshal|base64 : copying decoders, must leave no reference to b
//   zdetach y                  CloneCopyOnWriteContainers(y); reports how many references into caller memory remain
//   zkill b [keep]             overwrite mapping b with garbage, then mprotect(PROT_NONE) (keep: stays PROT_READ);
//                              prints `ok <live bitmaps that still reference b, or ->`
//   zsame b                    the caller's buffer still holds exactly the bytes it was created with
//   zdense b x [pad]           ToDense(x) into a protected mapping (pad: zero-padded to a multiple of 1024 words)
//   zfromdense y b copy=0|1    FromDense(words of b, copy)
//   zbitset s x                ToDense(x) (padded) into a protected mapping wrapped as a bitset.BitSet (bitset.From)
//   zfrombitset y s            y = FromBitSet(s)
//   bsset s v | bsclr s v      the caller sets / clears bit v of his BitSet (v below its length)
//   bsdig s                    digest of the BitSet's words
//   gc                         two collections, then the free lists are refilled with junk: an object that is only
//                              reachable through memory the collector does not scan shows up as a wrong digest
//
// A stray write into a mapping (or a read of a killed one) faults; main.go sets debug.SetPanicOnFault(true) so the fault
// is a recoverable panic reported as `panic:...`.

import (
	"fmt"
	"reflect"
	"runtime"
	"sort"
	"strings"
	"syscall"
	"unsafe"

	roaring "github.com/RoaringBitmap/roaring/v2"
	"github.com/bits-and-blooms/bitset"
)

// mapping is one caller-owned region (anonymous mmap).
type mapping struct {
	name string
	mem  []byte // the whole mapping (page multiple)
	n    int    // payload length in bytes
	kind string // "portable" | "frozen" | "dense"
	dead bool
	orig []byte // private copy of the payload, for zsame
	bs   *bitset.BitSet // kind "bitset": a BitSet whose words are the payload
}

func (m *mapping) base() uintptr { return uintptr(unsafe.Pointer(&m.mem[0])) }

func (e *env) mapNamed(name string) *mapping {
	for i := len(e.maps) - 1; i >= 0; i-- {
		if e.maps[i].name == name {
			return &e.maps[i]
		}
	}
	panic(skipErr{"undefined buffer " + name})
}

// newMapping copies payload into a fresh anonymous mapping and makes it read-only.
func (e *env) newMapping(name, kind string, payload []byte) *mapping {
	pg := syscall.Getpagesize()
	sz := (len(payload) + pg - 1) / pg * pg
	if sz == 0 {
		sz = pg
	}
	mem, err := syscall.Mmap(-1, 0, sz, syscall.PROT_READ|syscall.PROT_WRITE, syscall.MAP_ANON|syscall.MAP_PRIVATE)
	if err != nil {
		panic("mmap: " + err.Error())
	}
	copy(mem, payload)
	if err := syscall.Mprotect(mem, syscall.PROT_READ); err != nil {
		panic("mprotect: " + err.Error())
	}
	e.maps = append(e.maps, mapping{name: name, mem: mem, n: len(payload), kind: kind, orig: append([]byte(nil), payload...)})
	return &e.maps[len(e.maps)-1]
}

// span is a memory extent [p, p+n).
type span struct {
	p uintptr
	n uintptr
}

func (e *env) foreign(s span) bool {
	if s.n == 0 {
		return false
	}
	for i := range e.maps {
		b := e.maps[i].base()
		if s.p < b+uintptr(len(e.maps[i].mem)) && b < s.p+s.n {
			return true
		}
	}
	return false
}

func sliceSpan(v reflect.Value, elem uintptr) span {
	if v.Kind() != reflect.Slice || v.Cap() == 0 {
		return span{}
	}
	return span{v.Pointer(), uintptr(v.Cap()) * elem}
}

// rawGraph is what `safe` needs from one bitmap: the hook view plus the extents of every array it owns.
type rawGraph struct {
	cow   bool
	cs    []roaring.VerifContainer
	back  []span  // per container: extent (capacity) of its backing array
	meta  [3]span // keys, containers, needCopyOnWrite arrays
	check string  // non-empty if reflection and the hook disagree
}

func graphOf(rb *roaring.Bitmap) rawGraph {
	var g rawGraph
	g.cow, g.cs = roaring.VerifView(rb)
	g.back = make([]span, len(g.cs))
	ra := reflect.ValueOf(rb).Elem().Field(0)
	g.meta[0] = sliceSpan(ra.FieldByName("keys"), 2)
	cf := ra.FieldByName("containers")
	g.meta[1] = sliceSpan(cf, unsafe.Sizeof((*interface{})(nil))*2)
	g.meta[2] = sliceSpan(ra.FieldByName("needCopyOnWrite"), 1)
	if cf.Len() != len(g.cs) {
		g.check = "len"
		return g
	}
	for i := range g.cs {
		st := cf.Index(i).Elem()
		if st.Kind() == reflect.Ptr {
			st = st.Elem()
		}
		var s span
		switch g.cs[i].Kind {
		case 'A':
			s = sliceSpan(st.FieldByName("content"), 2)
		case 'B':
			s = sliceSpan(st.FieldByName("bitmap"), 8)
		case 'R':
			s = sliceSpan(st.FieldByName("iv"), 4)
		}
		if s.p != g.cs[i].Backing && !(s.n == 0 && g.cs[i].Backing == 0) {
			g.check = "backing"
		}
		g.back[i] = s
	}
	return g
}

// foreignRefs counts the arrays of rb (container backings and the three parallel slices) that lie in caller memory.
func (e *env) foreignRefs(rb *roaring.Bitmap) int {
	g := graphOf(rb)
	n := 0
	for _, s := range g.back {
		if e.foreign(s) {
			n++
		}
	}
	for _, s := range g.meta {
		if e.foreign(s) {
			n++
		}
	}
	return n
}

func (e *env) names32() []string {
	ns := make([]string, 0, len(e.bm))
	for n := range e.bm {
		ns = append(ns, n)
	}
	sort.Strings(ns)
	return ns
}

// safeDump renders the pointer graph. Arrays are identified by overlap classes of their capacity extents, so two
// slices into one allocation (or one caller buffer decoded twice) get the same id. Ids are dense in order of first
// appearance; 0 = no array; prefix F = lies inside a registered caller-owned mapping.
func (e *env) safeDump() string {
	names := e.names32()
	if len(names) == 0 {
		return "-"
	}
	gs := make([]rawGraph, len(names))
	var all []span
	for i, n := range names {
		gs[i] = graphOf(e.bm[n])
		if gs[i].check != "" {
			return "err:hook-mismatch:" + gs[i].check + ":" + n
		}
		all = append(all, gs[i].meta[:]...)
		all = append(all, gs[i].back...)
	}
	// overlap classes
	srt := make([]span, 0, len(all))
	for _, s := range all {
		if s.n > 0 {
			srt = append(srt, s)
		}
	}
	sort.Slice(srt, func(i, j int) bool { return srt[i].p < srt[j].p })
	type cls struct{ lo, hi uintptr }
	var classes []cls
	for _, s := range srt {
		if k := len(classes); k > 0 && s.p < classes[k-1].hi {
			if s.p+s.n > classes[k-1].hi {
				classes[k-1].hi = s.p + s.n
			}
			continue
		}
		classes = append(classes, cls{s.p, s.p + s.n})
	}
	classOf := func(s span) int {
		i := sort.Search(len(classes), func(i int) bool { return classes[i].hi > s.p })
		return i
	}
	arrID := map[int]int{}
	cellID := map[uintptr]int{}
	aid := func(s span) string {
		if s.n == 0 {
			return "0"
		}
		c := classOf(s)
		id, ok := arrID[c]
		if !ok {
			id = len(arrID) + 1
			arrID[c] = id
		}
		if e.foreign(s) {
			return fmt.Sprintf("F%d", id)
		}
		return fmt.Sprintf("%d", id)
	}
	var sb strings.Builder
	for i, n := range names {
		g := &gs[i]
		if i > 0 {
			sb.WriteByte(' ')
		}
		cw := 0
		if g.cow {
			cw = 1
		}
		fmt.Fprintf(&sb, "%s:cow=%d:m=%s,%s,%s:", n, cw, aid(g.meta[0]), aid(g.meta[1]), aid(g.meta[2]))
		for j := range g.cs {
			c := &g.cs[j]
			id, ok := cellID[c.Ptr]
			if !ok {
				id = len(cellID) + 1
				cellID[c.Ptr] = id
			}
			f := 0
			if c.NeedCOW {
				f = 1
			}
			if j > 0 {
				sb.WriteByte(';')
			}
			fmt.Fprintf(&sb, "%d,%d,%s,%d", c.Key, id, aid(g.back[j]), f)
		}
	}
	return sb.String()
}

func wordsIvs(words []uint64) []iv {
	var b ivBuilder
	c := roaring.VerifContainer{Kind: 'B'}
	for off := 0; off < len(words); off += 1024 {
		hi := off + 1024
		if hi > len(words) {
			hi = len(words)
		}
		c.Words = words[off:hi]
		walkContainer(&b, uint64(off)*64, &c)
	}
	return b.out
}

func (e *env) zdense(name string, x *roaring.Bitmap, pad bool) string {
	words := x.ToDense()
	if pad && len(words)%1024 != 0 {
		words = append(words, make([]uint64, 1024-len(words)%1024)...)
	}
	payload := make([]byte, 8*len(words))
	for i, w := range words {
		for k := 0; k < 8; k++ {
			payload[8*i+k] = byte(w >> (8 * uint(k)))
		}
	}
	e.newMapping(name, "dense", payload)
	return fmt.Sprintf("ok %d %s", len(words), digest(wordsIvs(words)))
}

func (e *env) zfromdense(y string, m *mapping, doCopy bool) string {
	if m.dead || m.kind != "dense" {
		panic(skipErr{"buffer dead or wrong kind"})
	}
	var words []uint64
	if m.n > 0 {
		words = unsafe.Slice((*uint64)(unsafe.Pointer(&m.mem[0])), m.n/8)
	}
	rb := roaring.FromDense(words, doCopy)
	e.bm[y] = rb
	return fmt.Sprintf("%s %d", d32(rb), e.foreignRefs(rb))
}

func copyFlag(a []string) bool {
	for _, s := range a {
		if s == "copy=1" {
			return true
		}
		if s == "copy=0" {
			return false
		}
	}
	panic(skipErr{"copy=0|1 expected"})
}

// junk objects of the size classes used by containers and their arrays, with and without pointers.
type junkP struct {
	p    *byte
	a, b uintptr
	q    *byte
}

var junkSink [][]byte
var junkSinkP []*junkP

func gcAndClobber() {
	runtime.GC()
	runtime.GC()
	const pat = 0xAAAAAAAAAAAAAAAA
	for _, sz := range []int{8, 16, 24, 32, 48, 64, 96, 128, 192, 256, 384, 512, 1024, 2048, 4096, 8192, 16384} {
		n := 1 << 19 / sz
		if n > 4000 {
			n = 4000
		}
		if n < 16 {
			n = 16
		}
		for i := 0; i < n; i++ {
			b := make([]byte, sz)
			for j := range b {
				b[j] = 0xAA
			}
			junkSink = append(junkSink, b)
		}
	}
	for i := 0; i < 20000; i++ {
		junkSinkP = append(junkSinkP, &junkP{a: pat, b: pat})
	}
	junkSink, junkSinkP = nil, nil
}

func init() {
	reg("gc", func(e *env, a []string) string { gcAndClobber(); return "ok" })
	reg("safe", func(e *env, a []string) string { return e.safeDump() })
	reg("digall", func(e *env, a []string) string {
		names := e.names32()
		if len(names) == 0 {
			return "-"
		}
		parts := make([]string, len(names))
		for i, n := range names {
			parts[i] = n + "=" + d32(e.bm[n])
		}
		return strings.Join(parts, " ")
	})
	reg("drop", func(e *env, a []string) string {
		need(a, 1)
		e.b(a[0])
		delete(e.bm, a[0])
		delete(e.bufs, a[0])
		return "ok"
	})
	reg("zbuf", func(e *env, a []string) string {
		need(a, 2)
		bs, err := e.b(a[1]).ToBytes()
		if err != nil {
			return "err:" + spaceless(err.Error())
		}
		e.newMapping(a[0], "portable", bs)
		return "ok"
	})
	reg("zfrozen", func(e *env, a []string) string {
		need(a, 2)
		bs, err := e.b(a[1]).Freeze()
		if err != nil {
			return "err:" + spaceless(err.Error())
		}
		e.newMapping(a[0], "frozen", bs)
		return "ok"
	})
	reg("zrd", func(e *env, a []string) string {
		need(a, 3)
		m := e.mapNamed(a[2])
		want := map[string]string{"frombuffer": "portable", "fromunsafe": "portable", "frozen": "frozen",
			"readfrom": "portable", "must": "portable", "unmarshal": "portable", "base64": "portable"}[a[1]]
		if want == "" || m.dead || m.kind != want {
			panic(skipErr{"buffer dead or wrong kind"})
		}
		data := m.mem[:m.n:m.n]
		y := roaring.New()
		if old, ok := e.bm[a[0]]; ok {
			y = old // a previously used receiver is loaded again
		}
		n, _, err := decodeInto(e, y, a[1], data, 0)
		if err != nil {
			return "err:" + spaceless(err.Error())
		}
		e.bm[a[0]] = y
		counted := a[1] != "frozen" && a[1] != "unmarshal" && a[1] != "base64"
		return fmt.Sprintf("%s %s %d", d32(y), bstr(!counted || n == int64(m.n)), e.foreignRefs(y))
	})
	reg("zdetach", func(e *env, a []string) string {
		need(a, 1)
		y := e.b(a[0])
		y.CloneCopyOnWriteContainers()
		return fmt.Sprintf("%s %d", d32(y), e.foreignRefs(y))
	})
	reg("zkill", func(e *env, a []string) string {
		need(a, 1)
		m := e.mapNamed(a[0])
		if m.dead {
			panic(skipErr{"buffer dead"})
		}
		// which live bitmaps still reference this buffer? (the documented protocol: none - detach or discard them first)
		var refs []string
		lo, hi := m.base(), m.base()+uintptr(len(m.mem))
		for _, n := range e.names32() {
			g := graphOf(e.bm[n])
			hit := false
			for _, sp := range append(append([]span(nil), g.back...), g.meta[:]...) {
				if sp.n > 0 && sp.p < hi && lo < sp.p+sp.n {
					hit = true
				}
			}
			if hit {
				refs = append(refs, n)
			}
		}
		if err := syscall.Mprotect(m.mem, syscall.PROT_READ|syscall.PROT_WRITE); err != nil {
			panic("mprotect: " + err.Error())
		}
		for i := range m.mem {
			m.mem[i] = byte(i*131 + 89)
		}
		prot := syscall.PROT_NONE
		if hasTok(a[1:], "keep") {
			prot = syscall.PROT_READ
		}
		if err := syscall.Mprotect(m.mem, prot); err != nil {
			panic("mprotect: " + err.Error())
		}
		m.dead = true
		if len(refs) == 0 {
			return "ok -"
		}
		return "ok " + strings.Join(refs, ",")
	})
	reg("zsame", func(e *env, a []string) string {
		need(a, 1)
		m := e.mapNamed(a[0])
		if m.dead {
			panic(skipErr{"buffer dead"})
		}
		return bstr(string(m.mem[:m.n]) == string(m.orig))
	})
	reg("zbitset", func(e *env, a []string) string {
		need(a, 2)
		out := e.zdense(a[0], e.b(a[1]), true)
		m := e.mapNamed(a[0])
		m.kind = "bitset"
		var words []uint64
		if m.n > 0 {
			words = unsafe.Slice((*uint64)(unsafe.Pointer(&m.mem[0])), m.n/8)
		}
		m.bs = bitset.From(words)
		return out
	})
	reg("zfrombitset", func(e *env, a []string) string {
		need(a, 2)
		m := e.mapNamed(a[1])
		if m.dead || m.kind != "bitset" {
			panic(skipErr{"buffer dead or wrong kind"})
		}
		rb := roaring.FromBitSet(m.bs)
		e.bm[a[0]] = rb
		return d32(rb)
	})
	bsmut := func(set bool) cmdFunc {
		return func(e *env, a []string) string {
			need(a, 2)
			m := e.mapNamed(a[0])
			v := u64(a[1])
			if m.dead || m.kind != "bitset" || v >= uint64(m.n)*8 {
				panic(skipErr{"buffer dead, wrong kind or bit out of range"})
			}
			if err := syscall.Mprotect(m.mem, syscall.PROT_READ|syscall.PROT_WRITE); err != nil {
				panic("mprotect: " + err.Error())
			}
			if set {
				m.bs.Set(uint(v))
			} else {
				m.bs.Clear(uint(v))
			}
			copy(m.orig, m.mem[:m.n])
			if err := syscall.Mprotect(m.mem, syscall.PROT_READ); err != nil {
				panic("mprotect: " + err.Error())
			}
			return digest(wordsIvs(m.bs.Bytes()))
		}
	}
	reg("bsset", bsmut(true))
	reg("bsclr", bsmut(false))
	reg("bsdig", func(e *env, a []string) string {
		need(a, 1)
		m := e.mapNamed(a[0])
		if m.dead || m.kind != "bitset" {
			panic(skipErr{"buffer dead or wrong kind"})
		}
		return digest(wordsIvs(m.bs.Bytes()))
	})
	reg("zdense", func(e *env, a []string) string {
		need(a, 2)
		return e.zdense(a[0], e.b(a[1]), hasTok(a[2:], "pad"))
	})
	reg("zfromdense", func(e *env, a []string) string {
		need(a, 3)
		c := copyFlag(a[2:])
		return e.zfromdense(a[0], e.mapNamed(a[1]), c)
	})
}
