"""roaring64 suites (registered with genlib.suite): `r64` (C17) and `ser64` (C18).

Grammar of the roaring64 command family (harness/r64.go <-> lean/RModel/Driver/R64.lean).
Values are decimal uint64.  `D(x)` = digest of x computed from the raw representation.

  new64 x | of64 x v.. | addmany64 x v..              -> D(x)
  clone64 y x | cowclone64 y x                          -> D(y) D(x)          (cowclone = SetCopyOnWrite(true)+Clone)
  setcow64 x 0|1                                        -> true|false         (GetCopyOnWrite after the call)
  detach64 x | opt64 x | clear64 x | dig64 x            -> D(x)
  add64 x v | addint64 x v | rem64 x v                  -> D(x)
  cadd64 x v | crem64 x v                               -> true|false D(x)
  addr64 x s e | remr64 x s e | flip64 x s e | flipint64 x s e   -> D(x)       ([s,e), e <= 2^64-1, s>=e is a no-op)
  sflip64 y x s e                                       -> D(y) D(x)
  and64|or64|xor64|andnot64 y a b                       -> D(y) D(a) D(b)
  iand64|ior64|ixor64|iandnot64 a b                     -> D(a) D(b)
  andcard64|orcard64 a b -> n      isect64|eq64 a b -> bool
  card64 x -> n | empty64 x -> bool | has64|hasint64 x v -> bool | min64|max64 x -> v | rank64 x v -> n
  sel64 x i -> v|err | toarr64 x -> "n D"|toobig (n > 2^22) | str64 x -> "n D"|toobig (n > 4096)
  dump64 x -> lo-hi,v,..|-   wf64 x -> ok|err:<why>   runs64 x -> true   stats64 x -> "card true"
  fastor64 y a.. | fastand64 y a.. | paror64 y w a..    -> D(y) args=same|args=mut D(a)..
  as64 y x32                                            -> D(y) D32(x32)      (Roaring32AsRoaring64 of a clone)
  it64|rit64|mit64 i x -> ok | hasnext64 i -> bool | next64 i -> v|end | peek64 i -> v|end
  adv64 i m -> v|end (state after AdvanceIfNeeded) | many64 i n -> "k D" | drain64 i n -> "k D" | seq64 x fwd|rev n -> "k D"
  ser64 x        -> len(ToBytes) GetSerializedSizeInBytes n(WriteTo) writeto==tobytes marshal==tobytes base64==tobytes
  hex64 x        -> hex of ToBytes | toobig           (checked by the Lean reading of the format specification)
  rd64 y <entry> x [extra=<k>] [reuse]  -> D(y) n|- len consumed|- wf       entry: readfrom|readfrom1|readpipe|fromunsafe|unmarshal|base64
                                           (readfrom1 = ReadFrom through a one-byte-per-Read reader, readpipe = through the read end of an OS pipe)
  bufchk64 y                            -> ok | modified@<off>   (the buffer given to FromUnsafeBytes for y is untouched)
  reit64 i x                            -> ok          (Initialize the existing iterator object i on bitmap x)
  dec64 y <entry> <hex> [reuse]         -> ok n|- <wf> <dump> | err | panic:.. | fatal:..   (y defined iff ok and wf=ok)
  trunc64 x <entry>                     -> allerr | ok@<k|-> panic@<k|-> | toobig
  alias64 x..                           -> ok | same:<a>=<b> | shared:<a>/<b>@<key>   (an inner bitmap reachable from two
                                           distinct objects must be flagged copy-on-write in both)
  lenient64 runsize                     -> ok          (wf tolerates ErrRunIntervalSize from now on, see F7)
  cor64 x <entry> <field> <value>       -> ok n|- valid|invalid | err | panic:.. | fatal:..
        field: count | key:<i> | cookie:<i> | isize:<i> | byte:<off>

Environment variable R64_AVOID (comma separated, or "all") removes the script shapes that hit the defects already
recorded in FINDINGS.md, so that the rest of the family can be shown to agree:
  sflip    static Flip over more than one bucket          (F1)
  ixor     mutation after in-place Xor / self Xor          (F3, F4)
  paror    ParOr aliasing / argument compaction            (F2)
  as64e    Roaring32AsRoaring64 of an empty bitmap         (F6)
  count    corrupt bucket counts above the stream length   (F5)
  runsize  emits `lenient64 runsize` first: wf tolerates Validate()'s "too many intervals relative to data" (F7)
"""
import os
import struct
from genlib import G, suite, U32, CH  # noqa: F401

B32 = 1 << 32
U64 = 1 << 64
MAXV = U64 - 1

_av = os.environ.get("R64_AVOID", "")
AVOID = set(x for x in _av.split(",") if x)
if "all" in AVOID:
    AVOID = {"sflip", "ixor", "paror", "as64e", "count", "runsize"}

BUCKET_GROUPS = [[0, 1, 2], [0, 1], [1, 2, 3], [0x7FFFFFFF, 0x80000000], [0x80000000, 0x80000001],
                 [0xFFFFFFFE, 0xFFFFFFFF], [0xFFFFFFFF], [0], [0, 0xFFFFFFFF], [1, 0x80000000, 0xFFFFFFFF],
                 [0, 2, 4], [5, 6, 7, 8]]
LOWS = [0, 1, 2, 63, 64, 4095, 4096, 65535, 65536, 65537, 131071, 131072, 0x7FFFFFFF, 0x80000000, 0xFFFF0000,
        0xFFFFFFFE, 0xFFFFFFFF, 0xFFFFFFFD]


class R:
    """helper bound to a genlib.G"""

    def __init__(self, g, scale):
        self.g = g
        self.r = g.r
        self.wide = int(10 * scale) + 2   # budget of operations that create / flip whole buckets (slow in Go)

    # ------------------------------------------------------------------ values
    def homes(self):
        r = self.r
        c = r.random()
        if c < 0.8:
            hs = list(r.choice(BUCKET_GROUPS))
        else:
            b = r.randrange(0, 0xFFFFFFFF)
            hs = [b, b + 1] if r.random() < 0.5 else [b]
        self.g.count("homes:%d" % len(hs))
        return hs

    def anchors(self):
        r = self.r
        return [r.choice(LOWS), r.choice(LOWS), r.randrange(B32)]

    def low(self, anchors):
        r = self.r
        c = r.random()
        if c < 0.3:
            return r.choice(LOWS)
        if c < 0.85 and anchors:
            a = r.choice(anchors)
            return max(0, min(B32 - 1, a + r.randrange(-40, 41)))
        if c < 0.93 and anchors:
            a = r.choice(anchors)
            return max(0, min(B32 - 1, a + r.randrange(-70000, 70001)))
        return r.randrange(B32)

    def bucket(self, homes):
        r = self.r
        if homes and r.random() < 0.9:
            return r.choice(homes)
        return r.choice([0, 1, 2, 0x7FFFFFFF, 0x80000000, 0xFFFFFFFE, 0xFFFFFFFF, r.randrange(B32)])

    def val(self, homes, anchors):
        return (self.bucket(homes) << 32) | self.low(anchors)

    def take_wide(self):
        if self.wide > 0:
            self.wide -= 1
            return True
        return False

    def rng(self, homes, anchors, allow_wide=True, free_wide=False):
        """[s,e) from the boundary pool; returns (s, e, cls)"""
        r = self.r
        c = r.random()
        b = self.bucket(homes)
        if c < 0.08:
            s = self.val(homes, anchors)
            return (s, r.choice([s, max(0, s - 1), 0, max(0, s - B32)]), "noop")
        if c < 0.40:
            s = self.val(homes, anchors)
            e = min(MAXV, s + r.choice([1, 2, 3, 10, 100, 4096, 65536, 70000, 200000]))
            return (s, e, "small")
        if c < 0.62:
            # crosses the boundary between bucket b and b+1
            edge = (b + 1) << 32
            d1 = r.choice([0, 1, 2, 100, 65536, 70000])
            d2 = r.choice([0, 1, 2, 100, 65536, 70000])
            if edge >= U64:
                return (edge - d1 - 1, MAXV, "cross-top")
            return (edge - d1, min(MAXV, edge + d2), "cross")
        if c < 0.70:
            # up to the last expressible end
            s = (0xFFFFFFFF << 32) | (B32 - r.choice([1, 2, 3, 100, 70000]))
            return (s, MAXV, "top")
        if not allow_wide or not (free_wide or self.take_wide()):
            s = self.val(homes, anchors)
            return (s, min(MAXV, s + r.choice([1, 5, 1000])), "small")
        c = r.random()
        lo = b << 32
        hi = min(MAXV, (b + 1) << 32)
        if c < 0.3:
            return (lo, hi, "bucket")
        if c < 0.5:
            return (lo + self.low(anchors), hi, "suffix")
        if c < 0.65:
            return (lo, lo + max(1, self.low(anchors)), "prefix")
        # 2-3 buckets with a whole bucket in the middle
        n = r.choice([2, 2, 3])
        s = lo + r.choice([0, 1, B32 - 1, B32 - 65536, self.low(anchors)])
        e = min(MAXV, ((b + n) << 32) + r.choice([0, 1, 65536, self.low(anchors)]))
        return (s, e, "span%d" % n)

    # ------------------------------------------------------------------ building
    def fill_bucket(self, x, b, anchors):
        g, r = self.g, self.r
        base = b << 32
        sh = r.choices(["single", "sparse", "edges", "range", "ranges", "dense", "chunks", "suffixsmall", "alt"],
                       [4, 6, 4, 5, 4, 2, 3, 3, 2])[0]
        if sh == "single":
            g.emit("add64 %s %d" % (x, base + self.low(anchors)))
        elif sh == "sparse":
            n = r.randrange(2, 40)
            g.emit("addmany64 %s %s" % (x, " ".join(str(base + self.low(anchors)) for _ in range(n))))
        elif sh == "edges":
            vs = [v for v in [0, 1, 65535, 65536, 0x7FFFFFFF, 0x80000000, B32 - 2, B32 - 1] if r.random() < 0.6] or [B32 - 1]
            g.emit("addmany64 %s %s" % (x, " ".join(str(base + v) for v in vs)))
        elif sh == "range":
            s = self.low(anchors)
            g.emit("addr64 %s %d %d" % (x, base + s, min(MAXV, base + min(B32, s + r.choice([2, 100, 5000, 65536, 300000])))))
        elif sh == "ranges":
            for _ in range(r.randrange(2, 8)):
                s = self.low(anchors)
                g.emit("addr64 %s %d %d" % (x, base + s, min(MAXV, base + min(B32, s + r.choice([1, 3, 50, 4097])))))
        elif sh == "dense":
            a = r.choice(anchors) & ~0xFFFF
            vals = r.sample(range(65536), r.choice([3000, 5000, 9000]))
            g.emit("addmany64 %s %s" % (x, " ".join(str(base + min(B32 - 1, a + v)) for v in vals)))
        elif sh == "chunks":
            # one value in each of several consecutive 16-bit chunks
            a = (r.choice(anchors) >> 16)
            vs = [min(B32 - 1, ((a + i) << 16) + r.randrange(65536)) for i in range(r.randrange(2, 12))]
            g.emit("addmany64 %s %s" % (x, " ".join(str(base + v) for v in vs)))
        elif sh == "suffixsmall":
            d = r.choice([1, 2, 100, 70000])
            g.emit("addr64 %s %d %d" % (x, base + B32 - d, min(MAXV, base + B32)))
        elif sh == "alt":
            s = self.low(anchors)
            g.emit("addmany64 %s %s" % (x, " ".join(str(base + min(B32 - 1, s + 2 * i)) for i in range(r.randrange(10, 300)))))
        g.count("shape64:" + sh)

    def build(self, x, homes=None, anchors=None):
        g, r = self.g, self.r
        if homes is None:
            homes = self.homes()
        if anchors is None:
            anchors = self.anchors()
        g.emit("new64 %s" % x)
        for b in homes:
            if r.random() < 0.85:
                self.fill_bucket(x, b, anchors)
        c = r.random()
        if c < 0.35:
            g.emit("opt64 %s" % x)
        if r.random() < 0.2:
            g.emit("setcow64 %s 1" % x)
            g.count("build64:cow")
        return homes, anchors

    # ------------------------------------------------------------------ histories
    def hist_step(self, x, homes, anchors):
        g, r = self.g, self.r
        op = r.choices(["add64", "cadd64", "addint64", "addmany64", "rem64", "crem64", "addr64", "remr64", "flip64",
                        "flipint64", "clear64", "opt64", "cloneswap", "detach64", "setcow64", "query", "emptybucket",
                        "sflipcmp"],
                       [8, 8, 2, 4, 6, 8, 8, 8, 8, 1, 0.3, 2, 2, 1, 1, 6, 2, 3])[0]
        g.count("histop64:" + op)
        if op in ("add64", "cadd64", "addint64", "rem64", "crem64"):
            g.emit("%s %s %d" % (op, x, self.val(homes, anchors)))
        elif op == "addmany64":
            n = r.choice([0, 1, 2, 5, 30])
            c = r.random()
            if c < 0.4:
                b = self.bucket(homes)
                vals = [(b << 32) | self.low(anchors) for _ in range(n)]
            elif c < 0.7:
                # alternating buckets: every element starts a new batch
                vals = [self.val(homes, anchors) for _ in range(n)]
            else:
                vals = sorted(self.val(homes, anchors) for _ in range(n))
            g.emit("addmany64 %s %s" % (x, " ".join(map(str, vals))))
        elif op in ("addr64", "remr64", "flip64", "flipint64"):
            s, e, cls = self.rng(homes, anchors, allow_wide=(op != "flipint64"), free_wide=(op == "remr64"))
            g.count("rng64:%s:%s" % (op, cls))
            g.emit("%s %s %d %d" % (op, x, s, e))
        elif op in ("clear64", "opt64", "detach64"):
            g.emit("%s %s" % (op, x))
        elif op == "setcow64":
            g.emit("setcow64 %s %d" % (x, r.randrange(2)))
        elif op == "cloneswap":
            y = g.fresh("c")
            g.emit("%s %s %s" % (r.choice(["clone64", "cowclone64"]), y, x))
            v = self.val(homes, anchors)
            g.emit("%s %s %d" % (r.choice(["cadd64", "crem64"]), y, v))
            g.emit("dig64 %s" % x)
            g.emit("%s %s %d" % (r.choice(["cadd64", "crem64"]), x, self.val(homes, anchors)))
            g.emit("dig64 %s" % y)
            s, e, _ = self.rng(homes, anchors, allow_wide=False)
            g.emit("%s %s %d %d" % (r.choice(["addr64", "remr64", "flip64"]), y, s, e))
            g.emit("dig64 %s" % x)
            g.emit("wf64 %s" % y)
        elif op == "query":
            q = r.choice(["card64 %s", "empty64 %s", "wf64 %s", "runs64 %s", "stats64 %s", "ser64 %s"])
            g.emit(q % x)
        elif op == "emptybucket":
            # make a bucket empty in each possible way, then touch its neighbours
            b = self.bucket(homes)
            lo, hi = b << 32, min(MAXV, (b + 1) << 32)
            way = r.choice(["remr", "crem", "flipsame", "remr-span", "partial-first", "partial-last", "partial-first"])
            g.count("emptybucket:" + way)
            if way in ("partial-first", "partial-last"):
                # the bucket holds values only above (below) some point m; a range over 2-3 buckets that STARTS (ends) strictly
                # inside it at a point <= (>=) all of them empties it through the partial-removal path
                g.emit("remr64 %s %d %d" % (x, lo, hi))
                m = r.choice([1, 5, 65536, 70000, (1 << 31), (1 << 32) - 2])
                vals = sorted(set(min((1 << 32) - 1, m + d) for d in (0, 1, 7, 65536, 100000)))
                if way == "partial-first" and b < 0xFFFFFFFF:
                    g.emit("addmany64 %s %s" % (x, " ".join(str(lo + v) for v in vals)))
                    g.emit("add64 %s %d" % (x, hi + r.choice([0, 3, 70000])))            # something in the next bucket
                    s = lo + r.choice([m, m, max(1, m - 1), 1])
                    e = min(MAXV, hi + r.choice([1, 4, 65536, (1 << 32) + 5]))
                    g.emit("remr64 %s %d %d" % (x, s, e))
                elif b > 0:
                    top = (1 << 32) - 1 - m
                    vals2 = sorted(set(max(0, top - d) for d in (0, 1, 7, 65536, 100000)))
                    g.emit("addmany64 %s %s" % (x, " ".join(str(lo + v) for v in vals2)))
                    g.emit("add64 %s %d" % (x, lo - r.choice([1, 3, 70000])))            # something in the previous bucket
                    s = max(0, lo - r.choice([1, 4, 65536, (1 << 32) + 5]))
                    e = lo + r.choice([top + 1, top + 1, min((1 << 32) - 1, top + 2)])
                    g.emit("remr64 %s %d %d" % (x, s, e))
                else:
                    g.emit("remr64 %s %d %d" % (x, lo, hi))
            elif way == "remr":
                g.emit("remr64 %s %d %d" % (x, lo, hi))
            elif way == "remr-span":
                g.emit("remr64 %s %d %d" % (x, max(0, lo - r.choice([0, 1, 70000])), min(MAXV, hi + r.choice([0, 1, 70000]))))
            elif way == "crem":
                g.emit("remr64 %s %d %d" % (x, lo, hi))
                v = lo + self.low(anchors)
                g.emit("cadd64 %s %d" % (x, v))
                g.emit("crem64 %s %d" % (x, v))
            else:
                g.emit("remr64 %s %d %d" % (x, lo, hi))
                s = lo + self.low(anchors)
                e = min(hi, s + r.choice([1, 7, 70000]))
                g.emit("flip64 %s %d %d" % (x, s, e))
                g.emit("flip64 %s %d %d" % (x, s, e))
            g.emit("wf64 %s" % x)
            g.emit("empty64 %s" % x)
        elif op == "sflipcmp":
            self.sflip_cmp(x, homes, anchors)

    def sflip_cmp(self, x, homes, anchors):
        """static Flip against the in-place Flip of a clone"""
        g, r = self.g, self.r
        while True:
            s, e, cls = self.rng(homes, anchors, allow_wide=False)
            if "sflip" in AVOID and s < e and (s >> 32) != (e >> 32):
                continue
            break
        g.count("sflip64:" + cls)
        y, z = g.fresh("f"), g.fresh("f")
        g.emit("sflip64 %s %s %d %d" % (y, x, s, e))
        g.emit("wf64 %s" % y)
        g.emit("clone64 %s %s" % (z, x))
        g.emit("flip64 %s %d %d" % (z, s, e))
        g.emit("eq64 %s %s" % (y, z))
        g.emit("alias64 %s %s %s" % (x, y, z))
        # independence of the result
        g.emit("cadd64 %s %d" % (y, self.val(homes, anchors)))
        g.emit("dig64 %s" % x)

    def iter_gap_episode(self):
        """AdvanceIfNeeded into a bucket that is ABSENT (a later bucket holds smaller low bits), and a backwards advance from a
        later bucket with larger low bits than the pending value"""
        g, r = self.g, self.r
        b = r.choice([0, 5, 0x7FFFFFFF, 0xFFFFFFF0])
        x = g.fresh("e")
        g.emit("new64 %s" % x)
        g.emit("addmany64 %s %s" % (x, " ".join(str(v) for v in [(b << 32) + 7, (b << 32) + 9, ((b + 2) << 32) + 3, ((b + 2) << 32) + 100,
                                                                   ((b + 2) << 32) + 70000, ((b + 5) << 32) + 1])))
        for m in [((b + 1) << 32) + 50, ((b + 1) << 32) + 0xFFFFFFFF, ((b + 3) << 32) + 5000, ((b + 2) << 32) + 50]:
            i = g.fresh("i")
            g.emit("it64 %s %s" % (i, x))
            g.emit("adv64 %s %d" % (i, m))
            g.emit("drain64 %s 9" % i)
        # backwards: stand in bucket b+2 (pending low bits 100), advance to a target in an earlier bucket with larger low bits
        i = g.fresh("i")
        g.emit("it64 %s %s" % (i, x))
        g.emit("adv64 %s %d" % (i, ((b + 2) << 32) + 100))
        g.emit("adv64 %s %d" % (i, (b << 32) + 5000))
        g.emit("adv64 %s %d" % (i, ((b + 1) << 32) + 0xFFFFFFF0))
        g.emit("drain64 %s 9" % i)
        g.count("iter64:gap-episode")

    def boundary_episode(self, b=None):
        """range operations whose END (or start) sits exactly on a bucket boundary, with buckets present on both sides
        (b given: the deterministic form with every value and every operation)"""
        g, r = self.g, self.r
        full = b is not None
        if b is None:
            b = r.choice([1, 2, 0x80000000, 0xFFFFFFFF, 3])
        edge = b << 32
        x = g.fresh("e")
        g.emit("new64 %s" % x)
        vs = [edge - 1, edge - 3, edge - 70000, edge, edge + 1, edge + 65536, edge + B32 - 1]
        if b < 0xFFFFFFFF:
            vs += [edge + B32, edge + B32 + 5]
        g.emit("addmany64 %s %s" % (x, " ".join(str(v) for v in vs if (full or r.random() < 0.85) and v <= MAXV)))
        if not full and r.random() < 0.3:
            g.emit("opt64 %s" % x)
        for s, e in [(edge - r.choice([1, 2, 3, 100, 70000]), edge), (edge - 1, edge), (edge, edge), (edge, edge + r.choice([1, 2, 65536])),
                     (edge - r.choice([1, 5, 65536]), edge + r.choice([1, 2, 65537])),
                     (min(MAXV, edge + B32) - r.choice([1, 2, 70000]), min(MAXV, edge + B32))]:
            for op in (["sflip64", "flip64", "addr64", "remr64"] if full else r.sample(["sflip64", "flip64", "addr64", "remr64"], 3)):
                g.count("edge64:" + op)
                if op == "sflip64":
                    y = g.fresh("f")
                    g.emit("sflip64 %s %s %d %d" % (y, x, s, e))
                    g.emit("wf64 %s" % y)
                    g.emit("card64 %s" % y)
                else:
                    z = g.fresh("f")
                    g.emit("clone64 %s %s" % (z, x))
                    g.emit("%s %s %d %d" % (op, z, s, e))
                    g.emit("wf64 %s" % z)
        g.emit("dig64 %s" % x)

    def addmany_order_episode(self):
        """AddMany / BitmapOf with the same values in different ORDERS (ascending, descending, ends in one bucket and the interior
        elsewhere, every element in another bucket than its neighbours, duplicates), into fresh and populated bitmaps"""
        g = self.g
        vs = [5, 70000, B32 - 1, B32, B32 + 7, 2 * B32 + 65536, 7 * B32 + 3, 7 * B32 + 70001, MAXV]
        orders = [vs, vs[::-1], [vs[0], vs[4], vs[1]], [vs[0], vs[3], vs[6], vs[1], vs[5], vs[2]], [vs[6], vs[0], vs[8], vs[7]],
                  [vs[4], vs[4], vs[0], vs[4], vs[3]], [vs[1], vs[3], vs[0], vs[5], vs[4], vs[2], vs[6], vs[8], vs[7], vs[0]]]
        for pre in (False, True):
            for o in orders:
                x = g.fresh("am")
                if pre:
                    g.emit("of64 %s %d %d %d" % (x, 9, B32 + 9, 7 * B32 + 9))
                    g.emit("addmany64 %s %s" % (x, " ".join(map(str, o))))
                else:
                    g.emit("of64 %s %s" % (x, " ".join(map(str, o))))
                g.emit("card64 %s" % x)
                g.emit("wf64 %s" % x)
                g.count("addmany64:order-episode")

    def sflip_shared_episode(self):
        """static Flip of an operand whose buckets are flagged shared (it took part in a copy-on-write Clone): buckets before, inside and
        BEHIND the range are carried over / recomputed; the result is then edited in each of them, operand and sibling re-observed"""
        g = self.g
        for lo, hi in (((1 << 32) + 5, (2 << 32) + 9), (0, 1 << 32), ((3 << 32), (3 << 32) + 100), (7, 8)):
            x, c, y = g.fresh("fs"), g.fresh("fs"), g.fresh("fs")
            g.emit("of64 %s %s" % (x, " ".join(str((k << 32) | (k + 3)) for k in range(0, 6))))
            g.emit("cowclone64 %s %s" % (c, x))
            g.emit("sflip64 %s %s %d %d" % (y, x, lo, hi))
            g.emit("alias64 %s %s %s" % (x, y, c))
            for k in range(0, 6):
                g.emit("add64 %s %d" % (y, (k << 32) | 900))
                g.emit("rem64 %s %d" % (y, (k << 32) | (k + 3)))
            g.emit("dig64 %s" % x)
            g.emit("dig64 %s" % c)
            g.emit("wf64 %s" % y)
            g.count("sflip64:shared-operand-then-edit")

    def inplace_tail_shared_episode(self):
        """in-place And / AndNot / Xor / Or on a receiver whose buckets are flagged shared (copy-on-write clone): the argument empties the
        FIRST bucket(s), thins a later one and ends before the receiver does, so the unmatched tail slides down; the receiver is then
        edited in every surviving bucket and the sibling re-observed"""
        g = self.g
        for op in ("iandnot64", "iand64", "ixor64", "ior64"):
            for form in ("cow", "plain"):
                x, c, y = g.fresh("it"), g.fresh("it"), g.fresh("it")
                g.emit("of64 %s %s" % (x, " ".join(str((k << 32) | v) for k in range(0, 6) for v in (3, 70000 + k))))
                if form == "cow":
                    g.emit("cowclone64 %s %s" % (c, x))
                else:
                    g.emit("clone64 %s %s" % (c, x))
                if op == "iand64":
                    g.emit("of64 %s %s" % (y, " ".join(str((k << 32) | v) for k, v in ((1, 3), (2, 3), (2, 70002)))))
                else:
                    g.emit("of64 %s %s" % (y, " ".join(str((k << 32) | v) for k, v in ((0, 3), (0, 70000), (1, 3), (2, 9)))))
                g.emit("%s %s %s" % (op, x, y))
                g.emit("alias64 %s %s %s" % (x, c, y))
                for k in range(0, 6):
                    g.emit("add64 %s %d" % (x, (k << 32) | 901))
                    g.emit("rem64 %s %d" % (x, (k << 32) | (70000 + k)))
                g.emit("dig64 %s" % c)
                g.emit("dig64 %s" % y)
                g.emit("wf64 %s" % x)
                g.count("r64:inplace-tail-shared:" + op)

    def full_buckets_episode(self):
        """deterministic: ONE AddRange (then one Flip, one in-place Or with such a bitmap) covering two, three and four COMPLETE 2^32
        buckets, some of which exist already; then an edit inside the FIRST complete bucket, inside a middle one and inside the last
        one — each must leave the other buckets as they were (cardinality, membership of the same low bits in the neighbours)"""
        g = self.g
        for b0, ncomplete, pre in ((1, 2, ()), (0x7FFFFFFE, 3, (1,)), (5, 4, (0, 3)), (0, 2, ())):
            for how in ("addr64", "flip64"):
                x = g.fresh("fb")
                g.emit("new64 %s" % x)
                for j in pre:
                    g.emit("addmany64 %s %d %d" % (x, ((b0 + 1 + j) << 32) + 7, ((b0 + 1 + j) << 32) + 70000))
                if how == "flip64":
                    g.emit("remr64 %s %d %d" % (x, b0 << 32, (b0 + ncomplete + 2) << 32))
                start = (b0 << 32) + 5 if b0 else 0
                end = ((b0 + 1 + ncomplete) << 32) + 9
                g.emit("%s %s %d %d" % (how, x, start, end))
                g.emit("card64 %s" % x); g.emit("wf64 %s" % x)
                first = b0 + 1 if b0 else 0
                for k in (first, first + ncomplete - 1, first + 1):
                    g.emit("crem64 %s %d" % (x, (k << 32) + 100 + k % 7))
                    g.emit("card64 %s" % x)
                    for o in range(ncomplete):
                        g.emit("has64 %s %d" % (x, ((first + o) << 32) + 100 + k % 7))
                    g.emit("remr64 %s %d %d" % (x, (k << 32) + 70000, (k << 32) + 70010))
                    g.emit("card64 %s" % x)
                    g.emit("flip64 %s %d %d" % (x, (k << 32) + 131072, (k << 32) + 131080))
                    g.emit("card64 %s" % x)
                g.emit("wf64 %s" % x); g.emit("dig64 %s" % x)
            g.count("r64:fixed-several-complete-buckets")

    def many_runs_episode(self):
        """batch iteration (every buffer length of a spread, incl. 0) over buckets whose chunks are RUN containers with several runs, an
        interval across 2^32, array and bitmap chunks: the batch boundary falls inside runs that are not the last of their chunk"""
        g = self.g
        x = g.fresh("mr")
        g.emit("new64 %s" % x)
        for lo, hi in ((1000, 3000), (5000, 5100), (9000, 12000), (70000, 70010), (B32 - 500, B32 + 700), (B32 + 5000, B32 + 5003),
                       (7 * B32 + 65000, 7 * B32 + 66000), (7 * B32 + 200000, 7 * B32 + 200001)):
            g.emit("addr64 %s %d %d" % (x, lo, hi))
        g.emit("addmany64 %s %s" % (x, " ".join(str(3 * B32 + 9 * i) for i in range(50))))
        g.emit("opt64 %s" % x)
        for sizes in ([1] * 5 + [7, 64], [7] * 40, [64] * 12, [256, 0, 256, 1000], [1000] * 3, [4096, 1, 4096], [5510, 3], [100000]):
            i = g.fresh("mri")
            g.emit("mit64 %s %s" % (i, x))
            for n in sizes:
                g.emit("many64 %s %d" % (i, n))
            g.emit("drain64 %s" % i)
        g.count("iter64:many-over-multi-run-chunks")

    def suite_hist(self, nhist, steps):
        g, r = self.g, self.r
        self.addmany_order_episode()
        self.many_runs_episode()
        self.sflip_shared_episode()
        self.inplace_tail_shared_episode()
        self.full_buckets_episode()
        self.boundary_episode(1)
        self.boundary_episode(0x80000000)
        self.boundary_episode()
        self.iter_gap_episode()
        for _ in range(nhist):
            x = g.fresh("h")
            if r.random() < 0.6:
                homes, anchors = self.build(x)
            else:
                homes, anchors = self.homes(), self.anchors()
                g.emit("new64 %s" % x)
            for _ in range(steps):
                self.hist_step(x, homes, anchors)
            g.emit("wf64 %s" % x)
            g.emit("ser64 %s" % x)
            g.emit("card64 %s" % x)

    # ------------------------------------------------------------------ algebra
    def pair(self):
        g, r = self.g, self.r
        a, b = g.fresh("a"), g.fresh("a")
        ha, anchors = self.homes(), self.anchors()
        c = r.choice(["same", "subset", "shift", "disjoint", "overlap", "empty"])
        if c == "same":
            hb = list(ha)
        elif c == "subset":
            hb = [k for k in ha if r.random() < 0.6] or ha[:1]
        elif c == "shift":
            hb = sorted(set(min(0xFFFFFFFF, k + 1) for k in ha))
        elif c == "disjoint":
            hb = sorted(set(k ^ 0x40000000 for k in ha))
        elif c == "empty":
            hb = []
        else:
            hb = sorted(set(ha[: len(ha) // 2 + 1] + self.homes()))
        g.count("align64:" + c)
        self.build(a, ha, anchors)
        self.build(b, hb, anchors)
        if r.random() < 0.5:
            a, b = b, a
        return a, b, sorted(set(ha) | set(hb)), anchors

    def probe(self, y, others, homes, anchors):
        """mutating y must not change the others, and vice versa"""
        g, r = self.g, self.r
        g.emit("%s %s %d" % (r.choice(["cadd64", "crem64"]), y, self.val(homes, anchors)))
        s, e, _ = self.rng(homes, anchors, allow_wide=False)
        g.emit("%s %s %d %d" % (r.choice(["flip64", "addr64", "remr64"]), y, s, e))
        for o in others:
            g.emit("dig64 %s" % o)
        o = r.choice(others)
        s, e, _ = self.rng(homes, anchors, allow_wide=False)
        g.emit("%s %s %d %d" % (r.choice(["flip64", "addr64", "remr64"]), o, s, e))
        g.emit("dig64 %s" % y)
        g.emit("wf64 %s" % y)

    def suite_alg(self, npairs):
        g, r = self.g, self.r
        for _ in range(npairs):
            a, b, homes, anchors = self.pair()
            for op in ("and64", "or64", "xor64", "andnot64"):
                y = g.fresh("y")
                g.emit("%s %s %s %s" % (op, y, a, b))
                g.emit("wf64 %s" % y)
                g.emit("alias64 %s %s %s" % (y, a, b))
                if r.random() < 0.4:
                    self.probe(y, [a, b], homes, anchors)
                y = g.fresh("y")
                g.emit("%s %s %s %s" % (op, y, b, a))
            g.emit("andcard64 %s %s" % (a, b))
            g.emit("orcard64 %s %s" % (a, b))
            g.emit("isect64 %s %s" % (a, b))
            g.emit("eq64 %s %s" % (a, b))
            for op in ("iand64", "ior64", "ixor64", "iandnot64"):
                for (p, q) in ((a, b), (b, a)):
                    c = g.fresh("c")
                    g.emit("%s %s %s" % (r.choice(["clone64", "clone64", "cowclone64"]), c, p))
                    g.emit("%s %s %s" % (op, c, q))
                    g.emit("wf64 %s" % c)
                    g.emit("dig64 %s" % p)
                    if not (op == "ixor64" and "ixor" in AVOID):
                        g.emit("alias64 %s %s %s" % (c, p, q))
                    if r.random() < 0.5 and not (op == "ixor64" and "ixor" in AVOID):
                        self.probe(c, [p, q], homes, anchors)
            # self operations
            c = g.fresh("c")
            g.emit("clone64 %s %s" % (c, a))
            ops = ["iand64", "ior64", "iandnot64"] + ([] if "ixor" in AVOID else ["ixor64"])
            g.emit("%s %s %s" % (r.choice(ops), c, c))
            g.emit("wf64 %s" % c)
            y = g.fresh("y")
            g.emit("%s %s %s %s" % (r.choice(["and64", "or64", "xor64", "andnot64"]), y, a, a))
            g.emit("andcard64 %s %s" % (a, a))
            g.emit("orcard64 %s %s" % (b, b))
            g.emit("isect64 %s %s" % (b, b))
            g.emit("eq64 %s %s" % (a, a))

    # ------------------------------------------------------------------ queries
    def suite_query(self, nb, nq):
        g, r = self.g, self.r
        for _ in range(nb):
            x = g.fresh("q")
            homes, anchors = self.build(x)
            if r.random() < 0.3:
                s, e, cls = self.rng(homes, anchors)
                g.emit("addr64 %s %d %d" % (x, s, e))
            g.emit("add64 %s %d" % (x, self.val(homes, anchors)))     # never empty: min/max in domain
            for q in ("card64", "empty64", "min64", "max64", "toarr64", "str64", "wf64", "stats64"):
                g.emit("%s %s" % (q, x))
            for _ in range(nq):
                q = r.choice(["has64", "has64", "hasint64", "rank64", "rank64", "sel64"])
                if q == "sel64":
                    g.emit("sel64 %s %d" % (x, r.choice([0, 1, 2, 10, 100, 4095, 4096, 65535, 65536, r.randrange(1 << 20),
                                                           B32 - 1, B32, r.randrange(U64), MAXV])))
                else:
                    c = r.random()
                    v = self.val(homes, anchors) if c < 0.8 else r.choice([0, MAXV, B32 - 1, B32, r.randrange(U64)])
                    g.emit("%s %s %d" % (q, x, v))
            g.emit("dig64 %s" % x)
            y = g.fresh("q")
            g.emit("clone64 %s %s" % (y, x))
            g.emit("eq64 %s %s" % (x, y))
            g.emit("opt64 %s" % y)
            g.emit("eq64 %s %s" % (x, y))
            g.emit("%s %s %d" % (r.choice(["cadd64", "crem64"]), y, self.val(homes, anchors)))
            g.emit("eq64 %s %s" % (x, y))
            g.emit("eq64 %s %s" % (y, x))
        g.emit("new64 e0")
        for q in ("card64 e0", "empty64 e0", "sel64 e0 0", "rank64 e0 5", "rank64 e0 %d" % MAXV, "toarr64 e0",
                  "str64 e0", "has64 e0 0", "wf64 e0", "ser64 e0", "hex64 e0", "stats64 e0"):
            g.emit(q)
        # the two ends of the universe
        g.emit("of64 e1 0 %d" % MAXV)
        for q in ("card64 e1", "min64 e1", "max64 e1", "rank64 e1 0", "rank64 e1 %d" % MAXV, "rank64 e1 %d" % (MAXV - 1),
                  "sel64 e1 1", "sel64 e1 2", "has64 e1 %d" % MAXV, "hasint64 e1 %d" % MAXV, "toarr64 e1", "wf64 e1",
                  "hex64 e1"):
            g.emit(q)
        g.emit("addint64 e1 %d" % (MAXV - 1))
        g.emit("crem64 e1 %d" % MAXV)
        g.emit("max64 e1")

    # ------------------------------------------------------------------ iterators
    def suite_iter(self, nb):
        g, r = self.g, self.r
        for _ in range(nb):
            x = g.fresh("t")
            homes, anchors = self.build(x)
            if r.random() < 0.15:
                g.emit("clear64 %s" % x)
            i = g.fresh("i")
            g.emit("it64 %s %s" % (i, x))
            for _ in range(r.randrange(5, 40)):
                op = r.choices(["next64", "peek64", "hasnext64", "adv64", "drain64"], [6, 4, 3, 5, 2])[0]
                if op == "adv64":
                    c = r.random()
                    if c < 0.6:
                        m = self.val(homes, anchors)
                    elif c < 0.8:
                        b = self.bucket(homes)
                        m = r.choice([b << 32, ((b + 1) << 32) - 1, min(MAXV, (b + 1) << 32)])
                    else:
                        m = r.choice([0, MAXV, r.randrange(U64)])
                    g.emit("adv64 %s %d" % (i, m))
                elif op == "drain64":
                    g.emit("drain64 %s %d" % (i, r.choice([0, 1, 3, 50, 5000])))
                else:
                    g.emit("%s %s" % (op, i))
            g.emit("drain64 %s 100000" % i)
            g.emit("hasnext64 %s" % i)
            g.emit("next64 %s" % i)
            g.emit("adv64 %s %d" % (i, self.val(homes, anchors)))
            # reverse
            i = g.fresh("i")
            g.emit("rit64 %s %s" % (i, x))
            for _ in range(r.randrange(3, 20)):
                op = r.choices(["next64", "hasnext64", "drain64"], [6, 2, 2])[0]
                if op == "drain64":
                    g.emit("drain64 %s %d" % (i, r.choice([0, 1, 3, 50, 5000])))
                else:
                    g.emit("%s %s" % (op, i))
            g.emit("drain64 %s 100000" % i)
            g.emit("hasnext64 %s" % i)
            g.emit("next64 %s" % i)
            # batch
            i = g.fresh("i")
            g.emit("mit64 %s %s" % (i, x))
            for _ in range(r.randrange(3, 15)):
                g.emit("many64 %s %d" % (i, r.choice([0, 1, 2, 3, 7, 64, 1000, 4096, 70000])))
            g.emit("many64 %s 200000" % i)
            g.emit("many64 %s 5" % i)
            # re-Initialize used iterator objects on another bitmap (sometimes an empty one)
            x2 = g.fresh("t")
            if r.random() < 0.3:
                g.emit("new64 %s" % x2)
            else:
                self.build(x2, homes, anchors)
            for kind in ("it64", "rit64", "mit64"):
                j = g.fresh("i")
                g.emit("%s %s %s" % (kind, j, x))
                if kind == "mit64":
                    g.emit("many64 %s %d" % (j, r.choice([0, 1, 5, 100000])))
                    g.emit("reit64 %s %s" % (j, x2))
                    g.emit("many64 %s 3" % j)
                    g.emit("many64 %s 100000" % j)
                else:
                    g.emit("drain64 %s %d" % (j, r.choice([0, 1, 5, 100000])))
                    g.emit("reit64 %s %s" % (j, x2))
                    g.emit("hasnext64 %s" % j)
                    g.emit("next64 %s" % j)
                    if kind == "it64":
                        g.emit("peek64 %s" % j)
                        g.emit("adv64 %s %d" % (j, self.val(homes, anchors)))
                    g.emit("drain64 %s 100000" % j)
            g.emit("seq64 %s fwd %d" % (x, r.choice([0, 1, 5, 100000])))
            g.emit("seq64 %s rev %d" % (x, r.choice([0, 1, 5, 100000])))
            g.emit("dig64 %s" % x)

    # ------------------------------------------------------------------ aggregates
    def suite_agg(self, n):
        g, r = self.g, self.r
        for _ in range(n):
            homes, anchors = self.homes(), self.anchors()
            k = r.choice([0, 1, 2, 2, 3, 4, 6])
            names = []
            for j in range(k):
                x = g.fresh("g")
                c = r.random()
                if c < 0.2:
                    g.emit("new64 %s" % x)                       # empty operand
                elif c < 0.5:
                    self.build(x, [r.choice(homes)], anchors)    # single bucket (ParOr's keyRange==1 path)
                else:
                    self.build(x, homes, anchors)
                names.append(x)
            if names and r.random() < 0.25:
                names.append(r.choice(names))                     # the same bitmap twice
            r.shuffle(names)
            for op in ("fastor64", "fastand64"):
                y = g.fresh("y")
                g.emit("%s %s %s" % (op, y, " ".join(names)))
                g.emit("wf64 %s" % y)
                g.emit("alias64 %s %s" % (y, " ".join(sorted(set(names)))))
                if names and r.random() < 0.6:
                    self.probe(y, names, homes, anchors)
            pn = list(names)
            if "paror" in AVOID:
                # restricted use: at least two operands, none empty, nothing mutated afterwards
                if len(pn) < 2:
                    continue
                for x in set(pn):
                    g.emit("add64 %s %d" % (x, self.val(homes, anchors)))
                y = g.fresh("y")
                g.emit("paror64 %s %d %s" % (y, r.choice([0, 1, 2, 3, 8]), " ".join(pn)))
                g.emit("wf64 %s" % y)
                continue
            y = g.fresh("y")
            g.emit("paror64 %s %d %s" % (y, r.choice([0, 1, 2, 3, 8]), " ".join(pn)))
            g.emit("wf64 %s" % y)
            if pn:
                g.emit("alias64 %s %s" % (y, " ".join(sorted(set(pn)))))
                self.probe(y, pn, homes, anchors)
        # ParOr chunking: many buckets, key ranges anywhere incl. the very top of the key space, span below and above 4x workers
        for it in range(max(24, 3 * n)):
            nb = r.choice([1, 2, 5, 9, 17, 18, 33, 40]) if it else 1
            top = r.choice([0xFFFFFFFF, 0xFFFFFFFF, 0xFFFFFFFE, nb + 3, 0x80000000 + nb, r.randrange(nb, 0xFFFFFFFF)]) if it else 0xFFFFFFFF
            ks = list(range(top - nb + 1, top + 1))
            if r.random() < 0.4:
                ks = [k for k in ks if r.random() < 0.7] or ks[:2]
            m = r.choice([2, 3, 3, 4, 5])
            dens = r.choice([0.6, 0.35, 0.2])       # sparse members: a later input brings buckets the earlier ones lack
            names = []
            for j in range(m):
                x = g.fresh("g")
                vals = [(k << 32) | r.choice(LOWS) for i, k in enumerate(ks) if r.random() < dens or i % m == j]
                g.emit("of64 %s %s" % (x, " ".join(map(str, vals))) if vals else "new64 %s" % x)
                names.append(x)
            y = g.fresh("y")
            g.emit("paror64 %s %d %s" % (y, r.choice([0, 1, 2, 3, 4, 4, 7, 16]), " ".join(names)))
            g.emit("wf64 %s" % y)
            g.emit("card64 %s" % y)
            g.count("paror64:chunking")
        # fixed: a later operand brings buckets that fall BETWEEN and BELOW the buckets of the union so far, inside one worker's share
        for keysets in ([[5, 9], [3, 7, 9], [1, 7, 11]], [[5, 9, 300], [3, 7, 9, 100, 299], [4, 6, 8, 10, 298, 301]], [[2], [1, 3], [0, 2, 4]]):
            names = []
            for ks in keysets:
                x = g.fresh("g")
                g.emit("of64 %s %s" % (x, " ".join(str((k << 32) | (k % 7)) for k in ks)))
                names.append(x)
            for w in (1, 2, 0, 75):
                y = g.fresh("y")
                g.emit("paror64 %s %d %s" % (y, w, " ".join(names)))
                g.emit("wf64 %s" % y)
                g.emit("toarr64 %s" % y)
            g.count("paror64:fixed-interior-buckets")
        # fixed: several ParOr calls at the same time over shared operands whose FIRST member once held more buckets than it does now
        # (trimmed by a range removal / refilled after Clear): everything in one bucket, and spread over buckets
        for spread in (False, True):
            base = g.fresh("g")
            g.emit("of64 %s %s" % (base, " ".join(str((k << 32) | 5) for k in range(0, 9))))
            g.emit("remr64 %s %d %d" % (base, 1 << 32, 10 << 32))
            g.emit("addmany64 %s 1 2 3 70000" % base)
            others = []
            for j in range(5):
                x = g.fresh("g")
                g.emit("of64 %s %s" % (x, " ".join(str(((j + 1 if spread else 0) << 32) | (1000 * (j + 1) + i)) for i in range(3))))
                others.append(x)
            for w in (2, 0):
                g.emit("concagg64 %d %d %s %s" % (8, w, base, " ".join(others)))
            g.emit("wf64 %s" % base)
            g.count("paror64:fixed-concurrent-shared-first")
        # as64
        for _ in range(max(2, n // 3)):
            x = g.fresh("w")
            g.emit("new %s" % x)
            c = r.random()
            if c < 0.25 and "as64e" not in AVOID:
                pass
            elif c < 0.6:
                g.emit("addmany %s %s" % (x, " ".join(str(r.choice(LOWS)) for _ in range(r.randrange(1, 9)))))
            else:
                g.emit("addr %s %d %d" % (x, r.randrange(0, 1 << 20), r.randrange(1 << 20, 1 << 22)))
            y = g.fresh("y")
            g.emit("as64 %s %s" % (y, x))
            for q in ("card64", "empty64", "wf64", "dump64"):
                g.emit("%s %s" % (q, y))
            g.emit("new64 ee")
            g.emit("eq64 %s ee" % y)
            g.emit("cadd64 %s %d" % (y, r.choice([5, B32 + 5])))
            g.emit("dig %s" % x)

    # ------------------------------------------------------------------ whole buckets
    def suite_wide(self, n):
        g, r = self.g, self.r
        for _ in range(n):
            x = g.fresh("v")
            b = r.choice([0, 1, 0x7FFFFFFE, 0xFFFFFFFD])
            anchors = self.anchors()
            homes = [b, b + 1, b + 2]
            g.emit("new64 %s" % x)
            s = (b << 32) + r.choice([0, 5, B32 - 3, self.low(anchors)])
            e = ((b + 2) << 32) + r.choice([0, 1, 3, 65536, self.low(anchors)])
            g.emit("addr64 %s %d %d" % (x, s, e))
            g.count("wide64:addr-span3")
            g.emit("card64 %s" % x)
            g.emit("wf64 %s" % x)
            g.emit("min64 %s" % x)
            g.emit("max64 %s" % x)
            g.emit("rank64 %s %d" % (x, ((b + 1) << 32) + self.low(anchors)))
            g.emit("sel64 %s %d" % (x, B32 + self.low(anchors)))
            g.emit("toarr64 %s" % x)
            i = g.fresh("i")
            g.emit("it64 %s %s" % (i, x))
            g.emit("adv64 %s %d" % (i, ((b + 1) << 32) - 2))
            g.emit("drain64 %s 5" % i)
            g.emit("adv64 %s %d" % (i, ((b + 2) << 32) - 1))
            g.emit("drain64 %s 5" % i)
            i = g.fresh("i")
            g.emit("rit64 %s %s" % (i, x))
            g.emit("drain64 %s 7" % i)
            c = r.choice(["remr-mid", "remr-all", "flip-mid", "crem", "xor-self-clone"])
            g.count("wide64:" + c)
            if c == "remr-mid":
                g.emit("remr64 %s %d %d" % (x, ((b + 1) << 32) - r.choice([0, 1, 2]), ((b + 2) << 32) + r.choice([0, 1])))
            elif c == "remr-all":
                g.emit("remr64 %s %d %d" % (x, s, e))
                g.emit("empty64 %s" % x)
            elif c == "flip-mid":
                g.emit("flip64 %s %d %d" % (x, (b + 1) << 32, (b + 2) << 32))
            elif c == "crem":
                g.emit("crem64 %s %d" % (x, ((b + 1) << 32) + self.low(anchors)))
                g.emit("cadd64 %s %d" % (x, ((b + 1) << 32) + self.low(anchors)))
            else:
                y = g.fresh("v")
                g.emit("clone64 %s %s" % (y, x))
                g.emit("rem64 %s %d" % (y, ((b + 1) << 32) + self.low(anchors)))
                z = g.fresh("v")
                g.emit("xor64 %s %s %s" % (z, x, y))
                g.emit("andnot64 %s %s %s" % (z, x, y))
                g.emit("card64 %s" % z)
            g.emit("wf64 %s" % x)
            g.emit("card64 %s" % x)
            g.emit("ser64 %s" % x)
            if "sflip" not in AVOID and r.random() < 0.5:
                y = g.fresh("v")
                g.emit("sflip64 %s %s %d %d" % (y, x, s, e))
                g.emit("wf64 %s" % y)


@suite("r64")
def _r64(g, scale):
    h = R(g, scale)
    if "runsize" in AVOID:
        g.emit("lenient64 runsize")
    h.suite_hist(int(8 * scale), 50)
    h.suite_alg(int(8 * scale))
    h.suite_query(int(8 * scale), 30)
    h.suite_iter(int(8 * scale))
    h.suite_agg(int(10 * scale))
    h.suite_wide(max(1, int(3 * scale)))


# ====================================================================================================== ser64

def py_inner(vals):
    """32-bit portable stream (cookie 12346, array containers only) for a sorted list of distinct 32-bit values"""
    chunks = {}
    for v in vals:
        chunks.setdefault(v >> 16, []).append(v & 0xFFFF)
    keys = sorted(chunks)
    assert all(len(chunks[k]) <= 4096 for k in keys)
    out = struct.pack("<II", 12346, len(keys))
    for k in keys:
        out += struct.pack("<HH", k, len(chunks[k]) - 1)
    off = 8 + 8 * len(keys)
    for k in keys:
        out += struct.pack("<I", off)
        off += 2 * len(chunks[k])
    for k in keys:
        out += b"".join(struct.pack("<H", v) for v in sorted(chunks[k]))
    return out


def py_stream(buckets, count=None):
    """buckets: list of (key, sorted low values) in the order to be written"""
    out = struct.pack("<Q", len(buckets) if count is None else count)
    for k, vals in buckets:
        out += struct.pack("<I", k) + py_inner(vals)
    return out


ENTRIES = ["readfrom", "fromunsafe", "unmarshal", "base64", "readfrom1", "readpipe"]


def suite_ser(g, scale):
    h = R(g, scale)
    if "runsize" in AVOID:
        g.emit("lenient64 runsize")
    r = g.r
    # 1. round trips
    for _ in range(int(14 * scale)):
        x = g.fresh("s")
        homes, anchors = h.build(x)
        if r.random() < 0.15 and h.take_wide():
            b = h.bucket(homes)
            g.emit("addr64 %s %d %d" % (x, b << 32, min(MAXV, (b + 1) << 32)))
            g.count("ser64:fullbucket")
        if r.random() < 0.1:
            g.emit("clear64 %s" % x)
        g.emit("ser64 %s" % x)
        g.emit("wf64 %s" % x)
        ys = []
        for entry in ENTRIES:
            y = g.fresh("d")
            opts = ""
            if r.random() < 0.5:
                opts += " extra=%d" % r.choice([1, 3, 8, 100])
            g.emit("rd64 %s %s %s%s" % (y, entry, x, opts))
            g.emit("eq64 %s %s" % (y, x))
            ys.append(y)
        # decode into a previously used bitmap (bigger, smaller, cow)
        y = r.choice(ys)
        z = g.fresh("s")
        h.build(z)
        g.emit("rd64 %s %s %s reuse" % (z, r.choice(ENTRIES), x))
        g.emit("eq64 %s %s" % (z, x))
        g.emit("rd64 %s %s %s reuse" % (y, r.choice(ENTRIES), z))
        g.emit("dig64 %s" % x)
        # the decoded bitmap is an ordinary mutable bitmap, independent of its source
        y = r.choice(ys)
        g.emit("cadd64 %s %d" % (y, h.val(homes, anchors)))
        s, e, _ = h.rng(homes, anchors, allow_wide=False)
        g.emit("flip64 %s %d %d" % (y, s, e))
        g.emit("wf64 %s" % y)
        g.emit("dig64 %s" % x)
        g.emit("rd64 %s %s %s" % (g.fresh("d"), r.choice(ENTRIES), y))
        # a bitmap decoded without copy must never write into the caller's buffer
        u = g.fresh("u")
        g.emit("rd64 %s fromunsafe %s" % (u, x))
        for _ in range(r.randrange(3, 10)):
            c = r.random()
            if c < 0.3:
                g.emit("%s %s %d" % (r.choice(["cadd64", "crem64"]), u, h.val(homes, anchors)))
            elif c < 0.7:
                s, e, _ = h.rng(homes, anchors, allow_wide=False)
                g.emit("%s %s %d %d" % (r.choice(["addr64", "remr64", "flip64"]), u, s, e))
            elif c < 0.8:
                g.emit("opt64 %s" % u)
            else:
                g.emit("%s %s %s" % (r.choice(["iand64", "ior64", "iandnot64"] + ([] if "ixor" in AVOID else ["ixor64"])), u, z))
            g.emit("bufchk64 %s" % u)
        g.emit("wf64 %s" % u)
        g.emit("dig64 %s" % x)
    # 1a. a failed decode into a previously used bitmap, which is then used again
    made0 = [l.split(" ")[1] for l in g.lines if l.startswith("ser64 ")]
    for x in made0[:6]:
        for cut in r.sample([1, 7, 8, 9, 12, 13, 17, 20, 24, 31, 40, 100, 1000], 3):
            y = g.fresh("s")
            h.build(y)
            g.emit("rdfail64 %s %s %s %d %s" % (y, r.choice(ENTRIES), x, cut, " ".join(str(r.choice([5, 1 << 32, (1 << 33) + 7, MAXV - 3])) for _ in range(2))))
            g.count("ser64:rdfail")
    # 1b. several serializations in flight: the returned byte slices stay what they were
    made = [l.split(" ")[1] for l in g.lines if l.startswith("ser64 ")]
    for _ in range(int(3 * scale) + 1):
        if len(made) >= 2:
            g.emit("sermany64 %s" % " ".join(r.sample(made, min(len(made), r.choice([2, 3, 6, 12])))))
            g.count("ser64:sermany")
    # 1c. more buckets than a 32-bit bitmap can have containers (65536), high keys included
    # … and bucket counts that look like something else in the first four bytes (the 32-bit format's cookies 12346 / 12347)
    for cnt in [r.choice([65537, 66000, 70000]), r.choice([12346, 12347, 12347 + 65536])]:
        x = g.fresh("m")
        g.emit("new64 %s" % x)
        start = r.choice([0, 5, (0x7FFFFFF0 << 32) + 9, ((1 << 32) - cnt - 3) << 32])
        g.emit("addstride64 %s %d %d %d" % (x, start, (1 << 32) + r.choice([0, 1]), cnt))
        g.emit("card64 %s" % x)
        g.emit("ser64 %s" % x)
        g.emit("wf64 %s" % x)
        for entry in ENTRIES:
            y = g.fresh("d")
            g.emit("rd64 %s %s %s%s" % (y, entry, x, r.choice(["", " extra=3"])))
            g.emit("eq64 %s %s" % (y, x))
        g.count("ser64:manybuckets")
    # 1d. ONE bucket spanning more than 16384 chunks (its inner header exceeds 64 KiB): round trips and truncations inside that header
    x = g.fresh("m")
    g.emit("new64 %s" % x)
    g.emit("addstride64 %s %d 65536 %d" % (x, (r.choice([0, 0xB3C50007, 0xFFFFFFFF]) << 32) + 77, r.choice([16385, 20011])))
    g.emit("ser64 %s" % x)
    for entry in ENTRIES:
        g.emit("rd64 %s %s %s" % (g.fresh("d"), entry, x))
        g.emit("trunc64 %s %s" % (x, entry))
    g.count("ser64:widebucket")
    # 1e. run-optimised bitmaps whose buckets serialize to VERY few bytes each (one chunk holding one run: 19 bytes per bucket, less than
    #     any bucket of array / bitmap chunks), alone, by the hundred, and next to an ordinary bucket
    for nb, extra in ((1, False), (200, False), (50, True), (3, True)):
        x = g.fresh("m")
        g.emit("new64 %s" % x)
        for j in range(nb):
            b = (j * 3 + 1) << 32
            g.emit("addr64 %s %d %d" % (x, b + 100 * j, b + 100 * j + 4 + (j % 5)))
        if extra:
            g.emit("addmany64 %s %s" % (x, " ".join(str((1 << 40) + 7 * i) for i in range(30))))
        g.emit("opt64 %s" % x)
        g.emit("ser64 %s" % x)
        for entry in ENTRIES:
            y = g.fresh("d")
            g.emit("rd64 %s %s %s" % (y, entry, x))
            g.emit("eq64 %s %s" % (y, x))
        g.count("ser64:tiny-run-buckets")
    # 1f. a chunk kept as a RUN container with 2040…2056 runs (the library keeps runs while 2+4*runs < 8224 bytes): library-made, must
    #     validate before and after every round trip
    for nruns in (2040, 2047, 2048, 2050, 2055, 2056):
        x = g.fresh("m")
        g.emit("new64 %s" % x)
        for off in (0, 1, 2):
            g.emit("addstride64 %s %d 31 %d" % (x, (5 << 32) + 3 * 65536 + off, nruns))
        g.emit("add64 %s %d" % (x, 9 << 32))
        g.emit("opt64 %s" % x)
        g.emit("wf64 %s" % x)
        g.emit("ser64 %s" % x)
        for entry in ENTRIES:
            y = g.fresh("d")
            g.emit("rd64 %s %s %s" % (y, entry, x))
            g.emit("wf64 %s" % y)
        g.count("ser64:max-run-count")
    # 1g. bitmaps MADE BY THE AGGREGATES, then validated and serialized: all inputs in one bucket (roaring64.ParOr then runs the 32-bit ParOr),
    #     at least two chunks, a chunk that is an array / a run / a small container in the first input and a non-full RUN container in the
    #     second, absent from the others, whose union stays at or under 4096 values — in both argument orders and for every aggregate
    for hi, k in ((0, 3), (0x7FFFFFFF, 0), (7, 65535)):
        base = (hi << 32) + k * 65536
        other = (hi << 32) + ((k + 2) % 65536) * 65536
        shapes = []
        a = g.fresh("m"); g.emit("new64 %s" % a)
        g.emit("addstride64 %s %d 13 300" % (a, base + 1)); g.emit("add64 %s %d" % (a, other + 5)); shapes.append(a)
        a = g.fresh("m"); g.emit("new64 %s" % a)
        g.emit("addr64 %s %d %d" % (a, base + 100, base + 900)); g.emit("add64 %s %d" % (a, other + 5)); g.emit("opt64 %s" % a); shapes.append(a)
        a = g.fresh("m"); g.emit("new64 %s" % a)
        g.emit("add64 %s %d" % (a, base + 40000)); g.emit("addr64 %s %d %d" % (a, other, other + 65536)); shapes.append(a)
        b = g.fresh("m"); g.emit("new64 %s" % b)
        g.emit("addr64 %s %d %d" % (b, base + 5000, base + 6000)); g.emit("addr64 %s %d %d" % (b, base + 20000, base + 21500))
        g.emit("add64 %s %d" % (b, other + 70)); g.emit("opt64 %s" % b)
        c = g.fresh("m"); g.emit("new64 %s" % c)
        g.emit("addstride64 %s %d 7 50" % (c, other + 1000))
        for a in shapes:
            for args in ((a, b), (b, a), (a, b, c), (c, a, b)):
                for op in ("paror64 %s 0", "paror64 %s 2", "fastor64 %s"):
                    y = g.fresh("y")
                    g.emit((op % y) + " " + " ".join(args))
                    g.emit("wf64 %s" % y)
                    g.emit("ser64 %s" % y)
                    z = g.fresh("d")
                    g.emit("rd64 %s %s %s" % (z, ENTRIES[(len(g.lines)) % len(ENTRIES)], y))
                    g.emit("eq64 %s %s" % (z, y))
                    g.emit("wf64 %s" % z)
        g.count("ser64:made-by-aggregates")
    # 1h. a zero-copy view over ONE bucket of eight chunks: a range removal that trims its first and last chunk and drops 1, 2 or 3 whole
    #     chunks in between (the inner bookkeeping arrays slide down), then an edit of every surviving chunk — the caller's bytes stay intact
    for hi in (0, 0x12345678):
        for dropped in (1, 2, 3):
            for shape in ("arr", "run", "bmp"):
                x = g.fresh("m")
                g.emit("new64 %s" % x)
                for k in range(3, 11):
                    b0 = (hi << 32) + k * 65536
                    if shape == "arr":
                        g.emit("addmany64 %s %d %d %d %d" % (x, b0 + 5, b0 + 9, b0 + 300, b0 + 40000))
                    elif shape == "run":
                        g.emit("addr64 %s %d %d" % (x, b0 + 100, b0 + 400))
                    else:
                        g.emit("addstride64 %s %d 2 5000" % (x, b0 + 1))
                if shape == "run":
                    g.emit("opt64 %s" % x)
                g.emit("ser64 %s" % x)
                u = g.fresh("u")
                g.emit("rd64 %s fromunsafe %s" % (u, x))
                base = hi << 32
                g.emit("remr64 %s %d %d" % (u, base + 4 * 65536 + 200, base + (5 + dropped) * 65536 + 1100))
                g.emit("bufchk64 %s" % u)
                for k in range(3, 11):
                    b0 = base + k * 65536
                    g.emit("crem64 %s %d" % (u, b0 + 300)); g.emit("cadd64 %s %d" % (u, b0 + 301)); g.emit("addr64 %s %d %d" % (u, b0 + 149, b0 + 152))
                    g.emit("bufchk64 %s" % u)
                g.emit("wf64 %s" % u)
                g.emit("dig64 %s" % x)
        g.count("ser64:view-range-removal-slides-tail")
    # 2. small streams: spec reading of the bytes, truncation sweep, header corruption
    for _ in range(int(10 * scale)):
        x = g.fresh("s")
        homes, anchors = h.homes(), h.anchors()
        g.emit("new64 %s" % x)
        nb = 0
        for b in homes:
            if r.random() < 0.85:
                nb += 1
                sh = r.choice(["single", "few", "range", "bitmapc"])
                base = b << 32
                if sh == "single":
                    g.emit("add64 %s %d" % (x, base + h.low(anchors)))
                elif sh == "few":
                    g.emit("addmany64 %s %s" % (x, " ".join(str(base + h.low(anchors)) for _ in range(r.randrange(2, 30)))))
                elif sh == "range":
                    s = h.low(anchors)
                    g.emit("addr64 %s %d %d" % (x, base + s, min(MAXV, base + min(B32, s + r.choice([2, 300, 70000])))))
                else:
                    a = r.choice(anchors) & ~0xFFFF
                    g.emit("addmany64 %s %s" % (x, " ".join(str(base + min(B32 - 1, a + v)) for v in r.sample(range(65536), 4200))))
                g.count("small64:" + sh)
        if r.random() < 0.4:
            g.emit("opt64 %s" % x)
        g.emit("ser64 %s" % x)
        g.emit("hex64 %s" % x)
        for entry in ENTRIES:
            g.emit("trunc64 %s %s" % (x, entry))
        if not getattr(h, "_fixed_counts_done", False) and "count" not in AVOID:
            # once per run, deterministically: bucket counts with the top bit set / near the top through EVERY entry point, and a
            # spread of other implausible counts through the slice decoder
            h._fixed_counts_done = True
            for entry in ENTRIES:
                for v in (1 << 63, (1 << 63) + 1, MAXV):
                    g.emit("cor64 %s %s count %d" % (x, entry, v))
            for v in (MAXV - 1, 1 << 62, 1 << 47, 1 << 32, nb + 1, 0):
                g.emit("cor64 %s fromunsafe count %d" % (x, v))
            g.count("cor64:fixed-counts")
        for _ in range(12):
            entry = r.choice(ENTRIES)
            f = r.choice(["count", "count", "count", "key", "key", "cookie", "cookie", "isize", "byte"])
            if f == "count":
                small = [0, 1, nb - 1, nb + 1, nb + 2, 255, 65536, 1 << 20]
                big = [1 << 24, 1 << 28, 1 << 31, 1 << 32, (1 << 32) + 1, 1 << 33, 1 << 40, 1 << 46, 1 << 47,
                       1 << 56, 1 << 62, 1 << 63, (1 << 63) + 1, MAXV, MAXV - 1]
                v = r.choice(small) if ("count" in AVOID or r.random() < 0.4) else r.choice(big)
                if v < 0:
                    v = 0
                g.count("cor64:count:%s" % ("small" if v <= 1 << 20 else "big"))
                g.emit("cor64 %s %s count %d" % (x, entry, v))
            elif f == "key":
                i = r.randrange(0, max(1, nb))
                v = r.choice([0, 1, 0xFFFFFFFF, 0x80000000, r.randrange(B32)] + [k for k in homes])
                g.emit("cor64 %s %s key:%d %d" % (x, entry, i, v))
            elif f == "cookie":
                i = r.randrange(0, max(1, nb))
                v = r.choice([0, 12346, 12347, 12345, 12348, 0xFFFF303B, 0x0001303B, 0x0003303B, 0x7FFF303B,
                              0xFFFFFFFF, r.randrange(B32), (r.randrange(65536) << 16) | 12347])
                g.emit("cor64 %s %s cookie:%d %d" % (x, entry, i, v))
            elif f == "isize":
                i = r.randrange(0, max(1, nb))
                v = r.choice([0, 1, 2, 65535, 65536, 65537, 0xFFFFFFFF, r.randrange(B32)])
                g.emit("cor64 %s %s isize:%d %d" % (x, entry, i, v))
            else:
                off = r.randrange(0, 200)
                if "count" in AVOID and 1 <= off < 8:
                    off += 8
                g.emit("cor64 %s %s byte:%d %d" % (x, entry, off, r.randrange(256)))
            g.count("cor64:" + f)
        g.emit("dig64 %s" % x)
    # 3. streams written by the generator (array containers only): the Lean side decodes them with the spec reading
    for _ in range(int(16 * scale)):
        homes = sorted(set(h.homes()))
        anchors = h.anchors()
        bks = []
        for b in homes:
            vals = sorted(set(h.low(anchors) for _ in range(r.randrange(1, 20))))
            bks.append((b, vals))
        kind = r.choice(["valid", "valid", "valid+trail", "dupkey", "desckey", "emptybucket", "countless", "countmore",
                         "cut", "zero", "bytes"])
        if kind in ("dupkey", "desckey") and len(bks) < 2:
            k0 = bks[0][0]
            bks.append((k0 + 1 if k0 < 0xFFFFFFFF else k0 - 1, [7]))
            bks.sort()
        data = py_stream(bks)
        if kind == "valid+trail":
            data += bytes(r.randrange(256) for _ in range(r.choice([1, 4, 12])))
        elif kind == "dupkey":
            bks[1] = (bks[0][0], bks[1][1])
            data = py_stream(bks)
        elif kind == "desckey":
            bks[0], bks[1] = bks[1], bks[0]
            data = py_stream(bks)
        elif kind == "emptybucket":
            i = r.randrange(len(bks))
            data = struct.pack("<Q", len(bks))
            for j, (k, vals) in enumerate(bks):
                data += struct.pack("<I", k) + (struct.pack("<II", 12346, 0) if j == i else py_inner(vals))
        elif kind == "countless":
            data = py_stream(bks, count=len(bks) - 1)
        elif kind == "countmore":
            data = py_stream(bks, count=len(bks) + r.choice([1, 2, 1000]))
        elif kind == "cut":
            data = data[: r.randrange(0, len(data))]
        elif kind == "zero":
            data = bytes(r.choice([0, 7, 8, 9, 16]))
        elif kind == "bytes":
            data = bytearray(data)
            for _ in range(r.choice([1, 2, 5])):
                data[r.randrange(len(data))] = r.randrange(256)
            if "count" in AVOID:
                data[1:8] = bytes(7)
            data = bytes(data)
        g.count("dec64:" + kind)
        y = g.fresh("p")
        entry = r.choice(ENTRIES)
        g.emit("dec64 %s %s %s" % (y, entry, data.hex() if data else "-"))
        # when y was defined it behaves like any bitmap
        g.emit("card64 %s" % y)
        g.emit("cadd64 %s %d" % (y, h.val(homes, anchors)))
        g.emit("wf64 %s" % y)
        g.emit("rd64 %s readfrom %s" % (g.fresh("d"), y))


@suite("ser64")
def _ser64(g, scale):
    suite_ser(g, scale)
