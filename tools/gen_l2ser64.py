"""Suite `l2ser64`: exact tie of the 64-bit serialization model (lean/RModel/Impl/Serial64.lean).

  l2ser64 x                          -> <repr64 x> <len(ToBytes)> <GetSerializedSizeInBytes> <hex|toobig>
  l2dec64 y <entry> <hex|-> [reuse]  -> ok <n|-> <consumed|-> <valid|invalid> cow0=<0|1> <repr64 y> | err | panic:.. | fatal:..
      entry: readfrom | readfrom1 | fromunsafe | unmarshal | base64;  y defined afterwards iff ok and valid.

Streams are written by an encoder of this file (bucket layer) on top of the independent 32-bit encoder of gen_ser.py
(array / bitmap / run containers, both cookies, legal finer run splits), then corrupted structurally:
0 buckets, 1, many, top bucket 0xFFFFFFFF, descending / duplicate keys, empty buckets, counts smaller / larger than the
data (up to 2^64-1), every proper prefix of small streams, byte noise, a corrupted inner stream, trailing bytes,
decoding into a used (copy-on-write) receiver.
"""
import struct
from genlib import suite
from gen_r64 import R, BUCKET_GROUPS, B32, MAXV
from gen_ser import enc_stream, rand_conts, mutate
from gen_kern import card

ENTRIES = ["readfrom", "fromunsafe", "unmarshal", "base64", "readfrom1"]
MAXHEX = 60000   # bytes


def inner_stream(g, big=False):
    r = g.r
    conts = rand_conts(g, n=r.choice([1, 1, 2, 3, 4, 5]), small=not big)
    while not conts:
        conts = rand_conts(g, n=1, small=True)
    if r.random() < 0.7:
        # the container types Validate() insists on: a run container only when it is strictly the cheapest encoding
        canon = []
        for k, _, ivs in conts:
            c = card(ivs)
            kind = "R" if 2 + 4 * len(ivs) < min(8192, 2 * c) else ("A" if c <= 4096 else "B")
            canon.append((k, kind, ivs))
        conts = canon
        g.count("l2dec64:inner-canonical")
    return conts, enc_stream(conts, run_cookie=r.choice([None, None, True]), split_runs=r if r.random() < 0.1 else None)


def stream64(parts, count=None):
    """parts: list of (key, inner bytes)"""
    out = struct.pack("<Q", len(parts) if count is None else count)
    for k, inner in parts:
        out += struct.pack("<I", k) + inner
    return out


def rand_keys(g):
    r = g.r
    c = r.random()
    if c < 0.55:
        return sorted(r.choice(BUCKET_GROUPS))
    if c < 0.7:
        return [r.choice([0, 1, 0x7FFFFFFF, 0x80000000, 0xFFFFFFFE, 0xFFFFFFFF])]
    if c < 0.85:
        n = r.choice([2, 3, 5, 9])
        return sorted(r.sample(range(B32), n))
    b = r.randrange(0, 0xFFFFFFF0)
    return [b + i for i in range(r.choice([2, 4, 7]))]


def after_dec(g, h, y, entry, keys):
    """when y was defined (accepted and valid) it behaves like any bitmap; skipped on both sides otherwise"""
    r = g.r
    g.emit("card64 %s" % y)
    c = r.random()
    if c < 0.5:
        g.emit("l2ser64 %s" % y)
    if c < 0.35:
        g.emit("cadd64 %s %d" % (y, (r.choice(keys) << 32 if keys else 0) | h.low(h.anchors())))
        g.emit("wf64 %s" % y)
        if entry == "fromunsafe":
            g.emit("bufchk64 %s" % y)
        g.emit("l2ser64 %s" % y)


@suite("l2ser64")
def _l2ser64(g, scale):
    h = R(g, scale)
    r = g.r
    # ---- A. library-made bitmaps: encode (parsed representation) = ToBytes, sizes
    g.emit("new64 e0")
    g.emit("l2ser64 e0")
    g.emit("hex64 e0")
    g.emit("of64 e1 0")
    g.emit("l2ser64 e1")
    g.emit("of64 e2 %d" % MAXV)
    g.emit("l2ser64 e2")
    g.emit("of64 e3 0 %d %d %d %d" % (B32 - 1, B32, MAXV - 1, MAXV))
    g.emit("l2ser64 e3")
    g.emit("rem64 e1 0")          # emptied: no bucket is left behind
    g.emit("l2ser64 e1")
    for _ in range(int(10 * scale)):
        x = g.fresh("s")
        h.build(x)
        g.emit("l2ser64 %s" % x)
        if r.random() < 0.5:
            g.emit("hex64 %s" % x)
        c = r.random()
        if c < 0.3:
            g.emit("opt64 %s" % x)
            g.emit("l2ser64 %s" % x)
        elif c < 0.5:
            y = g.fresh("c")
            g.emit("cowclone64 %s %s" % (y, x))
            g.emit("l2ser64 %s" % y)
            g.emit("l2ser64 %s" % x)
        g.count("l2ser64:lib")
    # many buckets (also a count whose low bytes look like a 32-bit cookie)
    for cnt in [r.choice([300, 1000]), 12346 if scale >= 2 else 260]:
        x = g.fresh("m")
        g.emit("new64 %s" % x)
        g.emit("addstride64 %s %d %d %d" % (x, r.choice([0, 5, ((1 << 32) - cnt - 3) << 32]), (1 << 32) + r.choice([0, 1]), cnt))
        g.emit("l2ser64 %s" % x)
        g.count("l2ser64:manybuckets")
    # one full bucket (stream longer than 64 KiB: sizes only)
    if h.take_wide():
        x = g.fresh("w")
        b = r.choice([0, 1, 0xFFFFFFFF])
        g.emit("new64 %s" % x)
        g.emit("addr64 %s %d %d" % (x, b << 32, min(MAXV, (b + 1) << 32)))
        if r.random() < 0.5:
            g.emit("opt64 %s" % x)
        g.emit("l2ser64 %s" % x)
        g.count("l2ser64:fullbucket")
    # ---- B. streams of the generator through the readers
    kinds = ["valid", "valid", "valid", "valid+trail", "nobuckets", "dupkey", "desckey", "emptybucket", "countless",
             "countmore", "counthuge", "cut", "bytes", "innermut", "zero", "reuse", "keynoise"]
    for it in range(int(34 * scale)):
        keys = rand_keys(g)
        big = r.random() < 0.12
        parts = [(k, inner_stream(g, big=big and i == 0)) for i, k in enumerate(keys)]
        conts0 = parts[0][1][0]
        all_arrays = all(kd == "A" for _, (cs, _) in parts for _, kd, _ in cs)
        parts = [(k, s) for k, (_, s) in parts]
        kind = kinds[it] if it < len(kinds) else r.choice(kinds)
        if kind in ("dupkey", "desckey") and len(parts) < 2:
            k0 = parts[0][0]
            parts.append((k0 + 1 if k0 < 0xFFFFFFFF else k0 - 1, inner_stream(g)[1]))
            parts.sort()
        data = stream64(parts)
        opts = ""
        if kind == "valid+trail":
            data += bytes(r.randrange(256) for _ in range(r.choice([1, 4, 12, 100])))
        elif kind == "nobuckets":
            data = struct.pack("<Q", 0) + bytes(r.randrange(256) for _ in range(r.choice([0, 0, 1, 12, 40])))
        elif kind == "dupkey":
            i = r.randrange(1, len(parts))
            parts[i] = (parts[i - 1][0], parts[i][1])
            data = stream64(parts)
        elif kind == "desckey":
            i = r.randrange(1, len(parts))
            parts[i - 1], parts[i] = parts[i], parts[i - 1]
            data = stream64(parts)
        elif kind == "emptybucket":
            i = r.randrange(len(parts))
            parts[i] = (parts[i][0], struct.pack("<II", 12346, 0))
            data = stream64(parts)
        elif kind == "countless":
            data = stream64(parts, count=r.choice([0, len(parts) - 1]))
        elif kind == "countmore":
            data = stream64(parts, count=len(parts) + r.choice([1, 2, 1000, 65536]))
        elif kind == "counthuge":
            data = stream64(parts, count=r.choice([1 << 22, (1 << 22) + 1, 1 << 32, (1 << 32) + len(parts), 1 << 47, 1 << 63,
                                                   MAXV, MAXV - 1, len(parts) + (1 << 32), len(parts) + (1 << 56)]))
        elif kind == "cut":
            data = data[: r.randrange(0, len(data))]
        elif kind == "zero":
            data = bytes(r.choice([0, 1, 7, 8, 9, 11, 12, 16, 20]))
        elif kind == "bytes":
            data = bytearray(data)
            for _ in range(r.choice([1, 2, 5])):
                data[r.randrange(len(data))] = r.randrange(256)
            data[3:8] = bytes(5)     # keep the count small: huge counts have their own kind
            data = bytes(data)
        elif kind == "innermut":
            m = mutate(g, parts[0][1], conts0)
            parts[0] = (parts[0][0], m)
            data = stream64(parts)
        elif kind == "keynoise":
            parts = [(r.choice([k, r.randrange(B32), 0, 0xFFFFFFFF]), s) for k, s in parts]
            data = stream64(parts)
        if len(data) > MAXHEX:
            g.count("l2dec64:skipped-too-long")
            continue
        g.count("l2dec64:" + kind)
        y = g.fresh("p")
        entry = r.choice(ENTRIES)
        if kind == "reuse":
            h.build(y)
            if r.random() < 0.6:
                g.emit("setcow64 %s 1" % y)
            opts = " reuse"
        g.emit("l2dec64 %s %s %s%s" % (y, entry, data.hex() if data else "-", opts))
        after_dec(g, h, y, entry, keys)
        if kind in ("valid", "reuse", "valid+trail") and all_arrays:
            # the same stream through the old command (which demands Validate()==nil of every spec-valid stream, so only
            # streams without run containers: Validate insists on run containers being the cheapest encoding)
            g.emit("dec64 %s %s %s" % (g.fresh("q"), r.choice(ENTRIES), data.hex()))
    # ---- C. every proper prefix of small valid streams, and the stream itself
    for _ in range(max(1, int(2 * scale))):
        keys = rand_keys(g)[:3]
        parts = []
        for k in keys:
            vals = sorted(set(r.randrange(65536) for _ in range(r.randrange(1, 4))))
            conts = [(r.choice([0, 1, 65535]), r.choice(["A", "R"]), [(v, v) for v in vals])]
            parts.append((k, enc_stream(conts)))
        data = stream64(parts)
        entry = r.choice(ENTRIES)
        for k in range(len(data)):
            g.emit("l2dec64 %s %s %s" % (g.fresh("t"), entry, data[:k].hex() if k else "-"))
        y = g.fresh("t")
        g.emit("l2dec64 %s %s %s" % (y, entry, data.hex()))
        g.emit("l2ser64 %s" % y)
        g.count("l2dec64:prefixsweep")
