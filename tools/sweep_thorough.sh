#!/bin/bash
# unchanged-tree run of every property's thorough command
python3 tools/run_check.py --setup > /dev/null 2>&1 || { echo "setup failed"; exit 1; }
bad=0
for p in $(python3 -c "import sys; sys.path.insert(0,'tools'); import props; print(' '.join(sorted(props.PROPS)))"); do
  t0=$(date +%s)
  out=$(python3 tools/run_check.py --prop $p --tier thorough 2>&1 | grep -E "^(VIOLATION|OK|KNOWN)" | tail -2 | cut -c1-200)
  echo "$p $(( $(date +%s)-t0 ))s: $out"
  case "$out" in *VIOLATION*) bad=$((bad+1));; esac
done
echo "THOROUGH bad=$bad"
