#!/usr/bin/env python3
"""Runner for the /verif checks.

  python3 tools/run_check.py --prop C02 --tier quick
  python3 tools/run_check.py --replay replays/C02-xxxx.json
  python3 tools/run_check.py --setup

For one property it (1) regenerates the facts from /repo and rebuilds the Lean development and the Go
executor, (2) checks that the property's theorems are present, build, and depend only on the standard axioms,
(3) runs the property's correspondence suites (same script through the real Go code and the Lean checker),
(4) minimises and reports disagreements, (5) writes evidence/<id>.json.
Exit 0: everything explored held.  Exit 1: a line `VIOLATION property=<id> replay=<path>` was printed.
"""
import argparse
import hashlib
import json
import os
import re
import subprocess
import sys
import time

ROOT = os.path.dirname(os.path.dirname(os.path.abspath(__file__)))
sys.path.insert(0, os.path.join(ROOT, "tools"))
LEAN = os.path.join(ROOT, "lean")
HARNESS = os.path.join(ROOT, "harness")
WORK = os.path.join(ROOT, "scratch")
RDRIVER = os.path.join(LEAN, ".lake", "build", "bin", "rdriver")
HBIN = os.path.join(HARNESS, "bin", "harness")
REPO = os.environ.get("VERIF_REPO", "/repo")   # an alternative checkout is used only by tools/seed_eval.py

import props  # noqa: E402  (property table)


def goenv():
    e = dict(os.environ)
    e["GOFLAGS"] = "-mod=mod"
    e["GOPROXY"] = "off"
    e.pop("GOTOOLCHAIN", None)
    e.pop("GOSUMDB", None)
    e.pop("GONOSUMDB", None)
    e.pop("GONOSUMCHECK", None)
    e.pop("GOFLAGS_EXTRA", None)
    return e


def run(cmd, cwd=None, env=None, timeout=None, stdin=None, stdout=subprocess.PIPE):
    return subprocess.run(cmd, cwd=cwd, env=env, timeout=timeout, stdin=stdin, stdout=stdout, stderr=subprocess.STDOUT,
                          text=True)


# ----------------------------------------------------------------------------- build
class BuildError(Exception):
    def __init__(self, stage, log):
        super().__init__(stage)
        self.stage = stage
        self.log = log


def build_facts():
    """regenerate lean/RModel/Gen/Facts.lean from /repo (only rewritten when it changes)"""
    gdir = os.path.join(ROOT, "tools", "gofacts")
    binp = os.path.join(gdir, "gofacts")
    src = os.path.join(gdir, "main.go")
    if not os.path.exists(src):
        return {"facts": "bootstrap"}
    if not os.path.exists(binp) or os.path.getmtime(binp) < os.path.getmtime(src):
        r = run(["go", "build", "-o", binp, "."], cwd=gdir, env=goenv(), timeout=300)
        if r.returncode != 0:
            raise BuildError("gofacts-build", r.stdout)
    r = run([binp, "-repo", REPO], cwd=gdir, env=goenv(), timeout=120)
    if r.returncode != 0:
        raise BuildError("gofacts", r.stdout)
    new = r.stdout
    target = os.path.join(LEAN, "RModel", "Gen", "Facts.lean")
    old = open(target).read() if os.path.exists(target) else ""
    if old != new:
        with open(target, "w") as f:
            f.write(new)
    return {"facts_sha": hashlib.sha256(new.encode()).hexdigest()[:16], "facts_changed": old != new}


def build_lean(targets=("RModel", "RProofs", "rdriver")):
    r = run(["lake", "build"] + list(targets), cwd=LEAN, timeout=3000)
    if r.returncode != 0:
        raise BuildError("lake", r.stdout)
    return r.stdout


def build_harness():
    os.makedirs(os.path.join(HARNESS, "bin"), exist_ok=True)
    # always rebuild: /repo's working tree may have changed
    gosum = os.path.join(REPO, "go.sum")
    if os.path.exists(gosum):
        with open(gosum) as f, open(os.path.join(HARNESS, "go.sum"), "w") as g:
            g.write(f.read())
    cmd = ["go", "build", "-tags", "verif", "-o", HBIN, "."]
    if REPO != "/repo":
        # same module file with the replace directive pointing at the alternative checkout
        mf = os.path.join(HARNESS, "alt.mod")
        with open(os.path.join(HARNESS, "go.mod")) as f, open(mf, "w") as g:
            g.write(f.read().replace("=> /repo", "=> " + REPO))
        with open(os.path.join(HARNESS, "go.sum")) as f, open(os.path.join(HARNESS, "alt.sum"), "w") as g:
            g.write(f.read())
        cmd = ["go", "build", "-modfile", mf, "-tags", "verif", "-o", HBIN, "."]
    r = run(cmd, cwd=HARNESS, env=goenv(), timeout=600)
    if r.returncode != 0:
        raise BuildError("go-build", r.stdout)


FORBIDDEN = re.compile(r"\b(sorry|admit|native_decide|bv_decide|implemented_by|unsafe)\b|^\s*axiom\s|maxHeartbeats\s+0")


def strip_comments(text):
    text = re.sub(r"/-.*?-/", "", text, flags=re.S)
    text = re.sub(r"--.*", "", text)
    return text


def audit_sources():
    """no sorry/axiom/native_decide/... in any Lean source (comments stripped)"""
    hits = []
    for base in ("RModel", "RProofs"):
        for dp, _, fs in os.walk(os.path.join(LEAN, base)):
            for fn in fs:
                if fn.endswith(".lean"):
                    p = os.path.join(dp, fn)
                    for i, line in enumerate(strip_comments(open(p).read()).splitlines(), 1):
                        if FORBIDDEN.search(line):
                            hits.append("%s:%d:%s" % (os.path.relpath(p, LEAN), i, line.strip()[:80]))
    return hits


ALLOWED_AXIOMS = {"propext", "Classical.choice", "Quot.sound"}


def audit_axioms(pid):
    """#print axioms for every obligation of the property; returns (obligations, discharged, detail)"""
    names = props.PROPS[pid].get("theorems", [])
    if not names:
        return 0, 0, {}
    mods = sorted(set(props.PROPS[pid].get("modules", props.DEFAULT_MODULES)))
    src = "\n".join("import %s" % m for m in mods) + "\n" + "\n".join("#print axioms %s" % n for n in names) + "\n"
    os.makedirs(WORK, exist_ok=True)
    fn = os.path.join(WORK, "audit_%s_%d.lean" % (pid, os.getpid()))
    with open(fn, "w") as f:
        f.write(src)
    r = run(["lake", "env", "lean", fn], cwd=LEAN, timeout=900)
    os.unlink(fn)
    out = r.stdout
    detail = {}
    # parse blocks: "'name' depends on axioms: [a, b]" or "'name' does not depend on any axioms"
    for m in re.finditer(r"^'([^\n]+?)' depends on axioms: \[([^\]]*)\]", out, flags=re.M):
        detail[m.group(1)] = [a.strip() for a in m.group(2).replace("\n", " ").split(",") if a.strip()]
    for m in re.finditer(r"^'([^\n]+?)' does not depend on any axioms", out, flags=re.M):
        detail[m.group(1)] = []
    discharged = 0
    bad = {}
    for n in names:
        key = n if n in detail else ("RModel." + n if ("RModel." + n) in detail else None)
        if key is None:
            # try suffix match
            cands = [k for k in detail if k.endswith("." + n) or k == n]
            key = cands[0] if cands else None
        if key is None:
            bad[n] = "missing"
            continue
        extra = [a for a in detail[key] if a not in ALLOWED_AXIOMS]
        if extra:
            bad[n] = "axioms:" + ",".join(extra)
        else:
            discharged += 1
    return len(names), discharged, {"bad": bad, "raw_tail": out[-600:] if bad else ""}


# ----------------------------------------------------------------------------- correspondence
def write_lines(path, lines):
    with open(path, "w") as f:
        f.write("\n".join(lines) + "\n")


def run_go(script_path, out_path, timeout=600, binary=None):
    env = goenv()
    env.setdefault("GOMEMLIMIT", "6GiB")
    env["GORACE"] = "halt_on_error=1"      # (race-detector builds only) stop at the racy line instead of at exit
    with open(script_path) as fin, open(out_path, "w") as fout:
        try:
            p = subprocess.run([binary or HBIN], stdin=fin, stdout=fout, stderr=subprocess.PIPE, env=env, timeout=timeout)
            return p.returncode, p.stderr.decode(errors="replace")[-2000:]
        except subprocess.TimeoutExpired:
            return -9, "timeout"


MIS = re.compile(r"^MISMATCH line=(\d+) cmd=\[(.*?)\] expected=\[(.*)\] got=\[(.*)\]$")
# A disagreement of this kind is a broken CORRESPONDENCE, not by itself a failing input: the checker has already found, on the same
# line and before this comparison, that the Go result denotes the right set, leaves its operands as it should, answers with the right
# boolean and is well-formed (Validate-level) — only the literal representation (container kinds, payload layout, sharing flags) is not
# the one the hand-written L2 model computes.  A harmless rewrite of the code does that too.  Such a line is reported only when the
# search through everything else the check runs found no input on which the property itself fails, and then with no-failing-input-found.
CORR_ONLY = re.compile(r"= Go representation; model:|array kernel model \(L2\) = Go array|^plane model: |^L2 bucket structure of |^L2 exact \(|^operand \S+ after = |^chg \(the model says")


def run_lean(script_path, go_path, timeout=900):
    r = run([RDRIVER, script_path, go_path], timeout=timeout)
    mism = []
    for line in r.stdout.splitlines():
        m = MIS.match(line)
        if m:
            mism.append({"line": int(m.group(1)), "cmd": m.group(2), "expected": m.group(3), "got": m.group(4)})
    return mism, r.stdout[-500:]


_ctr = [0]
_ctr_lock = __import__("threading").Lock()


def execute(lines, tag, binary=None):
    """run both executors; returns (mismatches, go_lines_count, crash_info)"""
    os.makedirs(WORK, exist_ok=True)
    with _ctr_lock:
        _ctr[0] += 1
        k = _ctr[0]
    sp = os.path.join(WORK, "%s_%d_%d.txt" % (tag, os.getpid(), k))
    gp = os.path.join(WORK, "%s_%d_%d.go" % (tag, os.getpid(), k))
    write_lines(sp, lines)
    rc, err = run_go(sp, gp, binary=binary)
    crash = None
    nout = sum(1 for _ in open(gp))
    if rc != 0 or nout < len(lines):
        # hard crash / hang: attribute to the first line without output
        crash = {"rc": rc, "stderr": err, "line": nout + 1, "cmd": lines[nout][:200] if nout < len(lines) else ""}
        with open(gp, "a") as f:
            f.write("crash:%s\n" % ("timeout" if rc == -9 else "fatal"))
    mism, tail = run_lean(sp, gp)
    # distinct non-trivial cases: script lines (by content) that the Go side actually executed (not `skip`, not a comment)
    nontrivial = set()
    try:
        with open(gp) as f:
            for ln, out in zip(lines, f):
                if ln and not ln.startswith("#") and not out.startswith("skip"):
                    nontrivial.add(hash(ln))
    except OSError:
        pass
    execute.last_nontrivial = getattr(execute, "last_nontrivial", {})
    execute.last_nontrivial[tag] = nontrivial
    try:
        os.unlink(sp)
        os.unlink(gp)
    except OSError:
        pass
    return mism, nout, crash


def op_of(cmdtext):
    return cmdtext.split(" ", 1)[0] if cmdtext else ""


def minimise(lines, upto, want_op, budget=120):
    """delta-debug the prefix lines[:upto] keeping the last line; a candidate reproduces if the checker reports a
    mismatch on a command with the same operator as the original one, as its last line"""
    prefix = lines[:upto - 1]
    last = lines[upto - 1]

    def fails(cand):
        mism, _, crash = execute(cand + [last], "min")
        return any(m["line"] == len(cand) + 1 for m in mism)

    n = 2
    runs = 0
    while len(prefix) >= 1 and runs < budget:
        chunk = max(1, len(prefix) // n)
        reduced = False
        for i in range(0, len(prefix), chunk):
            cand = prefix[:i] + prefix[i + chunk:]
            runs += 1
            if fails(cand):
                prefix = cand
                n = max(n - 1, 2)
                reduced = True
                break
            if runs >= budget:
                break
        if not reduced:
            if chunk == 1:
                break
            n = min(len(prefix), n * 2)
    return prefix + [last]


def signature(pid, script, mm):
    """coarse identity of a violation: property, failing operator, and the operators that lead to it"""
    ops = sorted(set(op_of(l) for l in script[:-1]))
    return {"property": pid, "op": op_of(script[-1]) if script else "", "ops": ops}


def load_known():
    p = os.path.join(ROOT, "known_findings.json")
    if not os.path.exists(p):
        return {"findings": [], "fixed": []}
    return json.load(open(p))


def match_known(known, pid, sig, script, mm):
    for k in known.get("findings", []):
        if k.get("property") != pid:
            continue
        s = k.get("signature", {})
        if s.get("op") and s["op"] != sig["op"]:
            continue
        if "requires_ops" in s and not set(s["requires_ops"]).issubset(set(sig["ops"]) | {sig["op"]}):
            continue
        if "got_regex" in s and not re.search(s["got_regex"], mm.get("got", "")):
            continue
        if "expected_regex" in s and not re.search(s["expected_regex"], mm.get("expected", "")):
            continue
        if "script_regex" in s and not re.search(s["script_regex"], "\n".join(script)):
            continue
        return k
    return None


# ----------------------------------------------------------------------------- main check
def check_property(pid, tier, seed, replay_only=None):
    t0 = time.time()
    P = props.PROPS[pid]
    os.makedirs(os.path.join(ROOT, "evidence"), exist_ok=True)
    os.makedirs(os.path.join(ROOT, "replays"), exist_ok=True)
    violations = []       # (replay_path, suffix)
    known_hits = []
    info = {}
    proof_broken = None
    def tie_broken(stage, log):
        """the machinery that ties the model to /repo's current source no longer builds (a changed signature used by a hook or by
        the fact extractor, a model that no longer compiles against the regenerated facts …): the property is no longer shown
        to hold, and no script can be run to look for a failing input"""
        what = "%s: %s" % (stage, log[-1500:])
        h = hashlib.sha256(what.encode()).hexdigest()[:10]
        rp = os.path.join(ROOT, "replays", "%s-tie-%s.json" % (pid, h))
        json.dump({"property": pid, "broken": "the correspondence / regenerated-facts tie does not build (%s)" % stage, "log": log[-3000:],
                   "theorems": P.get("theorems", []), "searched": {"evaluations": 0, "note": "no executor / checker to run scripts with"}},
                  open(rp, "w"), indent=1)
        return finish(pid, tier, seed, t0, [(rp, " no-failing-input-found")], [], {"build_error": stage, "log": log[-1500:]},
                      proof_broken="tie does not build: " + what[:700], obligations=(len(P.get("theorems", [])), 0), cov={})

    try:
        info.update(build_facts())
        build_harness()
    except BuildError as e:
        return tie_broken(e.stage, e.log)
    # the model and the checker first (needed for any correspondence run), then this property's proof modules only,
    # so that a proof broken by a change to /repo is attributed to the properties that depend on it
    try:
        build_lean(("RModel", "rdriver"))
    except BuildError as e2:
        return tie_broken("lake build RModel rdriver", e2.log)
    try:
        build_lean(tuple(P.get("modules", props.DEFAULT_MODULES)))
    except BuildError as e:
        proof_broken = "lake build of the proof modules failed: " + e.log[-1200:]
    if proof_broken is None and tier == "thorough":
        # independent re-check of the compiled proof modules by the toolchain's stand-alone checker
        rc_ = run(["lake", "env", "leanchecker"] + list(P.get("modules", props.DEFAULT_MODULES)), cwd=LEAN, timeout=3000)
        info["leanchecker"] = "ok" if rc_.returncode == 0 else "FAILED"
        if rc_.returncode != 0:
            proof_broken = "leanchecker rejects the compiled proof modules: " + rc_.stdout[-800:]
    hits = audit_sources()
    if hits:
        proof_broken = (proof_broken or "") + " forbidden constructs: " + "; ".join(hits[:5])
    nobl, ndis, adetail = (len(P.get("theorems", [])), 0, {})
    if proof_broken is None:
        nobl, ndis, adetail = audit_axioms(pid)
        if ndis != nobl:
            proof_broken = "axiom audit: " + json.dumps(adetail)[:800]

    # correspondence
    import gen
    cov = {"evaluations": 0, "suites": {}, "histogram": {}, "samples": [], "foreign_mismatches": [], "distinct": set()}
    known = load_known()
    amplify = 4 if proof_broken else 1
    jobs = []
    for path in P.get("corpus", []):
        jobs.append(("corpus:" + path, 0, 0))
    for (suite, scale) in P["suites"]:
        sc = scale * (props.THOROUGH_SCALE if tier == "thorough" else 1) * amplify
        seeds = [seed] if tier == "quick" else [seed + i for i in range(props.THOROUGH_SEEDS)]
        for sd in seeds:
            jobs.append((suite, sc, sd))

    race_bin = None
    race_list = P.get("race_suites") if tier == "thorough" else P.get("race_quick")
    if race_list:
        # the same suites once more through an executor built with the Go race detector: a report makes the process exit
        # with status 66, which shows up as a crash attributed to the line being executed
        race_bin = os.path.join(HARNESS, "bin", "harness-race")
        cmd = ["go", "build", "-race", "-tags", "verif", "-o", race_bin, "."]
        if REPO != "/repo":
            cmd = ["go", "build", "-race", "-modfile", os.path.join(HARNESS, "alt.mod"), "-tags", "verif", "-o", race_bin, "."]
        r = run(cmd, cwd=HARNESS, env=goenv(), timeout=900)
        if r.returncode != 0:
            race_bin = None
            info["race_build_error"] = r.stdout[-500:]
        else:
            for (suite, scale) in race_list:
                for sd in range(seed, seed + (3 if tier == "thorough" else 1)):
                    jobs.append(("race:" + suite, scale, sd))

    def run_job(job):
        suite, sc, sd = job
        binary = None
        if suite.startswith("race:"):
            binary = race_bin
            suite_gen = suite[5:]
        else:
            suite_gen = suite
        if suite.startswith("corpus:"):
            with open(os.path.join(ROOT, suite[7:])) as f:
                lines = [l.rstrip("\n") for l in f if l.strip() and not l.startswith("#")]
            hist = {"corpus:script": 1}
        else:
            lines, hist = gen.generate(suite_gen, sd, sc, tier)
        tag = "%s_%s_%d" % (pid, re.sub(r"[^A-Za-z0-9]+", "_", suite)[-40:], sd)
        mism, nout, crash = execute(lines, tag, binary=binary)
        nontriv = getattr(execute, "last_nontrivial", {}).pop(tag, set())
        out = {"nontrivial": nontriv, "suite": suite, "seed": sd, "lines": lines, "hist": hist, "nout": nout, "crash": crash, "foreign": [], "viol": None,
               "known": [], "corr": None}
        for mm in mism:
            op = op_of(mm["cmd"])
            owned = P.get("owns")
            owns_fn = P.get("owns_fn")
            if (owns_fn is not None and not owns_fn(op, mm, suite)) or (owns_fn is None and owned is not None and op not in owned):
                out["foreign"].append({"suite": suite, "seed": sd, "op": op, "line": mm["line"]})
                continue
            if out["corr"] is not None and CORR_ONLY.search(mm["expected"]):
                continue    # one minimised report of the broken correspondence per suite run is enough
            script = minimise(lines, mm["line"], op, budget=60 if tier == "quick" else 200)
            mm2, _, _ = execute(script, "final")
            final = [m for m in mm2 if m["line"] == len(script)]
            rec = final[0] if final else mm
            sig = signature(pid, script, rec)
            k = match_known(known, pid, sig, script, rec)
            if k:
                out["known"].append((k, script))
                continue
            if CORR_ONLY.search(rec["expected"]):
                if out["corr"] is None:
                    out["corr"] = (script, rec, sig)
                continue    # keep looking for an input on which the property itself fails
            out["viol"] = (script, rec, sig)
            break   # one minimised report per suite run is enough
        return out

    from concurrent.futures import ThreadPoolExecutor
    workers = 1 if tier == "quick" and len(jobs) <= 1 else min(12, len(jobs))
    with ThreadPoolExecutor(max_workers=workers) as ex:
        results = list(ex.map(run_job, jobs))
    for out in results:
        suite, sd, lines = out["suite"], out["seed"], out["lines"]
        for k, v in out["hist"].items():
            cov["histogram"][k] = cov["histogram"].get(k, 0) + v
        cov["evaluations"] += out["nout"]
        cov["suites"].setdefault(suite, {"lines": 0, "runs": 0})
        cov["suites"][suite]["lines"] += out["nout"]
        cov["suites"][suite]["runs"] += 1
        cov["distinct"] |= out["nontrivial"]
        for l in lines:
            toks = l.split(" ")
            cov.setdefault("opclasses", set()).add((toks[0], len(toks)))
        if len(cov["samples"]) < 3:
            k = min(len(lines), 6)
            cov["samples"].append({"suite": suite, "seed": sd, "first_lines": [x[:160] for x in lines[:k]]})
        cov["foreign_mismatches"].extend(out["foreign"])
        known_hits.extend(out["known"])
        if out["viol"]:
            script, rec, sig = out["viol"]
            h = hashlib.sha256("\n".join(script).encode()).hexdigest()[:10]
            rp = os.path.join(ROOT, "replays", "%s-%s.json" % (pid, h))
            json.dump({"property": pid, "seed": sd, "tier": tier, "suite": suite, "script": script,
                       "failing_command": rec["cmd"], "model_expected": rec["expected"][:3000], "go_output": rec["got"][:3000],
                       "signature": sig, "crash": out["crash"],
                       "how_to_replay": "python3 tools/run_check.py --replay %s" % os.path.relpath(rp, ROOT)},
                      open(rp, "w"), indent=1)
            violations.append((rp, ""))
    if not violations:
        # only the literal-representation correspondence broke: the search (every other line of every suite of this check) found no
        # input on which the property fails; report the broken correspondence, with the lines on which it shows
        for out in results:
            if out["corr"] and len(violations) < 3:
                script, rec, sig = out["corr"]
                h = hashlib.sha256("\n".join(script).encode()).hexdigest()[:10]
                rp = os.path.join(ROOT, "replays", "%s-corr-%s.json" % (pid, h))
                json.dump({"property": pid, "seed": out["seed"], "tier": tier, "suite": out["suite"],
                           "broken": "correspondence (tie B, exact representation): %s" % rec["expected"].split("; model:")[0],
                           "note": "on this script the Go result denotes the right set, is well-formed and answers correctly; only its literal "
                                   "representation differs from the L2 model's, so the theorems about that model no longer speak about this code",
                           "script": script, "failing_command": rec["cmd"], "model_expected": rec["expected"][:3000],
                           "go_output": rec["got"][:3000], "signature": sig,
                           "theorems": P.get("theorems", []),
                           "searched": {"evaluations": cov["evaluations"], "suites": cov["suites"], "seed": seed, "tier": tier},
                           "how_to_replay": "python3 tools/run_check.py --replay %s" % os.path.relpath(rp, ROOT)},
                          open(rp, "w"), indent=1)
                violations.append((rp, " no-failing-input-found"))
    if proof_broken and not violations:
        h = hashlib.sha256(proof_broken.encode()).hexdigest()[:10]
        rp = os.path.join(ROOT, "replays", "%s-proof-%s.json" % (pid, h))
        json.dump({"property": pid, "broken": proof_broken, "theorems": P.get("theorems", []),
                   "searched": {"evaluations": cov["evaluations"], "suites": cov["suites"], "seed": seed, "tier": tier}},
                  open(rp, "w"), indent=1)
        violations.append((rp, " no-failing-input-found"))
    info["audit"] = adetail
    return finish(pid, tier, seed, t0, violations, known_hits, info, proof_broken, (nobl, ndis), cov)


def finish(pid, tier, seed, t0, violations, known_hits, info, proof_broken, obligations, cov):
    P = props.PROPS[pid]
    nobl, ndis = obligations
    distinct = cov.get("distinct", set())
    coverage = {
        "obligations": nobl,
        "discharged": ndis,
        "checker_cmd": "cd lean && lake build RModel RProofs rdriver && lake env lean <#print axioms of the listed theorems>",
        "trusted_base": props.TRUSTED_BASE + P.get("trusted_extra", []),
        "theorems": P.get("theorems", []),
        "evaluations": cov.get("evaluations", 0),
        "distinct_nontrivial": len(distinct),
        "rule": "evaluations = script lines run through both the Go code and the Lean checker; distinct_nontrivial = number of DISTINCT "
                "script lines (by content) that the Go side actually executed (its output is not `skip`, the line is not a comment); "
                "'operator_classes' = distinct (operator, arity) pairs; per-class counts of generated shapes / alignments / operators "
                "are in 'histogram'",
        "operator_classes": len(cov.get("opclasses", set())),
        "samples": cov.get("samples", []) or [{"note": "no script executed"}],
        "suites": cov.get("suites", {}),
        "histogram": cov.get("histogram", {}),
        "foreign_mismatches": cov.get("foreign_mismatches", [])[:20],
        "known_findings_hit": [k["id"] for k, _ in known_hits],
        "proof_status": "broken: " + proof_broken[:600] if proof_broken else "all obligations checked by the Lean kernel",
    }
    coverage.update({k: v for k, v in info.items() if k in ("facts_sha", "facts_changed", "build_error", "leanchecker", "race_build_error")})
    ev = {"property_id": pid, "tier": tier, "seed": seed, "level": "proof", "coverage": coverage,
          "assumptions": props.ASSUMPTIONS + P.get("assumptions", []),
          "wall_s": round(time.time() - t0, 2), "violations": len(violations)}
    with open(os.path.join(ROOT, "evidence", "%s.json" % pid), "w") as f:
        json.dump(ev, f, indent=1)
    seen = set()
    for k, script in known_hits:
        if k["id"] not in seen:
            seen.add(k["id"])
            print("KNOWN-FINDING: property=%s %s" % (pid, k["what"]))
    for rp, suffix in violations:
        print("VIOLATION property=%s replay=%s%s" % (pid, rp, suffix))
    if not violations:
        print("OK property=%s tier=%s obligations=%d/%d evaluations=%d wall=%.1fs" %
              (pid, tier, ndis, nobl, cov.get("evaluations", 0), time.time() - t0))
    return 1 if violations else 0


def replay(path):
    d = json.load(open(path))
    if "script" not in d:
        print("proof-break replay: %s" % d.get("broken", "")[:2000])
        build_facts()
        try:
            build_lean()
            print("lake build: ok now")
            return 0
        except BuildError as e:
            print(e.log[-2000:])
            return 1
    build_facts()
    build_harness()
    build_lean(("RModel", "rdriver"))
    mism, nout, crash = execute(d["script"], "replay")
    for l in d["script"]:
        print("  " + l[:300])
    if mism:
        for m in mism:
            print("MISMATCH line=%d cmd=[%s]\n   model expects: %s\n   go returned:   %s" % (m["line"], m["cmd"][:200], m["expected"], m["got"]))
        print("VIOLATION property=%s replay=%s" % (d["property"], path))
        return 1
    print("replay passes: no disagreement")
    return 0


def setup():
    try:
        print(build_facts())
        build_lean()
        build_harness()
        # warm the Go build cache for the race-detector executor (C12 uses it in both tiers)
        run(["go", "build", "-race", "-tags", "verif", "-o", os.path.join(HARNESS, "bin", "harness-race"), "."], cwd=HARNESS, env=goenv(),
            timeout=900)
    except BuildError as e:
        print("SETUP FAILED at %s\n%s" % (e.stage, e.log[-3000:]))
        return 1
    print("setup ok")
    return 0


def main():
    ap = argparse.ArgumentParser()
    ap.add_argument("--prop")
    ap.add_argument("--tier", default=os.environ.get("VERIF_TIER", "quick"))
    ap.add_argument("--replay")
    ap.add_argument("--setup", action="store_true")
    a = ap.parse_args()
    seed = int(os.environ.get("VERIF_SEED", "1"))
    if a.setup:
        sys.exit(setup())
    if a.replay:
        sys.exit(replay(a.replay))
    sys.exit(check_property(a.prop, a.tier, seed))


if __name__ == "__main__":
    main()
