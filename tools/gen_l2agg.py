"""Suite `l2agg`: exact-representation tie of the L2 model of the many-way aggregates (lean/RModel/Impl/LazyOps.lean).

`l2agg <fastor|fastand> z x1 … xn` (n = 0 … 6) and `l2agg andany x y1 … yn`, plus the container kernels behind them
(`l2lazy <lazyOR|lazyIOR|iand|ior> c1 c2`).  Operand groups are built so that the LAZY path is exercised container by container:

  * `raw` groups: every operand is a `mkrepr` of well-formed containers drawn per key from a pool that covers arrays of
    1 … 4096 values (sums crossing 1024 = arrayLazyLowerBound and 4096), bitmaps (4097 values, complementary halves, full
    minus one value), runs (full, full minus an end, few runs, many runs, short runs), random flag patterns and cow switches;
    `seq` groups fix, for one key, the SEQUENCE of container kinds met by the running union (run then run / array / bitmap, array
    then bitmap that completes the chunk, arrays creeping over 1024 and 4096, halves reaching 65536, a full run anywhere);
  * `ops` groups: operands made by the library itself (`addr`, `addmany`, `opt`, `cowclone`, `setcow`, `clone`), shared chunks,
    full chunks `addr x k*65536 (k+1)*65536`, duplicates of the same object, empties;
  * results are validated (`wf z`), mutated (`add z v`) and the aggregate repeated, so that sharing between a result and its
    operands (flagged containers appended shared) would show as a changed operand.
Domain: bitmaps as the library itself produces them (Rep.wf); container operands of `l2lazy`: c2 well-formed, c1 well-formed or
(lazyIOR) a 1024-word bitmap container whose cached cardinality is exact, -1 (lazy intermediate) or doubled (the temporary of
`runContainer16.toBitmapContainer`)."""
from genlib import suite, CH

FULLW = (1 << 64) - 1


# ------------------------------------------------------------------ python-side container construction
def words_of(vals):
    ws = [0] * 1024
    for v in vals:
        ws[v >> 6] |= 1 << (v & 63)
    return ws


def render_words(ws):
    out = []
    i = 0
    while i < len(ws):
        j = i
        while j < len(ws) and ws[j] == ws[i]:
            j += 1
        out.append("%x" % ws[i] if j - i == 1 else "%x*%d" % (ws[i], j - i))
        i = j
    return ".".join(out)


def runs_of(vals):
    """maximal runs (start, length-1) of a sorted value list"""
    rs = []
    for v in vals:
        if rs and rs[-1][0] + rs[-1][1] + 1 == v:
            rs[-1][1] += 1
        else:
            rs.append([v, 0])
    return rs


def run_minimal(nruns, card):
    return 2 + 4 * nruns < min(8224, 2 * card)


def cont_str(vals, prefer_run):
    """a WELL-FORMED container holding exactly `vals` (sorted, non-empty): run if allowed and asked for, else array / bitmap"""
    rs = runs_of(vals)
    if prefer_run and run_minimal(len(rs), len(vals)):
        return "R:" + ",".join("%d+%d" % (s, l) for s, l in rs)
    if len(vals) <= 4096:
        return "A:" + ",".join(str(v) for v in vals)
    return "B:%d:%s" % (len(vals), render_words(words_of(vals)))


def blocks(r, nb, lo=0, hi=CH):
    pts = sorted(r.sample(range(lo, hi + 1), 2 * nb))
    vals = []
    for i in range(0, 2 * nb, 2):
        vals.extend(range(pts[i], pts[i + 1]))
    return vals or [lo]


def shape_vals(g, name=None):
    """value list of one chunk, by shape name"""
    r = g.r
    names = ["one", "few", "a500", "a600", "a1024", "a1025half", "a2000", "a4096even", "a4096odd", "a4096blk", "b4097",
             "even", "odd", "fullm1", "fullm_lo", "fullm_hi", "full", "lohalf", "hihalf", "runs3", "runs100", "runs2000",
             "shortruns", "dense", "blocks", "prefix", "suffix", "edges", "sparse16"]
    if name is None:
        name = r.choice(names)
    g.count("shape:" + name)
    if name == "one":
        return [g.lowval()]
    if name == "few":
        return sorted(set(g.lowval() for _ in range(r.randrange(2, 12))))
    if name == "a500":
        return sorted(r.sample(range(CH), 500))
    if name == "a600":
        return sorted(r.sample(range(0, CH, 2), 600))
    if name == "a1024":
        return sorted(r.sample(range(CH), r.choice([1023, 1024, 1025])))
    if name == "a1025half":
        return sorted(r.sample(range(CH), r.choice([512, 513])))
    if name == "a2000":
        return sorted(r.sample(range(CH), r.choice([2000, 2047, 2048, 2049, 3000])))
    if name == "a4096even":
        return list(range(0, 8192, 2))
    if name == "a4096odd":
        return list(range(1, 8192, 2))
    if name == "a4096blk":
        s = r.choice([0, 1, 4096, 30000, CH - 8192])
        return list(range(s, s + 2 * r.choice([4095, 4096]), 2))
    if name == "b4097":
        s = r.randrange(0, CH - 8200)
        return list(range(s, s + 2 * r.choice([4097, 4098]), 2))
    if name == "even":
        return list(range(0, CH, 2))
    if name == "odd":
        return list(range(1, CH, 2))
    if name == "fullm1":
        m = g.lowval()
        return [v for v in range(CH) if v != m]
    if name == "fullm_lo":
        return list(range(r.choice([1, 2, 64]), CH))
    if name == "fullm_hi":
        return list(range(0, CH - r.choice([1, 2, 64])))
    if name == "full":
        return list(range(CH))
    if name == "lohalf":
        return list(range(0, r.choice([30000, 32768, 32769])))
    if name == "hihalf":
        return list(range(r.choice([30000, 32767, 32768]), CH))
    if name == "runs3":
        return blocks(r, r.randrange(1, 4))
    if name == "runs100":
        return blocks(r, r.randrange(50, 150))
    if name == "runs2000":
        return blocks(r, r.randrange(1500, 2100))
    if name == "shortruns":
        vals = []
        for s in sorted(r.sample(range(0, CH - 8, 8), r.randrange(5, 400))):
            vals.extend(range(s, s + r.choice([2, 3, 5])))
        return vals
    if name == "dense":
        return sorted(r.sample(range(CH), r.choice([5000, 9000, 20000, 40000, 60000])))
    if name == "blocks":
        return blocks(r, r.randrange(20, 120))
    if name == "prefix":
        return list(range(0, r.choice([1, 2, 64, 1024, 1025, 4096, 4097, 65535])))
    if name == "suffix":
        return list(range(r.choice([65535, 65534, 65472, 64512, 61440, 61439, 1]), CH))
    if name == "edges":
        vals = [0, 63, 64, 65, 4095, 4096, 4097, 65534, 65535]
        return [v for v in vals if r.random() < 0.7] or [65535]
    if name == "sparse16":
        return list(range(r.randrange(16), CH, 16))
    raise ValueError(name)


def rand_cont(g, name=None, prefer_run=None):
    r = g.r
    if prefer_run is None:
        prefer_run = r.random() < 0.55
    c = cont_str(shape_vals(g, name), prefer_run)
    g.count("kind:" + c[0])
    return c


def mk(g, x, conts, cow=None, flags=0.25):
    """mkrepr x from {key: container string}"""
    r = g.r
    if cow is None:
        cow = r.random() < 0.3
    parts = ["cow=%d" % (1 if cow else 0)]
    for k in sorted(conts):
        parts.append("%d:%s%s" % (k, conts[k], "/f" if r.random() < flags else ""))
    g.emit("mkrepr %s %s" % (x, ";".join(parts)))
    g.count("mk:cow" if cow else "mk:nocow")


# ------------------------------------------------------------------ operand groups
def raw_group(g, n):
    """n operands over a small key universe, every chunk from the pool"""
    r = g.r
    nk = r.choice([1, 1, 2, 3, 5])
    if r.random() < 0.6:
        uni = sorted(r.sample(range(0, 8), nk))
    else:
        uni = sorted(set(g.key() for _ in range(nk)))
    dens = r.choice([0.5, 0.8, 1.0])
    names = []
    for _ in range(n):
        x = g.fresh()
        keys = [k for k in uni if r.random() < dens]
        mk(g, x, {k: rand_cont(g) for k in keys})
        names.append(x)
    return names


# kind sequences met by the running union at ONE key: (shape, prefer_run)
SEQS = [
    # the running union is a non-full run container, the next input brings a run / an array / a bitmap
    [("runs3", True), ("runs3", True), ("runs3", True)],
    [("lohalf", True), ("suffix", True), ("few", False)],
    [("lohalf", True), ("prefix", True), ("dense", False)],
    [("runs100", True), ("runs3", True), ("a2000", False)],
    [("runs100", True), ("runs100", True), ("even", False), ("odd", False)],
    [("lohalf", True), ("hihalf", True), ("few", False)],                 # becomes full at step 1
    [("fullm_lo", True), ("fullm_hi", True), ("dense", False)],
    [("fullm_lo", True), ("few", False), ("prefix", True)],
    [("prefix", True), ("runs3", True), ("fullm1", False)],
    [("runs3", True), ("one", False), ("full", True)],
    # arrays creeping over 1024 (lazy bitmap, cardinality -1) and over 4096
    [("a500", False), ("a500", False), ("a500", False)],
    [("a1025half", False), ("a1025half", False), ("few", False)],
    [("a600", False), ("a600", False), ("a600", False), ("a2000", False), ("a2000", False)],
    [("a4096even", False), ("a4096odd", False), ("one", False)],
    [("a4096even", False), ("a4096even", False), ("few", False)],        # > 1024 in total, still 4096 values after repair
    [("a2000", False), ("a2000", False), ("a2000", False), ("a2000", False)],
    [("few", False), ("few", False), ("a4096blk", False), ("a4096blk", False)],   # in-place array union crossing 4096
    [("few", False), ("one", False), ("fullm1", False)],                 # array x bitmap in place: exact cardinality
    [("few", False), ("few", False), ("dense", False), ("dense", False)],
    # bitmaps reaching 65536
    [("even", False), ("odd", False)],
    [("even", False), ("odd", False), ("few", False)],
    [("even", False), ("few", False), ("odd", False)],
    [("fullm1", False), ("edges", False), ("fullm1", False)],
    [("fullm1", False), ("fullm1", False), ("fullm1", False)],
    [("dense", False), ("dense", False), ("full", True)],
    [("full", True), ("dense", False), ("few", False)],
    [("few", False), ("full", True), ("dense", False)],
    [("dense", False), ("runs100", True), ("runs3", True)],
    [("dense", False), ("fullm_lo", True), ("prefix", True)],
    [("b4097", False), ("b4097", False), ("shortruns", True)],
    [("shortruns", True), ("shortruns", True), ("shortruns", True), ("a500", False)],
    [("runs2000", False), ("runs2000", True), ("runs2000", True)],
    [("sparse16", False), ("sparse16", False), ("sparse16", False)],
]


def seq_group(g, n):
    """operands whose containers at key k follow a chosen kind sequence (cut to n members when it has that many);
    other keys random / absent"""
    r = g.r
    seq = r.choice([q for q in SEQS if len(q) >= n] or SEQS)
    g.count("seq:%d" % SEQS.index(seq))
    seq = seq[:n]
    k = r.choice([0, 1, 2, 7, 65535])
    others = [kk for kk in (0, 1, 2, 3, 7, 9, 65535) if kk != k]
    names = []
    for shape, pr in seq:
        x = g.fresh()
        conts = {k: rand_cont(g, shape, pr)}
        for kk in others:
            if r.random() < 0.2:
                conts[kk] = rand_cont(g, r.choice(["few", "one", "runs3", "prefix", "full", "a500", "edges"]))
        mk(g, x, conts)
        names.append(x)
    if r.random() < 0.3:
        r.shuffle(names)
        g.count("seq:shuffled")
    return names


def ops_group(g, n):
    """operands made by the library: shared chunks, full chunks, run-optimised, cow clones, duplicates"""
    r = g.r
    uni = g.keyset(r.choice([1, 2, 3, 4]))
    names = []
    for _ in range(n):
        x = g.fresh()
        c = r.random()
        if names and c < 0.2:
            src = r.choice(names)
            how = r.choice(["clone", "cowclone", "cowclone"])
            g.emit("%s %s %s" % (how, x, src))
            g.count("ops:" + how)
            if r.random() < 0.6:
                g.emit("add %s %d" % (x, g.val_near(uni)))
        elif names and c < 0.3:
            names.append(r.choice(names))            # the same object twice
            g.count("ops:duplicate")
            continue
        elif c < 0.36:
            g.emit("new %s" % x)
            g.count("ops:empty")
        else:
            g.emit("new %s" % x)
            for k in uni:
                c2 = r.random()
                if c2 < 0.3:
                    continue
                if c2 < 0.42:
                    g.emit("addr %s %d %d" % (x, k * CH, (k + 1) * CH))
                    g.count("ops:fullchunk")
                else:
                    g.chunk_ops(x, k)
            if r.random() < 0.5:
                g.emit("opt %s" % x)
                g.count("ops:opt")
            if r.random() < 0.2:
                g.emit("setcow %s 1" % x)
                g.count("ops:setcow")
        names.append(x)
    return names


def aggregates(g, names, pool):
    r = g.r
    n = len(names)
    z = g.fresh("z")
    g.emit("l2agg fastor %s %s" % (z, " ".join(names)))
    g.count("l2agg:fastor:%d" % n)
    if r.random() < 0.5:
        g.emit("wf %s" % z)
    za = g.fresh("z")
    g.emit("l2agg fastand %s %s" % (za, " ".join(names)))
    g.count("l2agg:fastand:%d" % n)
    if r.random() < 0.3:
        g.emit("wf %s" % za)
    if n >= 2:
        # andany works in place: give it a private receiver
        x = g.fresh("x")
        g.emit("%s %s %s" % (r.choice(["clone", "clone", "cowclone"]), x, names[0]))
        g.emit("l2agg andany %s %s" % (x, " ".join(names[1:])))
        g.count("l2agg:andany:%d" % (n - 1))
        if r.random() < 0.3:
            g.emit("wf %s" % x)
    if n >= 1 and r.random() < 0.6:
        # mutate the result, repeat: operands must not have moved, the new result must not see the mutation
        g.emit("add %s %d" % (z, g.val_near([])))
        if r.random() < 0.5:
            g.emit("remr %s %d %d" % (z, 0, 4 * CH))
        z2 = g.fresh("z")
        perm = list(names)
        if r.random() < 0.5:
            r.shuffle(perm)
            g.count("l2agg:permuted")
        g.emit("l2agg fastor %s %s" % (z2, " ".join(perm)))
        g.count("l2agg:fastor:%d" % n)
        # mutate an operand: the earlier results keep their value
        t = r.choice(names)
        g.emit("add %s %d" % (t, g.val_near([])))
        g.emit("dig %s" % z)
        g.emit("dig %s" % z2)
        g.emit("dig %s" % za)
    pool.append(z)
    pool.append(za)


# receiver shape x argument shapes for AndAny at one key: (shape, prefer_run)
ANDANY_RECV = [("full", True), ("fullm_lo", True), ("dense", False), ("a2000", False), ("runs100", True), ("lohalf", True),
               ("fullm1", False), ("few", False)]
ANDANY_ARGS = [
    [("a4096even", False), ("a4096even", False)],            # sum 8192 > 4096: bitmap scratch holding only 4096 values
    [("a4096blk", False), ("a4096blk", False), ("few", False)],
    [("a2000", False), ("a2000", False), ("a2000", False)],
    [("a500", False), ("a500", False)],                       # array scratch
    [("few", False), ("runs3", True)],                        # array scratch or-ed with a run: may become a run container
    [("runs3", True), ("few", False), ("runs3", True)],
    [("shortruns", True), ("few", False)],
    [("even", False), ("odd", False)],                        # bitmap scratch becomes the full run container
    [("fullm1", False), ("edges", False), ("one", False)],
    [("fullm_lo", True), ("prefix", True)],
    [("dense", False), ("lohalf", True), ("hihalf", True)],
    [("few", False), ("full", True)],
    [("dense", False), ("dense", False)],
    [("b4097", False), ("one", False)],
]


def andany_target(g):
    r = g.r
    k = r.choice([0, 1, 7, 65535])
    rs, rp = r.choice(ANDANY_RECV)
    args = r.choice(ANDANY_ARGS)
    g.count("andany:args%d" % ANDANY_ARGS.index(args))
    g.count("andany:recv:" + rs)
    x = g.fresh("x")
    conts = {k: rand_cont(g, rs, rp)}
    for kk in (2, 3, 9):
        if r.random() < 0.4:
            conts[kk] = rand_cont(g, r.choice(["few", "runs3", "full", "dense"]))
    mk(g, x, conts)
    names = []
    same = None
    for shape, pr in args:
        y = g.fresh()
        if same is not None and shape == same[0] and r.random() < 0.5:
            names.append(same[1])                    # the very same object twice: identical containers
            g.count("andany:same-object")
            continue
        conts = {k: rand_cont(g, shape, pr)}
        for kk in (2, 3, 5, 9):
            if r.random() < 0.3:
                conts[kk] = rand_cont(g, r.choice(["few", "runs3", "a500", "prefix"]))
        mk(g, y, conts)
        names.append(y)
        same = (shape, y)
    if r.random() < 0.3:
        r.shuffle(names)
    g.emit("l2agg andany %s %s" % (x, " ".join(names)))
    g.count("l2agg:andany:%d" % len(names))
    if r.random() < 0.5:
        g.emit("wf %s" % x)


# ------------------------------------------------------------------ container-level lines
def l2lazy_lines(g, k):
    r = g.r
    for _ in range(k):
        c1 = rand_cont(g)
        c2 = rand_cont(g)
        op = r.choice(["lazyOR", "lazyIOR", "lazyIOR", "iand", "ior", "ior"])
        if op == "ior" and r.random() < 0.4:
            # the scratch bitmap of AndAny: exact cardinality, any size
            vals = shape_vals(g)
            c1 = "B:%d:%s" % (len(vals), render_words(words_of(vals)))
            g.count("l2lazy:scratchrecv")
        if op == "lazyIOR" and c1[0] == "B" and r.random() < 0.5:
            # the receiver of lazyIOR is often a lazy intermediate: cardinality -1, or the doubled value of the temporary
            _, card, ws = c1.split(":")
            c1 = "B:%s:%s" % (r.choice(["-1", str(2 * int(card))]), ws)
            g.count("l2lazy:lazyrecv")
        g.emit("l2lazy %s %s %s" % (op, c1, c2))
        g.count("l2lazy:%s:%s%s" % (op, c1[0], c2[0]))


def seq_lazy_lines(g):
    """the container kernels on the first two members of a kind sequence, both orders"""
    r = g.r
    seq = r.choice(SEQS)
    a = rand_cont(g, seq[0][0], seq[0][1])
    b = rand_cont(g, seq[1][0], seq[1][1])
    for op in ("lazyOR", "lazyIOR", "iand", "ior"):
        g.emit("l2lazy %s %s %s" % (op, a, b))
        g.emit("l2lazy %s %s %s" % (op, b, a))
        g.count("l2lazy:%s:%s%s" % (op, a[0], b[0]))
        g.count("l2lazy:%s:%s%s" % (op, b[0], a[0]))


def gen(g, scale):
    r = g.r
    rounds = max(1, int(8 * scale))
    pool = []
    for _ in range(rounds):
        for n in (0, 1, 2, 3, 4, 5, 6):
            c = r.random()
            if n >= 2 and c < 0.4:
                names = seq_group(g, n)
                g.count("group:seq")
            elif c < 0.7:
                names = raw_group(g, n)
                g.count("group:raw")
            else:
                names = ops_group(g, n)
                g.count("group:ops")
            if names and pool and r.random() < 0.25:
                names[r.randrange(len(names))] = r.choice(pool)     # an earlier result as operand
                g.count("group:result-as-operand")
            if len(names) >= 2 and r.random() < 0.15:
                names.append(names[0])                               # the same object at both ends
                g.count("group:dup-ends")
            aggregates(g, names, pool)
        l2lazy_lines(g, 6)
        seq_lazy_lines(g)
        for _ in range(3):
            andany_target(g)
    # one-operand Clone path under copy-on-write, and degenerate lines
    x = g.fresh()
    mk(g, x, {0: rand_cont(g, "few", False), 3: rand_cont(g, "dense", False), 9: rand_cont(g, "runs3", True)}, cow=True, flags=0.0)
    z = g.fresh("z")
    g.emit("l2agg fastor %s %s" % (z, x))
    g.count("l2agg:fastor:1")
    g.emit("l2agg fastand %s %s" % (g.fresh("z"), x))
    g.count("l2agg:fastand:1")
    g.emit("add %s 5" % z)
    g.emit("dig %s" % x)
    g.emit("wf %s" % x)
    g.emit("l2agg fastor z0 nosuch")
    g.emit("l2agg fastxor z0 %s" % x)
    g.emit("l2agg andany %s" % x)


@suite("l2agg")
def _l2agg(g, scale):
    gen(g, scale)
