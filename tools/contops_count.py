#!/usr/bin/env python3
"""Count the `kern` lines on which the exact L2 representation check (ContOps) applies:
op in and/or/xor/andNot and both operand tokens well-formed (same predicate as Cont.wf).
usage: contops_count.py script.txt [go.out]   -> table pairing x op, plus result-kind histogram when go.out is given"""
import sys
from collections import Counter


def parse(tok):
    kind, _, rest = tok.partition(":")
    if kind == "A":
        return ("A", [int(x) for x in rest.split(",")] if rest else [])
    if kind == "R":
        return ("R", [tuple(int(y) for y in x.split("+")) for x in rest.split(",")] if rest else [])
    if kind == "B":
        card, _, ws = rest.partition(":")
        words = []
        if ws:
            for t in ws.split("."):
                h, _, n = t.partition("*")
                words += [int(h, 16)] * (int(n) if n else 1)
        return ("B", (int(card), words))
    return None


def wf(c):
    k, p = c
    if k == "A":
        return 0 < len(p) <= 4096 and all(a < b for a, b in zip(p, p[1:])) and all(v < 65536 for v in p)
    if k == "B":
        card, words = p
        return len(words) == 1024 and card == sum(bin(w).count("1") for w in words) and card > 4096
    if not p:
        return False
    for (s, l), (s2, _) in zip(p, p[1:]):
        if not s + l + 1 < s2:
            return False
    if p[-1][0] + p[-1][1] > 65535:
        return False
    card = sum(l + 1 for _, l in p)
    return 2 + 4 * len(p) < min(8224, 2 * card)


def main():
    lines = open(sys.argv[1]).read().splitlines()
    outs = open(sys.argv[2]).read().splitlines() if len(sys.argv) > 2 else None
    cnt = Counter()
    res = Counter()
    for i, ln in enumerate(lines):
        t = ln.split(" ")
        if len(t) < 4 or t[0] != "kern":
            continue
        if t[1] == "toEfficientContainer" and t[3] == "-":
            a = parse(t[2])
            if a and wf(a):
                cnt[(a[0] + "x-", t[1])] += 1
            continue
        if t[1] not in ("and", "or", "xor", "andNot") or t[3] == "-":
            continue
        a, b = parse(t[2]), parse(t[3])
        if a is None or b is None or not wf(a) or not wf(b):
            continue
        cnt[(a[0] + "x" + b[0], t[1])] += 1
        if outs:
            r = outs[i].split(" ")[0]
            rk = r[0] if r != "-" else "-"
            if rk == "A" and r == "A:":
                rk = "A(empty)"
            res[(a[0] + "x" + b[0], t[1], rk)] += 1
    ops = ["and", "or", "xor", "andNot", "toEfficientContainer"]
    pairs = sorted({p for p, _ in cnt})
    print("%-6s" % "pair" + "".join("%8s" % o[:7] for o in ops) + "   total")
    tot = 0
    for p in pairs:
        row = [cnt[(p, o)] for o in ops]
        tot += sum(row)
        print("%-6s" % p + "".join("%8d" % v for v in row) + "%8d" % sum(row))
    print("exact-check lines:", tot)
    if outs:
        print("result kinds (pair op kind : n):")
        for k in sorted(res):
            print("  %s %s -> %s : %d" % (k[0], k[1], k[2], res[k]))


if __name__ == "__main__":
    main()
