#!/bin/bash
# Re-evaluate EVERY collected seeded change (seeded/<id>/patch.diff) against the checks recorded as catching it, at the current state of
# /verif, in N isolated evaluation copies running in parallel.  usage: tools/seed_reeval_all.sh <out-prefix> [N]
# Output: <out-prefix>.<k>.jsonl ; summary printed at the end.
set -u
OUT=$1; N=${2:-3}
python3 - "$OUT" "$N" <<'PY'
import json,glob,os,sys
out,n=sys.argv[1],int(sys.argv[2])
specs=[]
for d in sorted(glob.glob('/verif/seeded/C*-*')):
    m=json.load(open(os.path.join(d,'meta.json')))
    caught=m.get('caught_by') or [p for p,h in m.get('checks_run',{}).items() if h and h[-1]['exit']==1]
    specs.append('%s . %s --no-confirm' % (d, ' '.join(caught)))
for k in range(n):
    open('%s.%d.specs' % (out,k),'w').write("\n".join(specs[k::n])+"\n")
PY
for k in $(seq 0 $((N-1))); do
  ( mapfile -t S < $OUT.$k.specs; EVAL_SUFFIX=R$k tools/seed_batch.sh $OUT.$k.jsonl "${S[@]}" > $OUT.$k.log 2>&1 ) &
done
wait
python3 - "$OUT" "$N" <<'PY'
import json,sys,glob
out,n=sys.argv[1],int(sys.argv[2])
bad=[];tot=0
for k in range(n):
    for l in open('%s.%d.jsonl'%(out,k)):
        d=json.loads(l); tot+=1
        if not any(v['rc']==1 and any(x.startswith('VIOLATION') for x in v['lines']) for v in d['props'].values()):
            bad.append((d['seed'],{p:v['rc'] for p,v in d['props'].items()}))
print("REEVAL total=%d not-reported=%d"%(tot,len(bad)))
for b in bad: print("  ",b)
PY
