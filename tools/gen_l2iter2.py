"""Suite `l2iter2`: L2 tie of the remaining iteration protocols (lean/RModel/Impl/Iter2.lean, harness/l2iter.go).

  l2it unset i x lo hi     unset iterator over [lo,hi) on a bitmap whose representation is chosen container by container
  l2reinit i x lo hi       re-Initialize the same unsetIterator object
  l2iterate x k            Iterate(cb), cb answering false on its k-th call
  l2seq values|backward|unset x k [lo hi]   the range-over-func forms with the same yield function
  l2ranges x k             Ranges()(yield), same yield function (ranges merged across container boundaries)
  l2it64 fwd|rev|many i x  roaring64 iterators, l2reit64 i x re-Initialize

Unset windows: exactly one chunk / a chunk +-1 / starting and ending inside chunks, inside FULL chunks (run and bitmap
kind: containers without any absent value), over absent chunks only, starting in an absent chunk and ending in a present
one and vice versa, ending at 2^32, at key 65535, empty and reversed windows, start beyond the last container.
Walks: hasnext / next? / next! (Next WITHOUT HasNext, legal whenever a value remains) / peek? / peek! / adv (targets: run
starts, run ends, mid-run, gaps, past the container, absent keys, beyond the window, backwards) / advrel / bounded drains.
Iterate: the callback stops at every position of small bitmaps (incl. inside run containers with several runs) and at the
container / run boundaries +-1 of big ones.
roaring64: bucket layouts with absent buckets, bucket 0xFFFFFFFF with 2^64-1, `adv64` into an absent bucket whose
successor holds SMALLER low bits than lowbits(target), into a present bucket above its last value, backwards, beyond the
last value; NextMany buffers that end inside a bucket / exactly at a bucket end; re-initialisation mid-bucket onto
another / the same / the empty bitmap.
Domain: windows with hi <= 2^32 (Initialize panics above), adv targets < 2^32 resp. < 2^64, drains bounded so that no
walk materialises more than ~300k values."""
from genlib import G, suite, CH, U32
from gen_kern import render, card
from gen_iter import global_ivs
from gen_l2iter import mk_bitmap, targets, Proto, SEQS, clamp, total_card, FULL_B, FULL_R

U64 = 1 << 64
B32 = 1 << 32

USEQS = SEQS + [
    [("full", "R")],
    [("full", "B")],
    [("edges", "R"), ("full", "B"), ("edges", "A")],
    [("single", "A"), ("full", "R"), ("full", "R"), ("single", "A")],
    [("onerun", "R"), ("onerun", "R")],
]


def clampw(v):
    return max(0, min(U32, v))


# ------------------------------------------------------------------ unset
def windows(g, chunks):
    """labelled windows [a,b)"""
    r = g.r
    keys = [k for k, _ in chunks]
    ks = set(keys)
    w = []
    for k, ivs in chunks:
        base = k * CH
        w.append(("chunk", base, base + CH))
        w.append(("chunk+-1", clampw(base - 1), clampw(base + CH + 1)))
        w.append(("chunk-inner", base + 1, base + CH - 1))
        a, b = r.choice(ivs)
        w.append(("around-run", clampw(base + a - r.choice([0, 1, 2, 70])), clampw(base + b + 1 + r.choice([0, 1, 2, 70]))))
        if b > a:
            w.append(("inside-run", base + a + r.choice([0, 1]), base + b + r.choice([0, 1])))     # no absent value at all
        lo, hi = sorted([g.lowval(), g.lowval()])
        w.append(("inside-chunk", base + lo, base + hi + 1))
        n = r.choice([1, 2, 3])
        w.append(("multi", base + g.lowval(), clampw((k + n) * CH + g.lowval())))
        w.append(("from-chunk-start", base, clampw((k + n) * CH + r.choice([0, 1, g.lowval()]))))
        w.append(("to-chunk-end", clampw(base - r.choice([0, 1, g.lowval()])), base + CH))
        if ivs == [(0, CH - 1)]:
            lo, hi = sorted([g.lowval(), g.lowval()])
            w.append(("inside-full", base + lo, base + hi + 1))
            w.append(("full+1", base, clampw(base + CH + 1)))
            w.append(("full-1", clampw(base - 1), base + CH))
        # Next WITHOUT HasNext has to step over containers that have nothing left in the window: the window starts a few
        # values below a chunk that is full (or whose tail is present up to 65535) and reaches beyond it
        if ivs[-1][1] == CH - 1:
            nfull = 1
            while (k + nfull) in ks and dict(chunks)[k + nfull] == [(0, CH - 1)]:
                nfull += 1
            st = base + ivs[-1][0] - r.choice([1, 2, 3, 7])
            if st >= 0:
                w.append(("across-present-tail", st, clampw(base + nfull * CH + r.choice([1, 2, 5, 70000, 3 * CH]))))
                w.append(("across-present-tail", st, clampw(base + nfull * CH + CH)))
        # absent neighbours
        if k + 1 not in ks and k + 1 < 65536:
            g1 = (k + 1) * CH
            w.append(("absent-chunk", g1, clampw(g1 + CH)))
            w.append(("absent-inner", g1 + g.lowval(), clampw(g1 + CH - 1)))
            w.append(("present-to-absent", base + g.lowval(), clampw(g1 + g.lowval() + 1)))
            w.append(("absent-2", g1 + g.lowval(), clampw(g1 + 2 * CH + g.lowval())))
        if k - 1 not in ks and k > 0:
            g0 = (k - 1) * CH
            w.append(("absent-to-present", g0 + g.lowval(), base + g.lowval() + 1))
    last = max(keys) if keys else 0
    w.append(("to-2^32", clampw(U32 - r.choice([1, 2, 64, CH, CH + 1, 3 * CH])), U32))
    w.append(("to-2^32", clampw(last * CH + g.lowval()), U32) if last >= 65533 else ("to-2^32", U32 - 70000, U32))
    w.append(("top-chunk", U32 - CH, U32))
    w.append(("top-minus", U32 - CH - 1, U32 - 1))
    w.append(("beyond-last", clampw((last + 1) * CH + 5), clampw((last + 2) * CH + 9)))
    w.append(("from-0", 0, r.choice([0, 1, 2, CH - 1, CH, CH + 1, 2 * CH + 5])))
    v = r.choice([0, 1, CH, clampw(last * CH + 7), U32 - 1, U32])
    w.append(("empty", v, v))
    w.append(("reversed", clampw(v + r.choice([1, CH, 5 * CH])), v))
    w.append(("whole", 0, U32))
    return w


def wtargets(g, chunks, a, b):
    t = [m for _, m in targets(g, chunks)]
    t += [clamp(a - 1), clamp(a), clamp(a + 1), clamp(b - 2), clamp(b - 1), clamp(b), clamp(b + 1)]
    for d in (0, 1, 2):
        t += [clamp((a >> 16) * CH + d * CH), clamp((b >> 16) * CH - d * CH)]
    return t


def inwin(tg, a, b):
    s = [m for m in tg if a - CH <= m <= b + CH]
    return s or tg


def p_unset(g, x, chunks, others):
    r = g.r
    ws = windows(g, chunks)
    pick = r.sample(ws, min(len(ws), r.choice([6, 9, 12])))
    pick += [x_ for x_ in ws if x_[0] == "across-present-tail" and x_ not in pick][:3]
    for lab, a, b in pick:
        with Proto(g, "unset-walk"):
            g.count("l2uwin:" + lab)
            i = g.fresh("lu")
            g.emit("l2it unset %s %s %d %d" % (i, x, a, b))
            tg = inwin(wtargets(g, chunks, a, b), a, b)
            small = b - a <= 3 * CH
            style = r.choice(["mixed", "mixed", "unguarded", "purenext", "guarded", "adv"])
            if lab == "across-present-tail":
                style = r.choice(["purenext", "purenext", "unguarded", "mixed"])
            g.count("l2uwalk:" + style)
            for _ in range(r.choice([6, 15, 40])):
                if style == "purenext":
                    op = "next!"
                elif style == "unguarded":
                    op = r.choices(["next!", "peek!", "adv"], [10, 2, 1])[0]
                elif style == "guarded":
                    op = r.choices(["next?", "hasnext", "peek?", "adv"], [8, 3, 3, 1])[0]
                elif style == "adv":
                    op = r.choices(["adv", "advrel", "next!", "next?", "peek?", "hasnext"], [6, 3, 3, 2, 2, 1])[0]
                else:
                    op = r.choices(["next?", "next!", "hasnext", "peek?", "peek!", "adv", "advrel", "drain"],
                                   [5, 6, 2, 2, 2, 3, 2, 1])[0]
                if op == "adv":
                    m = r.choice(tg)
                    g.emit("adv %s %d" % (i, m))
                    g.count("l2uadv:" + ("below" if m < a else "above" if m >= b else "in"))
                elif op == "advrel":
                    g.emit("advrel %s %d" % (i, r.choice([0, 1, 2, -1, 63, 64, 65, 4096, 65535, 65536, 65537, r.randrange(1, 70000)])))
                elif op == "drain":
                    g.emit("drain %s %d" % (i, r.choice([0, 1, 2, 63, 64, 65, 1000])))
                else:
                    g.emit("%s %s" % (op, i))
                g.count("l2uop:" + op)
            g.emit("drain %s %d" % (i, r.choice([1, 5, 1000, 70000])))
            g.emit("hasnext %s" % i)
            if small:
                g.emit("drain %s" % i)
                for op in ("hasnext", "next?", "peek?", "next!", "peek!"):
                    g.emit("%s %s" % (op, i))
                g.emit("adv %s %d" % (i, r.choice(tg)))
                g.emit("hasnext %s" % i)
        if r.random() < 0.35:
            with Proto(g, "unset-reinit"):
                y, ychunks = r.choice(others + [(x, chunks)])
                lab2, a2, b2 = r.choice(windows(g, ychunks) if ychunks else [("whole-empty", 0, 3 * CH), ("e", 5, 5), ("top", U32 - 10, U32)])
                g.emit("l2reinit %s %s %d %d" % (i, y, a2, b2))
                g.count("l2ureinit:" + ("empty" if not ychunks else "same" if y == x else "other"))
                tg2 = inwin(wtargets(g, ychunks, a2, b2), a2, b2) if ychunks else [0, a2, b2 - 1 if b2 else 0, CH]
                for _ in range(r.choice([3, 8])):
                    op = r.choice(["next!", "next?", "peek?", "hasnext", "adv"])
                    if op == "adv":
                        g.emit("adv %s %d" % (i, clamp(r.choice(tg2))))
                    else:
                        g.emit("%s %s" % (op, i))
                g.emit("drain %s %d" % (i, r.choice([3, 100, 70000])))
    with Proto(g, "seq-unset"):
        for lab, a, b in r.sample(ws, min(len(ws), 4)):
            if not (a < b <= U32):
                continue
            small = b - a <= 3 * CH
            for k in sorted(set([r.choice([0, 1, 2, 5, 100, 65536, 65537, 70000]), 1, -1 if small else 1000])):
                g.emit("l2seq unset %s %d %d %d" % (x, k, a, b))
                g.count("l2seq:unset")
    # complete drains of small windows, all three styles
    with Proto(g, "unset-drain"):
        for lab, a, b in r.sample(ws, min(len(ws), 5)):
            if b - a > 3 * CH:
                b = a + r.choice([1, 2, CH, CH + 1, 2 * CH + 3])
                b = clampw(b)
            i = g.fresh("lu")
            g.emit("l2it unset %s %s %d %d" % (i, x, a, b))
            c = r.random()
            if c < 0.4:
                g.emit("drain %s" % i)
            elif c < 0.7:
                for _ in range(r.choice([3, 30])):
                    g.emit("next! %s" % i)
                g.emit("drain %s" % i)
            else:
                g.emit("drain %s %d" % (i, r.choice([1, 64, 65535, 65536, 65537])))
                g.emit("drain %s" % i)
            g.emit("hasnext %s" % i)
            g.emit("next! %s" % i)


# ------------------------------------------------------------------ iterate
def p_iterate(g, x, chunks):
    r = g.r
    n = total_card(chunks)
    with Proto(g, "iterate"):
        ks = {-1, 0, 1, 2, n - 1, n, n + 1}
        if n <= 60:
            ks |= set(range(0, n + 2))
            g.count("l2iterate:every-position")
        else:
            cum = 0
            for k, ivs in chunks:
                # container boundaries and run boundaries inside the container
                pos = cum
                marks = [cum]
                for a, b in ivs[:6] + ivs[-3:]:
                    pos = cum + sum(bb - aa + 1 for aa, bb in ivs if bb < a)
                    marks += [pos, pos + (b - a + 1)]
                cum += card(ivs)
                marks.append(cum)
                for m in r.sample(marks, min(len(marks), 5)):
                    ks |= {m - 1, m, m + 1}
            ks |= {r.randrange(1, n + 1) for _ in range(4)}
        ks = sorted(k for k in ks if k >= -1)
        if len(ks) > 70:
            ks = sorted(set(r.sample(ks, 60)) | {-1, 0, 1, n, n + 1})
        for k in ks:
            g.emit("l2iterate %s %d" % (x, k))
            g.count("l2iterate:" + ("all" if k < 0 else "past-end" if k > n else "last" if k == n else "inner"))
    with Proto(g, "ranges"):
        m = len(global_ivs(chunks))
        ks = {-1, 0, 1, 2, m - 1, m, m + 1}
        if m <= 40:
            ks |= set(range(0, m + 2))
            g.count("l2ranges:every-position")
        else:
            # the ranges that straddle / end at a container boundary
            cum = 0
            for k, ivs in chunks:
                cum += len(ivs)
                ks |= {cum - 1, cum, cum + 1}
            ks |= {r.randrange(1, m + 1) for _ in range(4)}
        ks = sorted(k for k in ks if k >= -1)
        if len(ks) > 45:
            ks = sorted(set(r.sample(ks, 40)) | {-1, 0, 1, m})
        for k in ks:
            g.emit("l2ranges %s %d" % (x, k))
            g.count("l2ranges:" + ("all" if k < 0 else "past-end" if k > m else "last" if k == m else "inner"))
    with Proto(g, "seq-values-backward"):
        for form in ("values", "backward"):
            for k in sorted(set(r.sample(ks, min(len(ks), 6)) + [-1, 1, n])):
                g.emit("l2seq %s %s %d" % (form, x, k))
                g.count("l2seq:" + form)


def small_run_case(g):
    """a run container with several short runs next to an array: the callback stops at EVERY position"""
    r = g.r
    x = g.fresh("lb")
    runs, pos = [], r.choice([0, 1, 5, 65400])
    for _ in range(r.choice([2, 3, 4, 6])):
        ln = r.choice([1, 2, 3, 5])
        if pos + ln > CH:
            break
        runs.append((pos, pos + ln - 1))
        pos += ln + r.choice([1, 2, 10])
    runs = runs or [(3, 4)]
    k0 = r.choice([0, 1, 65533])
    parts = ["cow=0", "%d:%s" % (k0, render(g, runs, "R"))]
    chunks = [(k0, runs)]
    if r.random() < 0.8:
        vals = sorted(set(g.lowval() for _ in range(r.choice([1, 3, 6]))))
        ivs = [(v, v) for v in vals]
        parts.append("%d:A:%s" % (k0 + 1, ",".join(map(str, vals))))
        chunks.append((k0 + 1, ivs))
    if r.random() < 0.6:
        runs2 = [(0, r.choice([0, 2])), (100, 101), (CH - 2, CH - 1)]
        parts.append("%d:%s" % (k0 + 2, render(g, runs2, "R")))
        chunks.append((k0 + 2, runs2))
    g.emit("mkrepr %s %s" % (x, ";".join(parts)))
    p_iterate(g, x, chunks)
    return x, chunks


# ------------------------------------------------------------------ roaring64
BUCKETS = [[0, 1, 2], [0, 2, 5], [1, 3], [0, 0x7FFFFFFF, 0x80000000], [0xFFFFFFFE, 0xFFFFFFFF], [0xFFFFFFFF],
           [0, 0xFFFFFFFF], [3], [0, 1, 0xFFFFFFFD, 0xFFFFFFFF], [2, 4, 6, 7], [0x80000000, 0x80000002]]
LOWPOOL = [0, 1, 2, 63, 64, 65535, 65536, 65537, 131072, 0x7FFFFFFF, 0x80000000, 0xFFFF0000, 0xFFFFFFFE, 0xFFFFFFFF]


def build64(g, x):
    """library-built 64-bit bitmap; returns {bucket: sorted list of inclusive (lo,hi) low-32 intervals}"""
    r = g.r
    g.emit("new64 %s" % x)
    hs = list(r.choice(BUCKETS))
    cont = {}
    prof = r.choice(["smalllow", "highlow", "mixed", "mixed"])      # low bits per bucket
    for j, b in enumerate(hs):
        base = b << 32
        ivs = []
        for _ in range(r.choice([1, 1, 2, 3])):
            c = r.random()
            if prof == "smalllow" or (prof == "mixed" and c < 0.3):
                lo = r.choice([0, 1, 5, 64, 65535, 65536])
            elif prof == "highlow" and j % 2 == 0:
                lo = r.choice([0xFFFFFFF0, 0xFFFF0000, 0x80000000, 0xFFFFFFFF])
            else:
                lo = r.choice(LOWPOOL + [r.randrange(B32)])
            kind = r.choice(["vals", "vals", "range", "bigrange"])
            if kind == "vals":
                vs = sorted(set(min(B32 - 1, lo + d) for d in r.sample(range(0, 200), r.choice([1, 2, 5, 20]))))
                g.emit("addmany64 %s %s" % (x, " ".join(str(base + v) for v in vs)))
                ivs += [(v, v) for v in vs]
            else:
                ln = r.choice([2, 10, 100, 5000]) if kind == "range" else r.choice([65536, 70000, 140000])
                hi = min(B32, lo + ln)
                if hi > lo and base + hi <= U64 - 1:
                    g.emit("addr64 %s %d %d" % (x, base + lo, base + hi))
                    ivs.append((lo, hi - 1))
                elif base + lo < U64:
                    g.emit("add64 %s %d" % (x, base + lo))
                    ivs.append((lo, lo))
        cont[b] = merge64(ivs)
    if 0xFFFFFFFF in cont and r.random() < 0.6:
        g.emit("add64 %s %d" % (x, U64 - 1))
        cont[0xFFFFFFFF] = merge64(cont[0xFFFFFFFF] + [(B32 - 1, B32 - 1)])
    if r.random() < 0.5:
        g.emit("opt64 %s" % x)
    g.count("l2b64:buckets=%d" % len(hs))
    return cont


def merge64(ivs):
    out = []
    for a, b in sorted(ivs):
        if out and out[-1][1] + 1 >= a:
            out[-1] = (out[-1][0], max(out[-1][1], b))
        else:
            out.append((a, b))
    return out


def card64(cont):
    return sum(b - a + 1 for ivs in cont.values() for a, b in ivs)


def targets64(g, cont):
    r = g.r
    t = []
    bs = sorted(cont)
    for b in bs:
        base = b << 32
        ivs = cont[b]
        first, last = ivs[0][0], ivs[-1][1]
        for a, e in [ivs[0], ivs[-1], r.choice(ivs)]:
            t += [("member", base + a), ("member", base + e), ("gap", min(U64 - 1, base + e + 1)), ("gap", max(0, base + a - 1))]
        if last < B32 - 1:
            t.append(("above-last-in-bucket", base + r.choice([last + 1, B32 - 1, min(B32 - 1, last + 70000)])))
        if first > 0:
            t.append(("below-first-in-bucket", base + r.choice([0, first - 1])))
        # absent bucket just below / above, with low bits LARGER than anything the successor bucket holds
        if b > 0 and b - 1 not in cont:
            t.append(("absent-bucket-highlow", ((b - 1) << 32) | r.choice([0xFFFFFFFF, 0xFFFF0000, min(B32 - 1, last + 1), min(B32 - 1, first + 1)])))
            t.append(("absent-bucket-lowlow", ((b - 1) << 32) | r.choice([0, 1, first])))
        if b < B32 - 1 and b + 1 not in cont:
            t.append(("absent-bucket-after", ((b + 1) << 32) | r.choice([0, 5, 0xFFFFFFFF])))
    t += [("zero", 0), ("max", U64 - 1), ("mid", 1 << 63)]
    return t


def p_r64(g, others64):
    r = g.r
    x = g.fresh("lq")
    cont = build64(g, x)
    n = card64(cont)
    tg = targets64(g, cont)
    g.emit("card64 %s" % x)
    with Proto(g, "r64-drain"):
        for kind in ("fwd", "rev"):
            i = g.fresh("lj")
            g.emit("l2it64 %s %s %s" % (kind, i, x))
            for _ in range(r.choice([3, 10, 30])):
                g.emit("%s %s" % (r.choice(["next64", "next64", "hasnext64"] + (["peek64"] if kind == "fwd" else [])), i))
            g.emit("drain64 %s %d" % (i, r.choice([0, 1, 2, 100, 70000])))
            g.emit("drain64 %s %d" % (i, 400000))
            g.emit("hasnext64 %s" % i)
            g.emit("next64 %s" % i)
    with Proto(g, "r64-adv"):
        for _ in range(3):
            i = g.fresh("lj")
            g.emit("l2it64 fwd %s %s" % (i, x))
            seq = r.sample(tg, min(len(tg), r.choice([4, 8, 14])))
            if r.random() < 0.75:
                seq.sort(key=lambda p: p[1])
            prev = None
            for lab, m in seq:
                if prev is not None and r.random() < 0.25:
                    g.emit("adv64 %s %d" % (i, r.choice([prev, max(0, prev - 1), max(0, prev - B32), 0])))
                    g.count("l2adv64:backwards")
                g.emit("adv64 %s %d" % (i, m))
                g.count("l2adv64:" + lab)
                for _ in range(r.choice([0, 1, 1, 3])):
                    g.emit("%s %s" % (r.choice(["next64", "peek64", "hasnext64"]), i))
                prev = m
            g.emit("drain64 %s %d" % (i, r.choice([1, 5, 100])))
            g.emit("adv64 %s %d" % (i, r.choice(tg)[1]))
            g.emit("drain64 %s 400000" % i)
            g.emit("adv64 %s %d" % (i, r.choice(tg)[1]))          # exhausted: stays exhausted
            g.emit("hasnext64 %s" % i)
    with Proto(g, "r64-many"):
        for _ in range(2):
            i = g.fresh("lj")
            g.emit("l2it64 many %s %s" % (i, x))
            c = r.random()
            if c < 0.4:
                # exactly to the end of each bucket, then across
                sizes = []
                for b in sorted(cont):
                    k = sum(e - a + 1 for a, e in cont[b])
                    sizes += [k] if r.random() < 0.5 else ([k - 1, 1] if k > 1 else [1])
                sizes += [1, 3]
            elif c < 0.7:
                sizes = [r.choice([1, 2, 3, 64, 100])] * r.choice([5, 20, 40])
            else:
                sizes = [r.choice([0, 1, 2, 10, 63, 64, 65, 5000, 70000]) for _ in range(r.choice([4, 10]))]
            left, over = n, 0
            for s in sizes:
                if left <= 0:
                    over += 1
                    if over > 2:
                        break
                g.emit("many64 %s %d" % (i, s))
                g.count("l2many64b:%d" % s if s in (0, 1, 2, 64, 100, 5000, 70000) else "l2many64b:other")
                left -= s
            g.emit("many64 %s 400000" % i)
            g.emit("many64 %s %d" % (i, r.choice([0, 1, 64])))
    with Proto(g, "r64-reinit"):
        for kind in ("fwd", "rev", "many"):
            i = g.fresh("lj")
            g.emit("l2it64 %s %s %s" % (kind, i, x))
            cur, ccont = x, cont
            for _ in range(r.choice([1, 2, 3])):
                st = r.choice(["mid", "mid", "exhausted", "fresh"])
                g.count("l2reit64:from-" + st)
                if st == "mid":
                    if kind == "many":
                        g.emit("many64 %s %d" % (i, r.choice([1, 3, 64, 100, 5000])))
                    else:
                        if kind == "fwd" and r.random() < 0.5 and ccont:
                            g.emit("adv64 %s %d" % (i, r.choice(targets64(g, ccont))[1]))
                        for _ in range(r.choice([1, 2, 7, 40])):
                            g.emit("next64 %s" % i)
                elif st == "exhausted":
                    g.emit(("many64 %s 400000" if kind == "many" else "drain64 %s 400000") % i)
                y, ycont = r.choice(others64 + [(x, cont), ("lq_empty", {})])
                g.emit("l2reit64 %s %s" % (i, y))
                g.count("l2reit64:onto-" + ("empty" if not ycont else "same" if y == cur else "other"))
                if kind == "many":
                    g.emit("many64 %s %d" % (i, r.choice([1, 2, 64])))
                    g.emit("many64 %s %d" % (i, r.choice([10, 5000])))
                else:
                    for _ in range(r.choice([2, 5])):
                        g.emit("%s %s" % (r.choice(["hasnext64", "next64"] + (["peek64"] if kind == "fwd" else [])), i))
                    if kind == "fwd" and ycont and r.random() < 0.6:
                        g.emit("adv64 %s %d" % (i, r.choice(targets64(g, ycont))[1]))
                        g.emit("next64 %s" % i)
                cur, ccont = y, ycont
            g.emit(("many64 %s 400000" if kind == "many" else "drain64 %s 400000") % i)
    g.emit("dig64 %s" % x)
    return x, cont


FIXED64 = [
    # absent bucket 1, successor bucket 2 holds smaller low bits than lowbits(target)
    "new64 lqf", "addmany64 lqf 7 8 8589934597 8589934598 8589934599", "add64 lqf 18446744073709551615",
    "l2it64 fwd lqf_i lqf", "adv64 lqf_i 8589934591", "next64 lqf_i", "adv64 lqf_i 8589934598", "adv64 lqf_i 8589934597",
    "next64 lqf_i", "adv64 lqf_i 12884901888", "next64 lqf_i", "hasnext64 lqf_i",
    "l2it64 fwd lqf_j lqf", "adv64 lqf_j 4294967296", "peek64 lqf_j", "adv64 lqf_j 9", "peek64 lqf_j",
    "adv64 lqf_j 18446744073709551615", "next64 lqf_j", "next64 lqf_j",
    "l2it64 rev lqf_r lqf", "next64 lqf_r", "next64 lqf_r", "drain64 lqf_r 10", "hasnext64 lqf_r",
    "l2it64 many lqf_m lqf", "many64 lqf_m 2", "many64 lqf_m 1", "many64 lqf_m 2", "many64 lqf_m 5", "many64 lqf_m 5",
]


@suite("l2iter2")
def _l2iter2(g, scale):
    r = g.r
    g.emit("new lb_empty")
    g.emit("new64 lq_empty")
    with Proto(g, "empty"):
        for c in ("l2it unset lue lb_empty 0 70000", "hasnext lue", "next! lue", "peek? lue", "adv lue 65536", "next? lue",
                  "drain lue 5", "adv lue 69999", "next! lue", "next! lue", "hasnext lue",
                  "l2it unset lue2 lb_empty 4294967290 4294967296", "drain lue2", "hasnext lue2",
                  "l2it unset lue3 lb_empty 9 9", "hasnext lue3", "next? lue3",
                  "l2iterate lb_empty -1", "l2iterate lb_empty 0", "l2iterate lb_empty 3",
                  "l2ranges lb_empty -1", "l2ranges lb_empty 1", "l2seq values lb_empty -1", "l2seq backward lb_empty 2",
                  "l2seq unset lb_empty 3 0 100",
                  "l2it64 fwd lje lq_empty", "hasnext64 lje", "next64 lje", "adv64 lje 5", "peek64 lje", "drain64 lje 3",
                  "l2it64 rev lje1 lq_empty", "hasnext64 lje1", "next64 lje1",
                  "l2it64 many lje2 lq_empty", "many64 lje2 0", "many64 lje2 4"):
            g.emit(c)
    with Proto(g, "fixed-unset"):
        # the corners of suite `iterun`: the iterator lands on a chunk that has no absent value left in the window and is
        # then asked for Next without HasNext
        for c in ("new lc0", "addr lc0 65536 131072", "l2it unset lcu0 lc0 65530 200000") + ("next! lcu0",) * 8 + (
                  "l2it unset lcu1 lc0 65536 131080", "next! lcu1", "next! lcu1",
                  "new lc1", "addr lc1 65530 65536", "add lc1 10", "l2it unset lcu2 lc1 65533 70000", "next! lcu2", "next! lcu2",
                  "l2it unset lcu3 lc1 0 70000", "adv lcu3 65531", "next! lcu3", "next! lcu3",
                  "mkrepr lc2 cow=0;1:%s;2:%s;3:A:0,1,2" % (FULL_B, FULL_R), "l2it unset lcu4 lc2 65533 196620") + ("next! lcu4",) * 6 + (
                  "l2reinit lcu4 lc2 65534 262144", "next! lcu4", "next! lcu4", "next! lcu4", "peek! lcu4", "adv lcu4 65537", "next! lcu4"):
            g.emit(c)
    with Proto(g, "fixed64"):
        for c in FIXED64:
            g.emit(c)
    seqs = list(USEQS)
    r.shuffle(seqs)
    prev = []
    for j in range(max(1, int(5 * scale))):
        x = g.fresh("lb")
        chunks = mk_bitmap(g, x, seqs[j % len(seqs)] if r.random() < 0.85 else None)
        g.emit("card %s" % x)
        p_unset(g, x, chunks, prev[-3:] + [("lb_empty", [])])
        p_iterate(g, x, chunks)
        prev.append((x, chunks))
        g.emit("dig %s" % x)
    for _ in range(max(1, int(3 * scale))):
        x, chunks = small_run_case(g)
        p_unset(g, x, chunks, prev[-2:])
    prev64 = []
    for _ in range(max(1, int(5 * scale))):
        prev64.append(p_r64(g, prev64[-3:]))


# ------------------------------------------------------------------ the L1 suites, lifted to the L2 tie
def lift(line):
    """rewrite the iterator-creating commands of the L1 suites (iter / iterun / r64) into their `l2` twins, so that the L2
    state machines run next to every iterator those generators drive"""
    t = line.split()
    if not t:
        return line
    c = t[0]
    if c == "uit" and len(t) == 5:
        return "l2it unset " + " ".join(t[1:])
    if c in ("it", "rit", "mit") and len(t) == 3:
        return "l2it %s %s %s" % ({"it": "fwd", "rit": "rev", "mit": "many"}[c], t[1], t[2])
    if c == "reinit" and len(t) in (3, 5):
        return "l2reinit " + " ".join(t[1:])
    if c in ("it64", "rit64", "mit64") and len(t) == 3:
        return "l2it64 %s %s %s" % ({"it64": "fwd", "rit64": "rev", "mit64": "many"}[c], t[1], t[2])
    if c == "reit64" and len(t) == 3:
        return "l2reit64 " + " ".join(t[1:])
    if c == "iterate" and len(t) == 3:
        return "l2iterate " + " ".join(t[1:])
    if c == "ranges" and len(t) == 3:
        return "l2ranges " + " ".join(t[1:])
    if c in ("values", "backward") and len(t) == 3:
        return "l2seq %s %s" % (c, " ".join(t[1:]))
    if c == "unset" and len(t) == 5:
        return "l2seq unset %s %s %s %s" % (t[1], t[4], t[2], t[3])
    return line


@suite("l2iter2x")
def _l2iter2x(g, scale):
    """suites `iterun` and `iter` with every iterator created through the L2 tie"""
    from genlib import SUITES
    SUITES["iterun"](g, scale)
    SUITES["iter"](g, 0.4 * scale)
    g.lines = [lift(l) for l in g.lines]
    g.count("l2x:lifted32")


@suite("l2iter2x64")
def _l2iter2x64(g, scale):
    """suite `r64` with every roaring64 iterator created through the L2 tie"""
    from genlib import SUITES
    SUITES["r64"](g, scale)
    g.lines = [lift(l) for l in g.lines]
    g.count("l2x:lifted64")
