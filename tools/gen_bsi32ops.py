"""Suite `bsi32ops`: the rest of the 32-bit bit-sliced index (BitSliceIndexing.BSI) — BatchEqual on both sides of every
dispatch threshold, the Transpose family, MarshalBinary/UnmarshalBinary round trips.  Plane model: Impl/BSI32Ops.lean.

The generator keeps a column -> value model of every index it creates, for two purposes only: to stay inside the
documented domain (values that ARE column ids for the Transpose family, no Increment/Add here at all) and to aim the
value lists at the dispatch of BatchEqual (a Python port of `estimateBranchCount` classifies every list so that the
histogram shows which outcomes were produced).  Expected outputs are NOT produced here: they come from the Lean model.

Shapes
  big     an index with >= 100000 columns built block-wise (`fsr32` + `bsetmany`, highest block first: the checker's map
          insertion is linear in the position), taken across the existence-cardinality threshold 99990.. -> exactly 100000 ->
          above -> below again (`bclr`), the same value lists asked in every phase and on a small index with the same values
  lists   1..300 values: dense runs, scattered strides, random, values held / absent, mixed sign, unrepresentable values and
          duplicates that move the number of DISTINCT REPRESENTABLE values across 128, strides tuned to an estimate of 63 / 64
  trans   Transpose / IntersectAndTranspose / TransposeWithCounts with found sets that are nil / own / subsets / supersets /
          disjoint / mixed, 0..64 workers; the result index of TransposeWithCounts is used further (`bplanes`, queries, updates)
  marsh   round trips of positive / negative / zero / wide / fixed-width indexes into fresh and previously used receivers
          (narrower, wider, other columns, negative values); the loaded index is used further
"""
from genlib import G, suite  # noqa: F401

U64 = 1 << 64
U32 = 1 << 32
I64MIN = -(1 << 63)
I64MAX = (1 << 63) - 1
WORKERS = [0, 0, 1, 1, 2, 3, 4, 7, 16, 64]


def enc(v):
    return v % U64


def blen(v):
    return enc(v).bit_length()


# ---------------------------------------------------------------- Python port of the dispatch (classification only)
def batch_vals(bc, values):
    out = set()
    for v in values:
        u = enc(v)
        if bc < 64 and (v < 0 or u >= (1 << bc)):
            continue
        out.add(u)
    return sorted(out)


def estimate(vals, p, limit):
    if len(vals) <= 1 or limit <= 0:
        return 0
    if vals[-1] - vals[0] == len(vals) - 1:
        return 0
    if p >= 64:
        p = 63
    if p < 0 or (p < 63 and len(vals) == 1 << (p + 1)):
        return 0
    mask = 1 << p
    cut = len(vals)
    for i, v in enumerate(vals):
        if v & mask:
            cut = i
            break
    if cut == 0 or cut == len(vals):
        return estimate(vals, p - 1, limit)
    left_limit = limit - 1
    lb = estimate(vals[:cut], p - 1, left_limit)
    rb = estimate(vals[cut:], p - 1, left_limit - lb)
    return 1 + lb + rb


def dispatch(bc, card, values):
    """('early' | 'scan' | 'trie', reason)"""
    if card == 0 or not values:
        return "early", "empty"
    vals = batch_vals(bc, values)
    if not vals:
        return "early", "dropped"
    if len(vals) < 128:
        return "trie", "short"
    if estimate(vals, bc - 1, 64) < 64:
        return "trie", "est<64"
    if card < 100000:
        return "trie", "card<100000"
    return "scan", "scan"


class I32:
    def __init__(self, name, fixed=None):
        self.name = name
        self.fixed = fixed
        self.vals = {}
        self.bc = 0 if fixed is None else max(blen(fixed[0]), blen(fixed[1]))
        self.exact = True      # self.bc is exactly Go's BitCount()

    def note(self, v):
        if self.fixed is None:
            self.bc = max(self.bc, blen(v))

    def stored(self, v):
        """what a column reads back after v was written (silent truncation in a fixed-width index)"""
        if self.bc >= 64:
            return v
        u = enc(v) % (1 << self.bc)
        return u

    def transposable(self, cols=None):
        vs = self.vals.values() if cols is None else [self.vals[c] for c in cols if c in self.vals]
        return all(0 <= v < U32 for v in vs)


class B32:
    def __init__(self, g):
        self.g = g
        self.r = g.r

    def emit(self, s):
        self.g.emit(s)

    def new(self, fixed=None):
        name = self.g.fresh("s")
        if fixed is None:
            self.emit("bnew %s 32" % name)
        else:
            self.emit("bnew %s 32 %d %d" % (name, fixed[0], fixed[1]))
        return I32(name, fixed)

    def setv(self, idx, c, v):
        self.emit("bset %s %d %d" % (idx.name, c, v))
        idx.note(v)
        idx.vals[c] = idx.stored(v)

    def setrange(self, idx, lo, hi, v):
        """columns [lo, hi) := v"""
        f = self.g.fresh("f")
        self.emit("fsr32 %s %d %d" % (f, lo, hi))
        self.emit("bsetmany %s %s %d" % (idx.name, f, v))
        idx.note(v)
        sv = idx.stored(v)
        for c in range(lo, hi):
            idx.vals[c] = sv
        return f

    def fs_list(self, cols):
        f = self.g.fresh("f")
        self.emit("fs32 %s %s" % (f, " ".join(str(c) for c in sorted(set(cols)))))
        return f

    def fs_ranges(self, rngs):
        f = self.g.fresh("f")
        self.emit("fsr32 %s %d %d" % (f, rngs[0][0], rngs[0][1]))
        for lo, hi in rngs[1:]:
            self.emit("addr %s %d %d" % (f, lo, hi))
        return f

    # ---------------------------------------------------------------- BatchEqual
    def beq(self, idx, values, tag, w=None):
        r = self.r
        if w is None:
            w = r.choice(WORKERS)
        res = self.g.fresh("r")
        self.emit("beq %s %s %d %s" % (res, idx.name, w, " ".join(str(v) for v in values)))
        if idx.exact:
            path, why = dispatch(idx.bc, len(idx.vals), values)
            self.g.count("beq:%s:%s" % (path, why))
            self.g.count("beqlist:%s:%s" % (tag, path))
        self.g.count("beq:w%d" % w)
        if r.random() < 0.12:
            self.poke(res, idx)
        return res

    def poke(self, res, idx):
        """the result bitmap belongs to the caller: changing it must not reach the index"""
        r = self.r
        cols = sorted(idx.vals)
        c = r.choice(cols) if cols and r.random() < 0.7 else r.randrange(U32)
        self.emit("%s %s %d" % (r.choice(["add", "rem"]), res, c))
        self.emit("bplanes %s" % idx.name)
        if len(cols) <= 64:
            self.emit("bdump %s" % idx.name)
        self.g.count("poke-result")

    def value_lists(self, idx):
        """(tag, values) pairs aimed at the index's width and content"""
        r = self.r
        bc = idx.bc
        top = (1 << bc) if bc < 63 else (1 << 62)
        held = sorted(set(idx.vals.values()))
        out = []

        def base(n, stride=1):
            hi = max(1, top - n * stride)
            return r.choice([0, 0, 1, r.randrange(hi), max(0, hi - 1)])

        # dense runs: collapse to a handful of plane operations, estimate 0
        for n in [1, 2, r.choice([3, 5, 17, 64]), 127, 128, 129, r.choice([200, 256, 300])]:
            if n <= top:
                a = base(n)
                out.append(("dense%d" % n, list(range(a, a + n))))
        # scattered strides
        for n in [r.choice([2, 9, 60]), 127, 128, 129, r.choice([150, 200, 300])]:
            st = r.choice([2, 3, 5, 7, 16, 33])
            if n * st <= top:
                a = base(n, st)
                out.append(("stride%d" % n, [a + i * st for i in range(n)]))
        # random values below 2^bc
        for n in [r.choice([5, 40]), 128, r.choice([140, 220, 300])]:
            if top >= 4 * n:
                out.append(("random%d" % n, r.sample(range(top), n)))
        # values actually held, plus absent ones
        if held:
            k = min(len(held), r.choice([1, 3, 20, 100]))
            hv = r.sample(held, k)
            out.append(("held%d" % k, hv))
            ab = [v + 1 for v in hv if v + 1 not in idx.vals.values()] + [r.randrange(top) for _ in range(10)]
            out.append(("held+absent", hv + ab))
            big = hv + [v for v in range(0, min(top, 4000), r.choice([3, 5])) if v not in hv][: 300 - len(hv)]
            if len(big) >= 128:
                r.shuffle(big)
                out.append(("heldscatter%d" % len(big), big[:300]))
        # mixed sign (negative values are representable exactly when the index has 64 planes)
        n = r.choice([10, 130, 260])
        st = r.choice([1, 3])
        out.append(("mixedsign%d" % n, [(i - n // 2) * st for i in range(n)]))
        out.append(("extremes", [I64MIN, I64MIN + 1, -1, 0, 1, I64MAX - 1, I64MAX] + (held[:3] if held else [])))
        # unrepresentable values / duplicates moving the number of distinct representable values across 128
        if bc < 63 and top >= 600:
            for good in [127, 128, 129]:
                st = r.choice([2, 3])
                gv = [i * st for i in range(good)]
                junk = [top + i for i in range(r.choice([1, 40]))] + [-1 - i for i in range(r.choice([1, 40]))]
                dup = r.sample(gv, r.choice([1, 30]))
                vs = gv + junk + dup
                r.shuffle(vs)
                out.append(("distinct%d" % good, vs[:300] if len(vs) <= 300 else gv + junk[:20]))
        # strides tuned to an estimate of exactly 63 / 64 / more
        if top >= 2048:
            for target in [63, 64]:
                vs = self.tuned(bc, target)
                if vs:
                    out.append(("est%d" % target, vs))
        return out

    def tuned(self, bc, target):
        """>= 128 distinct values below 2^bc whose estimateBranchCount(.., 64) is exactly `target` (a dense run keeps the
        length up without adding branches)"""
        r = self.r
        top = 1 << min(bc, 40)
        for k in [target, target - 1, target + 1, target - 2, target + 2]:
            for st in r.sample([2, 3, 4, 8], 4):
                scattered = [i * st for i in range(k)]
                start = (k * st + 1024) & ~1023
                dense = list(range(start, start + r.choice([128, 150, 300 - k])))
                vs = sorted(set(scattered + dense))
                if vs[-1] >= top or len(vs) > 300 or len(vs) < 128:
                    continue
                if estimate(vs, bc - 1, 64) == target:
                    r.shuffle(vs)
                    return vs
        return None

    # ---------------------------------------------------------------- the big index
    def big(self, scale, profile, phases):
        r = self.r
        self.g.count("big:" + profile)
        idx = self.new((4095, 0) if profile == "fixed12" else None)

        def val():
            if profile == "dense":
                return r.randrange(512)
            if profile in ("mid", "fixed12"):
                return r.choice([r.randrange(4096), r.randrange(600)])
            if profile == "sparse":
                return r.choice([r.randrange(1 << 20), r.randrange(2000), (1 << 20) - 1])
            return r.choice([r.randrange(-300, 300), r.randrange(-300, 300), -1, 0, r.randrange(-(1 << 20), 1 << 20)])

        d = r.choice([1, 2, 10])
        target = 100000 - d
        # block layout, lowest column first; emitted highest first
        blocks = []
        total = 0
        pos = r.choice([0, 0, 7, 65536 - 300])
        while total < target:
            size = min(target - total, r.randrange(900, 2300))
            if r.random() < 0.15:
                pos += r.choice([1, 5, 1000, 65536])
            blocks.append((pos, pos + size))
            pos += size
            total += size
        first = True
        for lo, hi in reversed(blocks):
            v = val()
            if first and profile != "fixed12":
                # the first value fixes most of the width early (fewer re-widenings to follow)
                v = {"dense": 511, "mid": 4095, "sparse": (1 << 20) - 1, "neg": -1}[profile]
                first = False
            self.setrange(idx, lo, hi, v)
        self.emit("bplanes %s" % idx.name)
        self.emit("bcard %s" % idx.name)
        lists = self.value_lists(idx)
        # keep the long lists few (the map-level check is linear in columns x values) but cover every dispatch outcome of the
        # phases with >= 100000 columns: scan, estimate below 64, fewer than 128 distinct representable values
        def cls(x):
            return dispatch(idx.bc, 100000, x[1])[1]
        long_ = [x for x in lists if len(x[1]) >= 100]
        short = [x for x in lists if len(x[1]) < 100]
        r.shuffle(long_)
        r.shuffle(short)
        pick = []
        for why, k in [("scan", max(3, int(4 * scale))), ("est<64", 2), ("short", 2), ("dropped", 1)]:
            pick += [x for x in long_ if cls(x) == why][:k]
        for x in lists:
            if x[0].startswith("est") and x not in pick:
                pick.append(x)
        lists = pick + short[: max(3, int(5 * scale))]
        # a small index holding the same kind of values: the same lists never reach the scan
        small = self.new(idx.fixed)
        hv = sorted(set(idx.vals.values()))
        for c in range(r.randrange(20, 60)):
            self.setv(small, r.choice([c, c, 1000 + c, 65536 + c]), r.choice(hv))
        self.emit("bplanes %s" % small.name)

        def ask(phase):
            self.g.count("phase:" + phase)
            for tag, vs in lists:
                self.beq(idx, vs, tag)
            for tag, vs in lists[: 4]:
                self.beq(small, vs, tag)

        if "below" in phases:
            ask("below")
        base = blocks[-1][1] + r.choice([0, 3])
        self.setrange(idx, base, base + d, val())                        # exactly 100000 columns
        self.emit("bcard %s" % idx.name)
        if "at" in phases:
            ask("at")
        self.setrange(idx, base + d, base + d + r.choice([1, 5, 700]), val())
        if r.random() < 0.5:
            self.emit("bopt %s" % idx.name)
            self.g.count("big:runopt")
        if "above" in phases:
            ask("above")
        if "belowagain" in phases:
            # below again: clear a few columns
            k = len(idx.vals) - 100000 + r.choice([1, 3])
            victims = sorted(idx.vals)[:k] if r.random() < 0.5 else sorted(idx.vals)[-k:]
            f = self.fs_ranges([(victims[0], victims[-1] + 1)])
            self.emit("bclr %s %s" % (idx.name, f))
            for c in range(victims[0], victims[-1] + 1):
                idx.vals.pop(c, None)
            self.emit("bcard %s" % idx.name)
            ask("belowagain")
        self.emit("bplanes %s" % idx.name)
        self.big_trans(idx)
        if idx.fixed is None and "neg" in phases:
            # the same index with 64 planes: a few low blocks (cheap positions for the checker's map) take negative values
            cols = sorted(idx.vals)
            if len(cols) < 100000:
                lo = cols[-1] + 1
                self.setrange(idx, lo, lo + (100000 - len(cols)) + r.choice([0, 1, 40]), r.choice([-1, -7, 5]))
            cols = sorted(idx.vals)
            at = 0
            for _ in range(r.choice([2, 3, 4])):
                n = r.randrange(50, 900)
                self.setrange(idx, cols[at], cols[at] + n, r.choice([-1, -2, -3, -100, r.randrange(-300, 0), I64MIN, -(1 << 40)]))
                at += n + r.randrange(0, 200)
            self.emit("bplanes %s" % idx.name)
            self.emit("bcard %s" % idx.name)
            lists = [x for x in self.value_lists(idx) if x[0].startswith(("mixedsign", "held", "extremes", "stride2", "dense2"))]
            neglists = []
            hv = sorted(set(idx.vals.values()))
            negs = [v for v in hv if v < 0]
            for n in [128, r.choice([150, 300])]:
                # negative and positive values, scattered, some of them held
                vs = sorted(set(negs + [-(i * 3) - 1 for i in range(n // 2)] + [i * 5 for i in range(n // 2)]))[:300]
                r.shuffle(vs)
                neglists.append(("negscatter%d" % len(vs), vs))
            lists = neglists + lists[:6]
            self.g.count("phase:neg")
            for tag, vs in lists:
                self.beq(idx, vs, tag)
            for tag, vs in lists[:3]:
                self.beq(small, vs, tag)
            # and below the threshold again with 64 planes
            cols = sorted(idx.vals)
            k = len(cols) - 100000 + 1
            if k >= 1:
                f = self.fs_ranges([(cols[-k], cols[-1] + 1)])
                self.emit("bclr %s %s" % (idx.name, f))
                for c in cols[-k:]:
                    idx.vals.pop(c, None)
                self.emit("bcard %s" % idx.name)
                for tag, vs in lists[:4]:
                    self.beq(idx, vs, tag)
            self.emit("bplanes %s" % idx.name)
        # a round trip of the wide index; the loaded copy answers the same long list
        t = I32(self.g.fresh("s"), idx.fixed)
        self.emit("bmarsh %s %s" % (t.name, idx.name))
        t.vals = dict(idx.vals)
        t.bc = idx.bc
        self.emit("bplanes %s" % t.name)
        for tag, vs in [x for x in lists if len(x[1]) >= 128][:2] + lists[:1]:
            self.beq(t, vs, tag)
        self.g.count("marsh:big")
        return idx

    def big_trans(self, idx):
        r = self.r
        # the Transpose family on the big index: found sets small enough for the per-column plane walk
        if idx.transposable():
            cols = sorted(idx.vals)
            for _ in range(2):
                a = r.choice(cols)
                f = self.fs_ranges([(a, a + r.choice([1, 50, 900])), (cols[-1] - 3, cols[-1] + 40)])
                self.trans_ops(idx, f, None)
            self.emit("btwc %s %s %d - -" % (self.g.fresh("s"), idx.name, r.choice(WORKERS)))
            self.g.count("twc:big:all")

    # ---------------------------------------------------------------- the Transpose family
    def found_sets(self, idx):
        """(tag, token, columns or None) — columns of the found set that matter (None = the existence bitmap)"""
        r = self.r
        cols = sorted(idx.vals)
        out = [("nil", "-", None), ("own", "@", None)]
        if cols:
            sub = [c for c in cols if r.random() < 0.5] or cols[:1]
            out.append(("subset", self.fs_list(sub), sub))
            lo, hi = cols[0], cols[-1]
            # superset: a window around every run of columns (never a huge range: the found set is iterated column by column)
            runs = []
            for c in cols:
                if runs and c <= runs[-1][1] + 4:
                    runs[-1][1] = c
                else:
                    runs.append([c, c])
            out.append(("superset", self.fs_ranges([(max(0, a - 2), min(U32, b + 3)) for a, b in runs]), cols))
            out.append(("disjoint", self.fs_ranges([(hi + 1, min(U32, hi + 50))]) if hi + 1 < U32 else self.fs_list([]), []))
            mix = [c for c in cols if r.random() < 0.4]
            extra = [c for c in (lo + 1, hi + 2, hi + 70000) if c not in idx.vals and c < U32]
            out.append(("mixed", self.fs_list(mix + extra), mix))
            one = r.choice(cols)
            out.append(("single", self.fs_list([one]), [one]))
        else:
            out.append(("anyset", self.fs_list([0, 5, 70000]), []))
        out.append(("empty", self.fs_list([]), []))
        return out

    def trans_ops(self, idx, ftok, fcols):
        """IntersectAndTranspose + TransposeWithCounts with one found set; returns the counts index"""
        r = self.r
        res = self.g.fresh("r")
        self.emit("bitrans %s %s %d %s" % (res, idx.name, r.choice(WORKERS), ftok))
        if r.random() < 0.1:
            self.poke(res, idx)
        t = I32(self.g.fresh("s"))
        w = r.choice(WORKERS)
        self.emit("btwc %s %s %d %s -" % (t.name, idx.name, w, ftok))
        self.g.count("twc:w%d" % w)
        self.emit("bplanes %s" % t.name)
        t.exact = False
        if fcols is not None:
            for c in fcols:
                if c in idx.vals:
                    t.vals[idx.vals[c]] = t.vals.get(idx.vals[c], 0) + 1
            t.bc = max([blen(v) for v in t.vals.values()] + [0])
            t.exact = True
        return t

    def trans(self, scale):
        r = self.r
        prof = r.choice(["dup", "ids", "edge", "blocks", "zero", "fixed"])
        self.g.count("trans:" + prof)
        idx = self.new((1000, 0) if prof == "fixed" else None)
        n = r.randrange(3, 40)
        for i in range(n):
            c = r.choice([i, r.randrange(300), 65535, 65536, 65537, U32 - 1, r.randrange(U32)])
            if prof == "dup":
                v = r.choice([0, 1, 3, 3, 3, 7, 7, 100])
            elif prof == "ids":
                v = r.choice([r.randrange(50), r.randrange(70000), c % 1000])
            elif prof == "edge":
                v = r.choice([0, 1, 65535, 65536, 65537, (1 << 31) - 1, 1 << 31, U32 - 1, U32 - 2, r.randrange(U32)])
            elif prof == "zero":
                v = 0
            elif prof == "fixed":
                v = r.randrange(1001)
            else:
                v = r.randrange(20)
            self.setv(idx, c, v)
        if prof == "blocks":
            for _ in range(r.randrange(2, 6)):
                lo = r.choice([0, 100, 65500, 1 << 20])
                self.setrange(idx, lo, lo + r.choice([1, 64, 300, 2000]), r.randrange(12))
        self.emit("bdump %s" % idx.name)
        if r.random() < 0.35:
            self.emit("bopt %s" % idx.name)            # RunOptimize: the results are then run-optimised too
            self.g.count("trans:runopt")
        self.emit("btrans %s %s" % (self.g.fresh("r"), idx.name))
        last = None
        for tag, tok, cols in self.found_sets(idx):
            self.g.count("found:" + tag)
            t = self.trans_ops(idx, tok, cols if cols is not None else sorted(idx.vals))
            if tok not in ("-", "@"):
                self.emit("dig %s" % tok)              # the found set is an argument: it must not change
            last = t if t.vals else last
        self.emit("bdump %s" % idx.name)
        if last is not None:
            # the counts index is an ordinary index: keep using it (the plane tracker follows it)
            t = last
            self.emit("bdump %s" % t.name)
            ks = sorted(t.vals)
            self.emit("bget %s %d" % (t.name, r.choice(ks)))
            self.beq(t, [1, 2, 3, r.choice(list(t.vals.values()))], "counts")
            self.emit("btrans %s %s" % (self.g.fresh("r"), t.name))
            self.emit("bminmax %s 2 MAX -" % t.name)
            self.emit("bsum %s -" % t.name)
            self.setv(t, r.choice(ks), r.choice([0, 5, 70000]))
            self.setv(t, r.choice([0, 12345, U32 - 1]), r.choice([1, 9]))
            self.emit("bplanes %s" % t.name)
            t2 = self.g.fresh("s")
            self.emit("btwc %s %s %d - -" % (t2, t.name, r.choice(WORKERS)))
            self.emit("bplanes %s" % t2)
            self.emit("bdump %s" % t2)
            self.g.count("twc:of-counts")
        # overwrite the source by its own histogram
        if r.random() < 0.3 and idx.vals:
            self.emit("btwc %s %s %d - -" % (idx.name, idx.name, r.choice(WORKERS)))
            self.emit("bplanes %s" % idx.name)
            self.emit("bdump %s" % idx.name)
            self.g.count("twc:onto-itself")

    # ---------------------------------------------------------------- marshal round trips
    def marsh(self, scale):
        r = self.r
        prof = r.choice(["pos", "neg", "neg", "zero", "wide", "fixed", "fixedneg", "empty", "blocks"])
        self.g.count("marsh:" + prof)
        fixed = {"fixed": r.choice([(1000, 0), (255, 1), (1 << 40, 0)]), "fixedneg": r.choice([(5, -5), (-1, -100)])}.get(prof)
        idx = self.new(fixed)
        n = 0 if prof == "empty" else r.randrange(1, 25)
        for i in range(n):
            c = r.choice([i, r.randrange(300), 65535, 65536, U32 - 1, r.randrange(U32)])
            if prof == "pos":
                v = r.choice([1, 2, 5, 255, 256, 70000, 1 << 31, 1 << 40])
            elif prof == "neg":
                v = r.choice([-1, -2, -5, 5, 0, -70000, 70000, I64MIN, I64MAX, I64MIN + 1, -(1 << 40)])
            elif prof == "zero":
                v = 0
            elif prof == "wide":
                v = r.choice([1 << 62, (1 << 62) + 1, I64MAX, I64MAX - 1, 3, 0])
            elif prof == "fixed":
                v = r.randint(fixed[1], min(fixed[0], 1 << 41))
            elif prof == "fixedneg":
                v = r.randint(fixed[1], fixed[0])
            else:
                v = r.randrange(16)
            self.setv(idx, c, v)
        if prof == "blocks":
            for _ in range(3):
                lo = r.choice([0, 500, 65000])
                self.setrange(idx, lo, lo + r.choice([10, 700, 3000]), r.choice([0, 1, 6, 1 << 20]))
        self.emit("bdump %s" % idx.name)
        if r.random() < 0.25:
            self.emit("bopt %s" % idx.name)
            self.g.count("marsh:src:runopt")
        self.emit("bplanes %s" % idx.name)
        cur = idx
        for rnd in range(r.choice([1, 2, 3])):
            t = I32(self.g.fresh("s"), cur.fixed)
            kind = r.choice(["fresh", "used-wider", "used-narrower", "used-neg", "used-same"])
            if kind == "fresh" or cur.fixed is not None:
                kind = "fresh"
                self.emit("bmarsh %s %s" % (t.name, cur.name))
                t.bc = cur.bc
            else:
                u = self.new()
                ucols = [r.choice([7, 300, 70001, U32 - 2])] + [c for c in sorted(cur.vals)[:3]]
                for i, c in enumerate(ucols):
                    if kind == "used-wider":
                        v = ((1 << 62) + 1) if i == 0 else r.choice([1000, 70000, (1 << 40) + 5])
                    elif kind == "used-narrower":
                        v = r.choice([0, 1])
                    elif kind == "used-neg":
                        v = r.choice([-3, -70000, -(1 << 61) - 3, 5])
                    else:
                        v = r.choice(list(cur.vals.values())) if cur.vals else 1
                    self.setv(u, c, v)
                if r.random() < 0.3:
                    self.emit("bopt %s" % u.name)      # a run-optimised receiver re-optimises what it loads
                    self.g.count("marsh:recv:runopt")
                self.emit("bplanes %s" % u.name)
                self.emit("bmarsh %s %s %s" % (t.name, cur.name, u.name))
                t.bc = max(cur.bc, u.bc)
            self.g.count("marsh:recv:" + kind)
            t.vals = dict(cur.vals)
            self.emit("bplanes %s" % t.name)
            self.emit("bdump %s" % t.name)
            self.emit("bchk %s" % t.name)
            # the loaded index is used further: queries answered by the plane model, updates, independence of the source
            if t.vals:
                hv = list(t.vals.values())
                self.beq(t, [r.choice(hv), r.choice(hv) + 1, 0, -1], "loaded")
                self.emit("bminmax %s %d MIN -" % (t.name, r.choice(WORKERS)))
                if I64MIN <= sum(hv) <= I64MAX:        # Sum is documented for totals that fit an int64
                    self.emit("bsum %s -" % t.name)
                k = r.choice(hv)
                self.emit("bcmp %s %s %d %s %d" % (self.g.fresh("r"), t.name, r.choice(WORKERS), r.choice(["LT", "LE", "EQ", "GE", "GT"]), k))
                if t.transposable():
                    self.emit("btrans %s %s" % (self.g.fresh("r"), t.name))
            c = r.choice(sorted(t.vals) + [4242])
            v = r.choice([0, 1, -7, 70000]) if t.fixed is None else r.randint(t.fixed[1], min(t.fixed[0], 1000))
            self.setv(t, c, v)
            self.emit("bdump %s" % cur.name)
            self.emit("bplanes %s" % t.name)
            if r.random() < 0.5:
                c = r.choice(sorted(cur.vals) + [4243])
                v = r.choice([0, 2, 9]) if cur.fixed is None else r.randint(cur.fixed[1], min(cur.fixed[0], 1000))
                self.setv(cur, c, v)
                self.emit("bdump %s" % t.name)
            if r.random() < 0.4:
                t3 = self.g.fresh("s")
                self.emit("bclone %s %s" % (t3, t.name))
                self.emit("bplanes %s" % t3)
            cur = t


@suite("bsi32ops")
def bsi32ops(g, scale):
    b = B32(g)
    # one index walked across the cardinality threshold in four phases; it then takes negative values (64 planes) and is asked
    # again at / below the threshold
    b.big(scale, g.r.choice(["dense", "mid", "mid", "sparse", "fixed12", "neg"]), ["below", "at", "above", "belowagain", "neg"])
    for _ in range(max(2, int(10 * scale))):
        b.trans(scale)
    for _ in range(max(2, int(14 * scale))):
        b.marsh(scale)


@suite("bsi32ops-small")
def bsi32ops_small(g, scale):
    """everything but the 100000-column index (fast; for bisecting)"""
    b = B32(g)
    for _ in range(max(2, int(20 * scale))):
        b.trans(scale)
    for _ in range(max(2, int(30 * scale))):
        b.marsh(scale)
