#!/usr/bin/env python3
"""Count the `l2op` lines on which the exact bitmap-level representation check (RepOps) applies, and what they cover.
usage: l2rep_count.py script.txt go.out [more pairs ...]  -> per op: lines, exact-check lines (both operands Rep.wf),
with copy-on-write flags, equal-key pairings by container kinds, dropped (empty) equal-key results, lone-slot copies."""
import sys
from collections import Counter
from contops_count import parse, wf


def parse_rep(s):
    parts = s.split(";")
    if parts[0] not in ("cow=0", "cow=1"):
        return None
    slots = []
    for p in parts[1:]:
        if not p:
            continue
        flag = p.endswith("/f")
        if flag:
            p = p[:-2]
        k, _, rest = p.partition(":")
        c = parse(rest)
        if c is None:
            return None
        slots.append((int(k), c, flag))
    return (parts[0] == "cow=1", slots)


def rep_wf(r):
    ks = [k for k, _, _ in r[1]]
    return all(a < b for a, b in zip(ks, ks[1:])) and all(k < 65536 and wf(c) for k, c, _ in r[1])


def main():
    cnt = Counter()
    args = sys.argv[1:]
    for si in range(0, len(args), 2):
        lines = open(args[si]).read().splitlines()
        outs = open(args[si + 1]).read().splitlines()
        for ln, o in zip(lines, outs):
            t = ln.split(" ")
            if t[0] != "l2op" or len(t) < 5:
                continue
            op = t[1]
            cnt[("lines", op)] += 1
            g = o.split(" ")
            if len(g) != 4:
                cnt[("non-4-token output", op)] += 1
                continue
            rx, ry, rz = parse_rep(g[0]), parse_rep(g[1]), parse_rep(g[2])
            if rx is None or ry is None or rz is None or not rep_wf(rx) or not rep_wf(ry):
                cnt[("not exact (operand not wf)", op)] += 1
                continue
            cnt[("exact", op)] += 1
            if t[3] == t[4]:
                cnt[("exact: self", op)] += 1
            if rx[0] or ry[0]:
                cnt[("exact: an operand has cow=1", op)] += 1
            if any(f for _, _, f in rx[1]) or any(f for _, _, f in ry[1]):
                cnt[("exact: an operand has flagged slots", op)] += 1
            if any(f for _, _, f in rz[1]):
                cnt[("exact: result has flagged (shared) slots", op)] += 1
            dx = {k: c for k, c, _ in rx[1]}
            dy = {k: c for k, c, _ in ry[1]}
            dz = {k: c for k, c, _ in rz[1]}
            if not dx or not dy:
                cnt[("exact: an operand empty", op)] += 1
            for k in dx:
                if k in dy:
                    cnt[("slot: equal key " + dx[k][0] + "x" + dy[k][0], op)] += 1
                    if k not in dz:
                        cnt[("slot: equal key, result dropped", op)] += 1
                    else:
                        cnt[("slot: equal key -> " + dz[k][0], op)] += 1
                else:
                    cnt[("slot: lone left", op)] += 1
            for k in dy:
                if k not in dx:
                    cnt[("slot: lone right", op)] += 1
            if not dz:
                cnt[("exact: result empty", op)] += 1
    ops = ["and", "or", "xor", "andnot"]
    rows = sorted({k for k, _ in cnt})
    print("%-44s" % "" + "".join("%9s" % o for o in ops))
    for r in rows:
        print("%-44s" % r + "".join("%9d" % cnt[(r, o)] for o in ops))


if __name__ == "__main__":
    main()
