"""Suite `l2rep`: exact-representation tie of the bitmap-level L2 model (lean/RModel/Impl/RepOps.lean).

`l2op <and|or|xor|andnot> z x y` for the four STATIC operations, on operand pairs chosen for the key walk:
  * key layouts same / subset / interleaved / disjoint / overlapping / trailing (genlib `pair`), empty operands,
    one-container operands, a pair that ends on the same key / on different sides;
  * derived pairs: y = clone of x with a few chunks removed / added / touched / complemented, so that equal keys carry
    EQUAL containers (xor, andnot -> empty container dropped in the middle / at either end of the walk),
    DISJOINT containers (and -> dropped), complementary containers (or / xor -> full run container);
  * all container kinds (array, bitmap, run via `opt`), thresholds 4095/4096/4097, full chunks;
  * copy-on-write: `setcow`, `cowclone` (operands whose slots carry needCopyOnWrite flags - lone slots are then appended
    SHARED and flagged), raw `mkrepr` operands with a chosen flag pattern;
  * self operations (x op x: the `x1 == x2` shortcut of Xor / AndNot), results fed back as operands.
Domain: bitmaps as the library itself produces them (Rep.wf) - the exact check applies to nothing else."""
from genlib import suite, CH

OPS = ["and", "or", "xor", "andnot"]


def l2ops(g, a, b, both=True):
    zs = []
    for op in OPS:
        z = g.fresh("z")
        g.emit("l2op %s %s %s %s" % (op, z, a, b))
        g.count("l2op:" + op)
        zs.append(z)
        if both:
            z = g.fresh("z")
            g.emit("l2op %s %s %s %s" % (op, z, b, a))
            g.count("l2op:" + op)
            zs.append(z)
    return zs


def derived(g):
    """x random; y = clone of x, then per chunk: keep / drop / touch / complement / replace; plus a few new chunks"""
    r = g.r
    x, y = g.fresh(), g.fresh()
    keys = g.build(x, g.keyset(r.choice([1, 2, 3, 4, 6, 9])), opt=r.random() < 0.5)
    how = r.choice(["clone", "clone", "cowclone"])
    g.emit("%s %s %s" % (how, y, x))
    g.count("derived:" + how)
    for k in keys:
        base = k * CH
        c = r.random()
        if c < 0.35:
            g.count("chunk:equal")
        elif c < 0.5:
            g.emit("remr %s %d %d" % (y, base, base + CH))
            g.count("chunk:dropped")
        elif c < 0.65:
            g.emit("%s %s %d" % (r.choice(["add", "rem"]), y, base + g.lowval()))
            g.count("chunk:touched")
        elif c < 0.8:
            g.emit("flip %s %d %d" % (y, base, base + CH))
            g.count("chunk:complement")
        elif c < 0.9:
            g.emit("remr %s %d %d" % (y, base, base + CH))
            g.chunk_ops(y, k)
            g.count("chunk:replaced")
        else:
            # remove from x instead: y has the lone key
            g.emit("remr %s %d %d" % (x, base, base + CH))
            g.count("chunk:dropped-left")
    for _ in range(r.choice([0, 0, 1, 2])):
        k = g.key()
        g.chunk_ops(r.choice([x, y]), k)
    if r.random() < 0.4:
        g.emit("opt %s" % r.choice([x, y]))
    return x, y


RAW_CONTS = [
    "A:0", "A:65535", "A:0,65535", "A:1,2,3,100,101", "R:0+65535", "R:0+65534", "R:1+65534", "R:10+20,100+200",
    "R:0+0,2+0,4+9", "B:65535:ffffffffffffffff*1023.7fffffffffffffff", "B:65535:fffffffffffffffe.ffffffffffffffff*1023",
    "B:32768:5555555555555555*1024", "B:32768:aaaaaaaaaaaaaaaa*1024", "B:4097:ffffffffffffffff*64.1.0*959",
    "B:4097:0*959.8000000000000000.ffffffffffffffff*64", "B:8192:ffffffffffffffff*128.0*896", "B:8192:0*896.ffffffffffffffff*128",
    "A:" + ",".join(str(2 * i) for i in range(4096)), "A:" + ",".join(str(2 * i + 1) for i in range(4096)),
    "A:" + ",".join(str(i) for i in range(0, 64 * 64, 64)),
]


def raw(g, x, keys, cow=None):
    """bitmap from a raw representation: well-formed containers from a fixed pool, random flags"""
    r = g.r
    if cow is None:
        cow = r.random() < 0.4
    parts = ["cow=%d" % (1 if cow else 0)]
    for k in keys:
        c = r.choice(RAW_CONTS)
        parts.append("%d:%s%s" % (k, c, "/f" if r.random() < 0.3 else ""))
    g.emit("mkrepr %s %s" % (x, ";".join(parts)))
    g.count("raw:cow" if cow else "raw:nocow")


def raw_pair(g):
    r = g.r
    x, y = g.fresh(), g.fresh()
    n = r.choice([0, 1, 2, 3, 5, 8])
    ka = sorted(r.sample(range(0, 12), n)) if r.random() < 0.7 else sorted(set(g.key() for _ in range(n)))
    c = r.random()
    if c < 0.4:
        kb = list(ka)
    elif c < 0.7:
        kb = sorted(set([k for k in ka if r.random() < 0.5] + [r.randrange(0, 14) for _ in range(r.choice([0, 1, 3]))]))
    else:
        kb = sorted(set(g.key() for _ in range(r.choice([0, 1, 2, 4]))))
    raw(g, x, ka)
    raw(g, y, kb)
    return x, y


def gen(g, scale):
    r = g.r
    n = max(1, int(10 * scale))
    pool = []
    for _ in range(n):
        c = r.random()
        if c < 0.35:
            a, b, _ = g.pair()
            g.count("pairkind:random")
        elif c < 0.75:
            a, b = derived(g)
            g.count("pairkind:derived")
        else:
            a, b = raw_pair(g)
            g.count("pairkind:raw")
        if r.random() < 0.25:
            # flags on both sides: a second owner of a's containers
            s = g.fresh()
            g.emit("cowclone %s %s" % (s, a))
            g.count("flags:cowclone")
        zs = l2ops(g, a, b)
        for z in r.sample(zs, 2):
            g.emit("wf %s" % z)
        # self operations
        op = r.choice(OPS)
        z = g.fresh("z")
        g.emit("l2op %s %s %s %s" % (op, z, a, a))
        g.count("l2op:" + op)
        g.count("self:" + op)
        # a result (possibly sharing flagged containers with its operands) as operand, and mutation of a result
        # must not disturb the operands (checked by the next l2op line through abs(repr a) = model state of a)
        z1, z2 = r.sample(zs, 2)
        l2ops(g, z1, z2, both=False)
        g.emit("add %s %d" % (z1, g.val_near([])))
        l2ops(g, a, z1, both=False)
        pool.append(r.choice([a, b, z2]))
        if len(pool) >= 2 and r.random() < 0.5:
            p, q = r.sample(pool, 2)
            l2ops(g, p, q, both=False)
    # empties
    g.emit("new e9")
    g.emit("new e8")
    g.emit("setcow e8 1")
    for p, q in (("e9", "e8"), ("e9", pool[0]), (pool[0], "e8"), ("e9", "e9")):
        l2ops(g, p, q, both=False)
    g.emit("l2op nand z0 e9 e8")
    g.emit("l2op and z0 e9 nosuch")


@suite("l2rep")
def _l2rep(g, scale):
    gen(g, scale)
