"""Suite `l2r64`: exact-representation tie of the roaring64 bucket-level L2 model (lean/RModel/Impl/Rep64.lean).

Commands (harness/l2r64.go <-> lean/RModel/Driver/L2R64.lean); repr64 = cow=<0|1>|<high>@<flag>@<repr32>|...
  l2op64 <and|or|xor|andnot> z x y   -> <repr64 x> <repr64 y> <repr64 z> ok | .. chg <repr64 x after> <repr64 y after>
  l2flip64 z x lo hi                 -> <repr64 x> <repr64 z> ok | .. chg <repr64 x after>       (static Flip)
  l2range64 <add|remove|flip> x lo hi -> <repr64 x before> <repr64 x after>                      (in place)
  l2iop64 <and|or|xor|andnot> x y    -> <repr64 x> <repr64 y> <repr64 x after> <repr64 y after>  (in place x.And(y) ..)

Operand pairs for the bucket walk of the four STATIC operations:
  * key layouts same / subset / shifted / disjoint / overlapping / empty (gen_r64 `R.pair`: buckets 0,1,2, 0x7FFFFFFF/0x80000000,
    0xFFFFFFFE/0xFFFFFFFF, random), both orders, self operations, results fed back as operands;
  * derived pairs: y = clone of x, then per bucket keep (equal buckets: xor / andnot drop the bucket in the middle / at either
    end of the walk) / drop / touch / complement a window / replace by something disjoint (and drops the bucket) / drop on the
    left instead; plus new buckets on either side;
  * copy-on-write: `setcow64`, `cowclone64` (both owners' buckets flagged: the lone-bucket copy is a clone that CARRIES the
    flag), results of `or`/`xor` on flagged operands as operands, `as64` of a 32-bit bitmap whose own copy-on-write switch is on
    (inner `Clone()` then shares containers and flags the operand's containers: `chg`);
Range operations (static Flip, in-place Flip / AddRange / RemoveRange):
  * boundary pool of gen_r64 `R.rng`: no-op ranges, small, crossing a bucket border, ending at 2^64-1, whole bucket, suffix /
    prefix of a bucket, 2-3 buckets with whole buckets in the middle (budgeted: a whole bucket is 65536 containers in repr64);
  * ranges that start / end EXACTLY on a bucket border with a bucket present / absent on the far side
    (Flip's hbLast = highbits(end): the far bucket is visited with an empty sub-range);
  * emptied buckets: flip / remove exactly the content, remove a superset over several buckets, partial first / last bucket
    emptied by a multi-bucket RemoveRange;
  * flagged buckets (after `cowclone64`) on both owners, `setcow64`, in-place operation on the operand of an earlier static one.
Domain: uint64 arguments, ranges [lo, hi) with hi <= 2^64-1, spanning at most a handful of buckets (the Go loops visit every
bucket key of the range); bitmaps as the library itself produces them (the exact check applies to Rep64.wf operands only)."""
from genlib import suite
from gen_r64 import R, B32, MAXV

OPS = ["and", "or", "xor", "andnot"]


class L(R):
    def __init__(self, g, scale):
        R.__init__(self, g, scale)
        self.wide = int(3 * scale) + 1

    # ---------------------------------------------------------------- static binary operations
    def l2ops(self, a, b, both=True):
        g = self.g
        zs = []
        for op in OPS:
            z = g.fresh("z")
            g.emit("l2op64 %s %s %s %s" % (op, z, a, b))
            g.count("l2op64:" + op)
            zs.append(z)
            if both:
                z = g.fresh("z")
                g.emit("l2op64 %s %s %s %s" % (op, z, b, a))
                g.count("l2op64:" + op)
                zs.append(z)
        return zs

    def derived(self):
        g, r = self.g, self.r
        x, y = g.fresh("a"), g.fresh("a")
        homes, anchors = self.build(x)
        how = r.choice(["clone64", "clone64", "cowclone64"])
        g.emit("%s %s %s" % (how, y, x))
        g.count("derived:" + how)
        for b in homes:
            lo, hi = b << 32, min(MAXV, (b + 1) << 32)
            c = r.random()
            if c < 0.35:
                g.count("bucket:equal")
            elif c < 0.5:
                g.emit("remr64 %s %d %d" % (y, lo, hi))
                g.count("bucket:dropped")
            elif c < 0.65:
                g.emit("%s %s %d" % (r.choice(["add64", "rem64"]), y, lo + self.low(anchors)))
                g.count("bucket:touched")
            elif c < 0.8:
                s = lo + self.low(anchors)
                g.emit("flip64 %s %d %d" % (y, s, min(hi, s + r.choice([1, 100, 65536, 200000]))))
                g.count("bucket:window-flipped")
            elif c < 0.9:
                g.emit("remr64 %s %d %d" % (y, lo, hi))
                self.fill_bucket(y, b, [a ^ 0x55555 for a in anchors])
                g.count("bucket:replaced")
            else:
                g.emit("remr64 %s %d %d" % (x, lo, hi))
                g.count("bucket:dropped-left")
        for _ in range(r.choice([0, 0, 1, 2])):
            self.fill_bucket(r.choice([x, y]), self.bucket(homes), anchors)
        if r.random() < 0.3:
            g.emit("opt64 %s" % r.choice([x, y]))
        return x, y, homes, anchors

    def disjoint_inner(self):
        """same keys, disjoint content in every bucket: And drops every bucket"""
        g, r = self.g, self.r
        x, y = g.fresh("a"), g.fresh("a")
        homes, anchors = self.homes(), self.anchors()
        g.emit("new64 %s" % x)
        g.emit("new64 %s" % y)
        for b in homes:
            base = b << 32
            vs = sorted(set(self.low(anchors) for _ in range(r.choice([1, 3, 20]))))
            g.emit("addmany64 %s %s" % (x, " ".join(str(base + v) for v in vs)))
            ws = [v ^ 1 for v in vs if (v ^ 1) not in vs] or [vs[-1] ^ 2]
            ws = [w for w in ws if w not in vs]
            if ws and r.random() < 0.8:
                g.emit("addmany64 %s %s" % (y, " ".join(str(base + w) for w in ws)))
        g.count("pairkind:disjoint-inner")
        return x, y, homes, anchors

    def inner_cow(self):
        """a 64-bit bitmap whose bucket 0 is a 32-bit bitmap with ITS copy-on-write switch on"""
        g, r = self.g, self.r
        s32 = g.fresh("s")
        g.emit("new %s" % s32)
        vs = sorted(set([r.choice([0, 1, 65535, 65536, 70000, 1 << 31, B32 - 1]) for _ in range(r.choice([1, 2, 4]))]))
        g.emit("addmany %s %s" % (s32, " ".join(map(str, vs))))
        if r.random() < 0.5:
            g.emit("addr %s %d %d" % (s32, 131072, 131072 + r.choice([10, 5000, 65536])))
        g.emit("setcow %s 1" % s32)
        x = g.fresh("a")
        g.emit("as64 %s %s" % (x, s32))
        # the clone handed to as64 has every container flagged: writes unflag / add unflagged containers again
        for _ in range(r.choice([0, 1, 2, 3])):
            g.emit("add64 %s %d" % (x, r.choice(vs + [5, 65537, 300000, (1 << 31) + 7, B32 - 2])))
        g.count("build64:inner-cow")
        return x

    def binary(self, n):
        g, r = self.g, self.r
        pool = []
        for _ in range(n):
            c = r.random()
            if c < 0.35:
                a, b, homes, anchors = self.pair()
                g.count("pairkind:random")
            elif c < 0.8:
                a, b, homes, anchors = self.derived()
                g.count("pairkind:derived")
            elif c < 0.9:
                a, b, homes, anchors = self.disjoint_inner()
            else:
                a = self.inner_cow()
                b = g.fresh("a")
                homes, anchors = self.build(b, r.choice([[1], [1], [0, 1], [0], [5, 6], [1, 2]]))
                if r.random() < 0.3:
                    c2 = g.fresh("a")
                    g.emit("%s %s %s" % (r.choice(["clone64", "cowclone64"]), c2, a))
                g.count("pairkind:inner-cow")
            if r.random() < 0.25:
                s = g.fresh("a")
                g.emit("cowclone64 %s %s" % (s, a))      # a's buckets are now flagged (and a.copyOnWrite is on)
                g.count("flags:cowclone64")
            if r.random() < 0.15:
                g.emit("setcow64 %s %d" % (b, r.randrange(2)))
            zs = self.l2ops(a, b)
            for z in r.sample(zs, 2):
                g.emit("wf64 %s" % z)
            op = r.choice(OPS)
            z = g.fresh("z")
            g.emit("l2op64 %s %s %s %s" % (op, z, a, a))
            g.count("l2op64:" + op)
            g.count("self:" + op)
            z1, z2 = r.sample(zs, 2)
            self.l2ops(z1, z2, both=False)
            # mutating a result must not disturb the operands (seen by the next line through abs(repr64 a) = model state)
            g.emit("add64 %s %d" % (z1, self.val(homes, anchors)))
            s, e, _ = self.rng(homes, anchors, allow_wide=False)
            g.emit("%s %s %d %d" % (r.choice(["flip64", "remr64", "addr64"]), z2, s, e))
            self.l2ops(a, z1, both=False)
            self.l2ops(z2, b, both=False)
            pool.append(r.choice([a, b, z2]))
            if len(pool) >= 2 and r.random() < 0.5:
                p, q = r.sample(pool, 2)
                self.l2ops(p, q, both=False)
        g.emit("new64 e9")
        g.emit("new64 e8")
        g.emit("setcow64 e8 1")
        for p, q in (("e9", "e8"), ("e9", pool[0]), (pool[0], "e8"), ("e9", "e9")):
            self.l2ops(p, q, both=False)
        g.emit("l2op64 nand z0 e9 e8")
        g.emit("l2op64 and z0 e9 nosuch")

    # ---------------------------------------------------------------- in-place binary operations
    def inplace(self, n):
        g, r = self.g, self.r
        for _ in range(n):
            c = r.random()
            if c < 0.35:
                a, b, homes, anchors = self.pair()
                g.count("ipairkind:random")
            elif c < 0.8:
                a, b, homes, anchors = self.derived()
                g.count("ipairkind:derived")
            elif c < 0.9:
                a, b, homes, anchors = self.disjoint_inner()
            else:
                a = self.inner_cow()
                b = g.fresh("a")
                homes, anchors = self.build(b, r.choice([[1], [1], [0, 1], [0], [5, 6], [1, 2]]))
                g.count("ipairkind:inner-cow")
            k = r.random()
            if k < 0.3:
                g.emit("setcow64 %s 1" % a)
                g.emit("setcow64 %s 1" % b)
                g.count("iflags:both-cow")
            elif k < 0.45:
                s = g.fresh("a")
                g.emit("cowclone64 %s %s" % (s, r.choice([a, b])))
                g.count("iflags:cowclone64")
            for op in r.sample(OPS, 4):
                for (p, q) in r.sample([(a, b), (b, a)], 2):
                    c = g.fresh("c")
                    g.emit("%s %s %s" % (r.choice(["clone64", "clone64", "cowclone64"]), c, p))
                    g.emit("l2iop64 %s %s %s" % (op, c, q))
                    g.count("l2iop64:" + op)
                    if r.random() < 0.3:
                        g.emit("wf64 %s" % c)
                    if r.random() < 0.3:
                        # a second round on the result, then mutation of the receiver must not disturb the argument
                        op2 = r.choice(OPS)
                        g.emit("l2iop64 %s %s %s" % (op2, c, r.choice([p, q])))
                        g.count("l2iop64:" + op2)
                        g.emit("add64 %s %d" % (c, self.val(homes, anchors)))
                        s, e, _ = self.rng(homes, anchors, allow_wide=False)
                        g.emit("%s %s %d %d" % (r.choice(["flip64", "remr64", "addr64"]), c, s, e))
                        g.emit("dig64 %s" % p)
                        g.emit("dig64 %s" % q)
            # directly on the operands (no clone in between), self operations
            op = r.choice(OPS)
            g.emit("l2iop64 %s %s %s" % (op, a, b))
            g.count("l2iop64:" + op)
            op = r.choice(OPS)
            c = g.fresh("c")
            g.emit("%s %s %s" % (r.choice(["clone64", "cowclone64"]), c, b))
            g.emit("l2iop64 %s %s %s" % (op, c, c))
            g.count("l2iop64:" + op)
            g.count("iself:" + op)
            g.emit("wf64 %s" % c)
        g.emit("new64 e6")
        g.emit("new64 e5")
        g.emit("setcow64 e5 1")
        for op in OPS:
            g.emit("l2iop64 %s e6 e5" % op)
            g.emit("l2iop64 %s e5 %s" % (op, b))
            g.emit("l2iop64 %s e6 e6" % op)
        g.emit("l2iop64 nand e6 e5")
        g.emit("l2iop64 and e6 nosuch")

    # ---------------------------------------------------------------- range operations
    def rangeop(self, x, s, e, cls, op=None):
        g, r = self.g, self.r
        if op is None:
            op = r.choice(["sflip", "flip", "add", "remove"])
        g.count("l2range64:%s:%s" % (op, cls))
        if op == "sflip":
            z = g.fresh("f")
            g.emit("l2flip64 %s %s %d %d" % (z, x, s, e))
            return z
        g.emit("l2range64 %s %s %d %d" % (op, x, s, e))
        return x

    def edge_ranges(self, b):
        """ranges around the border between bucket b-1 and b, and around the end of bucket b"""
        r = self.r
        edge = b << 32
        end = min(MAXV, edge + B32)
        d = lambda: r.choice([1, 2, 3, 100, 65536, 70000])
        out = [(edge - d(), edge, "end-on-border"), (edge - 1, edge, "end-on-border"), (edge, edge, "noop"),
               (edge, edge + d(), "start-on-border"), (edge - d(), edge + d(), "cross"),
               (end - d(), end, "end-on-border"), (edge, end, "bucket"), (edge + d(), end, "suffix"),
               (edge - d(), end, "cross-to-border")]
        return [(max(0, s), e, c) for (s, e, c) in out if s < MAXV]

    def ranges(self, n):
        g, r = self.g, self.r
        for _ in range(n):
            x = g.fresh("h")
            c = r.random()
            if c < 0.6:
                homes, anchors = self.build(x)
            elif c < 0.8:
                # values hugging a bucket border on both sides
                b = r.choice([1, 2, 0x80000000, 0xFFFFFFFF, 3])
                edge = b << 32
                homes, anchors = [b - 1, b] + ([b + 1] if b < 0xFFFFFFFF else []), [0, B32 - 1, 65536]
                vs = [edge - 1, edge - 3, edge - 70000, edge, edge + 1, edge + 65536, edge + B32 - 1, edge + B32, edge + B32 + 5]
                g.emit("new64 %s" % x)
                g.emit("addmany64 %s %s" % (x, " ".join(str(v) for v in vs if r.random() < 0.8 and v <= MAXV) or str(edge)))
                g.count("build64:border")
            elif c < 0.9:
                homes, anchors = self.homes(), self.anchors()
                g.emit("new64 %s" % x)
            else:
                # bucket 0 is a 32-bit bitmap with its own copy-on-write switch on: inner Clone() flags the operand's containers
                x = self.inner_cow()
                homes, anchors = [0, 1], [0, 65536, B32 - 1]
                if r.random() < 0.6:
                    self.fill_bucket(x, r.choice([1, 2]), anchors)
            owners = [x]
            if r.random() < 0.35:
                y = g.fresh("h")
                g.emit("cowclone64 %s %s" % (y, x))
                owners.append(y)
                g.count("flags:cowclone64")
            elif r.random() < 0.2:
                g.emit("setcow64 %s 1" % x)
            for _ in range(r.choice([3, 5, 8])):
                t = r.choice(owners)
                c = r.random()
                if c < 0.5:
                    s, e, cls = self.rng(homes, anchors)
                elif c < 0.85:
                    s, e, cls = r.choice(self.edge_ranges(self.bucket(homes)))
                    if cls == "bucket" and not self.take_wide():
                        e = s + r.choice([1, 65536, 70000])
                        cls = "prefix-small"
                else:
                    # exactly the content of one bucket (flip / remove empties it), or a superset
                    b = self.bucket(homes)
                    lo = b << 32
                    m = self.low(anchors)
                    w = r.choice([1, 2, 100, 65536, 70000])
                    e0 = min(MAXV, lo + min(B32, m + w))
                    g.emit("remr64 %s %d %d" % (t, lo, min(MAXV, lo + B32)))
                    g.emit("addr64 %s %d %d" % (t, lo + m, e0))
                    k = r.random()
                    if k < 0.5:
                        s, e, cls = lo + m, e0, "exact-content"
                    elif k < 0.75 and b > 0:
                        s, e, cls = lo - r.choice([1, 70000]), min(MAXV, e0 + r.choice([0, 1, 5])), "superset-from-prev"
                    else:
                        s, e, cls = lo + max(0, m - 1), min(MAXV, lo + B32 + r.choice([0, 1, 70000])), "superset-into-next"
                if r.random() < 0.08:
                    # RemoveRange has no key loop: a range over very many buckets is in its domain
                    s2 = self.val(homes, anchors)
                    e2 = min(MAXV, s2 + (r.choice([3, 70, 1 << 20, 1 << 31]) << 32) + r.choice([0, 1, B32 - 1]))
                    self.rangeop(t, s2, e2, "far", "remove")
                z = self.rangeop(t, s, e, cls)
                if r.random() < 0.3:
                    g.emit("wf64 %s" % z)
                if z != t and r.random() < 0.4:
                    owners.append(z)
            for t in owners[:2]:
                g.emit("dig64 %s" % t)
        # the empty bitmap and the two ends of the universe
        g.emit("new64 e7")
        for s, e in ((0, 0), (0, 1), (MAXV - 1, MAXV), (5, 3), (B32 - 1, B32 + 1), (MAXV - 70000, MAXV)):
            for op in ("sflip", "flip", "add", "remove"):
                self.rangeop("e7", s, e, "ends", op)
        g.emit("l2range64 nand e7 0 1")
        g.emit("l2range64 add nosuch 0 1")
        g.emit("l2flip64 f0 nosuch 0 1")


@suite("l2r64")
def _l2r64(g, scale):
    l = L(g, scale)
    l.binary(max(1, int(5 * scale)))
    l.inplace(max(1, int(3 * scale)))
    l.ranges(max(1, int(9 * scale)))


@suite("l2r64bin")
def _l2r64bin(g, scale):
    L(g, scale).binary(max(1, int(10 * scale)))


@suite("l2r64rng")
def _l2r64rng(g, scale):
    L(g, scale).ranges(max(1, int(16 * scale)))


@suite("l2r64iop")
def _l2r64iop(g, scale):
    L(g, scale).inplace(max(1, int(8 * scale)))
