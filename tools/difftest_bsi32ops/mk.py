import random
import sys
repo, w = sys.argv[1], sys.argv[2]
src = open(repo + '/BitSliceIndexing/bsi.go').read()
a = src.index("func estimateBranchCount(")
b = src.index("\n}\n", a) + 3
open(w + '/main.go', 'w').write('''package main

import (
	"bufio"
	"fmt"
	"os"
	"sort"
	"strconv"
	"strings"
)

''' + src[a:b] + '''
func main() {
	sc := bufio.NewScanner(os.Stdin)
	sc.Buffer(make([]byte, 1<<20), 1<<24)
	for sc.Scan() {
		f := strings.Fields(sc.Text())
		bc, _ := strconv.Atoi(f[0])
		lim, _ := strconv.Atoi(f[1])
		vals := make([]uint64, 0, len(f)-2)
		for _, t := range f[2:] {
			v, _ := strconv.ParseUint(t, 10, 64)
			vals = append(vals, v)
		}
		fmt.Println(estimateBranchCount(vals, bc-1, lim))
	}
}
''')
open(w + '/go.mod', 'w').write('module est\n\ngo 1.23\n')
r = random.Random(7)
lines = []
for _ in range(3000):
    bc = r.choice([0, 1, 2, 3, 4, 5, 8, 10, 12, 20, 32, 63, 64, 65, 70])
    top = 1 << min(bc, 64)
    n = r.choice([0, 1, 2, 3, 4, 5, 8, 16, 17, 31, 32, 33, 64, 100, 128, 129, 200, 300])
    kind = r.choice(['rand', 'dense', 'stride', 'clusters', 'full'])
    if kind == 'rand':
        vs = set(r.randrange(top) for _ in range(n))
    elif kind == 'dense':
        a0 = r.randrange(max(1, top - n)) if top > n else 0
        vs = set(v for v in range(a0, a0 + n) if v < top)
    elif kind == 'stride':
        st = r.choice([2, 3, 4, 7, 8, 16, 1 << 20])
        a0 = r.randrange(max(1, top))
        vs = set(v for v in (a0 + i * st for i in range(n)) if v < top)
    elif kind == 'clusters':
        vs = set()
        for _ in range(r.randrange(1, 8)):
            a0 = r.randrange(max(1, top))
            k = r.randrange(1, 40)
            vs |= set(v for v in range(a0, a0 + k) if v < top)
    else:
        p = r.randrange(0, 9)
        a0 = (r.randrange(max(1, top)) >> p) << p
        vs = set(v for v in range(a0, a0 + (1 << p)) if v < top)
        if r.random() < 0.5 and vs:
            vs.discard(max(vs))
    lim = r.choice([64, 64, 64, 1, 0, -3, 5, 1000])
    lines.append("%d %d %s" % (bc, lim, " ".join(str(v) for v in sorted(vs))))
open(w + '/in.txt', 'w').write("\n".join(lines) + "\n")
