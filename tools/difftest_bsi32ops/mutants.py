# Seeded-change run used while developing the suite bsi32ops (task N): every mutant is applied to a PRIVATE copy of the repository
# (rsync -a --exclude=.git /repo/ /tmp/agN/mut/repo/; a copy of harness/ whose go.mod replace points there), the scripts are the
# generated seeds 1..3 in scratch/ (x1.txt x2.txt x3.txt).  Paths below are the ones of that session; adjust before reuse.
#!/usr/bin/env python3
import subprocess, sys, os, shutil
SRC='/repo/BitSliceIndexing/bsi.go'
DST='/tmp/agN/mut/repo/BitSliceIndexing/bsi.go'
H='/tmp/agN/mut/harness'
SCR='/tmp/agN/verif/scratch'
DRV='/tmp/agN/verif/lean/.lake/build/bin/rdriver'
orig=open(SRC).read()
M=[
 ("M1 scan drops remainder", "\t\t\tsize += remainder\n", "\t\t\tsize += remainder - remainder\n"),
 ("M3 representable off by one", "u >= uint64(1)<<uint(bitCount))", "u > uint64(1)<<uint(bitCount))"),
 ("M4 card threshold 100001 (neutral)", "b.eBM.GetCardinality() >= 100000", "b.eBM.GetCardinality() >= 100001"),
 ("M5 trie dense shortcut wrong", "\tif p < 0 || (p < 63 && uint64(len(vals)) == uint64(1)<<uint(p+1)) {\n\t\tif owned {", "\tif p < 0 || (p < 63 && uint64(len(vals)) == uint64(1)<<uint(p)) {\n\t\tif owned {"),
 ("M6 transpose ignores ok", "\t\tif value, ok := e.bsi.GetValue(uint64(cID)); ok {\n\t\t\tresults.Add(uint32(value))", "\t\tif value, _ := e.bsi.GetValue(uint64(cID)); true {\n\t\t\tresults.Add(uint32(value))"),
 ("M7 parallelExecutor drops remainder", "func parallelExecutor(parallelism int, t *task, e action,\n\tfoundSet *roaring.Bitmap) *roaring.Bitmap {\n\n\tvar n int = parallelism\n\tif n == 0 {\n\t\tn = runtime.NumCPU()\n\t}\n\n\tresultsChan := make(chan *roaring.Bitmap, n)\n\n\tcard := foundSet.GetCardinality()\n\tx := card / uint64(n)\n\n\tremainder := card - (x * uint64(n))", "func parallelExecutor(parallelism int, t *task, e action,\n\tfoundSet *roaring.Bitmap) *roaring.Bitmap {\n\n\tvar n int = parallelism\n\tif n == 0 {\n\t\tn = runtime.NumCPU()\n\t}\n\n\tresultsChan := make(chan *roaring.Bitmap, n)\n\n\tcard := foundSet.GetCardinality()\n\tx := card / uint64(n)\n\n\tremainder := uint64(0)"),
 ("M8 twc count stuck", "\t\t\t\tval++\n", ""),
 ("M9 twc results ORed", "return parallelExecutorBSIResults(parallelism, b, transposeWithCounts, foundSet, true)", "return parallelExecutorBSIResults(parallelism, b, transposeWithCounts, foundSet, false)"),
 ("M10 unmarshal keeps stale planes", "\tfor i := range b.bA {\n\t\tb.bA[i] = roaring.NewBitmap()\n\t}\n\tfor i := 1; i < len(bitData); i++ {", "\tfor i := 1; i < len(bitData); i++ {"),
 ("M11 marshal drops top plane", "\tfor i := 1; i < b.BitCount()+1; i++ {\n\t\tdata[i], err", "\tfor i := 1; i < b.BitCount(); i++ {\n\t\tdata[i], err"),
 ("M12 estimate no contiguous check (neutral)", "\tif vals[len(vals)-1]-vals[0] == uint64(len(vals)-1) {\n\t\treturn 0\n\t}\n\tif p >= 64", "\tif p >= 64"),
 ("M13 no 128 threshold (neutral)", "if len(vals) >= 128 && b.shouldUseParallelScan", "if b.shouldUseParallelScan"),
 ("M15 scan skips a batch", "\tvar wg sync.WaitGroup\n\tfor i := 0; i < n; i++ {\n\t\tsize := x", "\tvar wg sync.WaitGroup\n\tfor i := 1; i < n; i++ {\n\t\tsize := x"),
 ("M19 trie consumes eBM", "result := b.matchTrie(vals, bitCount-1, b.eBM, false)", "result := b.matchTrie(vals, bitCount-1, b.eBM, true)"),
 ("M20 scan matches int not pattern", "if _, hit := want[uint64(v)]; hit {", "if _, hit := want[uint64(v)&0x7FFFFFFFFFFFFFFF]; hit {"),
 ("M21 twcBSI batch remainder", "func parallelExecutorBSIResults(parallelism int, input *BSI, e bsiAction, foundSet *roaring.Bitmap, sumResults bool) *BSI {\n\n\tvar n int = parallelism\n\tif n == 0 {\n\t\tn = runtime.NumCPU()\n\t}\n\n\tresultsChan := make(chan *BSI, n)\n\n\tcard := foundSet.GetCardinality()\n\tx := card / uint64(n)\n\n\tremainder := card - (x * uint64(n))", "func parallelExecutorBSIResults(parallelism int, input *BSI, e bsiAction, foundSet *roaring.Bitmap, sumResults bool) *BSI {\n\n\tvar n int = parallelism\n\tif n == 0 {\n\t\tn = runtime.NumCPU()\n\t}\n\n\tresultsChan := make(chan *BSI, n)\n\n\tcard := foundSet.GetCardinality()\n\tx := card / uint64(n)\n\n\tremainder := uint64(0)"),
 ("M22 scan dedupe dropped negatives kept", "if bitCount < 64 && (v < 0 || u >= uint64(1)<<uint(bitCount)) {", "if bitCount < 64 && (u >= uint64(1)<<uint(bitCount)) {"),
 ("M23 unmarshal ebm not replaced when planes", "\tif err := b.eBM.UnmarshalBinary(bitData[0]); err != nil {\n\t\treturn err\n\t}", "\ttmp := roaring.NewBitmap()\n\tif err := tmp.UnmarshalBinary(bitData[0]); err != nil {\n\t\treturn err\n\t}\n\tb.eBM.Or(tmp)"),
 ("M24 transpose truncation via int32 sign", "results.Add(uint32(value))", "results.Add(uint32(int32(value) & 0x7FFFFFFF))"),
]
only=sys.argv[1:] 
env=dict(os.environ, GOFLAGS='-mod=mod', GOPROXY='off')
for name,a,b in M:
    if only and not any(name.startswith(o) for o in only): continue
    if orig.count(a)!=1:
        print(name,"PATTERN COUNT",orig.count(a)); continue
    open(DST,'w').write(orig.replace(a,b))
    r=subprocess.run(['go','build','-tags','verif','-o','bin/harness','.'],cwd=H,env=env,capture_output=True,text=True)
    if r.returncode!=0:
        print(name,"BUILD FAIL",r.stderr[:300]); continue
    res=[]
    for seed in (1,2,3):
        go=subprocess.run([H+'/bin/harness'],stdin=open('%s/x%d.txt'%(SCR,seed)),capture_output=True,text=True).stdout
        open('/tmp/agN/mut/work/go.out','w').write(go)
        out=subprocess.run([DRV,'%s/x%d.txt'%(SCR,seed),'/tmp/agN/mut/work/go.out'],capture_output=True,text=True).stdout.strip().split('\n')
        mm=[l for l in out if l.startswith('MISMATCH')]
        res.append((out[-1], mm[0][:230] if mm else ''))
    print(name, '|', ' ; '.join(x[0] for x in res))
    for x in res:
        if x[1]: print('     ',x[1]); break
open(DST,'w').write(orig)
