#!/bin/sh
# Differential test of the Lean model of BitSliceIndexing's unexported `estimateBranchCount` (Impl/BSI32Ops.estimate) against
# the Go function itself: the function's source text is cut out of /repo/BitSliceIndexing/bsi.go VERBATIM into a scratch
# program (it is pure), both sides evaluate the same 3000 generated (bitCount, limit, sorted values) cases.
# usage: tools/difftest_bsi32ops/run.sh [repo=/repo]      prints IDENTICAL on success
set -e
REPO=${1:-/repo}
HERE=$(cd "$(dirname "$0")" && pwd)
W=$(mktemp -d)
python3 "$HERE/mk.py" "$REPO" "$W"
(cd "$W" && GOFLAGS= GOPROXY=off go run main.go < in.txt > go.out)
(cd "$HERE/../../lean" && lake env lean --run "$HERE/est.lean" "$W/in.txt" > "$W/lean.out")
cmp "$W/go.out" "$W/lean.out" && echo IDENTICAL "($(wc -l < "$W/go.out") cases)"
