import RModel.Impl.BSI32Ops
open RModel.BSI32
def main (args : List String) : IO Unit := do
  let txt ← IO.FS.readFile args.head!
  for line in txt.splitOn "\n" do
    if line.isEmpty then continue
    let f := (line.splitOn " ").filter (· ≠ "")
    let bc := f[0]!.toNat!
    let lim := f[1]!.toInt!
    let vals := (f.drop 2).map String.toNat!
    IO.println (estimate vals bc lim)
