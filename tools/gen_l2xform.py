"""Suite `l2xform`: exact-representation tie of the whole-bitmap transforms (lean/RModel/Impl/RepXform.lean).

  l2off z x d          AddOffset64     offsets 0, +-1, +-63/64/65, +-4096, +-65535, +-65536, +-65537, multiples of 65536,
                                       +-(2^32-1), +-2^32, beyond, and offsets aimed at the operand: first chunk lands on
                                       key 0 / just below it, last chunk lands on key 65535 / just above it;
                                       operands with chunks on key 0 and 65535, adjacent chunks (the high half of one
                                       chunk is merged with the low half of the next one by `ior`), full chunks, all three
                                       container kinds (`opt`), cardinalities around 4096 (halves re-typed to arrays,
                                       merged halves re-typed to bitmaps), raw representations with copy-on-write flags.
  l2sflip z x lo hi    static Flip     ranges inside one chunk, on chunk boundaries, over absent keys, ending at 2^32,
                                       whole chunks (complement -> emptied chunks are dropped, full chunks appear),
                                       empty ranges (lo >= hi: Clone(), with and without copy-on-write).
  l2dense x            ToDense / DenseSize / WriteDenseTo   operands with keys < 48 (the word list is printed in full),
                                       holes between keys, partial last chunk, empty bitmap.
  l2fromdense y c w    FromDense       word counts not multiple of 1024, chunks with popcount 0 / 1..4096 / >4096 (exactly
                                       4096 and 4097), short dense last chunk, copy = 0/1; then mutation + `densechk` and
                                       `l2dense` of the result (round trip).
Domain: bitmaps as the library itself produces them (Rep.wf); 0 <= lo, hi <= 2^32; fewer than 2^26 dense words."""
from genlib import suite, CH, U32
from gen_l2rep import raw

OFFS = [0, 1, 2, 63, 64, 65, 127, 128, 1000, 4095, 4096, 4097, 32768, 65472, 65535, 65536, 65537, 65600, 131071, 131072,
        131073, 3 * 65536, 1 << 24, U32 - 65537, U32 - 65536, U32 - 65535, U32 - 1, U32, U32 + 1, U32 + 65536, 1 << 40, (1 << 63) - 1]


def offsets(g, keys):
    r = g.r
    out = []
    for _ in range(3):
        d = r.choice(OFFS)
        out.append(d if r.random() < 0.5 else -d)
    out.append(r.choice([1, -1]) * CH * r.choice([0, 1, 2, 3, 65534, 65535, 65536, r.randrange(65536)]))
    out.append(r.randrange(-U32 - 5, U32 + 5))
    out.append(r.choice([1, -1]) * r.randrange(1, 2 * CH))
    if keys:
        lo, hi = min(keys), max(keys)
        # first chunk lands on / around key 0, last chunk lands on / around key 65535
        out.append(-(lo * CH) + r.choice([0, 1, -1, 64, -64, 4096, -4096, 65535, -65535, r.randrange(-CH, CH)]))
        out.append((65535 - hi) * CH + r.choice([0, 1, -1, 64, -64, 4096, -4096, 65535, -65535, r.randrange(-CH, CH)]))
        out.append(-(hi * CH) + r.choice([0, -1, -65535, -65536, r.randrange(-CH, 1)]))
        out.append((65536 - lo) * CH - r.choice([1, 2, 64, 65535, 65536, r.randrange(1, CH)]))
    r.shuffle(out)
    return out


def operand(g):
    """a bitmap and its key set"""
    r = g.r
    x = g.fresh()
    c = r.random()
    if c < 0.2:
        # adjacent chunks, some of them full / nearly full: halves meet under the same key
        s = r.choice([0, 1, 7, 65530, 65536 - 4, r.randrange(65530)])
        n = r.choice([2, 3, 4])
        keys = [k for k in range(s, s + n) if k < 65536]
        g.emit("new %s" % x)
        for k in keys:
            base = k * CH
            t = r.random()
            if t < 0.3:
                g.emit("addr %s %d %d" % (x, base, base + CH))
                g.count("shape:full")
            elif t < 0.45:
                g.emit("addr %s %d %d" % (x, base, base + CH))
                g.emit("rem %s %d" % (x, base + g.lowval()))
                g.count("shape:fullminus")
            else:
                g.chunk_ops(x, k)
        if r.random() < 0.5:
            g.emit("opt %s" % x)
        g.count("operand:adjacent")
    elif c < 0.35:
        keys = sorted(set(r.choice([0, 1, 2, 65534, 65535, g.key()]) for _ in range(r.choice([1, 2, 3, 4]))))
        raw(g, x, keys)
        g.count("operand:raw")
    elif c < 0.5:
        # cardinalities around the 4096 threshold on both sides of a split
        k = r.choice([0, 1, 5, 65534, 65535])
        keys = [k]
        g.emit("new %s" % x)
        n = r.choice([4095, 4096, 4097, 4098, 8191, 8192, 8193, 8194])
        start = r.choice([0, 1, 100, 30000, CH - 2 * n])
        g.emit("addmany %s %s" % (x, " ".join(str(k * CH + start + 2 * i) for i in range(n))))
        if r.random() < 0.4 and k < 65535:
            keys.append(k + 1)
            m = r.choice([1, 100, 4095, 4096, 4097])
            g.emit("addmany %s %s" % (x, " ".join(str((k + 1) * CH + 1 + 2 * i) for i in range(m))))
        g.count("operand:threshold")
    else:
        keys = g.build(x, g.keyset(r.choice([1, 2, 3, 4, 6])), opt=r.random() < 0.5)
        g.count("operand:random")
    if r.random() < 0.12:
        g.emit("setcow %s 1" % x)
        g.count("operand:cow")
    if r.random() < 0.12:
        g.emit("cowclone %s %s" % (g.fresh(), x))
        g.count("operand:cowclone")
    return x, list(keys)


def flip_ranges(g, keys):
    r = g.r
    out = []
    ks = list(keys) or [g.key()]
    for _ in range(2):
        out.append(g.rng(ks))
    k = r.choice(ks)
    # exactly one chunk / a chunk and an absent neighbour / inside one chunk
    out.append((k * CH, (k + 1) * CH))
    lo = max(0, k - r.choice([0, 1, 2]))
    hi = min(65536, k + 1 + r.choice([0, 1, 2, 5]))
    out.append((lo * CH + r.choice([0, 0, 1, 65535, g.lowval()]), hi * CH - r.choice([0, 0, 1, 65535, g.lowval()])))
    a = k * CH + g.lowval()
    out.append((a, min(U32, a + r.choice([1, 2, 64, 4096, 4097, 65536, 65537]))))
    # ending at 2^32
    out.append((max(0, U32 - r.choice([1, 2, 65535, 65536, 65537, 3 * CH, 5 * CH + 17])), U32))
    # over absent keys only
    ab = r.choice([3, 50, 40000, 65533])
    out.append((ab * CH + r.choice([0, 5]), (ab + r.choice([1, 2])) * CH - r.choice([0, 5])))
    # empty ranges
    v = g.val_near(ks)
    out.append((v, v))
    out.append((v + r.choice([1, 65536]), v))
    res = []
    for lo, hi in out:
        lo, hi = max(0, min(U32, lo)), max(0, min(U32, hi))
        if hi > lo and (hi - 1) // CH - lo // CH > 400 and r.random() < 0.93:
            hi = min(U32, (lo // CH + r.choice([1, 2, 40])) * CH + r.choice([0, 1, 65535]))
            g.count("flip:span-clipped")
        res.append((lo, hi))
    r.shuffle(res)
    return res


def dense_words(g, n):
    """n words as compact tokens, chunk by chunk (1024 words) with a chosen popcount class per chunk"""
    r = g.r
    toks = []
    i = 0
    while i < n:
        ln = min(1024, n - i)
        cls = r.choice(["zero", "sparse", "p4096", "p4097", "dense", "full", "mixed", "onebit"])
        if cls == "zero":
            ch = ["0"] * ln
        elif cls == "full":
            ch = ["ffffffffffffffff"] * ln
        elif cls == "onebit":
            ch = ["0"] * ln
            ch[r.randrange(ln)] = "%x" % (1 << r.randrange(64))
        elif cls in ("p4096", "p4097"):
            ch = ["0"] * ln
            if ln >= 65:
                s = r.randrange(0, ln - 64)
                for j in range(s, s + 64):
                    ch[j] = "ffffffffffffffff"
                if cls == "p4097":
                    ch[s + 64 if r.random() < 0.5 or s == 0 else s - 1] = "%x" % (1 << r.randrange(64))
            else:
                ch = ["ffffffffffffffff"] * ln
        elif cls == "sparse":
            ch = ["0"] * ln
            for _ in range(r.randrange(1, 40)):
                ch[r.randrange(ln)] = "%x" % (1 << r.randrange(64))
        elif cls == "dense":
            ch = ["0"] * ln
            for j in r.sample(range(ln), min(ln, r.choice([70, 100, 300]))):
                ch[j] = "%x" % r.getrandbits(64)
        else:
            ch = []
            while len(ch) < ln:
                m = min(ln - len(ch), r.choice([1, 3, 50, 200]))
                ch += [r.choice(["0", "ffffffffffffffff", "%x" % r.getrandbits(64), "8000000000000000", "1"])] * m
        g.count("densechunk:" + cls + ("" if ln == 1024 else "-short"))
        toks += ch
        i += ln
    # compress
    out = []
    j = 0
    while j < len(toks):
        k = j
        while k < len(toks) and toks[k] == toks[j]:
            k += 1
        out.append(toks[j] if k - j == 1 else "%s*%d" % (toks[j], k - j))
        j = k
    return ".".join(out) if out else "-"


def gen(g, scale):
    r = g.r
    n = max(1, int(8 * scale))
    for _ in range(n):
        x, keys = operand(g)
        for d in offsets(g, keys):
            z = g.fresh("z")
            g.emit("l2off %s %s %d" % (z, x, d))
            g.count("l2off")
            g.count("off:neg" if d < 0 else "off:nonneg")
            g.count("off:aligned" if d % CH == 0 else "off:unaligned")
            if r.random() < 0.15:
                g.emit("wf %s" % z)
            if r.random() < 0.15:
                # the result as operand (fresh containers), and mutation of the result leaves x alone
                g.emit("add %s %d" % (z, g.val_near(keys)))
                g.emit("l2off %s %s %d" % (g.fresh("z"), z, r.choice([1, -1, 65535, -65537, 70000])))
                g.count("l2off")
        for lo, hi in flip_ranges(g, keys):
            z = g.fresh("z")
            g.emit("l2sflip %s %s %d %d" % (z, x, lo, hi))
            g.count("l2sflip")
            g.count("flip:empty" if lo >= hi else ("flip:to-top" if hi == U32 else "flip:plain"))
            if r.random() < 0.15:
                g.emit("wf %s" % z)
            if r.random() < 0.2:
                g.emit("add %s %d" % (z, g.val_near(keys)))
                lo2, hi2 = g.rng(keys)
                if hi2 > lo2 and (hi2 - 1) // CH - lo2 // CH > 400:
                    hi2 = min(U32, lo2 + 70000)
                g.emit("l2sflip %s %s %d %d" % (g.fresh("z"), z, min(lo2, U32), min(hi2, U32)))
                g.count("l2sflip")
    # dense conversions
    for _ in range(n):
        x = g.fresh()
        keys = sorted(set(r.choice([0, 0, 1, 2, 3, 5, 17, 47]) for _ in range(r.choice([1, 2, 3]))))
        if r.random() < 0.3:
            raw(g, x, keys)
        else:
            g.build(x, keys)
        g.emit("l2dense %s" % x)
        g.count("l2dense")
        # a low maximum in the last chunk: partial last chunk of the dense form
        y = g.fresh()
        g.emit("new %s" % y)
        for k in keys[:-1]:
            g.chunk_ops(y, k)
        g.emit("addmany %s %s" % (y, " ".join(str(keys[-1] * CH + r.choice([0, 1, 63, 64, 65, 127, 128, 1000, g.lowval()]))
                                               for _ in range(r.choice([1, 2, 5])))))
        if r.random() < 0.5:
            g.emit("opt %s" % y)
        g.emit("l2dense %s" % y)
        g.count("l2dense")
    g.emit("new e7")
    g.emit("l2dense e7")
    g.count("l2dense")
    for _ in range(2 * n):
        nw = r.choice([0, 1, 2, 63, 64, 65, 100, 1023, 1024, 1025, 1100, 1500, 2047, 2048, 2049, 3000, 4096, 5000])
        y = g.fresh()
        cp = r.randrange(2)
        g.emit("l2fromdense %s %d %s" % (y, cp, dense_words(g, nw)))
        g.count("l2fromdense")
        g.count("fromdense:copy" if cp else "fromdense:nocopy")
        g.emit("l2dense %s" % y)
        g.count("l2dense")
        if r.random() < 0.5:
            top = max(1, (nw * 64 + CH - 1) // CH) * CH
            for _ in range(3):
                # mutations that stay below the end of the last chunk (the dense form is printed in full)
                a, b = sorted((r.randrange(top), r.randrange(top)))
                op = r.choice(["add", "rem", "addr", "remr", "flip", "opt"])
                if op in ("add", "rem"):
                    g.emit("%s %s %d" % (op, y, r.choice([a, b, top - 1, 0])))
                elif op == "opt":
                    g.emit("opt %s" % y)
                else:
                    g.emit("%s %s %d %d" % (op, y, a, r.choice([b, b + 1, min(top, a + 4097), top])))
                g.count("mut:" + op)
            g.emit("densechk")
            g.emit("l2dense %s" % y)
            g.count("l2dense")
        if r.random() < 0.4:
            g.emit("l2off %s %s %d" % (g.fresh("z"), y, r.choice([1, -1, 64, -64, 65535, 65536, -65537, 100000])))
            g.count("l2off")
            g.emit("l2sflip %s %s %d %d" % (g.fresh("z"), y, r.choice([0, 5, 65536]), r.choice([65536, 70000, 131072, 200000])))
            g.count("l2sflip")
    g.emit("l2off z0 nosuch 5")
    g.emit("l2sflip z0 nosuch 5 6")
    g.emit("l2dense nosuch")
    g.emit("l2off z0 e7 x")


@suite("l2xform")
def _l2xform(g, scale):
    gen(g, scale)
