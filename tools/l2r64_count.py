#!/usr/bin/env python3
"""Count the l2op64 / l2flip64 / l2range64 lines on which the exact bucket-level check (Rep64) applies, and what they cover.
usage: l2r64_count.py script.txt go.out [more pairs ...]"""
import sys
from collections import Counter
from l2rep_count import parse_rep, rep_wf

B32 = 1 << 32


_inner = {}   # inner repr32 string -> (inner cow switch, well-formed and not empty); the same bucket is printed on many lines


def inner_info(t):
    v = _inner.get(t)
    if v is None:
        r = parse_rep(t)
        v = (None, False) if r is None else (r[0], rep_wf(r) and len(r[1]) > 0)
        if len(_inner) > 20000:
            _inner.clear()
        _inner[t] = v
    return v


def parse64(s):
    """-> (cow, [(key, (inner cow, inner ok), flag)]) or None"""
    parts = s.split("|")
    if parts[0] not in ("cow=0", "cow=1"):
        return None
    bs = []
    for p in parts[1:]:
        f = p.split("@")
        if len(f) != 3:
            return None
        info = inner_info(f[2])
        if info[0] is None:
            return None
        bs.append((int(f[0]), info, f[1] == "1"))
    return (parts[0] == "cow=1", bs)


def wf64(r):
    ks = [k for k, _, _ in r[1]]
    return all(a < b for a, b in zip(ks, ks[1:])) and all(k < B32 and b[1] for k, b, _ in r[1])


def main():
    cnt = Counter()
    args = sys.argv[1:]
    for si in range(0, len(args), 2):
        lines = open(args[si]).read().splitlines()
        outs = open(args[si + 1]).read().splitlines()
        for ln, o in zip(lines, outs):
            t = ln.split(" ")
            if t[0] == "l2op64" and len(t) >= 5:
                op = "bin:" + t[1]
                g = o.split(" ")
                cnt[("lines", op)] += 1
                if len(g) < 4:
                    cnt[("short output", op)] += 1
                    continue
                rx, ry, rz = parse64(g[0]), parse64(g[1]), parse64(g[2])
                if rx is None or ry is None or rz is None or not wf64(rx) or not wf64(ry):
                    cnt[("not exact (operand not wf)", op)] += 1
                    continue
                cnt[("exact", op)] += 1
                if g[3] == "chg":
                    cnt[("exact: operand inner flags changed (chg)", op)] += 1
                if t[3] == t[4]:
                    cnt[("exact: self", op)] += 1
                if rx[0] or ry[0]:
                    cnt[("exact: an operand has cow=1", op)] += 1
                if any(f for _, _, f in rx[1]) or any(f for _, _, f in ry[1]):
                    cnt[("exact: an operand has flagged buckets", op)] += 1
                if any(b[0] for _, b, _ in rx[1]) or any(b[0] for _, b, _ in ry[1]):
                    cnt[("exact: an operand has an inner cow=1 bucket", op)] += 1
                if any(f for _, _, f in rz[1]):
                    cnt[("exact: result has flagged buckets", op)] += 1
                dx = {k for k, _, _ in rx[1]}
                dy = {k for k, _, _ in ry[1]}
                dz = {k for k, _, _ in rz[1]}
                if not dx or not dy:
                    cnt[("exact: an operand empty", op)] += 1
                if not dz:
                    cnt[("exact: result empty", op)] += 1
                for k in dx:
                    if k in dy:
                        cnt[("bucket: equal key", op)] += 1
                        if k not in dz:
                            cnt[("bucket: equal key, result dropped", op)] += 1
                    else:
                        cnt[("bucket: lone left", op)] += 1
                for k in dy:
                    if k not in dx:
                        cnt[("bucket: lone right", op)] += 1
            elif t[0] == "l2iop64" and len(t) == 4:
                op = "i" + t[1]
                g = o.split(" ")
                cnt[("lines", op)] += 1
                if len(g) != 4:
                    cnt[("short output", op)] += 1
                    continue
                rx, ry, rx2, ry2 = (parse64(q) for q in g)
                if rx is None or ry is None or rx2 is None or ry2 is None or not wf64(rx) or not wf64(ry):
                    cnt[("not exact (operand not wf)", op)] += 1
                    continue
                cnt[("exact", op)] += 1
                if t[2] == t[3]:
                    cnt[("exact: self", op)] += 1
                    continue
                if g[1] != g[3]:
                    cnt[("exact: argument representation changed", op)] += 1
                    if [f for _, _, f in ry[1]] != [f for _, _, f in ry2[1]]:
                        cnt[("exact: argument bucket flags changed", op)] += 1
                if rx[0] and ry[0]:
                    cnt[("exact: both switches on", op)] += 1
                if any(f for _, _, f in rx[1]):
                    cnt[("exact: receiver has flagged buckets", op)] += 1
                if any(f for _, _, f in rx2[1]):
                    cnt[("exact: result has flagged buckets", op)] += 1
                if any(b[0] for _, b, _ in rx[1]) or any(b[0] for _, b, _ in ry[1]):
                    cnt[("exact: an operand has an inner cow=1 bucket", op)] += 1
                dx = {k for k, _, _ in rx[1]}
                dy = {k for k, _, _ in ry[1]}
                dz = {k for k, _, _ in rx2[1]}
                if not dx or not dy:
                    cnt[("exact: an operand empty", op)] += 1
                if not dz:
                    cnt[("exact: result empty", op)] += 1
                mx = max(dx) if dx else -1
                for k in dx:
                    if k in dy:
                        cnt[("bucket: equal key", op)] += 1
                        if k not in dz:
                            cnt[("bucket: equal key, result dropped", op)] += 1
                    else:
                        cnt[("bucket: lone left", op)] += 1
                for k in dy:
                    if k not in dx:
                        cnt[("bucket: lone right (%s)" % ("tail" if k > mx else "middle"), op)] += 1
            elif t[0] in ("l2flip64", "l2range64") and len(t) == 5:
                op = "sflip" if t[0] == "l2flip64" else t[1]
                g = o.split(" ")
                cnt[("lines", op)] += 1
                if len(g) < 2:
                    cnt[("short output", op)] += 1
                    continue
                try:
                    lo, hi = int(t[3]), int(t[4])
                except ValueError:
                    continue
                rx, rz = parse64(g[0]), parse64(g[1])
                if rx is None or rz is None or not wf64(rx):
                    cnt[("not exact (operand not wf)", op)] += 1
                    continue
                cnt[("exact", op)] += 1
                if len(g) > 2 and g[2] == "chg":
                    cnt[("exact: operand inner flags changed (chg)", op)] += 1
                if lo >= hi:
                    cnt[("exact: empty range", op)] += 1
                    continue
                if rx[0]:
                    cnt[("exact: operand has cow=1", op)] += 1
                if any(f for _, _, f in rx[1]):
                    cnt[("exact: operand has flagged buckets", op)] += 1
                dx = {k for k, _, _ in rx[1]}
                dz = {k for k, _, _ in rz[1]}
                klo, khi = lo >> 32, (hi >> 32) if op in ("sflip", "flip") else ((hi - 1) >> 32)
                cnt[("exact: buckets spanned = %s" % min(khi - klo + 1, 4), op)] += 1
                if hi % B32 == 0:
                    cnt[("exact: end on a bucket border", op)] += 1
                    if (hi >> 32) in dx:
                        cnt[("exact: end on a border, far bucket present", op)] += 1
                if lo % B32 == 0:
                    cnt[("exact: start on a bucket border", op)] += 1
                if hi == (1 << 64) - 1:
                    cnt[("exact: end = 2^64-1", op)] += 1
                span = range(klo, khi + 1) if khi - klo < 1000 else sorted(k for k in (dx | dz) if klo <= k <= khi)
                for k in span:
                    if k in dx and k not in dz:
                        cnt[("bucket: emptied / dropped", op)] += 1
                    elif k not in dx and k in dz:
                        cnt[("bucket: created", op)] += 1
                    elif k in dx:
                        cnt[("bucket: present, kept", op)] += 1
                    else:
                        cnt[("bucket: absent, stays absent", op)] += 1
                if any(k < klo or k > khi for k in dx):
                    cnt[("exact: untouched buckets outside the range", op)] += 1
                if any(f for k, _, f in rz[1]):
                    cnt[("exact: result has flagged buckets", op)] += 1
    ops = ["bin:and", "bin:or", "bin:xor", "bin:andnot", "sflip", "flip", "add", "remove", "iand", "ior", "ixor", "iandnot"]
    rows = sorted({k for k, _ in cnt})
    print("%-50s" % "" + "".join("%11s" % o for o in ops))
    for r in rows:
        print("%-50s" % r + "".join("%11d" % cnt[(r, o)] for o in ops))


if __name__ == "__main__":
    main()
