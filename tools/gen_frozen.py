"""CRoaring frozen-format suites: Freeze/FreezeTo/WriteFrozenTo/FrozenView (C13) and FrozenView on untrusted bytes (C10).

suites
  frozen       reachable bitmaps of all kind mixes and orders, empty bitmap, many chunks; destination sizes
               {exact,+1,+4096 (inside `frz`), -1,-k,0 (`frzsmall`)}; views: reads, then (copying) writes
  fuzzfrozen   valid frozen streams from an independent encoder (written from the CRoaring layout comment),
               structurally corrupted
  frozenmis    the same view / decode checks on misaligned buffers and buffers flush against a guard page
               (amd64 tolerates misaligned loads; do not run with a -race harness: checkptr aborts)
"""
import itertools
import struct
from genlib import G, suite, CH, U32
from gen_kern import rand_set, card
from gen_ser import fnv_digest


# ------------------------------------------------------------------ independent encoder (from the layout comment)
#  <bitset_data> <run_data> <array_data> <keys> <counts> <typecodes> <header>
#  header = cookie (15 bits, 13766) | number of containers << 15
#  counts: cardinality-1 for bitset (type 1) and array (type 2) containers, number of runs for run (type 3) containers
class Stream:
    """a frozen stream in structured form, so that corruptions can address fields"""

    def __init__(self, conts=()):
        self.bitsets = []      # list of lists of 1024 words
        self.runs = []         # list of lists of (start, length-1)
        self.arrays = []       # list of lists of values
        self.keys = []
        self.counts = []
        self.types = []
        self.cookie = 13766
        self.ncont = 0
        self.pre = b""         # junk before / between / after
        self.mid = b""
        for key, kind, ivs in conts:
            self.add(key, kind, ivs)

    def add(self, key, kind, ivs):
        c = card(ivs)
        self.keys.append(key)
        if kind == "B":
            words = [0] * 1024
            for a, b in ivs:
                for v in range(a, b + 1):
                    words[v >> 6] |= 1 << (v & 63)
            self.bitsets.append(words)
            self.counts.append((c - 1) & 0xFFFF)
            self.types.append(1)
        elif kind == "A":
            self.arrays.append([v for a, b in ivs for v in range(a, b + 1)])
            self.counts.append((c - 1) & 0xFFFF)
            self.types.append(2)
        else:
            self.runs.append([(a, b - a) for a, b in ivs])
            self.counts.append(len(ivs))
            self.types.append(3)
        self.ncont += 1

    def encode(self):
        out = self.pre
        for w in self.bitsets:
            out += struct.pack("<%dQ" % len(w), *w)
        for rs in self.runs:
            for s, l in rs:
                out += struct.pack("<HH", s & 0xFFFF, l & 0xFFFF)
        out += self.mid
        for vs in self.arrays:
            out += struct.pack("<%dH" % len(vs), *vs)
        out += struct.pack("<%dH" % len(self.keys), *self.keys)
        out += struct.pack("<%dH" % len(self.counts), *self.counts)
        out += bytes(self.types)
        out += struct.pack("<I", ((self.cookie & 0x7FFF) | (self.ncont << 15)) & 0xFFFFFFFF)
        return out


def enc_frozen(conts):
    return Stream(conts).encode()


def rand_conts(g, n=None, small=False, canonical=True):
    """(key, kind, ivs) list; canonical: arrays <= 4096 values, bitsets > 4096"""
    r = g.r
    if n is None:
        n = r.choice([0, 1, 1, 2, 3, 3, 4, 5, 8, 17])
    keys = sorted(set(g.key() for _ in range(n))) if r.random() < 0.6 else sorted(r.sample(range(65536), n))
    conts = []
    for k in keys:
        ivs = rand_set(g)
        while card(ivs) == 0 or (small and card(ivs) > 300):
            ivs = rand_set(g)
        c = card(ivs)
        kinds = ["R", "A" if c <= 4096 else "B"]
        if not canonical and c <= 6000:
            kinds += ["A", "B"]
        kind = r.choice(kinds)
        g.count("fz:kind" + kind)
        conts.append((k, kind, ivs))
    return conts


# ------------------------------------------------------------------ bitmaps with chosen container kinds (raw representation)
def words_rle(words):
    out = []
    i = 0
    while i < len(words):
        j = i
        while j < len(words) and words[j] == words[i]:
            j += 1
        out.append("%x" % words[i] + ("*%d" % (j - i) if j - i > 1 else ""))
        i = j
    return ".".join(out)


def repr_cont(kind, ivs):
    if kind == "A":
        return "A:" + ",".join(str(v) for a, b in ivs for v in range(a, b + 1))
    if kind == "R":
        return "R:" + ",".join("%d+%d" % (a, b - a) for a, b in ivs)
    words = [0] * 1024
    for a, b in ivs:
        for v in range(a, b + 1):
            words[v >> 6] |= 1 << (v & 63)
    return "B:%d:%s" % (card(ivs), words_rle(words))


def shape(g, kind):
    """a well-formed container content of the requested kind (array: <=4096 values, bitmap: >4096, run: minimal)"""
    r = g.r
    if kind == "A":
        c = r.choice(["one", "few", "edge", "4096"])
        if c == "one":
            return [(v, v) for v in [g.lowval()]]
        if c == "few":
            vs = sorted({g.lowval() for _ in range(r.randrange(2, 30))})
            return [(v, v) for v in vs]
        if c == "edge":
            return [(v, v) for v in (0, 2, 65533, 65535)]
        start = r.randrange(0, 30000)
        return [(start + 2 * i, start + 2 * i) for i in range(4096)]
    if kind == "B":
        c = r.choice(["4097", "blocks", "full", "alt"])
        if c == "4097":
            start = r.randrange(0, 30000)
            return [(start + 2 * i, start + 2 * i) for i in range(4097)]
        if c == "blocks":
            # many short runs: a bitmap container is the smallest
            start = r.randrange(0, 64)
            return [(start + 12 * i, start + 12 * i + 5) for i in range(3000)]
        if c == "full":
            return [(0, CH - 1)]
        return [(2 * i + 1, 2 * i + 1) for i in range(32768)]
    c = r.choice(["full", "one", "few", "top"])
    if c == "full":
        return [(0, CH - 1)]
    if c == "one":
        a = min(g.lowval(), CH - 5)          # at least 5 values: one run is the smallest encoding
        return [(a, min(CH - 1, a + r.choice([4, 100, 5000])))]
    if c == "top":
        return [(65000, CH - 1)]
    pts = sorted(r.sample(range(0, CH, 50), 6))
    return [(pts[i], pts[i] + 30) for i in range(0, 6, 2)]


def mkrepr(g, x, conts, cow=False):
    g.emit("mkrepr %s %s" % (x, ";".join(["cow=%d" % int(cow)] + ["%d:%s" % (k, repr_cont(kind, ivs)) for k, kind, ivs in conts])))


# ------------------------------------------------------------------ suite: frozen
def freeze_checks(g, x):
    r = g.r
    g.emit("frz %s" % x)
    for k in r.sample([1, 1, 2, 3, 4, 5, 8, 9, 100, 4096, 8192, 10 ** 6, 10 ** 9], 4):
        g.emit("frzsmall %s %d%s" % (x, k, r.choice(["", "", " nil", " exact"])))
    g.count("frz:small")
    for off in r.sample([0, 1, 2, 3, 4, 5, 7, 8, 9, 12, 16, 17, 20, 100, 1000, 8191, 8192, 8200, 100000, 10 ** 7], 4):
        g.emit("frzwfail %s %d" % (x, off))


def reads(g, y, keys, n=6):
    r = g.r
    g.emit("card %s" % y)
    g.emit("toarr %s" % y)
    g.emit("min %s" % y)
    g.emit("max %s" % y)
    for _ in range(n):
        q = r.choice(["has", "rank", "sel", "cir", "iwi", "nv", "pv", "nav", "pav"])
        if q in ("has", "rank", "nv", "pv", "nav", "pav"):
            g.emit("%s %s %d" % (q, y, g.val_near(keys)))
        elif q == "sel":
            g.emit("sel %s %d" % (y, r.choice([0, 1, 2, 4095, 4096, 65535, 65536, r.randrange(1 << 20)])))
        else:
            a, b = g.rng(keys)
            g.emit("%s %s %d %d" % (q, y, a, b))
    g.emit("chkeq %s" % y)
    g.emit("ser %s" % y)
    g.emit("size %s" % y)


def small_rng(g, keys):
    """a [s,e) range spanning at most a few dozen chunks (whole-universe ranges are exercised on the 65536-chunk view)"""
    a, b = g.rng(keys)
    if b - a > 40 * CH:
        b = a + g.r.choice([1, 2, 3, 40]) * CH + g.r.choice([0, 1, -1, g.lowval()])
    return a, min(b, U32)


def write_step(g, y, keys, others):
    """one mutating command on the frozen view y (every one must copy what it touches)"""
    r = g.r
    op = r.choices(["add", "cadd", "rem", "crem", "addmany", "addr", "remr", "flip", "iand", "ior", "ixor", "iandnot",
                    "opt", "remchunk", "clearadd", "clonew", "static"],
                   [10, 6, 8, 6, 4, 6, 6, 6, 3, 3, 3, 3, 2, 3, 1, 3, 4])[0]
    g.count("fzwrite:" + op)
    if op in ("add", "cadd", "rem", "crem"):
        g.emit("%s %s %d" % (op, y, g.val_near(keys)))
    elif op == "addmany":
        g.emit("addmany %s %s" % (y, " ".join(str(g.val_near(keys)) for _ in range(r.choice([1, 3, 20])))))
    elif op in ("addr", "remr", "flip"):
        a, b = small_rng(g, keys)
        g.emit("%s %s %d %d" % (op, y, a, b))
    elif op in ("iand", "ior", "ixor", "iandnot"):
        g.emit("%s %s %s" % (op, y, r.choice(others)))
    elif op == "opt":
        g.emit("opt %s" % y)
    elif op == "remchunk":
        k = r.choice(list(keys)) if keys else 0
        g.emit("remr %s %d %d" % (y, k * CH, (k + 1) * CH))
    elif op == "clearadd":
        g.emit("clear %s" % y)
        g.emit("add %s %d" % (y, g.val_near(keys)))
    elif op == "clonew":
        c = g.fresh()
        g.emit("clone %s %s" % (c, y))
        g.emit("add %s %d" % (c, g.val_near(keys)))
        g.emit("rem %s %d" % (c, g.val_near(keys)))
        g.emit("dig %s" % y)
    else:
        o = r.choice(others)
        g.emit("%s %s %s %s" % (r.choice(["and", "or", "xor", "andnot"]), g.fresh(), y, o))
        g.emit("%s %s %s %s" % (r.choice(["and", "or", "xor", "andnot"]), g.fresh(), o, y))


def view_checks(g, x, keys, opts=""):
    """frozen view of x: read battery; returns the view's name"""
    r = g.r
    y = g.fresh("v")
    g.emit(("fview %s %s %s %s" % (y, x, "must" if r.random() < 0.3 else "", opts)).strip())
    g.emit("wf %s" % y)
    g.emit("eq %s %s" % (y, x))
    g.emit("eq %s %s" % (x, y))
    reads(g, y, keys)
    g.emit("frz %s" % y)              # freezing a frozen view gives the same stream
    if r.random() < 0.4:
        z = g.fresh("v")
        g.emit(("fview %s %s %s" % (z, y, opts)).strip())   # a view of (the freeze of) a view
        g.emit("eq %s %s" % (z, x))
    if r.random() < 0.3:
        g.emit(("fview %s %s reuse %s" % (y, x, opts)).strip())   # the receiver already is a frozen view
        g.emit("wf %s" % y)
    g.emit("fchk %s" % y)
    g.emit("dig %s" % x)
    return y


def write_checks(g, x, keys, others, steps=8, opts=""):
    """frozen view of x, then a history of writes on the view; the original and the buffer stay as they were"""
    r = g.r
    y = g.fresh("w")
    # `rw`: the buffer stays writable, a write through the view then shows in `fchk` (otherwise it faults)
    g.emit(("fview %s %s %s %s" % (y, x, "rw" if r.random() < 0.3 else "", opts)).strip())
    for i in range(steps):
        write_step(g, y, keys, others)
        if r.random() < 0.5:
            g.emit("fgc")
            g.emit("dig %s" % y)
        if r.random() < 0.3:
            g.emit("wf %s" % y)
    g.emit("fgc")
    g.emit("wf %s" % y)
    g.emit("card %s" % y)
    g.emit("toarr %s" % y)
    g.emit("frz %s" % y)
    g.emit("fchk %s" % y)
    g.emit("dig %s" % x)


def make_bitmaps(g, scale):
    """-> list of (name, keys)"""
    r = g.r
    out = []
    # the empty bitmap
    x = g.fresh()
    g.emit("new %s" % x)
    out.append((x, []))
    g.count("fz:empty")
    # every mix and order of container kinds on 1, 2, 3 chunks (raw representations with well-formed containers)
    triples = list(itertools.product("ABR", repeat=3))
    r.shuffle(triples)
    mixes = [p for n in (1, 2) for p in itertools.product("ABR", repeat=n)] + triples[:max(3, int(27 * min(1.0, 0.4 * scale)))]
    for mix in mixes:
        x = g.fresh()
        base = r.choice([0, 0, 1, 100, 65536 - len(mix)])
        keys = [base + i for i in range(len(mix))] if r.random() < 0.6 else sorted(r.sample(range(65536), len(mix)))
        mkrepr(g, x, [(k, kind, shape(g, kind)) for k, kind in zip(keys, mix)], cow=r.random() < 0.2)
        g.count("fz:mix" + "".join(mix))
        out.append((x, keys))
    # library-built bitmaps
    for it in range(int(12 * scale)):
        x = g.fresh()
        nk = r.choice([1, 2, 3, 4, 5, 9, 20])
        keys = g.build(x, g.keyset(nk))
        g.count("fz:built")
        out.append((x, keys))
    # many chunks
    x = g.fresh()
    g.emit("new %s" % x)
    ks = sorted(r.sample(range(65536), 300))
    g.emit("addmany %s %s" % (x, " ".join(str(k * CH + g.lowval()) for k in ks)))
    g.emit("addr %s %d %d" % (x, 70 * CH + 5, 90 * CH + 7))
    out.append((x, ks[:5]))
    g.count("fz:manychunks")
    return out


def fixed_frozen_cases(g):
    """always present: a completely full chunk stored as a BITMAP container (and as a run), a chunk of exactly 4097 values, the
    empty bitmap — frozen by the three writers, viewed, validated"""
    full = "ffffffffffffffff*1024"
    for j, slots in enumerate(["7:B:65536:%s" % full, "0:R:0+65535;65535:B:65536:%s" % full, "3:A:1;9:B:65536:%s;10:A:5" % full]):
        x, v = g.fresh("ff"), g.fresh("fv")
        g.emit("mkrepr %s cow=0;%s" % (x, slots))
        g.emit("frz %s" % x)
        g.emit("fview %s %s" % (v, x))
        g.emit("card %s" % v)
        g.emit("wf %s" % v)
        g.emit("toarr %s" % v)
        g.count("frozen:fixed-full-bitmap")
    # images whose FIRST bytes happen to spell a portable-format cookie (12347 = 0x303b, 12346 = 0x303a): the image starts with
    # user data (bitset words, else run intervals, else array values)
    for j, slots in enumerate(["9:A:12347,20000", "40000:A:12347", "3:A:12346;4:A:0,7", "5:R:12347+10,30000+4", "5:R:12346+9,20000+30",
                               "2:B:5037:303b.%s" % ".".join(["ffffffffffffffff"] * 78 + ["3fffffffff"] + ["0*944"]),
                               "2:B:5036:303a.%s" % ".".join(["ffffffffffffffff"] * 78 + ["3fffffffff"] + ["0*944"])]):
        x, v = g.fresh("fc"), g.fresh("fcv")
        g.emit("mkrepr %s cow=0;%s" % (x, slots))
        g.emit("frz %s" % x)
        g.emit("fview %s %s" % (v, x))
        g.emit("card %s" % v)
        g.emit("toarr %s" % v)
        g.count("frozen:leading-cookie-bytes")


def fixed_frozen_write_cases(g):
    """always present: writes on a frozen view that change the SHAPE of the chunk list (a first / middle / last chunk disappears, in-place
    intersections and differences drop chunks, clear-and-refill, reload of the view object), each on a view over a writable (`rw`) and over
    a protected buffer; after every step the image must be byte-identical and still open as the original"""
    slots = "2:A:5,9,300;5:B:32768:5555555555555555*1024;8:R:10+90,1000+5;11:A:7;14:R:0+65535"
    x, o, o2 = g.fresh("fw"), g.fresh("fw"), g.fresh("fw")
    g.emit("mkrepr %s cow=0;%s" % (x, slots))
    g.emit("mkrepr %s cow=0;5:A:1,3;11:A:7;14:A:9" % o)
    g.emit("mkrepr %s cow=0;2:R:0+65535;8:R:0+65535" % o2)
    o4, o5 = g.fresh("fw"), g.fresh("fw")
    g.emit("mkrepr %s cow=0;2:R:0+65535;5:A:1,3" % o4)                 # empties the first chunk, thins the second, ends there
    g.emit("mkrepr %s cow=0;2:A:5,9;5:R:0+65535;8:A:10,11" % o5)       # thins the first, empties the second, thins the third
    steps = [["remr %s %d %d" % ("%s", 2 * CH, 3 * CH)], ["remr %s %d %d" % ("%s", 8 * CH, 9 * CH)], ["remr %s %d %d" % ("%s", 14 * CH, 15 * CH)],
             ["rem %%s %d" % (11 * CH + 7)], ["crem %%s %d" % (11 * CH + 7)], ["flip %%s %d %d" % (11 * CH + 7, 11 * CH + 8)],
             ["iand %%s %s" % o], ["iandnot %%s %s" % o2], ["clear %s", "add %%s %d" % (3 * CH)], ["remr %%s 0 %d" % (12 * CH)],
             ["rem %%s %d" % (11 * CH + 7), "add %%s %d" % (11 * CH + 7), "rem %%s %d" % (2 * CH + 5)],
             # content-neutral maintenance on the view, then writes into the chunks it did not convert
             ["opt %s", "add %%s %d" % (8 * CH + 500), "rem %%s %d" % (8 * CH + 50), "add %%s %d" % (14 * CH + 5), "rem %%s %d" % (14 * CH + 5)],
             ["opt %s", "opt %s", "add %%s %d" % (8 * CH + 2000), "add %%s %d" % (2 * CH + 6), "rem %%s %d" % (5 * CH + 2)],
             # in-place differences whose subtrahend ENDS before the view does: a chunk is emptied, a later one is matched and kept, the
             # unmatched tail slides down into the slots of matched chunks; then writes into every survivor
             ["iandnot %%s %s" % o4] + ["%s %%s %d" % (op, v) for v in (8 * CH + 500, 8 * CH + 50, 11 * CH + 9, 14 * CH + 7, 5 * CH + 2) for op in ("add", "rem")],
             ["iandnot %%s %s" % o5] + ["%s %%s %d" % (op, v) for v in (11 * CH + 9, 8 * CH + 500, 14 * CH + 7, 2 * CH + 300) for op in ("rem", "add")],
             ["iand %%s %s" % o5] + ["%s %%s %d" % (op, v) for v in (8 * CH + 10, 2 * CH + 5) for op in ("rem", "add")],
             # bulk insertions whose FIRST value in a chunk is already present (array / bitmap / run chunk), then new ones
             ["addmanyfrom %%s %d 6 3" % (2 * CH + 5), "addmanyfrom %%s %d 5 2" % (5 * CH), "addmanyfrom %%s %d 4 100" % (8 * CH + 10),
              "addmany %%s %d %d %d" % (11 * CH + 7, 11 * CH + 8, 11 * CH + 9)],
             # an in-place difference that empties the FIRST chunks (the survivors slide down), then writes into the survivors
             ["iandnot %%s %s" % o2, "add %%s %d" % (11 * CH + 9), "add %%s %d" % (5 * CH + 1), "rem %%s %d" % (14 * CH + 7), "add %%s %d" % (14 * CH + 7)]]
    for j, st in enumerate(steps):
        for mode in ("rw", ""):
            w = g.fresh("fw")
            g.emit(("fview %s %s %s" % (w, x, mode)).strip())
            for c in st:
                g.emit(c % w)
                g.emit("fchk %s" % w)
            g.emit("wf %s" % w)
            g.emit("dig %s" % w)
            v2 = g.fresh("fw")
            g.emit("fview %s %s" % (v2, x))
            g.emit("eq %s %s" % (v2, x))
        g.count("frozen:fixed-shape-changing-writes")
    g.emit("dig %s" % x)


@suite("frozen")
def _frozen(g, scale):
    fixed_frozen_cases(g)
    fixed_frozen_write_cases(g)
    r = g.r
    bms = make_bitmaps(g, scale)
    # phase A: writers
    for x, keys in bms:
        freeze_checks(g, x)
        g.emit("dig %s" % x)
    # 65536 chunks (the header's count field needs its 17th bit)
    big = g.fresh()
    g.emit("new %s" % big)
    g.emit("addr %s 0 %d" % (big, U32))
    if r.random() < 0.5:
        g.emit("rem %s %d" % (big, g.val_near([0, 65535])))
    g.emit("frz %s" % big)
    g.emit("frzsmall %s 1" % big)
    g.emit("frzsmall %s %d" % (big, 1 << 30))
    v = g.fresh("v")
    g.emit("fview %s %s" % (v, big))
    g.emit("card %s" % v)
    g.emit("has %s %d" % (v, g.val_near([65535])))
    g.emit("eq %s %s" % (v, big))
    g.emit("frz %s" % v)
    g.count("fz:65536chunks")
    # phase B: views, read side
    for x, keys in bms:
        view_checks(g, x, keys)
    # phase C: views, write side
    names = [x for x, _ in bms]
    for x, keys in bms:
        write_checks(g, x, keys, names)
    # writes on the 65536-chunk view
    for op in r.sample(["add", "rem", "cadd", "crem"], 3):
        g.emit("%s %s %d" % (op, v, g.val_near([0, 1, 65535])))
    a = g.val_near([5])
    g.emit("remr %s %d %d" % (v, a, a + r.choice([1, CH, 3 * CH])))
    g.emit("flip %s %d %d" % (v, 7 * CH, 8 * CH + 5))
    g.emit("fgc")
    g.emit("dig %s" % v)
    g.emit("card %s" % v)
    g.emit("fchk %s" % v)
    g.emit("dig %s" % big)


# ------------------------------------------------------------------ suite: fuzzfrozen
def be_cookie_header(n):
    """a header whose BIG-endian reading carries the cookie"""
    return struct.pack(">I", 13766 | (n << 15))


def corrupt(g, conts):
    """-> (bytes, class) : one structural corruption of the stream encoding `conts`"""
    r = g.r
    s = Stream(conts)
    n = s.ncont
    kinds = ["trunc_back", "trunc_front", "cookie", "becookie", "ncont", "typecode", "retype", "count", "countshift",
             "keyswap", "keydup", "runs_unsorted", "runs_overlap", "runs_wrap", "runs_zero", "arr_unsorted", "arr_dup",
             "bitcard", "bit4096", "arr_big", "junk_pre", "junk_mid", "junk_post", "byte", "valid"]
    kind = r.choice(kinds)
    data = None
    if kind == "trunc_back":
        d = s.encode()
        data = d[:r.randrange(len(d))]
    elif kind == "trunc_front":
        d = s.encode()
        data = d[r.randrange(1, len(d) + 1):]
    elif kind == "cookie":
        s.cookie = r.choice([0, 1, 13765, 13767, 0x7FFF, 12346, 12347, 13766 ^ (1 << r.randrange(15))])
    elif kind == "becookie":
        d = s.encode()
        data = d[:-4] + be_cookie_header(r.choice([0, n, 1, 65535]))
    elif kind == "ncont":
        s.ncont = r.choice([0, max(0, n - 1), n + 1, n + 2, 65535, 65536, 65537, 131071, r.randrange(1 << 17)])
    elif kind == "typecode" and n:
        s.types[r.randrange(n)] = r.choice([0, 4, 5, 255, 128, 1, 2, 3])
    elif kind == "retype" and n:
        # consistent re-typing: k runs <-> an array of 2k values (same arena bytes only if no other container interferes)
        i = r.randrange(n)
        if s.types[i] == 3 and s.counts[i] > 0:
            s.types[i] = 2
            s.counts[i] = 2 * s.counts[i] - 1
        elif s.types[i] == 2 and (s.counts[i] + 1) % 2 == 0:
            s.types[i] = 3
            s.counts[i] = (s.counts[i] + 1) // 2
        else:
            s.types[i] = r.choice([1, 2, 3])
    elif kind == "count" and n:
        i = r.randrange(n)
        s.counts[i] = (s.counts[i] + r.choice([1, -1, 2, 100, 4096, -4096, 65535])) & 0xFFFF if r.random() < 0.7 else \
            r.choice([0, 1, 4095, 4096, 4097, 65535])
    elif kind == "countshift" and n >= 2:
        # move elements between two containers of the same type: the arena sizes still add up
        idx = [i for i in range(n) if s.types[i] == s.types[0]]
        t = r.choice([1, 2, 3])
        idx = [i for i in range(n) if s.types[i] == t]
        if len(idx) >= 2:
            i, j = r.sample(idx, 2)
            d = r.choice([1, 2, 5])
            if s.counts[i] >= d:
                s.counts[i] -= d
                s.counts[j] = (s.counts[j] + d) & 0xFFFF
    elif kind == "keyswap" and n >= 2:
        i, j = r.sample(range(n), 2)
        s.keys[i], s.keys[j] = s.keys[j], s.keys[i]
    elif kind == "keydup" and n >= 2:
        i, j = r.sample(range(n), 2)
        s.keys[i] = s.keys[j]
    elif kind.startswith("runs_") and s.runs:
        rs = r.choice(s.runs)
        if kind == "runs_unsorted" and len(rs) >= 2:
            i = r.randrange(len(rs) - 1)
            rs[i], rs[i + 1] = rs[i + 1], rs[i]
        elif kind == "runs_overlap" and len(rs) >= 2:
            i = r.randrange(len(rs) - 1)
            rs[i] = (rs[i][0], rs[i + 1][0] - rs[i][0] + r.choice([0, -1, 1, 5]))   # touches / overlaps the next run
        elif kind == "runs_wrap":
            i = r.randrange(len(rs))
            rs[i] = (rs[i][0], 65535 - rs[i][0] + r.choice([1, 2, 100]))
        elif kind == "runs_zero":
            # a run container without runs
            i = s.runs.index(rs)
            j = [k for k in range(n) if s.types[k] == 3][i]
            del rs[:]
            s.counts[j] = 0
    elif kind.startswith("arr_") and s.arrays:
        vs = r.choice(s.arrays)
        if kind == "arr_unsorted" and len(vs) >= 2:
            i = r.randrange(len(vs) - 1)
            vs[i], vs[i + 1] = vs[i + 1], vs[i]
        elif kind == "arr_dup" and len(vs) >= 2:
            i = r.randrange(len(vs) - 1)
            vs[i + 1] = vs[i]
        elif kind == "arr_big":
            # more than 4096 values in an array container
            i = s.arrays.index(vs)
            j = [k for k in range(n) if s.types[k] == 2][i]
            m = r.choice([4097, 5000])
            s.arrays[i] = list(range(0, 2 * m, 2))
            s.counts[j] = m - 1
    elif kind in ("bitcard", "bit4096"):
        if not s.bitsets:
            # add a bitmap container after the last key
            key = (s.keys[-1] + 1) if s.keys else 0
            if key < 65536:
                s.add(key, "B", [(0, 4999)])
                n = s.ncont
        if s.bitsets:
            i = r.randrange(len(s.bitsets))
            j = [k for k in range(n) if s.types[k] == 1][i]
            if kind == "bitcard":
                s.counts[j] = (s.counts[j] + r.choice([1, -1, 100, -4000])) & 0xFFFF
            else:
                # (a bitmap container with EXACTLY 4096 values is the recorded finding KF-C10-frozen-bitmap4096, replayed from
                #  corpus/C10/frozen-bitmap4096.txt; it is not generated here so that the rest of the family is explored)
                m = r.choice([4097, 4095, 4095, 1, 0])
                w = [0] * 1024
                for v in range(m):
                    w[v >> 6] |= 1 << (v & 63)
                s.bitsets[i] = w
                s.counts[j] = (m - 1) & 0xFFFF
    elif kind == "junk_pre":
        s.pre = bytes(r.randrange(256) for _ in range(r.choice([1, 2, 4, 8, 32])))
    elif kind == "junk_mid":
        s.mid = bytes(r.randrange(256) for _ in range(r.choice([1, 2, 4, 8])))
    elif kind == "junk_post":
        data = s.encode() + bytes(r.randrange(256) for _ in range(r.choice([1, 2, 4, 5])))
    elif kind == "byte":
        d = bytearray(s.encode())
        # the trailer (keys, counts, types, header) is where single bytes matter most
        lo = max(0, len(d) - 5 * n - 4) if r.random() < 0.7 else 0
        i = r.randrange(lo, len(d))
        d[i] = r.choice([0, 1, 0xFF, 0x80, d[i] ^ (1 << r.randrange(8))])
        data = bytes(d)
    else:
        kind = "valid" if kind == "valid" else kind + "(n/a)"
    if data is None:
        data = s.encode()
    g.count("fzmut:" + kind)
    return data


def battery(g, y, keys):
    r = g.r
    g.emit("card %s" % y)
    g.emit("toarr %s" % y)
    g.emit("min %s" % y)
    g.emit("max %s" % y)
    g.emit("rank %s %d" % (y, g.val_near(keys)))
    g.emit("sel %s %d" % (y, r.choice([0, 1, 5, 100])))
    g.emit("frz %s" % y)
    g.emit("ser %s" % y)
    z = g.fresh()
    g.emit("of %s %d %d" % (z, g.val_near(keys), g.val_near([0])))
    g.emit("or %s %s %s" % (g.fresh(), y, z))
    g.emit("andnot %s %s %s" % (g.fresh(), y, z))
    g.emit("ixor %s %s" % (z, y))
    g.emit("wf %s" % z)
    g.emit("add %s %d" % (y, g.val_near(keys)))
    g.emit("fchk %s" % y)


def hexs(b):
    return b.hex() if b else "-"


@suite("fuzzfrozen")
def _fuzzfrozen(g, scale, opts=None):
    r = g.r

    def opt():
        return opts(r) if opts else ""

    # conformant streams (read direction of the layout): accepted, with the encoded set
    for it in range(int(30 * scale)):
        conts = rand_conts(g, small=r.random() < 0.5)
        y = g.fresh("s")
        g.emit(("fspec %s %s %s %s" % (y, enc_frozen(conts).hex(), fnv_digest(conts), opt())).strip())
        keys = [k for k, _, _ in conts]
        g.emit("card %s" % y)
        g.emit("toarr %s" % y)
        g.emit("frz %s" % y)
    # every truncation point (front and back) of small streams
    for it in range(int(4 * scale)):
        conts = rand_conts(g, n=r.choice([0, 1, 2, 3]), small=True)
        d = enc_frozen(conts)
        if len(d) > 120:
            continue
        for k in range(len(d) + 1):
            g.emit(("fdec %s %s %s" % (g.fresh("t"), hexs(d[:k]), opt())).strip())
            if k:
                g.emit(("fdec %s %s %s" % (g.fresh("t"), hexs(d[k:]), opt())).strip())
        g.count("fzmut:alltruncations")
    # header-only streams: every interesting cookie / count value
    for cookie in [13766, 13765, 13767, 0, 0x7FFF]:
        for n in [0, 1, 2, 65535, 65536, 65537, 131071]:
            hdr = struct.pack("<I", cookie | (n << 15))
            for body in [b"", bytes(5 * min(n, 3)), bytes(range(1, 1 + 5 * min(n, 2)))]:
                g.emit(("fdec %s %s %s" % (g.fresh("h"), hexs(body + hdr), opt())).strip())
    # a well-formed header announcing n chunks at the end of a buffer of EVERY total length from 4 up to a little more than
    # header + table (the front of the image is missing: wrong start offset into a file), zero and non-zero filling
    for n in (1, 2, 3, 7):
        hdr = struct.pack("<I", 13766 | (n << 15))
        for total in range(4, 5 * n + 10):
            for fill in (0, 1):
                body = bytes((fill * (3 + i)) & 0xFF for i in range(total - 4))
                g.emit(("fdec %s %s %s" % (g.fresh("h"), hexs(body + hdr), opt())).strip())
        g.count("fzmut:short-front")
    # the same with the tail of a VALID image (keys, counts, type codes intact; payload and part of the table missing)
    for conts in ([(0, "A", [(7, 7)])], [(3, "A", [(1, 1), (9, 9)]), (5, "R", [(10, 99)])], [(k, "A", [(k, k)]) for k in range(1, 6)]):
        d = enc_frozen(conts)
        n = len(conts)
        for keep in range(4, min(len(d), 5 * n + 9) + 1):
            g.emit(("fdec %s %s %s" % (g.fresh("h"), hexs(d[len(d) - keep:]), opt())).strip())
        g.count("fzmut:valid-tail")
    g.emit("fdec %s - nil" % g.fresh("h"))
    # structural corruptions
    for it in range(int(110 * scale)):
        conts = rand_conts(g, n=r.choice([0, 1, 2, 3, 4, 5]), small=r.random() < 0.75, canonical=r.random() < 0.8)
        for _ in range(3):
            m = corrupt(g, conts)
            if len(m) > 40000:
                continue
            y = g.fresh("f")
            g.emit(("fdec %s %s %s %s" % (y, hexs(m), "must" if r.random() < 0.2 else "", opt())).strip())
            battery(g, y, [k for k, _, _ in conts])   # skipped on both sides unless accepted and validated
    # explicit structured-but-illegal encodings
    cases = [
        [(0, "R", [(65535, 65540)])],                   # run wraps around
        [(3, "R", [(10, 15), (12, 17)])],               # overlapping runs
        [(0, "R", [(10, 15), (16, 21)])],               # adjacent runs (legal sets, not canonical)
        [(0, "R", [(20, 21), (10, 11)])],               # unsorted runs
        [(1, "A", [(5, 5)]), (1, "A", [(6, 6)])],       # duplicate key
        [(2, "A", [(5, 5)]), (1, "A", [(6, 6)])],       # keys out of order
    ]
    for conts in cases:
        s = Stream()
        for key, kind, ivs in conts:
            s.keys.append(key)
            s.ncont += 1
            if kind == "R":
                s.runs.append([(a, b - a) for a, b in ivs])
                s.counts.append(len(ivs))
                s.types.append(3)
            else:
                s.arrays.append([a for a, _ in ivs])
                s.counts.append(len(ivs) - 1)
                s.types.append(2)
        y = g.fresh("x")
        g.emit(("fdec %s %s %s" % (y, s.encode().hex(), opt())).strip())
        g.emit("card %s" % y)
        g.emit("toarr %s" % y)
        g.emit("has %s 65535" % y)
        g.emit("max %s" % y)
    # table-only streams whose announced payload totals reach 2^32 bytes (or 2^31 values): the size arithmetic must not wrap
    for typ, n, cnt, last in [(3, 16385, 65535, None), (3, 16384, 65535, None), (2, 32768, 65535, None), (2, 32769, 65535, 0),
                              (3, 16385, 65532, 65535), (1, 65535, 4999, None)]:
        counts = [cnt] * n
        if last is not None:
            counts[-1] = last
        tbl = struct.pack("<%dH" % n, *range(n)) + struct.pack("<%dH" % n, *counts) + bytes([typ]) * n + \
            struct.pack("<I", 13766 | (n << 15))
        g.emit(("fdec %s %s %s" % (g.fresh("x"), tbl.hex(), opt())).strip())
        g.count("fzmut:hugetotals")
    # a bitmap container holding exactly 4096 values (the array/bitmap threshold), and its neighbours
    for m in (4095, 4097):
        s = Stream()
        s.add(7, "B", [(100, 100 + m - 1)])
        y = g.fresh("x")
        g.emit(("fdec %s %s %s" % (y, s.encode().hex(), opt())).strip())
        g.emit("card %s" % y)
        g.emit("wf %s" % y)


# ------------------------------------------------------------------ suite: frozenmis
def _mis_opts(r):
    return r.choice(["misalign=1", "misalign=2", "misalign=3", "misalign=4", "misalign=7", "misalign=31", "place=end", "place=end",
                     "place=heap", "place=heap misalign=1"])


@suite("frozenmis")
def _frozenmis(g, scale):
    r = g.r
    bms = make_bitmaps(g, 0.5 * scale)
    for x, keys in bms:
        view_checks(g, x, keys, opts=_mis_opts(r))
    _fuzzfrozen(g, 0.4 * scale, opts=_mis_opts)
