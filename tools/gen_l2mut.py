"""Suite `l2mut`: exact-representation tie of the bitmap-level MUTATORS and in-place binary operations
(lean/RModel/Impl/RepMut.lean): `l2mut <op> x …` and `l2iop <iand|ior|ixor|iandnot> x y`.

Histories on bitmaps built with the existing vocabulary (`build`, `cowclone`, `opt`, `mkrepr`, `l2op` results):
  * point mutators at chunk edges (k*65536-1, k*65536, last value 2^32-1), on present / absent values, on absent chunks
    (insertion before / between / after the existing keys), emptying a chunk (one-value containers), walking a chunk across
    the 4095/4096/4097 array<->bitmap threshold in both directions, filling a chunk (bitmap 65535 -> run [0,65535]),
    trimming runs until they stop paying;
  * range mutators: inside one chunk, exactly one chunk, first/middle/last chunk split (2..5 chunks), starting at value 0 of a
    chunk / ending at value 65535 of a chunk (the chunk is then removed by removeIndexRange, no kernel), ranges ending at 2^32,
    empty and inverted ranges, chunks emptied through the partial first / last chunk, ranges over absent chunks (rangeOfOnes:
    1..3 values -> array, more -> run);
  * copy-on-write: every mutator on a bitmap whose containers are flagged (after `l2mut clone` with the switch on, after
    `cowclone`, raw `mkrepr` flag patterns), followed by the same check on the OTHER owner (its representation is in the next
    line's "before" token, its abstraction is compared with the model state);
  * in-place binary operations on operand pairs of every key alignment (same / subset / interleaved / disjoint / overlapping /
    trailing), derived pairs (equal / disjoint / complementary containers under equal keys), raw pairs with random flags and
    switches (shared containers on one or both sides), empty operands, the same object on both sides, results fed back;
  * `tailshare`: Or / Xor with both switches on and argument keys above / below / equal to the receiver's last key (the trailing
    containers become shared and flagged on BOTH sides, interior ones are cloned), then both owners are mutated there.
Domain: bitmaps as the library itself produces them (Rep.wf), values < 2^32, ranges with hi <= 2^32 (two out-of-domain lines
check the panic); ranges are kept to a few chunks so that the printed representations stay small."""
from genlib import suite, CH, U32
from gen_l2rep import raw, raw_pair, derived

IOPS = ["iand", "ior", "ixor", "iandnot"]
POINT = ["add", "cadd", "rem", "crem"]
RANGE = ["addr", "remr", "flip"]


def m(g, op, x, *args):
    g.emit("l2mut %s %s%s" % (op, x, "".join(" %s" % a for a in args)))
    g.count("l2mut:" + op)


def iop(g, op, x, y):
    g.emit("l2iop %s %s %s" % (op, x, y))
    g.count("l2iop:" + op)
    if x == y:
        g.count("l2iop-self:" + op)


def small_range(g, keys):
    """a range from the boundary pool, at most ~5 chunks long"""
    r = g.r
    c = r.random()
    ks = sorted(keys) if keys else [g.key()]
    k = r.choice(ks)
    if c < 0.12:
        cls, (a, b) = "one-chunk-exact", (k * CH, (k + 1) * CH)
    elif c < 0.22:
        n = r.choice([2, 3, 4])
        cls, (a, b) = "chunks-exact", (k * CH, min(U32, (k + n) * CH))
    elif c < 0.42:
        n = r.choice([1, 2, 3, 4])
        a = k * CH + r.choice([0, 1, g.lowval(), 65535])
        b = min(U32, (k + n) * CH + r.choice([0, 1, 65535, 65536 - 1, g.lowval()]))
        cls = "split"
    elif c < 0.5:
        a = max(0, U32 - r.choice([1, 2, 4096, 4097, CH, CH + 1, 2 * CH + 5, 3 * CH]))
        cls, b = "to-2^32", U32
    elif c < 0.56:
        a = g.val_near(keys)
        cls, b = "empty-or-inverted", a - r.choice([0, 0, 1, 70000])
        b = max(0, b)
    elif c < 0.8:
        a = g.val_near(keys)
        cls, b = "short", min(U32, a + r.choice([1, 2, 3, 4, 5, 10, 64, 100, 4095, 4096, 4097, 5000, 65535, 65536, 65537]))
    else:
        a, b = g.val_near(keys), g.val_near(keys)
        if a > b:
            a, b = b, a
        if b - a > 5 * CH:
            b = a + r.choice([CH, 2 * CH + 3, 4 * CH - 1])
        b = min(U32, b)
        cls = "random"
    g.count("range:" + cls)
    return a, b


def point_val(g, keys):
    r = g.r
    c = r.random()
    if c < 0.04:
        return r.choice([0, U32 - 1, CH - 1, CH])
    return g.val_near(keys)


def step(g, x, keys, others):
    """one mutation of x; `others` = bitmaps that may share containers with x (looked at afterwards)"""
    r = g.r
    c = r.random()
    if c < 0.42:
        m(g, r.choice(POINT), x, point_val(g, keys))
    elif c < 0.8:
        op = r.choice(RANGE)
        a, b = small_range(g, keys)
        m(g, op, x, a, b)
        for k in range(a // CH, min(65535, (b - 1) // CH if b > a else a // CH) + 1):
            if op != "remr":
                keys.add(k)
    elif c < 0.86:
        m(g, "opt", x)
    elif c < 0.9:
        m(g, "detach", x)
    elif c < 0.93:
        m(g, "setcow", x, r.randrange(2))
    else:
        y = g.fresh()
        if r.random() < 0.7:
            m(g, "setcow", x, 1)
        m(g, "clone", x, y)
        others.append(y)
    if others and r.random() < 0.5:
        # the other owner of (possibly) shared containers: its representation must be what it was
        o = r.choice(others)
        g.emit("dig %s" % o)
        if r.random() < 0.4:
            m(g, r.choice(POINT), o, point_val(g, keys))
            g.emit("dig %s" % x)


def history(g, steps):
    r = g.r
    x = g.fresh()
    others = []
    c = r.random()
    if c < 0.55:
        keys = set(g.build(x))
        g.count("start:build")
    elif c < 0.8:
        ks = sorted(set(g.key() for _ in range(r.choice([1, 2, 3, 5])))) if r.random() < 0.5 else sorted(r.sample(range(0, 8), r.choice([1, 2, 4])))
        raw(g, x, ks)
        keys = set(ks)
        g.count("start:raw")
    elif c < 0.9:
        g.emit("new %s" % x)
        keys = set(g.keyset())
        g.count("start:empty")
    else:
        src = g.fresh()
        keys = set(g.build(src))
        g.emit("cowclone %s %s" % (x, src))
        others.append(src)
        g.count("start:cowclone")
    for _ in range(steps):
        step(g, x, keys, others)
    g.emit("wf %s" % x)
    for o in others:
        g.emit("dig %s" % o)
    return x, keys


def walk4096(g):
    """one chunk walked across the array<->bitmap threshold with the point mutators, from an array chunk or a run chunk;
    then filled up to the full chunk and emptied value by value / by range"""
    r = g.r
    x = g.fresh()
    k = g.key()
    base = k * CH
    g.emit("new %s" % x)
    if r.random() < 0.3:
        g.emit("add %s %d" % (x, (k ^ 1) * CH + 5))
    n0 = r.choice([4094, 4095, 4096])
    if r.random() < 0.6:
        off = r.randrange(0, 50)
        g.emit("addmany %s %s" % (x, " ".join(str(base + off + 2 * i) for i in range(n0))))
        fresh_vals = [base + off + 2 * i + 1 for i in r.sample(range(n0), 4)]
        old_vals = [base + off + 2 * i for i in r.sample(range(n0), 5)]
        g.count("walk4096:array")
    else:
        g.emit("addr %s %d %d" % (x, base + 10, base + 10 + n0))
        fresh_vals = [base + 9000, base + 9002, base + 9004, base + 9]
        old_vals = [base + 10, base + 20, base + 10 + n0 - 1, base + 4000, base + 11]
        g.count("walk4096:run")
    if r.random() < 0.4:
        y = g.fresh()
        g.emit("cowclone %s %s" % (y, x))
    for v in fresh_vals:
        m(g, r.choice(["add", "cadd"]), x, v)
    for v in fresh_vals[:2] + old_vals:
        m(g, r.choice(["rem", "crem"]), x, v)
    # threshold through the range mutators
    m(g, "addr", x, base + 30000, base + 30000 + r.choice([1, 2, 10]))
    m(g, "remr", x, base + 30000, base + 30000 + r.choice([1, 2, 10]))
    m(g, "flip", x, base + 40000, base + 40000 + r.choice([1, 3, 4096]))
    m(g, "flip", x, base + 40000, base + 40000 + r.choice([1, 3, 4096]))
    # fill: bitmap 65535 -> full
    m(g, "addr", x, base, base + CH - 1)
    m(g, r.choice(["add", "cadd"]), x, base + CH - 1)
    m(g, r.choice(["rem", "crem"]), x, base + g.lowval())
    m(g, "flip", x, base, base + CH)
    m(g, r.choice(["rem", "crem"]), x, base + g.lowval())
    m(g, "remr", x, base, base + CH)
    g.emit("wf %s" % x)


def tiny(g):
    """one- and two-value containers: emptied by every mutator, key inserted before / between / after"""
    r = g.r
    x = g.fresh()
    ks = sorted(r.sample([0, 1, 2, 3, 65534, 65535], 3))
    g.emit("of %s %s" % (x, " ".join(str(k * CH + r.choice([0, 7, 65535])) for k in ks)))
    if r.random() < 0.5:
        g.emit("opt %s" % x)
    if r.random() < 0.5:
        y = g.fresh()
        g.emit("cowclone %s %s" % (y, x))
    for k in ks:
        for lb in (0, 7, 65535):
            m(g, r.choice(["rem", "crem"]), x, k * CH + lb)
    for k in r.sample(ks, 3):
        m(g, r.choice(["add", "cadd"]), x, k * CH + r.choice([0, 65535]))
    k = ks[1]
    m(g, "flip", x, k * CH + r.choice([0, 65535]), k * CH + CH)
    m(g, "flip", x, (k - 1) * CH + 5 if k > 0 else 0, (k + 1) * CH + r.choice([0, 1]))
    m(g, "remr", x, ks[0] * CH + r.choice([0, 1]), ks[1] * CH + CH - r.choice([0, 1]) if ks[1] - ks[0] < 8 else ks[0] * CH + 2 * CH)
    # rangeOfOnes on an absent chunk: 1, 2, 3, 4 values
    base = 9 * CH
    for n in (1, 2, 3, 4):
        m(g, r.choice(["addr", "flip"]), x, base + 100 * n, base + 100 * n + n)
    m(g, "addr", x, base + CH - 2, base + CH + 2)
    g.emit("wf %s" % x)
    g.count("tiny")


def tailshare(g):
    """Or / Xor with BOTH copy-on-write switches on and argument keys above the receiver's last key (shared and flagged on both
    sides), below it (interior keys: cloned, never shared) and equal to it; then both owners are mutated in the shared chunks"""
    r = g.r
    x, y = g.fresh(), g.fresh()
    base_k = r.choice([0, 3, 100, 65520])
    kx = sorted(r.sample(range(base_k, base_k + 6), r.choice([0, 1, 2, 3])))
    top = (max(kx) if kx else base_k)
    ky = sorted(set(r.sample(range(base_k, base_k + 6), r.choice([1, 2, 3]))
                    + [min(65535, top + d) for d in r.sample([1, 2, 3, 5], r.choice([1, 2]))]))
    if r.random() < 0.5:
        g.build(x, kx, opt=r.random() < 0.5)
        g.build(y, ky, opt=r.random() < 0.5)
    else:
        raw(g, x, kx, cow=True)
        raw(g, y, ky, cow=True)
    g.emit("setcow %s 1" % x)
    g.emit("setcow %s %d" % (y, 1 if r.random() < 0.85 else 0))
    op = r.choice(["ior", "ixor"])
    iop(g, op, x, y)
    g.count("tailshare:" + op)
    tail = [k for k in ky if k > top] or ky
    for who, other in ((x, y), (y, x)):
        k = r.choice(tail)
        if r.random() < 0.5:
            m(g, r.choice(POINT), who, k * CH + g.lowval())
        else:
            a = k * CH + r.choice([0, 5, 65535])
            m(g, r.choice(RANGE), who, a, min(U32, a + r.choice([1, 3, 65536, 70000])))
        g.emit("dig %s" % other)
    # a second round: the argument's containers are already flagged (shared whatever the switches say)
    z = g.fresh()
    g.emit("new %s" % z)
    if r.random() < 0.5:
        g.emit("setcow %s 1" % z)
    iop(g, r.choice(["ior", "ixor"]), z, y)
    m(g, r.choice(POINT), z, r.choice(tail) * CH + g.lowval())
    g.emit("dig %s" % y)
    g.emit("wf %s" % z)


def binops(g, a, b, both=True):
    """the four in-place operations on fresh copies of a (argument b), so that a and b stay available"""
    r = g.r
    out = []
    for op in IOPS:
        for (p, q) in ([(a, b), (b, a)] if both else [(a, b)]):
            c = g.fresh("c")
            how = r.choice(["clone", "clone", "cowclone", "l2clone"])
            if how == "l2clone":
                g.emit("l2mut clone %s %s" % (p, c))
                g.count("l2mut:clone")
            else:
                g.emit("%s %s %s" % (how, c, p))
            iop(g, op, c, q)
            out.append(c)
    return out


def pairs(g):
    r = g.r
    c = r.random()
    if c < 0.3:
        a, b, _ = g.pair()
        g.count("pairkind:random")
    elif c < 0.7:
        a, b = derived(g)
        g.count("pairkind:derived")
    else:
        a, b = raw_pair(g)
        g.count("pairkind:raw")
    c = r.random()
    if c < 0.25:
        g.emit("setcow %s 1" % a)
        g.emit("setcow %s 1" % b)
        g.count("cow:both")
    elif c < 0.4:
        g.emit("setcow %s 1" % r.choice([a, b]))
        g.count("cow:one")
    if r.random() < 0.25:
        s = g.fresh()
        g.emit("cowclone %s %s" % (s, r.choice([a, b])))
        g.count("flags:cowclone")
    cs = binops(g, a, b)
    # directly on the operands (destructive): receiver with its own flags / switch
    op = r.choice(IOPS)
    z = r.choice(cs)
    iop(g, op, z, r.choice([a, b]))
    iop(g, r.choice(IOPS), z, r.choice(cs))
    g.emit("wf %s" % z)
    # the same object on both sides
    s = g.fresh("c")
    g.emit("%s %s %s" % (r.choice(["clone", "cowclone"]), s, a))
    iop(g, r.choice(IOPS), s, s)
    m(g, r.choice(POINT), s, g.val_near([]))
    iop(g, r.choice(IOPS), a, a)
    # after sharing: mutate the receiver / the argument, the other side must not move
    op = r.choice(["ior", "ixor"])
    iop(g, op, a, b)
    m(g, r.choice(POINT), a, g.val_near([]))
    g.emit("dig %s" % b)
    a2, b2 = small_range(g, [])
    m(g, r.choice(RANGE), b, a2, b2)
    g.emit("dig %s" % a)
    return a, b


def gen(g, scale):
    r = g.r
    n = max(1, int(6 * scale))
    pool = []
    for _ in range(n):
        x, _ = history(g, 18)
        pool.append(x)
    for _ in range(max(1, int(2 * scale))):
        walk4096(g)
        tiny(g)
    for _ in range(max(1, int(5 * scale))):
        a, b = pairs(g)
        pool.append(r.choice([a, b]))
    for _ in range(max(1, int(3 * scale))):
        tailshare(g)
    # histories as operands of each other
    for _ in range(max(1, int(2 * scale))):
        p, q = r.sample(pool, 2)
        binops(g, p, q, both=False)
    # empties, undefined names, out-of-domain
    g.emit("new e9")
    g.emit("new e8")
    g.emit("setcow e8 1")
    for p, q in (("e9", "e8"), ("e8", pool[0]), (pool[0], "e9"), ("e9", "e9")):
        binops(g, p, q, both=False)
    m(g, "rem", "e9", 5)
    m(g, "crem", "e9", 5)
    m(g, "remr", "e9", 0, U32)
    m(g, "remr", "e8", 3, U32 + 5)
    m(g, "flip", "e9", 7, 7)
    m(g, "opt", "e9")
    m(g, "clone", "e8", "e7")
    m(g, "cadd", "e7", U32 - 1)
    m(g, "addr", "e7", U32 - 2, U32)
    m(g, "addr", "e7", U32 - 2, U32 + 1)      # panics
    m(g, "flip", "e7", 0, U32 + 1)            # panics
    g.emit("l2mut add nosuch 1")
    g.emit("l2mut frob e9 1")
    g.emit("l2iop ior e9 nosuch")
    g.emit("l2iop inand e9 e8")


@suite("l2mut")
def _l2mut(g, scale):
    gen(g, scale)
