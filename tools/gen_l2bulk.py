"""Suite `l2bulk`: exact-representation tie of the L2 model of the bulk entry points (lean/RModel/Impl/RepBulk.lean):
`l2addmany` / `l2bitmapof` (AddMany, BitmapOf), `l2heap or|xor` (HeapOr, HeapXor), `l2toarr` / `l2toex` (ToArray,
ToExistingArray), `l2stats` (Stats).

AddMany episodes.  Receivers: empty, raw `mkrepr` representations of every container kind with random flag patterns and
copy-on-write switches, library-built bitmaps, BOTH sides of a `cowclone` (every container really shared and flagged).  Batches:
  * `onechunk`  sorted values inside one chunk (the cached (index, container) pair is used for all but the first value),
  * `alternate` a1 b1 a2 b2 … between two or three chunks (every value goes through addwithptr),
  * `aba`       runs of the same chunk separated by another chunk (cache dropped and re-acquired; flag already cleared),
  * `unsorted`  random order inside and across chunks, `dups` repeated values (adjacent and far apart), `desc` descending ranges,
  * `cross4096` an array chunk taken over the 4096 boundary (array -> bitmap) inside the cached loop, exactly to 4096, to 4097,
  * `fill`      a chunk completed to 65536 values (bitmap -> run [0,65535] inside the cached loop) and values added to the full
                run container afterwards; once per script a whole chunk from nothing (ascending) ,
  * `runs`      run containers extended / fused / re-typed by the minimising add,
  * `newkeys`   keys inserted before / between / after the existing ones (index shifts while the cache is not in use),
  * `edges`     word edges, chunk edges, 0 and 2^32-1, the empty batch, one value.
Every episode with a clone follows up with `dig`/`l2toarr` of the OTHER owner (nothing it can see may have moved) and `wf`.

Heap episodes: lists of 0,1,2,3,5,9 operands from the `l2agg` pools (raw / kind sequences / library-built), plus `ties` (all
operands of the same GetSizeInBytes, or two size classes interleaved, so the pairing order is decided by the heap layout alone),
`ordersens` (operands for which the REPRESENTATION of the result depends on the pairing order: evens-array | odds-array | short
run for Or — array|array stays an array, run|array is re-typed —, X ^ X ^ Y for Xor — Y's own container handed on, kind and
shared flag, versus recomputed by the bitmap kernels; private padding chunks decouple GetSizeInBytes from these containers),
`tie3` (order-sensitive operands that ALL have the same size: heap.Init and the tie behaviour of down / up decide), flagged
operands, duplicates of the same object, empties, earlier results as operands; the result is validated, mutated and the
aggregate repeated on a permutation (operands must not move; the old result must not see later edits).
(Seeded check of the suite: inverting `priorityQueue.Less`, or turning `<` into `<=`, is reported by seeds 1, 2 and 3.)

ToArray / Stats: all container kinds incl. full chunks (the run container [0,65535], 65536-value and 65535-value bitmap
containers), word-edge bits, keys 0 and 65535; ToExistingArray with a slice that is exact / longer / one short / empty.
Domain: bitmaps as the library itself produces them (Rep.wf), values < 2^32."""
from genlib import suite, CH, U32
from gen_l2agg import mk, rand_cont, raw_group, seq_group, ops_group, shape_vals, cont_str

WORDEDGE = [0, 1, 62, 63, 64, 65, 127, 128, 4095, 4096, 4097, 32767, 32768, 65471, 65472, 65534, 65535]


def am(g, x, toks, cls):
    g.emit("l2addmany %s%s" % (x, "".join(" %s" % t for t in toks)))
    g.count("l2addmany:" + cls)


def after(g, x, others=()):
    r = g.r
    for y in others:
        g.emit("dig %s" % y)
        if r.random() < 0.3:
            g.emit("l2toarr %s" % y)
        if r.random() < 0.3:
            g.emit("wf %s" % y)
    if r.random() < 0.6:
        g.emit("wf %s" % x)
    if r.random() < 0.25:
        g.emit("l2toarr %s" % x)
        g.count("l2toarr:after-addmany")
    if r.random() < 0.25:
        g.emit("l2stats %s" % x)
        g.count("l2stats:after-addmany")


def receiver(g, keys):
    """a receiver over (some of) `keys`; returns (name, [other owners sharing containers with it])"""
    r = g.r
    c = r.random()
    x = g.fresh()
    if c < 0.12:
        g.emit("new %s" % x)
        g.count("recv:empty")
        return x, []
    if c < 0.45:
        ks = [k for k in keys if r.random() < 0.7]
        mk(g, x, {k: rand_cont(g) for k in ks})
        g.count("recv:raw")
        return x, []
    if c < 0.6:
        g.build(x, [k for k in keys if r.random() < 0.8])
        g.count("recv:built")
        return x, []
    # really shared containers: x and y own the same containers, all flagged on both sides
    src = g.fresh()
    if r.random() < 0.5:
        ks = [k for k in keys if r.random() < 0.8] or list(keys[:1])
        mk(g, src, {k: rand_cont(g) for k in ks}, flags=0.0)
    else:
        g.build(src, [k for k in keys if r.random() < 0.8] or list(keys[:1]))
    g.emit("cowclone %s %s" % (x, src))
    if r.random() < 0.5:
        g.count("recv:cowclone")
        return x, [src]
    g.count("recv:cowsource")
    return src, [x]


def lows(g, n):
    r = g.r
    return [r.choice(WORDEDGE) if r.random() < 0.3 else r.randrange(CH) for _ in range(n)]


BATCH_CLASSES = ["onechunk", "onechunk", "onechunk", "alternate", "alternate", "aba", "aba", "unsorted", "unsorted", "dups",
                 "desc", "desc", "ranges", "ranges", "newkeys", "newkeys", "edges", "empty", "single", "stride"]


def next_class(g):
    """batch classes are dealt from a shuffled deck, so that every class turns up in every script"""
    deck = getattr(g, "_l2bulk_deck", None)
    if not deck:
        deck = list(BATCH_CLASSES)
        g.r.shuffle(deck)
        g._l2bulk_deck = deck
    return deck.pop()


def batch(g, keys):
    """(tokens, class) of one AddMany batch over the chunk keys `keys` (non-empty, sorted)"""
    r = g.r
    k = r.choice(keys)
    base = k * CH
    c = next_class(g)
    if c == "onechunk":
        n = r.choice([2, 3, 10, 60, 300])
        return [str(base + v) for v in sorted(lows(g, n))], c
    if c == "alternate":
        ks = r.sample(keys, min(len(keys), r.choice([2, 3]))) if len(keys) > 1 else [k, (k + 1) % 65536]
        n = r.choice([4, 9, 40])
        return [str(ks[i % len(ks)] * CH + v) for i, v in enumerate(lows(g, n))], c
    if c == "aba":
        k2 = r.choice(keys) if len(keys) > 1 and r.random() < 0.7 else (k + r.choice([1, 2, 65535])) % 65536
        toks = []
        for seg in range(r.choice([3, 4, 5])):
            kk = k if seg % 2 == 0 else k2
            toks += [str(kk * CH + v) for v in lows(g, r.choice([1, 2, 5]))]
        return toks, c
    if c == "unsorted":
        ks = [r.choice(keys) for _ in range(r.choice([1, 2, 4]))]
        n = r.choice([5, 30, 200])
        return [str(r.choice(ks) * CH + v) for v in lows(g, n)], c
    if c == "dups":
        vs = lows(g, r.choice([2, 5, 20]))
        seq = []
        for v in vs:
            seq += [v] * r.choice([1, 2, 3])
        seq += r.sample(vs, min(len(vs), 3))
        return [str(base + v) for v in seq], c
    if c == "desc":
        a = r.randrange(CH)
        n = r.choice([1, 5, 100, 3000])
        b = max(0, a - n)
        toks = ["%d..%d" % (base + a, base + b)]
        if r.random() < 0.4:
            toks.append("%d..%d/%d" % (base + CH - 1, base + CH - 1 - r.choice([10, 600]), r.choice([2, 3])))
        return toks, c
    if c == "ranges":
        toks = []
        for _ in range(r.choice([1, 2, 4])):
            kk = r.choice(keys)
            a = r.randrange(CH)
            n = r.choice([1, 2, 63, 64, 65, 500, 5000])
            toks.append("%d..%d" % (kk * CH + a, kk * CH + min(CH - 1, a + n)))
        if r.random() < 0.3:
            a = r.randrange(CH - 1)
            toks.append("%d..%d/%d" % (base + a, base + CH - 1, r.choice([2, 7, 64, 65])))
        return toks, c
    if c == "newkeys":
        lo, hi = keys[0], keys[-1]
        cand = [kk for kk in (lo - 1, lo + 1, hi - 1, hi + 1, (lo + hi) // 2, 0, 65535) if 0 <= kk < 65536]
        ks = [r.choice(cand) for _ in range(r.choice([1, 2, 3]))] + [k]
        r.shuffle(ks)
        toks = []
        for kk in ks:
            toks += [str(kk * CH + v) for v in lows(g, r.choice([1, 2, 4]))]
        return toks, c
    if c == "edges":
        vs = [0, CH - 1, CH, U32 - 1, U32 - CH, base, base + CH - 1] + [base + w for w in r.sample(WORDEDGE, 5)]
        r.shuffle(vs)
        return [str(v) for v in vs[:r.choice([3, 6, len(vs)])]], c
    if c == "empty":
        return [], c
    if c == "single":
        return [str(base + r.choice(WORDEDGE))], c
    # stride: one value in each of several consecutive chunks, then back
    n = r.choice([3, 8, 30])
    s = max(0, min(k, 65535 - n))
    toks = ["%d..%d/%d" % (s * CH + 7, (s + n) * CH + 7, CH)]
    if r.random() < 0.5:
        toks.append("%d..%d/%d" % ((s + n) * CH + 9, s * CH + 9, CH))
    return toks, c


def addmany_episode(g):
    r = g.r
    keys = g.keyset(r.choice([1, 2, 3, 4]))
    x, others = receiver(g, keys)
    for _ in range(r.choice([1, 2, 3])):
        toks, cls = batch(g, keys)
        am(g, x, toks, cls)
        after(g, x, others)
    if others and r.random() < 0.5:
        # now the other owner writes into what is left shared
        toks, cls = batch(g, keys)
        am(g, others[0], toks, cls + "-other-owner")
        after(g, others[0], [x])


def cross4096_episode(g):
    """an array chunk taken to / over 4096 values inside one batch"""
    r = g.r
    k = g.key()
    base = k * CH
    x = g.fresh()
    n0 = r.choice([4090, 4094, 4095, 4096])
    how = r.choice(["even", "blk", "scratch"])
    shared = []
    if how == "scratch":
        g.emit("new %s" % x)
        step = r.choice([2, 3])
        am(g, x, ["%d..%d/%d" % (base + 1, base + 1 + step * (n0 - 1), step)], "cross4096-build")
    else:
        vals = list(range(0, 2 * n0, 2)) if how == "even" else sorted(r.sample(range(CH), n0))
        conts = {k: cont_str(vals, False)}
        if r.random() < 0.5:
            conts[(k + 1) % 65536] = rand_cont(g, "few", False)
        mk(g, x, conts, flags=0.3)
        if r.random() < 0.4:
            y = g.fresh()
            g.emit("cowclone %s %s" % (y, x))
            shared = [y]
    extra = r.choice([1, 2, 6, 7, 20])
    vs = [base + r.randrange(CH) for _ in range(extra)] + [base + 1, base + 3]
    if r.random() < 0.5:
        vs.sort()
    am(g, x, [str(v) for v in vs], "cross4096:%d+%d" % (n0, extra))
    after(g, x, shared)
    if r.random() < 0.5:
        am(g, x, ["%d..%d" % (base + 20000, base + 20000 + r.choice([1, 50]))], "cross4096-then-more")
        after(g, x, shared)


def fill_episode(g, scratch=False):
    """a chunk completed to 65536 values inside one batch, then more values into the full run container"""
    r = g.r
    k = r.choice([0, 1, 7, 65535])
    base = k * CH
    x = g.fresh()
    shared = []
    if scratch:
        g.emit("new %s" % x)
        toks = ["%d..%d" % (base, base + CH - 1)] if r.random() < 0.5 else ["%d..%d" % (base + CH - 1, base)]
        am(g, x, toks + [str(base + 5)], "fill-from-nothing")
        after(g, x)
        return
    shape = r.choice(["fullm1", "fullm_lo", "fullm_hi", "holes"])
    if shape == "holes":
        holes = sorted(r.sample(range(CH), r.choice([2, 5, 40])))
        vals = [v for v in range(CH) if v not in set(holes)]
    else:
        vals = shape_vals(g, shape)
        holes = sorted(set(range(CH)) - set(vals))
    conts = {k: cont_str(vals, r.random() < 0.5)}
    if r.random() < 0.4:
        conts[(k + 2) % 65536] = rand_cont(g, "few", False)
    mk(g, x, conts, flags=0.3)
    if r.random() < 0.4:
        y = g.fresh()
        g.emit("cowclone %s %s" % (y, x))
        shared = [y]
    order = list(holes)
    if r.random() < 0.5:
        r.shuffle(order)
    tail = [base + r.choice(WORDEDGE) for _ in range(r.choice([0, 1, 3]))]
    am(g, x, [str(base + v) for v in order] + [str(v) for v in tail], "fill:" + shape)
    after(g, x, shared)


def runs_episode(g):
    r = g.r
    k = g.key()
    base = k * CH
    x = g.fresh()
    shape = r.choice(["runs3", "runs100", "shortruns", "lohalf", "prefix", "suffix"])
    vals = shape_vals(g, shape)
    mk(g, x, {k: cont_str(vals, True)}, flags=0.3)
    vs = []
    sv = set(vals)
    for _ in range(r.choice([2, 6, 30])):
        v = r.choice(vals)
        c = r.random()
        if c < 0.4:
            vs.append(v + 1 if v + 1 < CH else v)        # extend a run / fuse two runs
        elif c < 0.6:
            vs.append(v - 1 if v > 0 else v)
        elif c < 0.7:
            vs.append(v)
        else:
            vs.append(r.randrange(CH))
    am(g, x, [str(base + v) for v in vs], "runs:" + shape)
    after(g, x)
    _ = sv


def bitmapof_lines(g):
    r = g.r
    keys = g.keyset(r.choice([1, 2, 3]))
    x = g.fresh()
    toks, cls = batch(g, keys)
    g.emit("l2bitmapof %s%s" % (x, "".join(" %s" % t for t in toks)))
    g.count("l2bitmapof:" + cls)
    if r.random() < 0.5:
        g.emit("wf %s" % x)
    return x


# ------------------------------------------------------------------ heap aggregates
def tie_group(g, n):
    """operands whose GetSizeInBytes fall into one or two classes"""
    r = g.r
    k = r.choice([0, 1, 7, 65535])
    how = r.choice(["same-arrays", "two-classes", "bitmaps", "copies", "runs"])
    g.count("ties:" + how)
    names = []
    for i in range(n):
        x = g.fresh()
        if how == "same-arrays":
            vals = sorted(r.sample(range(CH), 5))
            conts = {k: cont_str(vals, False)}
        elif how == "two-classes":
            vals = sorted(r.sample(range(CH), 3 if i % 2 == 0 else 9))
            conts = {(k + (i % 3)) % 65536: cont_str(vals, False)}
        elif how == "bitmaps":
            conts = {k: rand_cont(g, r.choice(["dense", "even", "odd", "b4097"]), False)}
        elif how == "runs":
            s = r.randrange(0, CH - 3000)
            conts = {k: cont_str(list(range(s, s + r.choice([100, 2000]))), True)}
        else:
            if names:
                g.emit("%s %s %s" % (r.choice(["clone", "clone", "cowclone"]), x, names[0]))
                names.append(x)
                continue
            conts = {k: rand_cont(g), (k + 1) % 65536: rand_cont(g, "few", False)}
        mk(g, x, conts)
        names.append(x)
    return names


def ordersens_group(g, n):
    """operands for which the REPRESENTATION of the aggregate depends on the pairing order the size-ordered queue chooses:
    `or`:  evens-as-array | odds-as-array | a short run — array|array stays an array even where runs would pay, run|array is
           re-typed by toEfficientContainer: ((E|O)|R) is a run container, ((E|R)|O) an array container;
    `xor`: X ^ X ^ Y — (X^X)^Y hands Y's own container on (kind, shared flag), (X^Y)^X recomputes it with the bitmap kernels.
    Every operand gets a private padding chunk of chosen length, so that GetSizeInBytes (the queue order) is decoupled from
    these containers and ties are frequent."""
    r = g.r
    k = r.choice([0, 1, 7, 65534])
    m = r.choice([50, 100, 400])
    start = r.choice([0, 64, 1000, 30000])
    ev = [start + 2 * i for i in range(m)]
    od = [start + 2 * i + 1 for i in range(m)]
    rs = r.choice([start + 2 * m + 10, 50000])
    run = list(range(rs, rs + r.choice([6, 40, 3000])))
    base = [("E", ev, False), ("O", od, False), ("R", run, True)]
    if r.random() < 0.5:
        base.append(("E2", ev, False))                 # X ^ X cancels; the union is unchanged
    if r.random() < 0.3:
        base.append(("R2", run, True))
    while len(base) < n:
        c = r.random()
        if c < 0.4:
            base.append(("F", sorted(r.sample(range(CH), r.choice([1, 5, 300]))), False))
        elif c < 0.7:
            base.append(("E3", ev, False))
        else:
            s0 = r.randrange(0, CH - 400)
            base.append(("R3", list(range(s0, s0 + r.choice([10, 300]))), True))
    r.shuffle(base)
    base = base[:max(n, 2)] if n >= 2 else base[:n]
    pads = r.choice([[0], [3], [0, 3], [3, 3, 10], [0, 1, 2, 3, 4, 5, 6, 7, 8], [20, 3]])
    names = []
    for i, (tag, vals, pr) in enumerate(base):
        x = g.fresh()
        conts = {k: cont_str(vals, pr)}
        pl = r.choice(pads)
        if pl:
            pk = (k + 1 + (i if r.random() < 0.7 else 0)) % 65536
            conts[pk] = cont_str(sorted(r.sample(range(CH), pl)), False)
        mk(g, x, conts, flags=0.4)
        g.count("ordersens:" + tag)
        names.append(x)
    return names


def tie3_group(g, n):
    """order-sensitive operands that ALL have the same GetSizeInBytes: which two are paired first is decided by heap.Init and the
    tie behaviour of down / up alone"""
    r = g.r
    k = r.choice([0, 1, 7, 65534])
    s = r.choice([0, 60, 1000, 40000])
    if r.random() < 0.5:
        # or: 5 evens (10 bytes) | 5 odds (10 bytes) | two runs (2 + 8 bytes)
        base = [("E", [s + 2 * i for i in range(5)], False), ("O", [s + 2 * i + 1 for i in range(5)], False),
                ("R", list(range(s + 20, s + 24)) + list(range(s + 30, s + 34)), True)]
        filler = lambda: sorted(r.sample(range(CH), 5))
        g.count("tie3:or")
    else:
        # xor: X ^ X ^ Y with X three values (6 bytes) and Y one run (2 + 4 bytes)
        xs = sorted(r.sample(range(CH), 3))
        base = [("X", xs, False), ("X", xs, False), ("Y", list(range(s + 5, s + 5 + r.choice([4, 9, 300]))), True)]
        filler = lambda: sorted(r.sample(range(CH), 3))
        g.count("tie3:xor")
    while len(base) < n:
        c = r.random()
        if c < 0.5:
            base.append(base[r.randrange(3)])
        else:
            base.append(("F", filler(), False))
    r.shuffle(base)
    names = []
    for i, (tag, vals, pr) in enumerate(base):
        x = g.fresh()
        kk = (k + 3 + i) % 65536 if tag == "F" else k
        mk(g, x, {kk: cont_str(vals, pr)}, flags=0.4)
        names.append(x)
    return names


def heap_episode(g, n, pool):
    r = g.r
    c = r.random()
    if n >= 3 and c < 0.15:
        names = tie3_group(g, n)
        g.count("group:tie3")
    elif n >= 2 and c < 0.3:
        names = ordersens_group(g, n)
        g.count("group:ordersens")
    elif n >= 2 and c < 0.45:
        names = seq_group(g, n)
        g.count("group:seq")
    elif c < 0.6:
        names = raw_group(g, n)
        g.count("group:raw")
    elif c < 0.8:
        names = ops_group(g, n)
        g.count("group:ops")
    else:
        names = tie_group(g, n)
        g.count("group:ties")
    if names and pool and r.random() < 0.2:
        names[r.randrange(len(names))] = r.choice(pool)
        g.count("group:result-as-operand")
    if len(names) >= 2 and r.random() < 0.2:
        names[r.randrange(len(names))] = names[0]                    # the same object twice
        g.count("group:same-object")
    n = len(names)
    zo = g.fresh("z")
    g.emit("l2heap or %s %s" % (zo, " ".join(names)))
    g.count("l2heap:or:%d" % n)
    zx = g.fresh("z")
    g.emit("l2heap xor %s %s" % (zx, " ".join(names)))
    g.count("l2heap:xor:%d" % n)
    if r.random() < 0.5:
        g.emit("wf %s" % zo)
        g.emit("wf %s" % zx)
    if r.random() < 0.3:
        g.emit("l2stats %s" % zo)
        g.emit("l2toarr %s" % zx)
    if n >= 1 and r.random() < 0.6:
        z = r.choice([zo, zx])
        g.emit("add %s %d" % (z, g.val_near([])))
        if r.random() < 0.5:
            g.emit("remr %s %d %d" % (z, 0, 4 * CH))
        perm = list(names)
        r.shuffle(perm)
        g.count("l2heap:permuted")
        g.emit("l2heap or %s %s" % (g.fresh("z"), " ".join(perm)))
        g.count("l2heap:or:%d" % n)
        g.emit("l2heap xor %s %s" % (g.fresh("z"), " ".join(perm)))
        g.count("l2heap:xor:%d" % n)
        t = r.choice(names)
        g.emit("add %s %d" % (t, g.val_near([])))
        g.emit("dig %s" % zo)
        g.emit("dig %s" % zx)
    pool.append(zo)
    pool.append(zx)


# ------------------------------------------------------------------ ToArray / Stats
TOARR_SHAPES = ["one", "few", "a500", "a4096even", "b4097", "even", "odd", "fullm1", "fullm_lo", "fullm_hi", "full", "lohalf",
                "hihalf", "runs3", "runs100", "shortruns", "dense", "prefix", "suffix", "edges", "sparse16"]


def toarr_episode(g):
    r = g.r
    x = g.fresh()
    nk = r.choice([0, 1, 1, 2, 2, 3, 5])
    keys = sorted(set([g.key() for _ in range(nk)]))
    conts = {}
    card = 0
    for k in keys:
        shape = r.choice(TOARR_SHAPES)
        vals = shape_vals(g, shape)
        conts[k] = cont_str(vals, r.random() < 0.5)
        g.count("toarr-kind:" + conts[k][0])
        card += len(vals)
    mk(g, x, conts)
    g.emit("l2toarr %s" % x)
    g.count("l2toarr:raw")
    g.emit("l2stats %s" % x)
    g.count("l2stats:raw")
    for n in r.sample([card, card + 1, card + 7, max(0, card - 1), 0, card // 2], 3):
        g.emit("l2toex %s %d" % (x, n))
        g.count("l2toex:exact" if n == card else ("l2toex:longer" if n > card else "l2toex:short"))
    if r.random() < 0.3:
        y = g.fresh()
        g.build(y)
        g.emit("l2toarr %s" % y)
        g.emit("l2stats %s" % y)
        g.emit("l2toex %s %d" % (y, r.choice([0, 3, 1 << 20])))
        g.count("l2toarr:built")


def gen(g, scale):
    r = g.r
    rounds = max(1, int(4 * scale))
    pool = []
    fill_episode(g, scratch=True)
    for _ in range(rounds):
        for _ in range(4):
            addmany_episode(g)
        cross4096_episode(g)
        fill_episode(g)
        runs_episode(g)
        pool.append(bitmapof_lines(g))
        for n in (0, 1, 2, 3, 5, 9):
            heap_episode(g, n, pool)
        for _ in range(5):
            toarr_episode(g)
    # the one-operand Clone path under copy-on-write; degenerate lines
    x = g.fresh()
    mk(g, x, {0: rand_cont(g, "few", False), 3: rand_cont(g, "dense", False), 9: rand_cont(g, "runs3", True)}, cow=True, flags=0.0)
    z = g.fresh("z")
    g.emit("l2heap or %s %s" % (z, x))
    g.count("l2heap:or:1")
    g.emit("l2heap xor %s %s" % (g.fresh("z"), x))
    g.count("l2heap:xor:1")
    g.emit("add %s 5" % z)
    g.emit("dig %s" % x)
    g.emit("wf %s" % x)
    g.emit("l2heap or z0 nosuch")
    g.emit("l2heap and z0 %s" % x)
    g.emit("l2addmany nosuch 1")
    g.emit("l2addmany %s 4294967296" % x)
    g.emit("l2addmany %s 5..9/0" % x)
    g.emit("l2toarr nosuch")
    g.emit("l2toex %s x" % x)
    g.emit("l2stats nosuch")
    g.emit("l2bitmapof %s" % g.fresh())


@suite("l2bulk")
def _l2bulk(g, scale):
    gen(g, scale)
