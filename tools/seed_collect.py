#!/usr/bin/env python3
"""Collect the confirmed seeded changes from /tmp/seed into /verif/seeded/<id>/ and write seeded/RESULTS.md from the
evaluation logs (/tmp/seed/results*.jsonl, later evaluations override earlier ones)."""
import glob
import json
import os
import shutil

ROOT = os.path.dirname(os.path.dirname(os.path.abspath(__file__)))
OUT = os.path.join(ROOT, "seeded")
evals = {}      # seed dir -> {"confirm":…, "props": {prop: [history of (file, rc)]}}
for f in sorted(glob.glob("/tmp/seed/results*.jsonl"), key=lambda p: int("".join(c for c in os.path.basename(p) if c.isdigit()) or 0)):
    for l in open(f):
        d = json.loads(l)
        e = evals.setdefault(d["seed"], {"confirm": None, "props": {}})
        if d.get("confirm"):
            e["confirm"] = d["confirm"]
        for p, v in d["props"].items():
            if v["lines"] or v["rc"] in (0, 1):
                e["props"].setdefault(p, []).append((os.path.basename(f), v["rc"], (v["lines"][-1] if v["lines"] else "")[:120]))
os.makedirs(OUT, exist_ok=True)
rows = []
for sd in sorted(evals):
    e = evals[sd]
    c = e["confirm"]
    # a change whose only symptom is a data race is demonstrated under `go test -race` (its meta.json says so); the plain demo run of
    # seed_eval.py cannot fail for it
    try:
        race_only = "-race" in open(os.path.join(sd, "meta.json")).read()
    except Exception:
        race_only = False
    if not c or not (c["demo_passes_without"] and (c["demo_fails_with"] or race_only) and c["suite_passes_with"]):
        continue
    prop = sd.split("/")[3]
    n = os.path.basename(sd).replace("SEED", "") or "1"
    sid = "%s-%s" % (prop, n)
    dst = os.path.join(OUT, sid)
    os.makedirs(dst, exist_ok=True)
    import glob
    shutil.copy(os.path.join(sd, "patch.diff"), os.path.join(dst, "patch.diff"))
    demo = (sorted(glob.glob(os.path.join(sd, "seed_demo*_test.go"))) or [os.path.join(sd, "seed_demo_test.go")])[0]
    shutil.copy(demo, os.path.join(dst, "seed_demo_test.go"))
    meta = {}
    try:
        meta = json.load(open(os.path.join(sd, "meta.json")))
    except Exception:
        pass
    final = {p: h[-1][1] for p, h in e["props"].items()}
    first = {p: h[0][1] for p, h in e["props"].items()}
    caught = sorted(p for p, rc in final.items() if rc == 1 and (e["props"][p][-1][2].startswith("VIOLATION")))
    missed_first = sorted(p for p, rc in first.items() if rc == 0)
    meta_out = {
        "id": sid, "breaks_property": prop, "title": meta.get("title", ""), "files": meta.get("files", []),
        "needs": meta.get("needs", ""), "why_existing_tests_pass": meta.get("why_tests_pass", ""),
        "confirmed": {"demo_passes_on_clean_tree": True, "demo_fails_with_patch": (True if c["demo_fails_with"] else "under go test -race only (as its author verified)"), "existing_suite_passes_with_patch": True,
                      "how": "tools/seed_eval.py: scratch worktree of /repo, `go test -run TestSeedDemo` without/with the patch, "
                             "`go test -vet=off -count=1 -skip 'BatchEqualExistenceAuthority|TestLargeFile|TestSeedDemo' ./...` with the patch"},
        "checks_run": {p: [{"batch": b, "exit": rc, "line": ln} for b, rc, ln in h] for p, h in e["props"].items()},
        "caught_by": caught,
        "agent_commands": meta.get("ran", []),
    }
    json.dump(meta_out, open(os.path.join(dst, "meta.json"), "w"), indent=1)
    rows.append((sid, meta.get("title", "")[:90], ", ".join(caught) or "—", ", ".join(missed_first)))
with open(os.path.join(OUT, "RESULTS.md"), "w") as f:
    f.write("# Seeded changes and the checks that catch them\n\n"
            "Each change was produced by an independent sub-agent that saw only the property text and a scratch worktree, compiles, passes the existing\n"
            "suite and breaks the property (confirmed with its demonstration). `caught by` = quick checks that report a VIOLATION with the patch applied\n"
            "(final state of the framework); `missed at first` = checks that passed when the change was first evaluated — each such miss led to a\n"
            "generator/suite being strengthened (see DESIGN.md section 4), after which the change was re-evaluated.\n\n")
    f.write("| id | change | caught by | missed at first |\n|---|---|---|---|\n")
    for r in rows:
        f.write("| %s | %s | %s | %s |\n" % r)
print("collected", len(rows))
