"""Suite `bsibig`: the per-column ("big") paths of roaring64.BSI - indexes wider than 64 planes, *big.Int arguments, CompareBSI,
the batch readers - for the tie with lean/RModel/Impl/BSI64Big.lean (Driver/BsiBig.lean).

Documented domain assumed (nothing else is generated):
  * comparison constants k with -2^BitCount <= k < 2^BitCount (representable in the index's width: "Values should be in the range
    of the BSI"); for `bcmp` additionally int64;
  * found-sets of `bcmp`/`bcmpbig`/`bcmpbsi`/`bminmax*` are subsets of the existing columns, nil, or the index's own existence bitmap.
    Found-sets that contain columns WITHOUT value are only used with the pure query `bcmpabs` (map semantics judges the existing
    columns of the result only; the raw result is compared with the model of the code), with `bminmaxbig` (Go intersects with the
    existence bitmap; an empty candidate set gives the sentinel, which only the model checks) and with `bcmpbsi` (Go intersects).
  * `bgets` (GetValues) panics when a requested existing value is not an int64: generated on purpose (expected `panic`).
The generator keeps a column -> value map per index only to stay inside this domain and to aim constants at stored values.
Expected outputs come from the Lean side.
"""
from genlib import suite
from gen_bsi import add_plane_checks

I64MIN = -(1 << 63)
I64MAX = (1 << 63) - 1
U64 = 1 << 64
OPS = ("LT", "LE", "EQ", "GE", "GT")


def blen(v):
    return max(1, abs(v).bit_length())


class Big:
    def __init__(self, g):
        self.g = g
        self.r = g.r

    # ------------------------------------------------------------------ indexes
    def newidx(self):
        name = self.g.fresh("s")
        self.g.emit("bnew %s 64" % name)
        return {"name": name, "vals": {}, "bc": 1}

    def set(self, idx, c, v):
        big = not (I64MIN <= v <= I64MAX) or self.r.random() < 0.5
        self.g.emit("%s %s %d %d" % ("bsetbig" if big else "bset", idx["name"], c, v))
        idx["vals"][c] = v
        idx["bc"] = max(idx["bc"], blen(v))

    def clr(self, idx, cols):
        f = self.mkfs(cols)
        self.g.emit("bclr %s %s" % (idx["name"], f))
        for c in cols:
            idx["vals"].pop(c, None)

    def mkfs(self, cols):
        f = self.g.fresh("f")
        self.g.emit("fs64 %s %s" % (f, " ".join(str(c) for c in cols)))
        return f

    def absent_cols(self, idx, n):
        r = self.r
        out = set()
        pool = [0, 1, 2, 3, 99, 101, 102, 500, 65535, 65536, (1 << 32) - 1, 1 << 32, 1 << 40, U64 - 1]
        pool += [c + d for c in list(idx["vals"])[:20] for d in (-1, 1) if 0 <= c + d < U64]
        for _ in range(200):
            if len(out) >= n:
                break
            c = r.choice(pool) if r.random() < 0.8 else r.randrange(U64)
            if c not in idx["vals"]:
                out.add(c)
        return sorted(out)

    def tokens(self, idx):
        """(token, kind): kind 'ex' = only existing columns (nil / own / subset), 'abs' = contains columns without value"""
        r = self.r
        cols = sorted(idx["vals"])
        toks = [("-", "ex"), ("@", "ex")]
        sub = [c for c in cols if r.random() < 0.6]
        toks.append((self.mkfs(sub), "ex"))
        if cols:
            toks.append((self.mkfs([r.choice(cols)]), "ex"))
        mixed = sorted(set([c for c in cols if r.random() < 0.5] + self.absent_cols(idx, r.choice([1, 2, 5]))))
        toks.append((self.mkfs(mixed), "abs"))
        toks.append((self.mkfs(self.absent_cols(idx, r.choice([1, 3]))), "abs"))
        return toks

    def domain(self, idx):
        return (-(1 << idx["bc"]), (1 << idx["bc"]) - 1)

    # ------------------------------------------------------------------ queries
    def cmp(self, idx, op, k, k2, tok, kind):
        r = self.r
        args = "%d %d" % (k, k2) if op == "RANGE" else "%d" % k
        w = r.choice([0, 1, 2, 3, 7])
        if kind == "abs":
            self.g.emit("bcmpabs %s %d %s %s %s" % (idx["name"], w, op, args, tok))
            self.g.count("bcmpabs:" + op)
            return
        intonly = I64MIN <= k <= I64MAX and I64MIN <= k2 <= I64MAX
        big = (not intonly) or r.random() < 0.5
        self.g.emit("%s %s %s %d %s %s %s" % ("bcmpbig" if big else "bcmp", self.g.fresh("r"), idx["name"], w, op, args, tok))
        self.g.count(("bcmpbig:" if big else "bcmp:") + op)

    def minmax(self, idx, toks):
        r = self.r
        for tok, kind in toks:
            for op in ("MIN", "MAX"):
                self.g.emit("bminmaxbig %s %d %s %s" % (idx["name"], r.choice([0, 1, 2]), op, tok))
                self.g.count("bminmaxbig:" + kind)

    def gets(self, idx, n=4):
        r = self.r
        cols = sorted(idx["vals"])
        for _ in range(n):
            m = r.choice([0, 1, 2, 3, 5, 8])
            q = [r.choice(cols) if (cols and r.random() < 0.7) else r.choice(self.absent_cols(idx, 3)) for _ in range(m)]
            if q and r.random() < 0.6:
                q += [r.choice(q) for _ in range(r.choice([1, 2]))]      # duplicates
                r.shuffle(q)
            self.g.emit("bgetsbig %s %s" % (idx["name"], " ".join(map(str, q))))
            self.g.count("bgetsbig:%d" % min(len(q), 3))
            if r.random() < 0.7:
                # GetValues: mostly int64 cells, sometimes a cell that is not (expected: panic)
                if r.random() < 0.8:
                    q = [c for c in q if c not in idx["vals"] or I64MIN <= idx["vals"][c] <= I64MAX]
                self.g.emit("bgets %s %s" % (idx["name"], " ".join(map(str, q))))
                self.g.count("bgets")

    def beq(self, idx, n=4):
        r = self.r
        lo, hi = self.domain(idx)
        stored = list(idx["vals"].values())
        for _ in range(n):
            vs = [r.choice(stored) for _ in range(r.choice([0, 1, 2, 4]))] if stored else []
            vs += [max(lo, min(hi, r.choice(stored) + r.choice([-1, 1]))) for _ in range(r.choice([0, 1, 2]))] if stored else []
            vs += [r.choice([0, 1, -1, lo, hi, 5, -7])]
            if r.random() < 0.4:
                vs.append(vs[0])
            r.shuffle(vs)
            intonly = all(I64MIN <= v <= I64MAX for v in vs)
            if intonly and r.random() < 0.5:
                self.g.emit("beq %s %s %d %s" % (self.g.fresh("r"), idx["name"], r.choice([0, 1, 2]), " ".join(map(str, vs))))
                self.g.count("beq")
            else:
                self.g.emit("beqbig %s %s %d %s" % (self.g.fresh("r"), idx["name"], r.choice([0, 1, 2]), " ".join(map(str, vs))))
                self.g.count("beqbig")

    def cmpbsi(self, a, b, toks):
        r = self.r
        for op in OPS:
            for tok, kind in toks:
                if r.random() < 0.7:
                    self.g.emit("bcmpbsi %s %s %s %s %s" % (self.g.fresh("r"), a["name"], op, b["name"], tok))
                    self.g.count("bcmpbsi:%s:%s" % (op, kind))


def exhaustive(B, huge):
    """one huge column (forces > 64 planes), the other columns hold EVERY value of [-50, 50]"""
    g, r = B.g, B.r
    idx = B.newidx()
    order = list(range(-50, 51))
    r.shuffle(order)
    B.set(idx, 1, huge)
    for v in order:
        B.set(idx, 100 + (v + 50) * 3, v)
    g.emit("bbits %s" % idx["name"])
    g.emit("bdump %s" % idx["name"])
    toks = B.tokens(idx)
    # every operator x every constant of [-52, 52]
    for op in OPS:
        for k in range(-52, 53):
            tok, kind = r.choice(toks)
            B.cmp(idx, op, k, 0, tok, kind)
    # RANGE: every start in [-35, 0] x ends >= 0 (ranges across zero)
    for s0 in range(-35, 1):
        for e0 in [0] + r.sample([1, 2, 3, 5, 7, 12, 21, 40, 50, 52], 5):
            tok, kind = r.choice(toks)
            B.cmp(idx, "RANGE", s0, e0, tok, kind)
            g.count("range:across-zero")
    # RANGE: same-sign pairs
    for s0 in range(-52, 53, 6):
        for e0 in range(s0, 53, 5):
            if (s0 < 0) == (e0 < 0):
                tok, kind = r.choice(toks)
                B.cmp(idx, "RANGE", s0, e0, tok, kind)
                g.count("range:same-sign")
    # RANGE: start > end (empty), the huge value and the extremes of the width as ends
    lo, hi = B.domain(idx)
    for (s0, e0) in [(3, -3), (0, -1), (50, 49), (-50, huge), (huge, huge), (lo, hi), (lo, -1), (0, hi), (huge - 1, huge + 1) if lo <= huge - 1 and huge + 1 <= hi else (0, 0),
                     (lo, lo), (hi, hi)]:
        s0, e0 = (s0, e0)
        if lo <= s0 <= hi and lo <= e0 <= hi:
            tok, kind = r.choice(toks)
            B.cmp(idx, "RANGE", s0, e0, tok, kind)
    for op in OPS:
        for k in (huge, huge - 1, huge + 1, lo, hi, lo + 1, hi - 1):
            if lo <= k <= hi:
                tok, kind = r.choice(toks)
                B.cmp(idx, op, k, 0, tok, kind)
    B.minmax(idx, toks)
    B.gets(idx, 6)
    B.beq(idx, 6)
    g.emit("bdump %s" % idx["name"])
    return idx


def pool_values(r, base):
    d = r.choice([0, 0, 1, -1, 2, -2, 3, r.randint(-1000, 1000)])
    return base + d


def random_wide(B, bases, ncols):
    """random index with values around the given bases"""
    g, r = B.g, B.r
    idx = B.newidx()
    cols = set()
    while len(cols) < ncols:
        cols.add(r.choice([r.randrange(40), r.randrange(300), 65535, 65536, (1 << 32) - 1, 1 << 32, (1 << 32) + 5, 1 << 40, 1 << 63, U64 - 1,
                           r.randrange(U64)]))
    cols = sorted(cols)
    for c in cols:
        c0 = r.random()
        if c0 < 0.6:
            v = pool_values(r, r.choice(bases))
        elif c0 < 0.85:
            v = r.choice([0, 0, 1, -1, 5, -7, 70000, -70000, I64MAX, I64MIN, I64MAX - 1, I64MIN + 1])
        else:
            v = r.randint(-(1 << 72), 1 << 72)
        B.set(idx, c, v)
    # overwrites with narrower / other values, a few deletions: the planes get a history
    for _ in range(r.choice([0, 1, 3])):
        B.set(idx, r.choice(cols), r.choice([0, -1, 3, pool_values(r, r.choice(bases))]))
    if ncols > 3 and r.random() < 0.4:
        B.clr(idx, r.sample(cols, r.choice([1, 2])))
    g.emit("bbits %s" % idx["name"])
    g.emit("bdump %s" % idx["name"])
    return idx


def queries(B, idx, nq):
    g, r = B.g, B.r
    lo, hi = B.domain(idx)
    toks = B.tokens(idx)
    stored = list(idx["vals"].values())
    pool = [0, 1, -1, lo, hi, lo + 1, hi - 1, I64MAX, I64MIN, I64MAX + 1, I64MIN - 1, U64, -U64, U64 - 1, 1 << 70, -(1 << 70)]
    for v in stored:
        pool += [v, v - 1, v + 1]
    pool = sorted(set(k for k in pool if lo <= k <= hi))
    for _ in range(nq):
        tok, kind = r.choice(toks)
        op = r.choice(OPS + ("RANGE", "RANGE"))
        k, k2 = r.choice(pool), r.choice(pool)
        if op == "RANGE" and k > k2 and r.random() < 0.85:
            k, k2 = k2, k
        B.cmp(idx, op, k, k2, tok, kind)
    B.minmax(idx, toks)
    B.gets(idx, 3)
    B.beq(idx, 3)
    return toks


@suite("bsibig")
def _bsibig(g, scale):
    B = Big(g)
    r = g.r
    # 1. exhaustive small values next to one huge column
    huges = [(1 << 70) + 3, -(1 << 81)]
    exh = [exhaustive(B, h) for h in huges]
    # 2. CompareBSI: wide x wide (same / different width), wide x narrow, partially overlapping columns, mixed signs
    a = B.newidx()
    b = B.newidx()
    c = B.newidx()          # narrow (at most 64 planes)
    B.set(a, 1, (1 << 70) + 3)
    B.set(b, 2, -(1 << 90))
    for v in range(-12, 13):
        col = 100 + (v + 12)
        if v % 5 != 0:
            B.set(a, col, v)
        if v % 4 != 0:
            B.set(b, col, r.choice([v, v, -v, v + 1, v - 1, 0]))
        if v % 3 != 0:
            B.set(c, col, r.choice([v, -v, v + 1, 7, -7]))
    B.set(a, 300, 1 << 69)
    B.set(b, 300, 1 << 69)
    B.set(a, 301, -(1 << 69))
    B.set(b, 301, -(1 << 69) - 1)
    # c stays at 64 planes (BitCount 63); its widest values have their top VALUE bit different from the sign bit, so reading a
    # wrong plane of the narrower index when it is sign-extended shows
    B.set(a, 302, I64MIN + 1)
    B.set(c, 302, I64MIN + 1)
    B.set(b, 302, I64MIN + 2)
    B.set(a, 303, I64MAX)
    B.set(c, 303, I64MAX - 1)
    B.set(b, 303, I64MAX - 1)
    B.set(b, 304, 1)
    B.set(c, 304, -1)
    B.set(a, 305, -(1 << 62) - 5)
    B.set(c, 305, (1 << 62) + 5)
    for x in (a, b, c):
        g.emit("bbits %s" % x["name"])
        g.emit("bdump %s" % x["name"])
    for (x, y) in ((a, b), (b, a), (a, c), (c, a), (b, c), (c, b), (a, a), (exh[0], exh[1]), (exh[1], a), (c, exh[0])):
        B.cmpbsi(x, y, B.tokens(x))
    # an empty partner / an empty universe
    e = B.newidx()
    B.cmpbsi(a, e, [("-", "ex"), ("@", "ex")])
    B.cmpbsi(e, a, [("-", "ex")])
    # 3. random wide indexes: values around +-2^63, +-2^64, +-2^70; widths exactly at the 64/65-plane boundary
    plans = [
        ([1 << 63, -(1 << 63)], 8), ([1 << 64, -(1 << 64)], 8), ([1 << 70, -(1 << 70)], 8),
        ([I64MAX], 6),                      # 64 planes: the plane algebra answers
        ([1 << 63], 6),                     # 65 planes: the first width of the per-column path
        ([I64MIN], 6),                      # -2^63 needs 65 planes as well
        ([1 << 63, 1 << 64, 1 << 70, -(1 << 63), -(1 << 64), -(1 << 70)], 20),
        ([(1 << 100) + 12345], 3), ([-(1 << 64) - 1], 1),
    ]
    n_eps = max(1, int(round(len(plans) * scale)))
    prev = None
    for i in range(n_eps):
        bases, ncols = plans[i % len(plans)]
        idx = random_wide(B, bases, ncols)
        queries(B, idx, 40)
        if prev is not None and idx["vals"]:
            # share some columns with the previous index, then compare the two
            for col in r.sample(sorted(prev["vals"]), min(3, len(prev["vals"]))):
                B.set(idx, col, r.choice([prev["vals"][col], prev["vals"][col] + 1, prev["vals"][col] - 1, -prev["vals"][col]]))
            B.cmpbsi(idx, prev, B.tokens(idx))
            B.cmpbsi(prev, idx, B.tokens(prev))
        g.emit("bdump %s" % idx["name"])
        prev = idx
    add_plane_checks(g)
