"""Many-way aggregates (C11, with C07 independence and C09 well-formedness riders) and the parallel code (C12).

Suites
  agg    lists of 0..12 bitmaps x kind mixes x key ranges anywhere (incl. the top of the key space) x key spans below /
         above 4 x workers x workers in {0,1,2,3,4,7,16,64}; duplicates, empty members, equal-but-distinct members,
         hundreds of keys; after every aggregate `wf y`, and often `aggindep` (mutate the result, look at an input; or
         mutate an input, look at the result).
  sched  GOMAXPROCS x workers x list shapes (zero work items, more work items than channel capacity), 20-50 repetitions
         each, plus concurrent decoding through the pooled reader adapters.

Every group of lines starts with a comment `# group <class>` and uses only names defined inside the group, so
tools/agg_triage.py can check the groups independently (the checker proper stops at the first diverging line).
"""
from genlib import G, suite, CH, U32  # noqa: F401
from gen_kern import rand_set, render, card

WORKERS = [0, 1, 2, 3, 4, 7, 16, 64]
SPANS = [1, 2, 3, 4, 5, 7, 8, 9, 12, 13, 16, 17, 27, 28, 29, 63, 64, 65, 100, 255, 256, 257, 300, 1000, 65536]
SEQ = ["fastor", "fastand", "heapor", "heapxor"]
PAR = ["paror", "parand", "parheapor"]


def pick_kind(g, ivs):
    """a container kind under which `ivs` is a VALID container (Bitmap.Validate accepts it): arrays up to 4096 values,
    bitmaps above, runs only when strictly smaller than both alternatives (4r+2 < min(8224, 2*card))"""
    c = card(ivs)
    kinds = ["A"] if c <= 4096 else ["B"]
    if 4 * len(ivs) + 2 < min(8224, 2 * c):
        kinds += ["R", "R"]
    return g.r.choice(kinds)


# ------------------------------------------------------------------------------------------------ key universes
def key_universe(g):
    """returns (sorted keys, class name): the chunk keys the bitmaps of one list draw from"""
    r = g.r
    cls = r.choices(["one", "low", "mid", "top", "top100", "ff00", "wide"], [1, 5, 4, 5, 3, 3, 2])[0]
    if cls == "one":
        g.count("keys:one")
        return [r.choice([0, 1, 0x7FFF, 0xFFFE, 0xFFFF, r.randrange(65536)])], cls
    if cls == "top100":
        lo, hi = 65436, 65535
    elif cls == "ff00":
        lo = r.randrange(0xFF00, 0xFFFF)
        hi = r.randrange(lo + 1, 0x10000)
    elif cls == "wide":
        lo = r.choice([0, 0, 1, 17, r.randrange(1000)])
        hi = r.choice([65535, 65535, 65534, 40000, r.randrange(20000, 65536)])
    else:
        span = r.choice(SPANS[:-1])
        if cls == "low":
            lo = r.choice([0, 0, 1, 5])
        elif cls == "mid":
            lo = r.randrange(0, 65536 - span)
        else:
            lo = 65536 - span
        hi = lo + span - 1
    span = hi - lo + 1
    if span <= 20:
        nk = r.randint(1, span)
    else:
        nk = min(span, r.choice([2, 3, 5, 10, 10, 40, 150, 400]))
    ks = set(r.sample(range(lo, hi + 1), nk)) | {lo, hi}
    g.count("keys:" + cls)
    g.count("span:%s" % ("1" if span == 1 else "<=16" if span <= 16 else "<=64" if span <= 64 else "<=256" if span <= 256 else ">256"))
    if len(ks) >= 100:
        g.count("keys:hundreds")
    return sorted(ks), cls


def tiny_set(g):
    r = g.r
    c = r.random()
    if c < 0.35:
        v = g.lowval()
        return [(v, v)]
    if c < 0.6:
        vs = sorted({g.lowval() for _ in range(r.randrange(2, 6))})
        return _coalesce(vs)
    if c < 0.75:
        return [(0, CH - 1)]
    if c < 0.85:
        return [(0, r.choice([0, 1, 4095, 4096, 32767]))]
    if c < 0.95:
        return [(r.choice([1, 32768, 61440, 65535]), CH - 1)]
    v = g.lowval()
    return [(a, b) for a, b in [(0, v - 1), (v + 1, CH - 1)] if a <= b]


def _coalesce(vs):
    out = []
    for v in vs:
        if out and out[-1][1] + 1 == v:
            out[-1] = (out[-1][0], v)
        else:
            out.append((v, v))
    return out


def partition(g, n):
    """n pieces of [0,65535] whose union is everything (or everything but one value)"""
    r = g.r
    cuts = sorted(r.sample(range(1, CH), n - 1)) if n > 1 else []
    bounds = [0] + cuts + [CH]
    pieces = [[(bounds[i], bounds[i + 1] - 1)] for i in range(n)]
    if r.random() < 0.4:
        # punch one hole
        i = r.randrange(n)
        a, b = pieces[i][0]
        v = r.randint(a, b)
        pieces[i] = [(x, y) for x, y in [(a, v - 1), (v + 1, b)] if x <= y]
    r.shuffle(pieces)
    return pieces


def build_pool(g, m, keys, tag):
    """m bitmaps over subsets of `keys`; returns the list of names (all non-empty)"""
    r = g.r
    lo, hi = keys[0], keys[-1]
    big = len(keys) > 40
    parts = {}
    names = []
    subsets = []
    for i in range(m):
        c = r.choice(["all", "half", "prefix", "suffix", "one", "alt"])
        if c == "all" or len(keys) == 1:
            ks = list(keys)
        elif c == "half":
            ks = [k for k in keys if r.random() < 0.5]
        elif c == "prefix":
            ks = keys[:r.randint(1, len(keys))]
        elif c == "suffix":
            ks = keys[r.randrange(len(keys)):]
        elif c == "one":
            ks = [r.choice(keys)]
        else:
            ks = keys[r.randrange(2)::2]
        subsets.append(set(ks) or {r.choice(keys)})
        g.count("subset:" + c)
    # the intended extremes must be present somewhere in the list
    subsets[r.randrange(m)].add(lo)
    subsets[r.randrange(m)].add(hi)
    for i in range(m):
        x = g.fresh(tag)
        names.append(x)
        via_ops = (not big) and r.random() < 0.25
        if via_ops:
            # through the library's own mutators
            g.emit("new %s" % x)
            for k in sorted(subsets[i]):
                g.chunk_ops(x, k)
            g.count("build:ops")
        else:
            slots = []
            cow = r.random() < 0.3
            for k in sorted(subsets[i]):
                c = r.random()
                if big:
                    ivs = tiny_set(g) if c < 0.93 else rand_set(g)
                elif c < 0.1:
                    ivs = [(0, CH - 1)]
                    g.count("content:full")
                elif c < 0.55:
                    ivs = rand_set(g)
                elif c < 0.8:
                    if k not in parts:
                        parts[k] = partition(g, m)
                    ivs = parts[k][i]
                    g.count("content:partition")
                else:
                    ivs = tiny_set(g)
                if not ivs:
                    v = g.lowval()
                    ivs = [(v, v)]
                flag = "/f" if r.random() < (0.35 if cow else 0.05) else ""
                slots.append("%d:%s%s" % (k, render(g, ivs, pick_kind(g, ivs)), flag))
            g.emit("mkrepr %s cow=%d;%s" % (x, 1 if cow else 0, ";".join(slots)))
            g.count("build:mkrepr")
        c = r.random()
        if c < 0.25:
            g.emit("opt %s" % x)
        if r.random() < 0.2:
            g.emit("setcow %s %d" % (x, r.randrange(2)))
    return names


def make_list(g, pool, n, tag):
    """n operand names drawn from the pool, with duplicates, empty members and equal-but-distinct members"""
    r = g.r
    if n == 0:
        return []
    lst = list(pool[:n])
    while len(lst) < n:
        c = r.random()
        if c < 0.4 and pool:
            lst.append(r.choice(pool))          # the same object again
            g.count("list:dup")
        elif c < 0.7:
            e = g.fresh(tag + "e")
            g.emit("new %s" % e)
            lst.append(e)
            g.count("list:empty-member")
        elif pool:
            c2 = g.fresh(tag + "c")
            g.emit("%s %s %s" % (r.choice(["clone", "cowclone"]), c2, r.choice(pool)))
            lst.append(c2)
            g.count("list:equal-distinct")
        else:
            e = g.fresh(tag + "e")
            g.emit("new %s" % e)
            lst.append(e)
    r.shuffle(lst)
    return lst


def pick_workers(g, span, k=2):
    """worker counts on both sides of span vs 4*w when possible"""
    r = g.r
    below = [w for w in WORKERS if w and 4 * w > span]       # chunkSize 1
    above = [w for w in WORKERS if w and 4 * w <= span]
    out = []
    if below:
        out.append(r.choice(below))
    if above:
        out.append(r.choice(above))
    if r.random() < 0.4:
        out.append(0)
    while len(out) < k:
        out.append(r.choice(WORKERS))
    r.shuffle(out)
    for w in out[:k + 1]:
        g.count("workers:%d" % w)
        if w:
            g.count("span-vs-4w:%s" % ("below" if span < 4 * w else "above-or-eq"))
    return out[:k + 1]


def indep(g, y, lst, nonempty):
    """value-semantics rider: mutate the result / the inputs in every chunk of an input and look at the other one.
    One-sided sharing (only one of the two holders marked copy-on-write) is visible in one direction only and is
    destroyed by a write in the other direction, so both orders of the two passes are generated."""
    r = g.r
    cands = []
    for a in lst:
        if a in nonempty and a not in cands:
            cands.append(a)
    if not cands:
        return
    r.shuffle(cands)
    cands = cands[:4]
    c = r.random()
    order = [["in"], ["res"], ["in", "res"], ["res", "in"]][r.randrange(4)]
    extras = []
    for a in lst:
        if a not in extras and a != y:
            extras.append(a)
    for d in order:
        for a in cands:
            g.emit(("aggindep %s %s %s %s" % (y, a, d, " ".join(b for b in extras if b != a))).rstrip())
            g.count("indep:" + d)
    if r.random() < 0.25:
        g.emit("wf %s" % y)
        g.emit("size %s" % y)


def agg_group(g, forced_cls=None):
    r = g.r
    keys, cls = key_universe(g)
    if forced_cls == "top100":
        keys = sorted(set(r.sample(range(65436, 65536), r.choice([2, 5, 30]))) | {65436, 65535})
        cls = "top100"
    span = keys[-1] - keys[0] + 1
    n = r.choices(range(13), [2, 3, 6, 6, 5, 3, 2, 2, 1, 1, 1, 1, 1])[0]
    big = len(keys) > 40
    m = 0 if n == 0 else r.randint(1, min(n, 3 if big else 5))
    g.emit("# group agg %s n=%d" % (cls, n))
    tag = "g%d_" % g.fresh_group()
    pool = build_pool(g, m, keys, tag) if m else []
    if n and r.random() < 0.06:
        pool = []                                            # a list of empties only
        g.count("list:all-empty")
    lst = make_list(g, pool, n, tag)
    nonempty = set(pool) | {a for a in lst if not a.startswith(tag + "e")}
    g.count("list:n=%d" % n)
    L = " ".join(lst)
    fns = SEQ + PAR + ["andany", "andany", "andany-self"]
    r.shuffle(fns)
    fns = fns[:r.randint(4, len(fns))]
    # the order of the operands must not matter either
    for fn in fns:
        order = list(lst)
        if r.random() < 0.5:
            r.shuffle(order)
        L = " ".join(order)
        if fn in SEQ:
            y = g.fresh(tag + "y")
            g.emit(("%s %s %s" % (fn, y, L)).rstrip())
            g.emit("wf %s" % y)
            g.emit("size %s" % y)
            g.count("fn:" + fn)
            if r.random() < 0.6:
                indep(g, y, order, nonempty)
        elif fn in PAR:
            for w in pick_workers(g, span):
                y = g.fresh(tag + "y")
                g.emit(("%s %s %d %s" % (fn, y, w, L)).rstrip())
                g.emit("wf %s" % y)
                g.emit("size %s" % y)
                g.count("fn:" + fn)
                if r.random() < 0.5:
                    indep(g, y, order, nonempty)
        elif fn == "andany" and n >= 1:
            x = g.fresh(tag + "x")
            if pool and r.random() < 0.7:
                g.emit("%s %s %s" % (r.choice(["clone", "cowclone"]), x, r.choice(pool)))
            else:
                g.emit("new %s" % x)
                for k in r.sample(keys, min(len(keys), r.randint(1, 4))):
                    g.chunk_ops(x, k)
            g.emit("andany %s %s" % (x, L))
            g.emit("wf %s" % x)
            g.emit("size %s" % x)
            g.count("fn:andany")
            if r.random() < 0.5:
                indep(g, x, order, nonempty)
        elif fn == "andany-self" and n >= 1 and pool:
            # the receiver appears in its own list
            x = g.fresh(tag + "x")
            g.emit("clone %s %s" % (x, r.choice(pool)))
            order[r.randrange(len(order))] = x
            if r.random() < 0.3:
                order.append(x)
            g.emit("andany %s %s" % (x, " ".join(order)))
            g.emit("wf %s" % x)
            g.emit("size %s" % x)
            g.count("fn:andany-self")


def layers_group(g):
    """directed at the chunk-local merge of ParOr (lazyOrOnRange, then lazyIOrOnRange for the 3rd, 4th.. bitmap) and at
    FastOr's in-place lazy union: later bitmaps bring keys that sort BEFORE keys already merged, and keys that are already
    there; many full chunks; copy-on-write inputs; few workers so that a chunk of the key range holds several keys"""
    r = g.r
    span = r.choice([8, 9, 16, 24, 40, 130])
    lo = r.choice([0, 3, 1000, 65536 - span, r.randrange(65536 - span)])
    keys = list(range(lo, lo + span))
    n = r.randint(3, 6)
    tag = "g%d_" % g.fresh_group()
    g.emit("# group agg layers n=%d" % n)
    names = []
    hot = sorted(set(r.sample(keys, min(span, r.choice([4, 6, 10])))) | {keys[0], keys[-1]})
    for i in range(n):
        ks = sorted(r.sample(hot, r.randint(1, len(hot))))
        if i == 0:
            ks = sorted(set(ks) | {keys[-1]})
        if i == 1:
            ks = sorted(set(ks) | {keys[0]})
        slots = []
        cow = r.random() < 0.5
        for k in ks:
            c = r.random()
            if c < 0.3:
                ivs = [(0, CH - 1)]
            elif c < 0.7:
                ivs = tiny_set(g)
            else:
                ivs = rand_set(g) or [(9, 9)]
            flag = "/f" if r.random() < (0.3 if cow else 0.03) else ""
            slots.append("%d:%s%s" % (k, render(g, ivs, pick_kind(g, ivs)), flag))
        x = g.fresh(tag)
        g.emit("mkrepr %s cow=%d;%s" % (x, 1 if cow else 0, ";".join(slots)))
        names.append(x)
    g.count("group:layers")
    for _ in range(r.randint(2, 3)):
        order = list(names)
        r.shuffle(order)
        if r.random() < 0.3:
            order.append(r.choice(names))
        fn = r.choice(["paror", "paror", "paror", "fastor", "parheapor"])
        y = g.fresh(tag + "y")
        if fn == "fastor":
            g.emit("fastor %s %s" % (y, " ".join(order)))
        else:
            w = r.choice([1, 1, 2, 3]) if fn == "paror" else r.choice(WORKERS)
            g.emit("%s %s %d %s" % (fn, y, w, " ".join(order)))
            g.count("workers:%d" % w)
        g.count("fn:" + fn)
        g.emit("wf %s" % y)
        g.emit("size %s" % y)
        indep(g, y, order, set(names))


CARDS = [1, 2, 100, 2000, 2048, 2049, 4000, 4095, 4096, 4097, 5000, 30000, 60000, 65535, 65536]


def card_set(g):
    """one or two ranges with a cardinality from the threshold pool, at an offset from a small pool (so that members of
    a list overlap, nest, or are disjoint)"""
    r = g.r
    c = r.choice(CARDS)
    if c == CH:
        return [(0, CH - 1)]
    off = r.choice([0, 0, 10, 1000, 3000, 4096, 30000, CH - c])
    off = min(off, CH - c)
    if c >= 4 and r.random() < 0.3:
        # split in two runs with a one-value gap (if room)
        h = c // 2
        if off + c + 1 <= CH:
            return [(off, off + h - 1), (off + h + 1, off + c)]
    return [(off, off + c - 1)]


def cards_group(g):
    """directed at the cardinality bookkeeping of the aggregates: few keys, range-like chunks whose cardinalities (and
    sums of cardinalities) sit around 4096 / 65536; AndAny receivers of every kind, including full chunks"""
    r = g.r
    k0 = r.choice([0, 5, 65533, r.randrange(65533)])
    keys = list(range(k0, k0 + r.randint(1, 3)))
    n = r.randint(1, 6)
    tag = "g%d_" % g.fresh_group()
    g.emit("# group agg cards n=%d" % n)
    g.count("group:cards")

    def mk(name, always_all=False):
        slots = []
        for k in keys:
            if not always_all and len(keys) > 1 and r.random() < 0.25:
                continue
            ivs = card_set(g)
            if always_all and r.random() < 0.3:
                ivs = [(0, CH - 1)]              # a full chunk in the receiver
            slots.append("%d:%s" % (k, render(g, ivs, pick_kind(g, ivs))))
        if not slots:
            slots.append("%d:A:7" % keys[0])
        g.emit("mkrepr %s cow=%d;%s" % (name, r.randrange(2) if r.random() < 0.3 else 0, ";".join(slots)))

    pool = []
    for _ in range(r.randint(1, min(n, 4))):
        a = g.fresh(tag)
        mk(a)
        pool.append(a)
    lst = list(pool)
    while len(lst) < n:
        lst.append(r.choice(pool))
    x0 = g.fresh(tag + "r")
    mk(x0, always_all=True)
    for _ in range(r.randint(3, 6)):
        r.shuffle(lst)
        fn = r.choice(["andany", "andany", "andany", "fastor", "fastand", "heapor", "heapxor", "paror", "parand", "parheapor"])
        g.count("fn:" + fn)
        if fn == "andany":
            x = g.fresh(tag + "x")
            g.emit("%s %s %s" % (r.choice(["clone", "clone", "cowclone"]), x, x0))
            g.emit("andany %s %s" % (x, " ".join(lst)))
            g.emit("wf %s" % x)
            g.emit("size %s" % x)
        elif fn in SEQ:
            y = g.fresh(tag + "y")
            g.emit("%s %s %s" % (fn, y, " ".join(lst)))
            g.emit("wf %s" % y)
            g.emit("size %s" % y)
        else:
            y = g.fresh(tag + "y")
            g.emit("%s %s %d %s" % (fn, y, r.choice(WORKERS), " ".join(lst)))
            g.emit("wf %s" % y)
            g.emit("size %s" % y)


def sparse_group(g):
    """three or more operands holding ARRAY chunks of a few hundred to ~1500 values at the same keys, whose union stays
    at or below 4096 (or just crosses it): the in-place lazy union of the 3rd, 4th … operand decides array / bitmap by
    the SUM of the cardinalities, the repair step must bring the chunk back to its canonical kind"""
    r = g.r
    tag = "g%d_" % g.fresh_group()
    g.emit("# group agg sparse")
    g.count("group:sparse")
    keys = sorted(r.sample(range(0, 65536), r.choice([1, 2, 3])))
    n = r.choice([3, 3, 4, 5])
    target = r.choice([1500, 3000, 4000, 4096, 4097, 4300])      # size of the union in the first key
    universe = sorted(r.sample(range(CH), target))
    names = []
    # which operands hold which key: every key in at least two operands, often NOT in the first two (so that the chunk is
    # still an array when the 3rd, 4th … operand is merged in place)
    holders = {k: set(r.sample(range(n), 2 if r.random() < 0.6 else r.randint(2, n))) for k in keys}
    for i in range(n):
        slots = []
        for j, k in enumerate(keys):
            if i not in holders[k]:
                continue
            hs = sorted(holders[k])
            if j == 0:
                vs = sorted(set(universe[hs.index(i)::len(hs)]) | set(r.sample(universe, min(len(universe), r.choice([0, 50, 400])))))
            else:
                vs = sorted(r.sample(range(CH), r.choice([300, 600, 1100])))
            vs = vs[:4096]
            slots.append("%d:A:%s" % (k, ",".join(map(str, vs))))
        if not slots:
            slots.append("%d:A:%d" % ((keys[-1] + 1 + i) % 65536, i))
        slots.sort(key=lambda t: int(t.split(":")[0]))
        a = g.fresh(tag)
        g.emit("mkrepr %s cow=%d;%s" % (a, r.randrange(2) if r.random() < 0.3 else 0, ";".join(slots)))
        names.append(a)
    for fn in SEQ + PAR:
        r.shuffle(names)
        # every rotation: each operand is merged first, second and later (the in-place lazy union starts with the 3rd)
        orders = [names[i:] + names[:i] for i in range(len(names))] if fn == "fastor" else [list(names), names[::-1]]
        for names in orders:
            y = g.fresh(tag + "y")
            if fn in PAR:
                g.emit("%s %s %d %s" % (fn, y, r.choice(WORKERS), " ".join(names)))
            else:
                g.emit("%s %s %s" % (fn, y, " ".join(names)))
            g.emit("wf %s" % y)
            g.emit("size %s" % y)
            g.count("fn:" + fn)


def _fresh_group(self):
    self._grp = getattr(self, "_grp", 0) + 1
    return self._grp


G.fresh_group = _fresh_group


def _flip_flagged(self):
    """alternates between the two ways of obtaining flagged containers (deterministic)"""
    self._ff = not getattr(self, "_ff", False)
    return self._ff


G.flip_flagged = _flip_flagged


@suite("agg")
def _agg(g, scale):
    ngroups = int(40 * scale)
    for i in range(ngroups):
        if i % 5 == 2:
            layers_group(g)
        elif i % 5 == 4:
            cards_group(g)
            cards_group(g)
            if i % 10 == 4:
                sparse_group(g)
        else:
            agg_group(g, "top100" if i % 9 == 4 else None)
    # AndAny on a receiver with MIXED copy-on-write flags (a copy-on-write clone edited in one chunk; the other chunks are still shared
    # with the source) whose earlier keys are dropped by the intersection: the source must stay what it was
    g.emit("# group agg andany-mixed-flags")
    CHK = 65536
    for drop in ((5,), (5, 6), ()):
        for kind in ("A:10,20,30,40", "B:32768:5555555555555555*1024", "R:10+40,100+5"):
            a, x, m1, m2 = g.fresh("am"), g.fresh("am"), g.fresh("am"), g.fresh("am")
            g.emit("mkrepr %s cow=1;5:A:1,2,3;6:A:4,5;7:%s;9:%s;11:A:7,8" % (a, kind, kind))
            g.emit("cowclone %s %s" % (x, a))
            g.emit("add %s %d" % (x, 5 * CHK + 9))               # chunk 5 becomes private to x, the others stay shared
            keep = [k for k in (5, 6) if k not in drop]
            g.emit("mkrepr %s cow=0;%s7:A:10,12,20;9:A:10,12,14;11:A:7" % (m1, "".join("%d:A:1,2,4,5,9;" % k for k in keep)))
            g.emit("mkrepr %s cow=0;7:A:14,30;9:A:16,30" % m2)
            g.emit("andany %s %s %s" % (x, m1, m2))
            g.emit("wf %s" % x)
            g.emit("dig %s" % x)
            g.emit("dig %s" % a)
            g.emit("add %s %d" % (x, 9 * CHK + 100)); g.emit("rem %s %d" % (x, 7 * CHK + 10))
            g.emit("dig %s" % a)
            g.emit("fastor %s %s %s" % (g.fresh("am"), a, m2))
        g.count("agg:fixed-andany-mixed-flags")
    # fixed corner cases, cheap and always present
    g.emit("# group agg fixed")
    g.emit("new fe")
    g.emit("of fa 1 2 3 65536 4294967295")
    g.emit("of fb 2 3 4 131072 4294901760")
    for fn in SEQ:
        g.emit("%s fy_%s" % (fn, fn))
        g.emit("%s fz_%s fa" % (fn, fn))
        g.emit("%s fw_%s fa fa" % (fn, fn))
        g.emit("%s fv_%s fe fa fe" % (fn, fn))
        g.emit("%s fu_%s fa fb fa fb" % (fn, fn))
    for fn in PAR:
        for w in WORKERS:
            g.emit("%s fy_%s%d %d" % (fn, fn, w, w))
            g.emit("%s fz_%s%d %d fa" % (fn, fn, w, w))
            g.emit("%s fw_%s%d %d fa fa" % (fn, fn, w, w))
            g.emit("%s fv_%s%d %d fe fa fe" % (fn, fn, w, w))
            g.emit("%s fu_%s%d %d fa fb fa fb" % (fn, fn, w, w))
            g.emit("wf fu_%s%d" % (fn, w))
    # many workers and a key span from 0 to 65535: the chunking arithmetic (chunk size rounded up, chunk starts in uint16)
    g.emit("# group agg fixed-wide-manyworkers")
    g.emit("of wa 5 %d %d %d %d" % (1 << 16, 30000 << 16, (65534 << 16) + 7, (65535 << 16) + 65535))
    g.emit("of wb 6 %d %d %d" % ((1 << 16) + 1, (40000 << 16) + 3, (65535 << 16) + 1))
    g.emit("of wc %d %d" % ((20000 << 16) + 9, (65533 << 16) + 2))
    for w in [70, 96, 128, 192, 255, 256, 257, 1000, 4096, 65535] if g.r.random() < 2 else []:
        for fn in PAR:
            y = g.fresh("wy")
            g.emit("%s %s %d wa wb wc" % (fn, y, w))
            g.emit("wf %s" % y)
        g.count("agg:wide-manyworkers")
    # a key present in exactly two operands: array (or short run) in the first, a non-full run in the second, union <= 4096 —
    # eager unions inside the lazy pipeline must still end in the canonical container kind
    g.emit("# group agg fixed-eager-in-lazy")
    for j, first in enumerate(["A:5,9,700,701,9000", "R:100+20,4000+3", "A:1"]):
        k = [7, 30000, 65535][j]
        a, b, c = g.fresh("ea"), g.fresh("eb"), g.fresh("ec")
        g.emit("mkrepr %s cow=0;%d:A:3;%d:%s" % (a, max(0, k - 5), k, first) if k >= 5 else "mkrepr %s cow=0;%d:%s" % (a, k, first))
        g.emit("mkrepr %s cow=0;%d:R:50+300,2000+40" % (b, k))
        g.emit("mkrepr %s cow=0;%d:A:1,2" % (c, max(0, k - 3)))
        for fn, w in [("paror", 1), ("paror", 2), ("parheapor", 1), ("parheapor", 3), ("fastor", None), ("heapor", None)]:
            for order in ([a, b, c], [b, a, c], [c, a, b]):
                y = g.fresh("ey")
                g.emit(("%s %s %s %s" % (fn, y, "" if w is None else str(w), " ".join(order))).replace("  ", " "))
                g.emit("wf %s" % y)
                g.emit("size %s" % y)
        g.count("agg:eager-in-lazy")
    # three sparse array operands; the key of interest is held by the FIRST and the LAST only (the in-place lazy union of the third
    # operand meets an array chunk), union well below 4096 but sum of cardinalities above the lazy lower bound
    g.emit("# group agg fixed-sparse3")
    for k, n1, n2 in [(0, 700, 700), (4000, 600, 1500), (65535, 1025, 5)]:
        a, b, c = g.fresh("sa"), g.fresh("sb"), g.fresh("sc")
        va = sorted(g.r.sample(range(0, 65536, 2), n1))
        vc = sorted(g.r.sample(range(1, 65536, 2), n2))
        other = (k + 1) % 65536
        g.emit("mkrepr %s cow=0;%s" % (a, ";".join(sorted(["%d:A:%s" % (k, ",".join(map(str, va)))], key=lambda t: int(t.split(":")[0])))))
        g.emit("mkrepr %s cow=0;%d:A:77" % (b, other))
        g.emit("mkrepr %s cow=0;%d:A:%s" % (c, k, ",".join(map(str, vc))))
        for order in ([a, b, c], [c, b, a], [b, a, c], [a, c, b]):
            for fn in ("fastor", "heapor"):
                y = g.fresh("sy")
                g.emit("%s %s %s" % (fn, y, " ".join(order)))
                g.emit("wf %s" % y)
                g.emit("size %s" % y)
        g.count("agg:sparse3")
    # very long lists (more members than a 16-bit counter holds)
    g.emit("# group agg fixed-long-lists")
    for n, k1 in [(1, 3), (1000, 30000), (65536, 40001), (65537, 30000), (65537, 7), (70000, 2), (131073, 50000)]:
        for fn, w in [("parheapor", 1), ("parand", 3), ("paror", 2), ("fastor", 0), ("fastand", 0), ("heapor", 0)]:
            if n > 1000 and fn in ("heapor", "fastor", "fastand") and (n, k1) != (65537, 30000):
                continue
            g.emit("aggmany %s %d %d %d %d" % (fn, w, n, k1, k1 + 1))
        g.count("agg:long-list")
    # inputs whose containers are flagged shared (cloned under copy-on-write; zero-copy views), keys present in one input only:
    # the result is then mutated chunk by chunk and the inputs are looked at again (and the other way round)
    g.emit("# group agg fixed-flagged-inputs")
    g.emit("of qa 5 70000 %d %d" % (30000 << 16, (65535 << 16) + 9))
    g.emit("cowclone qa2 qa")
    g.emit("of qb0 6 %d %d" % ((2 << 16) + 1, (40000 << 16) + 3))
    g.emit("rd qb frombuffer qb0")
    g.emit("of qc %d" % ((50000 << 16) + 1))
    for fn in PAR + SEQ:
        for w in ([1, 2, 3] if fn in PAR else [None]):
            y = g.fresh("qy")
            g.emit(("%s %s %s qa qb qc" % (fn, y, "" if w is None else str(w))).replace("  ", " "))
            g.emit("aggindep %s qa res qb qc qa2" % y)
            y = g.fresh("qy")
            g.emit(("%s %s %s qb qa qc" % (fn, y, "" if w is None else str(w))).replace("  ", " "))
            g.emit("aggindep %s qb res qa qc qa2" % y)
    # five operands over a WIDE key range (so that a worker's share holds several keys); a key that is missing from the earlier
    # operands but lies BETWEEN their keys first appears in a later, flagged operand (clone under copy-on-write / zero-copy view)
    # as a bitmap / array / run chunk, and still later operands have the same key
    g.emit("# group agg fixed-flagged-interior-key")
    K = 11 << 16
    g.emit("of ra 5 %d %d %d" % ((10 << 16) + 1, (12 << 16) + 1, (60000 << 16) + 1))
    g.emit("of rb %d %d" % ((12 << 16) + 2, (13 << 16) + 2))
    g.emit("of rd %d %d" % (K + 1, K + 4))
    g.emit("of re %d %d %d" % (K + 2, K + 65535, (59999 << 16) + 5))
    for shape in ("bitmap", "array", "run"):
        c0 = g.fresh("rc")
        g.emit("new %s" % c0)
        if shape == "bitmap":
            g.emit("addstride %s %d 3 5000" % (c0, K))
        elif shape == "array":
            g.emit("addstride %s %d 3 50" % (c0, K))
        else:
            g.emit("addr %s %d %d" % (c0, K + 300, K + 900))
            g.emit("opt %s" % c0)
        g.emit("addmany %s 7 %d" % (c0, (60000 << 16) + 3))
        cc, cv = g.fresh("rc"), g.fresh("rc")
        g.emit("cowclone %s %s" % (cc, c0))
        g.emit("rd %s frombuffer %s" % (cv, c0))
        for flagged in (cc, cv):
            for fn in PAR + ["fastor", "heapor", "heapxor"]:
                for w in ([1, 2, 3, 0] if fn in PAR else [None]):
                    y = g.fresh("ry")
                    g.emit(("%s %s %s ra rb %s rd re" % (fn, y, "" if w is None else str(w), flagged)).replace("  ", " "))
                    g.emit("aggindep %s %s res ra rb rd re %s" % (y, flagged, c0))
        g.count("agg:flagged-interior-" + shape)
    # an operand with a container in ALL 65536 chunks (and one with 65535): every many-way aggregate, two and three members
    g.emit("# group agg fixed-all-chunks")
    g.emit("new ua")
    g.emit("addstride ua 9 65536 65536")
    g.emit("new ub")
    g.emit("addstride ub 65545 65536 65535")
    g.emit("of uf 9 65545 %d 77" % ((65535 << 16) + 9))
    g.emit("of ug 9 %d" % ((40000 << 16) + 9))
    for fn in PAR + SEQ:
        for names in (["ua", "uf"], ["uf", "ua", "ug"], ["ub", "uf"], ["ua", "ub"]):
            y = g.fresh("uy")
            g.emit(("%s %s %s %s" % (fn, y, "2" if fn in PAR else "", " ".join(names))).replace("  ", " "))
            g.emit("card %s" % y)
    g.emit("clone ux ua")
    g.emit("andany ux uf ug")
    g.count("agg:all-chunks")
    # lists whose other members are all empty (fresh, or filled and emptied): the result is a bitmap of its own
    g.emit("# group agg fixed-empties-indep")
    g.emit("new fe2")
    g.emit("of fe3 7 8")
    g.emit("iandnot fe3 fe3")
    for fn in ("heapor", "heapxor", "fastor", "parheapor 2", "paror 2"):
        for names in (["fa", "fe"], ["fe", "fa"], ["fe", "fe2", "fa"], ["fe3", "fa", "fe"], ["fa", "fe3"]):
            y = g.fresh("hy")
            g.emit("%s %s" % (fn.replace(" ", " %s " % y) if " " in fn else "%s %s" % (fn, y), " ".join(names)))
            g.emit("aggindep %s fa res" % y)
            g.emit("aggindep %s fa in" % y)
    g.emit("clone fx fa")
    g.emit("andany fx fb")
    g.emit("andany fx fx")
    g.emit("andany fx fx fb")
    g.emit("andany fx fe fe")
    # AndAny on a full chunk with members whose cardinalities add up to more than 4096 but whose union does not
    g.emit("# group agg fixed-andany-full")
    g.emit("new ax")
    g.emit("addr ax 0 65536")
    g.emit("new aa")
    g.emit("addr aa 10 3010")
    g.emit("andany ax aa aa")
    g.emit("wf ax")
    # a singleton list must still give an independent result (one group per function)
    for fn in SEQ + PAR:
        for d in ("res", "in"):
            g.emit("# group agg single-%s" % fn)
            g.emit("of sa_%s%s 1 2 3 65536 4294967295" % (fn, d))
            g.emit(("%s sy_%s%s %s sa_%s%s" % (fn, fn, d, "3" if fn in PAR else "", fn, d)).replace("  ", " "))
            g.emit("aggindep sy_%s%s sa_%s%s %s" % (fn, d, fn, d, d))


# ------------------------------------------------------------------------------------------------ sched (C12)
def many_keys_repr(g, keys, cow=0):
    r = g.r
    slots = []
    for k in keys:
        ivs = tiny_set(g) if r.random() < 0.97 else rand_set(g)
        if not ivs:
            ivs = [(7, 7)]
        slots.append("%d:%s" % (k, render(g, ivs, pick_kind(g, ivs))))
    return "cow=%d;%s" % (cow, ";".join(slots))


def sched_group(g, shape, scale):
    r = g.r
    tag = "s%d_" % g.fresh_group()
    g.emit("# group sched %s" % shape)
    base = r.choice([0, 0, 1000, 30000, 65536 - 700]) if r.random() < 0.85 else 65536 - 130
    names = []

    def span(n):
        """n consecutive keys starting at base, shifted down when they would leave the key space"""
        b = min(base, 65536 - n)
        return range(b, b + n)

    def mk(keys, cow=0):
        x = g.fresh(tag)
        g.emit("mkrepr %s %s" % (x, many_keys_repr(g, keys, cow)))
        names.append(x)
        return x

    if shape == "emptylist":
        pass
    elif shape == "allempty":
        for _ in range(r.randint(2, 5)):
            x = g.fresh(tag)
            g.emit("new %s" % x)
            names.append(x)
    elif shape == "single":
        mk(span(r.choice([1, 40, 300])))
    elif shape == "disjoint":
        # no key is common to all / every key has a single source: zero work items for the workers, but more
        # direct results than the result channel holds (32)
        nb = r.randint(2, 4)
        per = r.choice([20, 50, 150])
        allk = span(nb * per)
        for i in range(nb):
            mk(allk[i::nb])
    elif shape in ("common", "commonwide"):
        # K keys common to all: K work items; 129+ exceeds the input channel (128), 33+ the result channel (32)
        K = r.choice([1, 5, 33, 129, 200, 600]) if shape == "common" else 1200
        nb = r.randint(2, 5)
        for i in range(nb):
            mk(span(K), cow=r.randrange(2))
        g.count("sched:K=%d" % K)
    elif shape == "dups":
        x = mk(span(r.choice([3, 140])))
        names.extend([x, x])
        e = g.fresh(tag)
        g.emit("new %s" % e)
        names.insert(1, e)
    elif shape == "widetop":
        # a few keys spread over the whole key space up to 65535 (or from 65000 up): the chunk grid of ParOr overshoots the top
        lo = r.choice([0, 1, 65000])
        pool_ = sorted(set([lo, 65535, 65534, 65120, 62272, 60096, 49153] + r.sample(range(lo, 65536), 12)))
        pool_ = [k for k in pool_ if k >= lo]
        for i in range(r.randint(2, 4)):
            mk(sorted(set(r.sample(pool_, r.randint(3, len(pool_))) + [65535])), cow=r.randrange(2))
    elif shape == "allchunks":
        # an operand with a container in every one of the 65536 chunks, with small partners
        a_, b_, c_ = g.fresh(tag), g.fresh(tag), g.fresh(tag)
        g.emit("new %s" % a_)
        g.emit("addstride %s 9 65536 65536" % a_)
        g.emit("of %s 9 65545 %d 77" % (b_, (65535 << 16) + 9))
        g.emit("of %s 9 %d" % (c_, (40000 << 16) + 9))
        names.extend([a_, b_, c_])
    elif shape.startswith("flaggedinterior"):
        # five operands over a wide key range; key 11 first appears in the THIRD operand (flagged: clone under copy-on-write, or a
        # zero-copy view) between keys the earlier operands have, as a bitmap / array / run chunk; later operands have key 11 too
        def lit(spec):
            x = g.fresh(tag)
            g.emit("mkrepr %s %s" % (x, spec))
            return x
        kind = shape.split(":")[1] if ":" in shape else r.choice(["B", "B", "A", "R"])
        c11 = {"B": "B:32768:5555555555555555*1024", "A": "A:3,6,9,300", "R": "R:300+600"}[kind]
        a_ = lit("cow=0;0:A:5;10:A:1;12:A:1;60000:A:1")
        b_ = lit("cow=0;12:A:2;13:A:2")
        c0 = lit("cow=1;11:%s;60000:A:3" % c11)
        d_ = lit("cow=0;11:A:1,4")
        e_ = lit("cow=0;11:A:2,65535;59999:A:5")
        c_ = g.fresh(tag)
        if g.flip_flagged():
            g.emit("clone %s %s" % (c_, c0))          # c0 has copy-on-write switched on: both sides share flagged containers
        else:
            g.emit("rd %s frombuffer %s" % (c_, c0))
        names.extend([a_, b_, c_, d_, e_])
        g.count("sched:flaggedinterior:" + kind)
    else:  # mixed
        nb = r.randint(2, 6)
        sp = r.choice([2, 9, 70, 300])
        for i in range(nb):
            ks = sorted(set(r.sample(list(span(sp)), r.randint(1, sp))))
            mk(ks, cow=r.randrange(2))
    g.count("sched:" + shape)
    L = " ".join(names)
    combos = [(p, w) for p in (1, 2, 4, 16) for w in (0, 1, 2, 3, 8, 64)]
    if shape == "widetop":
        combos = [(p, w) for p in (1, 4) for w in (1, 2, 3, 4, 5, 6, 7, 8, 12, 16, 33)]
    if shape == "allchunks":
        combos = [(p, w) for p in (1, 4) for w in (0, 1, 3)]
    if shape.startswith("flaggedinterior"):
        combos = [(p, w) for p in (1, 4) for w in (0, 1, 2, 3, 8, 64)]
    for fn in PAR:
        # half of the GOMAXPROCS x workers grid per (group, function) at scale 1, the full grid from scale 2
        sel = combos if scale >= 2 else r.sample(combos, max(4, int(len(combos) * scale / 2)))
        for p, w in sel:
            reps = r.randint(20, 50) if shape != "allchunks" else 2
            noise = " noise=%d" % r.choice([1, 3]) if r.random() < 0.3 else ""
            g.emit(("sched %s gomaxprocs=%d workers=%d reps=%d%s %s" % (fn, p, w, reps, noise, L)).rstrip())
            g.count("sched:gomaxprocs=%d" % p)
            g.count("sched:workers=%d" % w)
    # worker counts beyond the channel capacities (ParOr: spec channel max(64,2p), chunk channel 32) over a key range wide enough
    # for 4p chunks: every goroutine of the protocol must still make progress
    if shape in ("common", "commonwide", "disjoint", "mixed") and names:
        for fn in PAR:
            g.emit("sched %s gomaxprocs=%d workers=%d reps=3 %s" % (fn, r.choice([1, 4, 16]), r.choice([33, 40, 100, 150]), L))
            g.count("sched:manyworkers")
    # several aggregations over the SAME inputs at the same time (inputs are only read): results equal, inputs unchanged;
    # with the race-detector build of the thorough tier any write to an input is reported
    if len(names) >= 2:
        for fn in PAR:
            g.emit("concagg %s %d %d %s" % (fn, r.choice([2, 4, 8]), r.choice([0, 1, 2, 8]), L))
            g.count("concagg:" + fn)
        # the same with copy-on-write / zero-copy style inputs (all containers already flagged)
        z = []
        for x in names[:3]:
            y = g.fresh(tag)
            g.emit("rd %s frombuffer %s" % (y, x))
            z.append(y)
        if len(z) >= 2:
            g.emit("concagg paror %d %d %s" % (r.choice([4, 8]), r.choice([1, 4]), " ".join(z)))
            g.emit("concagg parheapor %d %d %s" % (r.choice([4, 8]), r.choice([1, 4]), " ".join(z)))
    for x in names[:2]:
        for mode in ("readfrom", "frombuffer", "mixed", "afterfail"):
            g.emit("concdec %d %s %s" % (r.choice([2, 4, 8, 32]), x, mode))
            g.count("concdec:" + mode)


@suite("sched")
def _sched(g, scale):
    shapes = ["emptylist", "allempty", "single", "disjoint", "common", "common", "dups", "mixed", "commonwide", "widetop",
              "flaggedinterior:B", "flaggedinterior:B", "flaggedinterior", "allchunks"]
    for sh in shapes:
        sched_group(g, sh, scale)
    for _ in range(int(2 * scale)):
        sched_group(g, g.r.choice(["disjoint", "common", "mixed"]), scale)
