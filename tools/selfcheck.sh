#!/bin/bash
# Local rehearsal of `vp check`: fresh clone of the committed /verif, setup_cmd, then every quick command once.
set -u
D=/tmp/selfcheck_$$
rm -rf $D; git clone -q /verif $D || exit 1
cd $D
python3 - <<'PY' > cmds.txt
import json
m=json.load(open('MANIFEST.json'))
print(m['setup_cmd'])
for c in m['checks']: print(c['quick_cmd'])
PY
t0=$(date +%s)
bash -c "$(head -1 cmds.txt)" > setup.log 2>&1 || { echo "SETUP FAILED"; tail -20 setup.log; exit 1; }
echo "setup ok $(( $(date +%s)-t0 ))s"
tail -n +2 cmds.txt | while read -r c; do t1=$(date +%s); out=$(VERIF_SEED=${VERIF_SEED:-1} bash -c "$c" 2>&1 | tail -2 | cut -c1-200); echo "$(( $(date +%s)-t1 ))s $out"; done
python3-vt - <<'PY'
import json,jsonschema,glob
sch=json.load(open('/root/.vp/EVIDENCE.schema.json'))
for f in sorted(glob.glob('evidence/*.json')):
    try: jsonschema.validate(json.load(open(f)),sch)
    except Exception as e: print("INVALID",f,str(e)[:100])
print("evidence validated", len(glob.glob('evidence/*.json')))
PY
cd /; rm -rf $D
