"""Iteration protocols of the 32-bit bitmap (C04): iterator objects driven call by call, NextMany buffer sequences,
unset windows, callback / range-func forms with early stop."""
import os
from genlib import G, suite, CH, U32
from gen_kern import rand_set as _rand_set, render, card

# exploration switch (not used by the registered suites' defaults): no chunk without an absent value, so that the
# known unguarded-Next defect of the unset iterator (FINDINGS F-IT-1) does not mask other behaviour in suite iterun
NOFULL = os.environ.get("ITER_NOFULL") == "1"


def rand_set(g):
    while True:
        ivs = _rand_set(g)
        if not (NOFULL and ivs == [(0, CH - 1)]):
            return ivs

MANY_SIZES = [0, 1, 2, 3, 63, 64, 65, 4095, 4096, 4097, 65535, 65536, 65537, 100000]
STOPS = [0, 1, 2, 5, 100, -1]
FULL_B = "B:65536:ffffffffffffffff*1024"
FULL_R = "R:0+65535"


# ------------------------------------------------------------------ bitmaps
def clamp(v):
    return max(0, min(U32 - 1, v))


def global_ivs(chunks):
    """chunks: sorted list of (key, ivs inclusive 16-bit) -> merged inclusive 32-bit intervals"""
    out = []
    for k, ivs in chunks:
        for a, b in ivs:
            lo, hi = k * CH + a, k * CH + b
            if out and out[-1][1] + 1 == lo:
                out[-1] = (out[-1][0], hi)
            else:
                out.append((lo, hi))
    return out


def pool_of(g, keys, ivs):
    """boundary pool of cursor targets / window ends: present values +-1, chunk edges +-1, gap keys, 0, 2^32-1"""
    r = g.r
    p = [0, 1, U32 - 1, U32 - 2]
    for k in keys:
        p += [clamp(k * CH - 1), k * CH, k * CH + 1, clamp((k + 1) * CH - 1), clamp((k + 1) * CH), clamp((k + 1) * CH + 1)]
        # values in the gap keys next to k
        p += [clamp((k + 1) * CH + g.lowval()), clamp((k - 1) * CH + g.lowval())]
    if ivs:
        some = ivs[:8] + ivs[-8:] + [r.choice(ivs) for _ in range(16)]
        for lo, hi in some:
            p += [clamp(lo - 1), lo, clamp(lo + 1), clamp(hi - 1), hi, clamp(hi + 1), (lo + hi) // 2]
    else:
        p += [g.val_near(keys) for _ in range(24)]
    return p


def tracked(g, x, layout=None):
    """bitmap x built from an explicit representation (every container kind chosen here); returns (keys, intervals)"""
    r = g.r
    if layout is None:
        layout = r.choices(["rand", "adjfull", "single", "top", "empty", "bridge"], [10, 0 if NOFULL else 4, 2, 3, 0.5, 4])[0]
    g.count("iterbm:" + layout)
    chunks = []
    if layout == "rand":
        for k in g.keyset():
            ivs = rand_set(g)
            if ivs:
                chunks.append((k, ivs, None))
    elif layout == "adjfull":
        # partially filled chunk reaching its upper edge, n full chunks, chunk starting at its lower edge
        n = r.choice([1, 2, 3, 5])
        s = r.choice([0, 1, 7, 1000, 65536 - n - 2, 65536 - n - 1, 65536 - n])
        if s > 0 and r.random() < 0.8:
            chunks.append((s - 1, [(r.choice([0, 1, 30000, 61439, 65472, 65534, 65535]), CH - 1)], None))
        for i in range(n):
            chunks.append((s + i, [(0, CH - 1)], None))
        if s + n < 65536 and r.random() < 0.8:
            chunks.append((s + n, [(0, r.choice([0, 1, 63, 64, 4095, 4096, 30000]))] +
                           ([(65000, r.choice([65100, CH - 1]))] if r.random() < 0.5 else []), None))
    elif layout == "single":
        v = r.choice([0, 1, 65535, 65536, 65537, U32 - 1, U32 - 2, U32 - CH, r.randrange(U32)])
        chunks.append((v >> 16, [(v & 0xFFFF, v & 0xFFFF)], None))
    elif layout == "top":
        for k in sorted(set([0xFFFF] + [r.choice([0, 0xFFFD, 0xFFFE, 0x8000]) for _ in range(r.randrange(3))])):
            ivs = rand_set(g) or [(65535, 65535)]
            if k == 0xFFFF and r.random() < 0.6 and ivs[-1][1] != CH - 1:
                if ivs[-1][1] == CH - 2:
                    ivs = ivs[:-1] + [(ivs[-1][0], CH - 1)]
                else:
                    ivs = ivs + [(CH - 1, CH - 1)]
            chunks.append((k, ivs, None))
    elif layout == "bridge":
        # values that touch across chunk edges in every pair of container kinds, separated by gaps elsewhere
        s = r.choice([0, 3, 100, 65530])
        for i in range(r.choice([2, 3, 4])):
            ivs = rand_set(g)
            lo_edge = [(0, r.choice([0, 5, 70]))]
            hi_edge = [(CH - 1 - r.choice([0, 5, 70]), CH - 1)]
            mid = [(a, b) for a, b in ivs if a > 80 and b < CH - 80][:r.choice([0, 3, 50, 3000])]
            chunks.append((s + i, (lo_edge if r.random() < 0.8 else []) + mid + (hi_edge if r.random() < 0.8 else []), None))
        chunks = [c for c in chunks if c[1]]
    parts = ["cow=%d" % (1 if r.random() < 0.15 else 0)]
    for k, ivs, _ in chunks:
        if ivs == [(0, CH - 1)]:
            parts.append("%d:%s" % (k, r.choice([FULL_B, FULL_R])))
            g.count("iterkind:full")
        else:
            parts.append("%d:%s" % (k, render(g, ivs)))
    g.emit("mkrepr %s %s" % (x, ";".join(parts)))
    keys = [k for k, _, _ in chunks]
    return keys, global_ivs([(k, ivs) for k, ivs, _ in chunks])


def make_bitmap(g, x):
    """returns (keys, pool)"""
    r = g.r
    c = r.random()
    if NOFULL:
        c = 1
    if c < 0.45:
        keys = list(g.build(x))
        g.count("iterbm:build")
        ivs = None
    elif c < 0.5:
        # adjacent full chunks made by the library itself (AddRange), optionally run-optimised
        g.emit("new %s" % x)
        k = r.choice([0, 1, 5, 65533])
        g.emit("addr %s %d %d" % (x, k * CH + r.choice([0, 0, 1, 100]), min(U32, (k + 2) * CH + r.choice([0, 0, 5, -1]))))
        if r.random() < 0.5:
            g.emit("addr %s %d %d" % (x, min(U32 - 1, (k + 2) * CH + 100), min(U32, (k + 3) * CH)))
        if r.random() < 0.5:
            g.emit("opt %s" % x)
        keys = [k, k + 1, min(65535, k + 2)]
        g.count("iterbm:addrfull")
        ivs = None
    else:
        keys, ivs = tracked(g, x)
    # the same set behind a copy-on-write clone / a zero-copy deserialisation must iterate identically
    c = r.random()
    if c < 0.15:
        y = g.fresh()
        g.emit("cowclone %s %s" % (y, x))
        g.count("iterbm:via-cowclone")
        x = y
    elif c < 0.35:
        y = g.fresh()
        if ivs is not None:
            # an explicit representation may hold a non-minimal run container, which the decoder's Validate refuses
            # (not this suite's subject): serialise a run-optimised clone instead
            t = g.fresh()
            g.emit("clone %s %s" % (t, x))
            g.emit("opt %s" % t)
            x = t
        g.emit("rd %s %s %s" % (y, r.choice(["frombuffer", "frombuffer", "fromunsafe", "readfrom"]), x))
        g.count("iterbm:via-rd")
        x = y
    return x, keys, pool_of(g, keys, ivs)


# ------------------------------------------------------------------ protocols
def peekable_walk(g, i, pool, steps, used, nx="next!"):
    """random interleaving of hasnext / next? / next! / peek? / peek! / adv on a peekable iterator
    (nx = the form of Next used where no HasNext precedes it)"""
    r = g.r
    for _ in range(steps):
        op = r.choices(["hasnext", "next?", nx, "peek?", "peek!", "adv", "burst", "advrel"], [3, 5, 5, 3, 3, 6, 1, 7])[0]
        if op == "advrel":
            # target relative to the iterator's own next value: exactly it (no move), just past it, a chunk further...
            d = r.choice([0, 0, 0, 0, 1, 1, 1, 2, 3, -1, 63, 64, 65, 4096, 65535, 65536, 65537, r.randrange(1, 70000)])
            g.emit("advrel %s %d" % (i, d))
            g.count("advrel:%s" % (d if d in (0, 1, -1) else "far"))
        elif op == "adv":
            c = r.random()
            if c < 0.2 and used:
                m = r.choice(used)                 # at or below the cursor: must not move backwards
                g.count("adv:back")
            elif c < 0.3:
                m = r.choice([0, U32 - 1])
                g.count("adv:extreme")
            else:
                m = r.choice(pool)
                g.count("adv:pool")
            used.append(m)
            g.emit("adv %s %d" % (i, m))
        elif op == "burst":
            for _ in range(r.choice([3, 10, 70])):
                g.emit("%s %s" % (nx, i))
            g.count("walk:burst")
        else:
            g.emit("%s %s" % (op, i))
            g.count("walk:" + op)


def window(g, keys, pool):
    """[a,b) with 0 <= a <= b <= 2^32 from the boundary pool; mostly starting mid-chunk"""
    r = g.r
    c = r.random()
    if c < 0.1:
        g.count("win:all")
        return 0, U32
    if c < 0.2:
        a = r.choice(pool)
        g.count("win:to-end")
        return a, U32
    if c < 0.25:
        a = r.choice(pool)
        g.count("win:empty")
        return a, a
    if c < 0.32:
        g.count("win:top")
        return r.choice([U32, U32 - 1, U32 - 2, U32 - CH, U32 - CH - 1]), U32
    a, b = r.choice(pool), r.choice(pool)
    if a > b:
        a, b = b, a
    if c < 0.6:
        b = min(U32, a + r.choice([1, 2, 63, 64, 65, 4096, 65535, 65536, 65537, 3 * CH]))
        g.count("win:short")
    elif c < 0.7 and keys:
        k = r.choice(keys)
        a, b = k * CH + g.lowval(), min(U32, (k + r.choice([1, 2, 3])) * CH + r.choice([0, 1, g.lowval()]))
        g.count("win:midchunk-span")
    else:
        b = min(U32, b + 1)
        g.count("win:pool")
    return a, b


def one_bitmap(g, nwalk, unx="next?"):
    """unx: how Next is called on UNSET iterators where no HasNext precedes it (suite iterun uses next!)"""
    r = g.r
    x0 = g.fresh()
    x, keys, pool = make_bitmap(g, x0)
    g.emit("card %s" % x)
    # ---- callback / range-func forms
    for form in ("iterate", "values", "backward", "ranges"):
        ks = [-1] + r.sample(STOPS, 2)
        if r.random() < 0.3:
            ks.append(r.choice([3, 64, 4096, 4097, 65536, 65537, 70000]))
        for k in ks:
            g.emit("%s %s %d" % (form, x, k))
            g.count("stop:%d" % k if k in STOPS else "stop:other")
    # ---- a sequence value taken BEFORE a mutation and ranged over afterwards (twice): a new chunk appended / inserted / the very
    # first chunk of an empty bitmap, an edit inside an existing chunk
    if r.random() < 0.5:
        y = g.fresh()
        g.emit("clone %s %s" % (y, x))
        for kind in ("ranges", "values", "backward"):
            kk = sorted(keys) if keys else [0]
            newk = [k for k in (kk[-1] + 1, max(0, kk[0] - 1), (kk[0] + kk[-1]) // 2, 65535) if 0 <= k <= 65535]
            g.emit("seqlate %s %s %d" % (kind, y, r.choice(newk) * 65536 + r.randrange(65536)))
            g.emit("seqlate %s %s %d" % (kind, y, r.choice(pool)))
        e = g.fresh()
        g.emit("new %s" % e)
        g.emit("seqlate %s %s %d" % (r.choice(["ranges", "values"]), e, r.choice(pool)))
        g.count("seq:late")
    # ---- forward iterator
    i = g.fresh("i")
    g.emit("it %s %s" % (i, x))
    used = [0]
    peekable_walk(g, i, pool, nwalk, used)
    g.emit("drain %s %d" % (i, r.choice([0, 1, 5, 1000, 70000])))
    if r.random() < 0.6:
        g.emit("adv %s %d" % (i, r.choice(pool)))
    g.emit("drain %s" % i)
    for op in ("hasnext", "next?", "peek?", "next!", "peek!"):
        g.emit("%s %s" % (op, i))
    g.emit("adv %s %d" % (i, r.choice(pool)))       # on an exhausted iterator: stays exhausted
    g.emit("hasnext %s" % i)
    # unguarded from the very first call
    i = g.fresh("i")
    g.emit("it %s %s" % (i, x))
    g.emit(r.choice(["next! %s", "peek! %s", "adv %s 0"]) % i if r.random() < 0.8 else "adv %s %d" % (i, r.choice(pool)))
    for _ in range(r.choice([2, 5, 40])):
        g.emit("next! %s" % i)
    # ---- reverse iterator
    i = g.fresh("r")
    g.emit("rit %s %s" % (i, x))
    for _ in range(r.choice([3, 10, 30])):
        op = r.choice(["hasnext", "next?", "next!", "next!"])
        g.emit("%s %s" % (op, i))
        g.count("rwalk:" + op)
    g.emit("drain %s %d" % (i, r.choice([0, 1, 5, 1000, 70000])))
    for _ in range(3):
        g.emit("next! %s" % i)
    g.emit("drain %s" % i)
    g.emit("hasnext %s" % i)
    g.emit("next? %s" % i)
    # ---- many iterator: buffer-length sequences
    for _ in range(2):
        i = g.fresh("m")
        g.emit("mit %s %s" % (i, x))
        for _ in range(r.choice([4, 8, 14])):
            n = r.choice(MANY_SIZES)
            if r.random() < 0.15:
                g.emit("manyhs %s %d %d" % (i, n, U32 * r.choice([0, 1, 2, 0xFFFFFFFF, r.randrange(1 << 32)])))
                g.count("many64:%d" % n)
            else:
                g.emit("many %s %d" % (i, n))
                g.count("many:%d" % n)
        g.emit("drain %s %d" % (i, r.choice([0, 1, 999, 1000, 1001, 5000])))
        g.emit("drain %s" % i)
        g.emit("many %s %d" % (i, r.choice([0, 1, 64])))
    # ---- unset iterators and the Unset range-func
    for _ in range(3):
        a, b = window(g, keys, pool)
        i = g.fresh("u")
        g.emit("uit %s %s %d %d" % (i, x, a, b))
        wpool = pool + [clamp(a - 1), clamp(a), clamp(a + 1), clamp(b - 2), clamp(b - 1), clamp(b), clamp(b + 1)]
        peekable_walk(g, i, wpool, max(4, nwalk // 2), [0, clamp(a)], unx)
        g.emit("drain %s %d" % (i, r.choice([1, 5, 1000, 70000])))
        g.emit("hasnext %s" % i)
        if r.random() < 0.5:
            g.emit("adv %s %d" % (i, r.choice(wpool)))
            g.emit("%s %s" % (unx, i))
        if b - a <= 4 * CH:
            g.emit("drain %s" % i)
            for op in ("hasnext", "next?", "peek?", unx, "peek!"):
                g.emit("%s %s" % (op, i))
        if b > a:
            g.emit("unset %s %d %d %d" % (x, a, b, -1 if b - a <= 4 * CH else r.choice([1, 100, 70000])))
            g.emit("unset %s %d %d %d" % (x, a, b, r.choice(STOPS[:-1])))
    # unguarded unset iterator from the first call
    a, b = window(g, keys, pool)
    i = g.fresh("u")
    g.emit("uit %s %s %d %d" % (i, x, a, b))
    for _ in range(r.choice([3, 20, 200])):
        g.emit("%s %s" % (unx, i))
    # ---- copy-on-write siblings: iterators over one sibling stay valid while the OTHER sibling is mutated
    # (the iterated bitmap itself is never modified while an iterator on it is live)
    if r.random() < 0.4:
        g.count("cowsibling")
        z, y = g.fresh(), g.fresh()
        g.emit("clone %s %s" % (z, x))
        g.emit("cowclone %s %s" % (y, z))
        it_on, mut = (y, z) if r.random() < 0.5 else (z, y)
        fi, ri, mi, ui = g.fresh("i"), g.fresh("r"), g.fresh("m"), g.fresh("u")
        a, b = window(g, keys, pool)
        for c in ("it %s %s" % (fi, it_on), "rit %s %s" % (ri, it_on), "mit %s %s" % (mi, it_on),
                  "uit %s %s %d %d" % (ui, it_on, a, b)):
            g.emit(c)
        for i in (fi, ri, ui):
            g.emit(r.choice(["hasnext %s", "drain %s 3", "next? %s", "drain %s 100"]) % i)
        g.emit("many %s %d" % (mi, r.choice([0, 1, 3, 64])))
        for _ in range(r.choice([1, 3, 6])):
            op = r.choice(["add", "rem", "addr", "remr", "flip"])
            if op in ("add", "rem"):
                g.emit("%s %s %d" % (op, mut, r.choice(pool)))
            else:
                lo, hi = g.rng(set(keys))
                g.emit("%s %s %d %d" % (op, mut, lo, hi))
        if r.random() < 0.3:
            g.emit("opt %s" % mut)
        peekable_walk(g, fi, pool, 6, [0])
        peekable_walk(g, ui, pool, 6, [0], unx)
        g.emit("next? %s" % ri)
        g.emit("many %s %d" % (mi, r.choice(MANY_SIZES)))
        for i in (fi, ri, mi, ui):
            g.emit("drain %s %d" % (i, r.choice([1000, 70000])))
        g.emit("dig %s" % it_on)
    # ---- the same iterator objects re-Initialized on another bitmap (possibly empty, possibly the same one)
    prev = getattr(g, "_iter_prev", [])
    if prev and r.random() < 0.6:
        px, pkeys, ppool = r.choice(prev)
        g.count("reinit")
        fi, ri, mi, ui = g.fresh("i"), g.fresh("r"), g.fresh("m"), g.fresh("u")
        a, b = window(g, keys, pool)
        for c in ("it %s %s" % (fi, x), "rit %s %s" % (ri, x), "mit %s %s" % (mi, x), "uit %s %s %d %d" % (ui, x, a, b)):
            g.emit(c)
        # leave them in a random state: fresh, mid-way or exhausted
        for i in (fi, ri, ui):
            g.emit(r.choice(["hasnext %s", "drain %s 3", "drain %s 70000", "next? %s"]) % i)
        g.emit("many %s %d" % (mi, r.choice([0, 1, 4097, 100000])))
        a, b = window(g, pkeys, ppool)
        for c in ("reinit %s %s" % (fi, px), "reinit %s %s" % (ri, px), "reinit %s %s" % (mi, px),
                  "reinit %s %s %d %d" % (ui, px, a, b)):
            g.emit(c)
        peekable_walk(g, fi, ppool, 8, [0])
        peekable_walk(g, ui, ppool, 8, [0], unx)
        for _ in range(4):
            g.emit("%s %s" % (r.choice(["hasnext", "next?", "next!"]), ri))
        g.emit("many %s %d" % (mi, r.choice(MANY_SIZES)))
        for i in (fi, ri, mi, ui):
            g.emit("drain %s %d" % (i, r.choice([5, 1000, 70000])))
        if r.random() < 0.3:
            g.emit("reinit %s e_it" % fi)
            g.emit("reinit %s e_it" % ri)
            g.emit("reinit %s e_it" % mi)
            for c in ("hasnext %s" % fi, "next? %s" % fi, "hasnext %s" % ri, "next? %s" % ri, "many %s 3" % mi):
                g.emit(c)
    prev.append((x, keys, pool))
    g._iter_prev = prev[-4:]
    g.emit("dig %s" % x)            # iteration never modifies the bitmap


@suite("iter")
def _iter(g, scale):
    r = g.r
    g.emit("new e_it")
    for _ in range(int(14 * scale)):
        one_bitmap(g, r.choice([15, 30, 50]))
    # fixed corner bitmaps
    g.emit("new e0")
    for c in ("it i0 e0", "hasnext i0", "next? i0", "peek? i0", "adv i0 5", "hasnext i0", "drain i0", "rit r0 e0", "hasnext r0",
              "next? r0", "drain r0", "mit m0 e0", "many m0 0", "many m0 5", "manyhs m0 5 4294967296", "drain m0",
              "iterate e0 -1", "values e0 -1", "backward e0 -1", "ranges e0 -1", "ranges e0 0",
              "uit u0 e0 0 0", "hasnext u0", "next? u0", "uit u0 e0 4294967296 4294967296", "hasnext u0",
              "uit u0 e0 4294967295 4294967296", "next? u0", "next? u0",
              "uit u0 e0 0 4294967297", "uit u0 e0 65530 65540", "drain u0", "unset e0 0 4294967296 3",
              "unset e0 4294967295 4294967296 -1"):
        g.emit(c)
    # full chunks that are NOT adjacent (absent chunks between them), of run and of bitmap kind, and a chunk whose unset values all lie
    # below the window start followed by a distant full chunk: the unset iterators walk the absent chunks in between
    full = "ffffffffffffffff*1024"
    for j, rep in enumerate(["1:R:0+65535;4:R:0+65535;9:A:5", "2:B:65536:%s;5:B:65536:%s" % (full, full),
                             "65524:R:0+65535;65527:B:65536:%s" % full, "3:R:100+65435;7:R:0+65535;8:R:0+65535"]):
        x = "g%d" % j
        g.emit("mkrepr %s cow=0;%s" % (x, rep))
        ks = [int(t.split(":")[0]) for t in rep.split(";")]
        lo, hi = max(0, (ks[0] - 1) * 65536 + 65000), min(U32, (ks[-1] + 1) * 65536 + 10)
        g.emit("unset %s %d %d -1" % (x, lo, hi))
        g.emit("uit gu%d %s %d %d" % (j, x, ks[0] * 65536 + 200, hi))
        for _ in range(3):
            g.emit("next? gu%d" % j)
        g.emit("adv gu%d %d" % (j, (ks[0] + 1) * 65536 + 65530))
        for _ in range(8):
            g.emit("next? gu%d" % j)
        g.emit("peek? gu%d" % j)
        g.emit("adv gu%d %d" % (j, (ks[-1] - 1) * 65536 + 7))
        g.emit("drain gu%d 20" % j)
        g.count("iterbm:separated-full-chunks")
    # AdvanceIfNeeded into / out of ABSENT chunks: the target's chunk is not stored and the chunk the cursor lands in holds values whose
    # low 16 bits are smaller / larger than the target's; the unset iterator advanced while it stands in an absent chunk, towards a
    # stored chunk right after the gap / further up; every kind of landing chunk
    for j, rep in enumerate(["0:A:5,300,40000;2:A:3,10,12,500,65535;5:R:7+3,100+50;9:B:32768:5555555555555555*1024",
                             "1:R:0+9,20+5;4:B:32768:aaaaaaaaaaaaaaaa*1024;5:A:1,2,3;70:A:0,65535",
                             "3:A:100;6:A:100;7:A:100;20:R:50+100"]):
        x = "aa%d" % j
        g.emit("mkrepr %s cow=0;%s" % (x, rep))
        ks = [int(t.split(":")[0]) for t in rep.split(";")]
        gaps = sorted(set(k + 1 for k in ks if k + 1 not in ks) | set(k - 1 for k in ks if k > 0 and k - 1 not in ks))
        n = 0
        for consumed in (0, 1, 3):
            for gk in gaps:
                for low in (0, 11, 301, 65535):
                    for kind in ("it", "rit", "mit"):
                        i = "ai%d_%d" % (j, n)
                        n += 1
                        g.emit("%s %s %s" % (kind, i, x))
                        for _ in range(consumed):
                            g.emit("next? %s" % i) if kind != "mit" else g.emit("many %s 1" % i)
                        if kind == "mit":
                            g.emit("many %s 3" % i)
                            continue
                        g.emit("adv %s %d" % (i, gk * CH + low))
                        g.emit("peek? %s" % i)
                        g.emit("next? %s" % i)
                        g.emit("next? %s" % i)
                        g.emit("adv %s %d" % (i, gk * CH + low))      # never moves backwards
                        g.emit("next? %s" % i)
        # unset iterator: start inside an absent chunk (or a stored one), advance to a higher key
        for start_k in gaps[:4] + ks[:2]:
            for tgt_k in sorted(set(ks + gaps)):
                if tgt_k <= start_k:
                    continue
                for low in (0, 4, 400):
                    u = "au%d_%d" % (j, n)
                    n += 1
                    g.emit("uit %s %s %d %d" % (u, x, start_k * CH + 9, min(U32, (max(ks) + 2) * CH)))
                    g.emit("next? %s" % u)
                    g.emit("adv %s %d" % (u, tgt_k * CH + low))
                    for _ in range(5):
                        g.emit("next? %s" % u)
                    g.emit("peek? %s" % u)
        g.count("iterbm:advance-across-absent-chunks")
    # batch iteration with EVERY mixture of buffer lengths including 0 (nil / empty window) in the middle of the walk, through both
    # batch methods (NextMany, NextMany64 with a high-bits mask), over array / bitmap / run chunks and values straddling chunk edges
    for j, rep in enumerate(["0:A:5,300,65535;1:A:0,1;2:B:32768:5555555555555555*1024;3:R:0+9,20+65515;9:R:7+3,100+50,65000+535",
                             "7:R:0+65535;8:R:0+65535;9:A:0", "4:B:4097:ffffffffffffffff*64.1.0*959"]):
        x = "mz%d" % j
        g.emit("mkrepr %s cow=0;%s" % (x, rep))
        for sizes in ([100, 0], [0, 1], [4096, 0, 0, 17], [0], [1, 0, 65536, 0, 3], [65535, 0, 2], [7, 64, 0, 256, 1000]):
            for meth in ("many", "manyhs"):
                i = g.fresh("mzi")
                g.emit("mit %s %s" % (i, x))
                for n in sizes:
                    g.emit("many %s %d" % (i, n) if meth == "many" else "manyhs %s %d %d" % (i, n, 5 << 32))
                g.emit("drain %s" % i)
        g.count("iterbm:many-with-zero-length-buffers")
    # the full universe: 65536 full chunks; Ranges must merge them all, the unset iterators must find nothing
    if r.random() < 0.5:
        g.count("iterbm:universe")
        g.emit("new f0")
        g.emit("addr f0 0 4294967296")
        if r.random() < 0.5:
            g.emit("rem f0 %d" % r.choice([0, U32 - 1, 65536, 65535, r.randrange(U32)]))
        for c in ("ranges f0 -1", "ranges f0 1", "it i1 f0", "adv i1 4294901759", "next? i1", "next! i1", "next! i1",
                  "adv i1 4294967295", "next? i1", "next? i1", "rit r1 f0", "next? r1", "next! r1",
                  "uit u1 f0 0 4294967296", "hasnext u1", "next? u1", "next? u1",
                  "uit u1 f0 5 4294967290", "adv u1 70000", "next? u1", "uit u1 f0 5 4294967290", "peek! u1", "unset f0 0 4294967296 -1",
                  "mit m1 f0", "many m1 65537", "many m1 65536", "values f0 3", "backward f0 3", "iterate f0 3"):
            g.emit(c)


@suite("iterun")
def _iterun(g, scale):
    """the same protocols, but Next on UNSET iterators is also called without a preceding HasNext (legal whenever an
    element remains; the harness decides that from the raw representation)"""
    r = g.r
    g.emit("new e_it")
    for _ in range(int(6 * scale)):
        one_bitmap(g, r.choice([10, 25]), "next!")
    # fixed corners: the iterator lands on a chunk that has no absent value left in the window (a full chunk; a chunk
    # whose tail from `start` on is present) and is then asked for Next without HasNext
    for c in ("new c0", "addr c0 65536 131072", "uit cu0 c0 65530 200000") + ("next! cu0",) * 8 + (
              "uit cu1 c0 65536 131080", "next! cu1", "next! cu1",
              "new c1", "addr c1 65530 65536", "add c1 10", "uit cu2 c1 65533 70000", "next! cu2", "next! cu2",
              "uit cu3 c1 0 70000", "adv cu3 65531", "next! cu3", "next! cu3"):
        g.emit(c)
