"""Container-kernel suites: direct calls of the 16-bit kernels with boundary shapes, all 3x3 kind pairings."""
from genlib import G, suite, CH


def rand_set(g):
    """a subset of [0,65536) as a sorted list of inclusive intervals"""
    r = g.r
    sh = r.choices(["single", "sparse", "near4096", "dense", "blocks", "fewblocks", "full", "fullminus", "prefix", "suffix",
                    "alt", "edges", "top", "empty", "runmin", "runmax"], [3, 8, 5, 4, 8, 8, 3, 3, 3, 3, 3, 4, 4, 0.5, 6, 1])[0]
    g.count("kshape:" + sh)
    vals = set()
    ivs = []
    if sh == "single":
        vals = {g.lowval()}
    elif sh == "sparse":
        vals = {g.lowval() for _ in range(r.randrange(2, 80))}
    elif sh == "near4096":
        n = r.choice([4094, 4095, 4096, 4097, 4098])
        start = r.randrange(0, CH - 2 * n)
        vals = set(r.sample(range(start, start + 2 * n), n)) if r.random() < 0.5 else set(range(start, start + n))
    elif sh == "dense":
        vals = set(r.sample(range(CH), r.choice([5000, 12000, 40000])))
    elif sh in ("blocks", "fewblocks"):
        nb = r.randrange(20, 200) if sh == "blocks" else r.randrange(1, 6)
        pts = sorted(r.sample(range(CH + 1), 2 * nb))
        ivs = [(pts[i], pts[i + 1] - 1) for i in range(0, 2 * nb, 2)]
    elif sh == "full":
        ivs = [(0, CH - 1)]
    elif sh == "fullminus":
        v = g.lowval()
        ivs = [(a, b) for (a, b) in [(0, v - 1), (v + 1, CH - 1)] if a <= b]
    elif sh == "prefix":
        ivs = [(0, r.choice([0, 1, 63, 64, 4095, 4096, 30000, 65534]))]
    elif sh == "suffix":
        ivs = [(r.choice([65535, 65534, 65472, 61440, 61439, 30000, 1]), CH - 1)]
    elif sh == "alt":
        step = r.choice([2, 3, 16])
        vals = set(range(r.randrange(step), r.choice([8192, 8200, 30000, CH]), step))
    elif sh == "edges":
        vals = {v for v in [0, 1, 62, 63, 64, 65, 127, 128, 4095, 4096, 4097, 65533, 65534, 65535] if r.random() < 0.6}
    elif sh == "runmin":
        # k runs whose total cardinality is just above 2k+1: a run container that is minimal by a hair
        k = r.choice([1, 1, 2, 3, 5, 20, 300])
        extra = r.choice([2, 2, 3, 4])          # card = 2k + extra  (minimal iff 2+4k < 4k+2*extra)
        pos = r.randrange(0, 200)
        for i in range(k):
            ln = 2 + (extra if i == 0 else 0)
            ivs.append((pos, pos + ln - 1))
            pos += ln + r.choice([1, 1, 2, 5])
        ivs = [(a, b) for a, b in ivs if b < CH]
    elif sh == "runmax":
        # about 2050 runs: the run/bitmap size boundary (2+4r vs 8224)
        k = r.choice([2040, 2054, 2055, 2056, 2057])
        pos = r.randrange(0, 50)
        for i in range(k):
            ln = r.choice([3, 4, 5])
            ivs.append((pos, pos + ln - 1))
            pos += ln + r.choice([1, 2, 20])
        ivs = [(a, b) for a, b in ivs if b < CH]
    elif sh == "top":
        vals = {CH - 1 - i for i in range(r.randrange(1, 70)) if r.random() < 0.8} | {CH - 1}
    if vals:
        ivs = []
        for v in sorted(vals):
            if ivs and ivs[-1][1] + 1 == v:
                ivs[-1] = (ivs[-1][0], v)
            else:
                ivs.append((v, v))
    else:
        # coalesce adjacent blocks
        out = []
        for a, b in ivs:
            if out and out[-1][1] + 1 >= a:
                out[-1] = (out[-1][0], max(out[-1][1], b))
            else:
                out.append((a, b))
        ivs = out
    return ivs


def card(ivs):
    return sum(b - a + 1 for a, b in ivs)


def render(g, ivs, kind=None):
    """render as a container of the requested (or a random legal) kind"""
    r = g.r
    c = card(ivs)
    kinds = ["R"] if c > 0 else ["A"]
    if 0 < c <= 4096:
        kinds.append("A")
    if c > 4096:
        kinds.append("B")
    if kind is None or kind not in kinds:
        kind = r.choice(kinds)
    g.count("kkind:" + kind)
    if kind == "A":
        return "A:" + ",".join(str(v) for a, b in ivs for v in range(a, b + 1))
    if kind == "R":
        return "R:" + ",".join("%d+%d" % (a, b - a) for a, b in ivs)
    words = [0] * 1024
    for a, b in ivs:
        for w in range(a // 64, b // 64 + 1):
            lo = max(a, w * 64) - w * 64
            hi = min(b, w * 64 + 63) - w * 64
            words[w] |= ((1 << (hi - lo + 1)) - 1) << lo
    out = []
    i = 0
    while i < 1024:
        j = i
        while j < 1024 and words[j] == words[i]:
            j += 1
        out.append("%x" % words[i] + ("*%d" % (j - i) if j - i > 1 else ""))
        i = j
    return "B:%d:%s" % (c, ".".join(out))


BIN = ["and", "or", "xor", "andNot", "iand", "ior", "ixor", "iandNot", "lazyOR", "lazyIOR", "andCardinality", "orCardinality",
       "intersects", "equals"]


def karg(g, ivs):
    r = g.r
    pool = [0, 1, 63, 64, 65, 4095, 4096, 65534, 65535]
    for a, b in ivs[:50] + ivs[-3:]:
        pool += [a, b, max(0, a - 1), min(65535, b + 1), min(65535, b + 2), min(65535, b + 3)]
    return r.choice(pool) if r.random() < 0.8 else r.randrange(CH)


@suite("kern")
def _kern(g, scale):
    r = g.r
    for _ in range(int(60 * scale)):
        a, b = rand_set(g), rand_set(g)
        related = r.random() < 0.35
        if related:
            # related operands: b = a shifted / a subset / identical / a strict prefix or suffix of b's values
            c = r.random()
            if c < 0.3:
                b = list(a)
            elif c < 0.5:
                b = [iv for iv in a if r.random() < 0.6]
            elif c < 0.65:
                b = [(x + 1, y + 1) for x, y in a if y + 1 < CH]
            elif c < 0.85 and a and a[-1][1] + 2 < CH:
                top = a[-1][1]
                b = ivs_union(list(a), [(v, v) for v in sorted(set(min(CH - 1, top + d) for d in r.sample([2, 3, 5, 100, 1000, 40000], 2)))])
                g.count("kern:prefix-related")
                if r.random() < 0.5:
                    a, b = b, a
            elif a and a[0][0] >= 2:
                b = ivs_union([(r.choice([0, a[0][0] - 2]),) * 2], list(a))
                g.count("kern:suffix-related")
                if r.random() < 0.5:
                    a, b = b, a
        for ka in ("A", "B", "R"):
            for kb in ("A", "B", "R"):
                if card(a) == 0 or card(b) == 0:
                    continue
                ca, cb = render(g, a, ka), render(g, b, kb)
                for op in (r.sample(BIN[:-1], 4) + ["equals"]) if related else r.sample(BIN, 5):
                    g.emit("kern %s %s %s" % (op, ca, cb))
                    g.count("kop:" + op)


def special_sets(g):
    r = g.r
    v = g.lowval()
    return [[(0, CH - 1)],                                             # full
            [(a, b) for (a, b) in [(0, v - 1), (v + 1, CH - 1)] if a <= b],   # full minus one
            [(0, 4096)], [(0, 4095)],                                   # just above / at the array threshold
            [(v, v)],                                                   # single
            [(CH - 1, CH - 1)], [(0, 0)],
            # ONE short run that straddles a 64-bit word edge (its partner may be a bitmap container)
            (lambda a, n: [(a, a + n - 1)])(64 * r.randrange(1, 1023) - r.randrange(1, 40), r.choice([41, 50, 63, 64])),
            [(63, 64)],
            [(0, 40000)],      # a dense partner for them
            rand_set(g)]


@suite("kernspecial")
def _kernspecial(g, scale):
    """every kind pairing x special shapes (full, full-1, threshold, single) x every binary kernel: the shortcut branches
    (isFull, empty result, same contents) and the aliasing of the result with its operands"""
    r = g.r
    for _ in range(max(1, int(1 * scale))):
        sets = special_sets(g)
        for ia, a in enumerate(sets):
            for ib, b in enumerate(sets):
                if card(a) == 0 or card(b) == 0:
                    continue
                shortcut = ia < 2 or ib < 2          # an operand is full / full-minus-one: every kernel has a special branch
                if {ia, ib} & {7, 8} and {ia, ib} & {2, 9, 0}:
                    shortcut = True                  # a short straddling run against a dense (bitmap) partner: always, all kernels
                if not shortcut and r.random() < 0.8:
                    continue
                for ka in ("A", "B", "R"):
                    for kb in ("A", "B", "R"):
                        if card(a) > 4096 and ka == "A" or card(b) > 4096 and kb == "A":
                            continue
                        if 0 < card(a) <= 4096 and ka == "B" or 0 < card(b) <= 4096 and kb == "B":
                            continue
                        ca, cb = render(g, a, ka), render(g, b, kb)
                        for op in (BIN if shortcut else r.sample(BIN, 3)):
                            g.emit("kern %s %s %s" % (op, ca, cb))
                            g.count("kspecial:" + op)
                        if ka == "B":
                            g.emit("kern resetTo %s %s" % (ca, cb))      # dirty scratch bitmap := copy of the argument
                            g.count("kspecial:resetTo")
    # resetTo with arguments that stop just short of / exactly at the end of the chunk, on dirty scratch containers
    for last in (CH - 1, CH - 2, CH - 3, CH - 64, CH - 65, 4096, 100):
        # a dirty scratch bitmap container (more than 4096 values so that it IS a bitmap container) with the top of the chunk set
        dirty = render(g, [(0, CH - 1)] if r.random() < 0.5 else ivs_union(rand_set(g), [(CH - 5000, CH - 1)]), "B")
        assert dirty.startswith("B:")
        first = r.choice([0, 1, 63, 64, max(0, last - 5000)])
        arg = [(min(first, last), last)]
        if r.random() < 0.5 and first > 10:
            arg = [(2, 5)] + arg
        for kb in ("A", "B", "R"):
            cb = wf_render(g, arg, kb)
            if cb is not None:
                g.emit("kern resetTo %s %s" % (dirty, cb))
                g.count("kspecial:resetTo-edge")


@suite("kernq")
def _kernq(g, scale):
    """unary kernels: queries, neighbour queries, range mutations, offset"""
    r = g.r
    for _ in range(int(150 * scale)):
        a = rand_set(g)
        if card(a) == 0:
            continue
        for kind in ("A", "B", "R"):
            ca = render(g, a, kind)
            for _ in range(3):
                g.emit("kern %s %s - %d" % (r.choice(["rank", "contains", "nextValue", "previousValue", "nextAbsentValue",
                                                       "previousAbsentValue", "iaddReturnMinimized", "iremoveReturnMinimized",
                                                       "iadd", "iremove"]), ca, karg(g, a)))
            x, y = sorted([karg(g, a), karg(g, a)])
            y = min(CH, y + r.choice([0, 1, 1, 2]))
            g.emit("kern %s %s - %d %d" % (r.choice(["iaddRange", "iremoveRange", "not", "inot", "getCardinalityInRange"]), ca, x, y))
            g.emit("kern selectInt %s - %d" % (ca, r.choice([0, card(a) - 1, r.randrange(card(a))])))
            g.emit("kern %s %s -" % (r.choice(["getCardinality", "minimum", "maximum", "numberOfRuns", "isFull", "isEmpty",
                                               "toEfficientContainer", "clone"]), ca))
            off = r.choice([1, 63, 64, 65, 4096, 32768, 65535, r.randrange(1, CH)])
            g.emit("kern addOffsetLo %s - %d" % (ca, off))
            g.emit("kern addOffsetHi %s - %d" % (ca, off))


@suite("popcnt")
def _popcnt(g, scale):
    r = g.r
    for _ in range(int(200 * scale)):
        n = r.choice([0, 1, 2, 3, 4, 7, 8, 15, 16, 17, 31, 32, 33, 63, 64, 65, 127, 128, 1023, 1024, 1100, r.randrange(1100)])
        def ws(k):
            mode = r.random()
            if mode < 0.2:
                return ["ffffffffffffffff*%d" % k] if k else []
            if mode < 0.3:
                return ["0*%d" % k] if k else []
            return ["%x" % r.getrandbits(64) for _ in range(k)]
        s = ".".join(ws(n))
        m = ".".join(ws(n + r.choice([0, 0, 1, 5])))
        g.emit("popcnt %s %s %s" % (r.choice(["slice", "mask", "and", "or", "xor"]), s or "", m or ""))


def wf_render(g, ivs, kind):
    """a well-formed container of the given kind for this set, or None"""
    c = card(ivs)
    if c == 0:
        return None
    if kind == "A":
        return render(g, ivs, "A") if c <= 4096 else None
    if kind == "B":
        return render(g, ivs, "B") if c > 4096 else None
    return render(g, ivs, "R") if 2 + 4 * len(ivs) < min(8224, 2 * c) else None


@suite("kernwf")
def _kernwf(g, scale):
    """C09 at kernel level: well-formed operands in, well-formed (or empty) result out"""
    r = g.r
    ops2 = ["and", "or", "xor", "andNot", "iand", "ior", "ixor", "iandNot"]
    n = 0
    while n < int(120 * scale):
        a, b = rand_set(g), rand_set(g)
        if r.random() < 0.3:
            b = [iv for iv in a if r.random() < 0.7] or a
        for ka in ("A", "B", "R"):
            ca = wf_render(g, a, ka)
            if ca is None:
                continue
            for kb in ("A", "B", "R"):
                cb = wf_render(g, b, kb)
                if cb is None:
                    continue
                for op in r.sample(ops2, 3):
                    g.emit("kernwf %s %s %s" % (op, ca, cb))
                n += 1
            for _ in range(3):
                x, y = sorted([karg(g, a), karg(g, a)])
                if r.random() < 0.5:
                    y = x
                y = min(CH, y + r.choice([0, 1, 1, 2]))
                g.emit("kernwf %s %s - %d %d" % (r.choice(["not", "inot"]), ca, x, y))
            g.emit("kernwf %s %s - %d" % (r.choice(["iaddReturnMinimized", "iremoveReturnMinimized"]), ca, karg(g, a)))
            off = r.choice([1, 63, 64, 65, 4096, 32768, 65535, r.randrange(1, CH)])
            g.emit("kernwf addOffsetLo %s - %d" % (ca, off))
            g.emit("kernwf addOffsetHi %s - %d" % (ca, off))


def interval_set(r, lo, n, pieces):
    """exactly n values starting at lo, split into at most `pieces` blocks separated by small gaps"""
    pieces = max(1, min(pieces, n))
    sizes = [n // pieces] * pieces
    for i in range(n % pieces):
        sizes[i] += 1
    out = []
    pos = lo
    for ln in sizes:
        out.append((pos, pos + ln - 1))
        pos += ln + r.choice([2, 3, 9])
    assert out[-1][1] < CH and sum(b - a + 1 for a, b in out) == n
    return out


def ivs_union(a, b):
    out = []
    for x, y in sorted(a + b):
        if out and out[-1][1] + 1 >= x:
            out[-1] = (out[-1][0], max(out[-1][1], y))
        else:
            out.append((x, y))
    return out


def thresh_cases(g):
    """operand pairs whose and / or / xor / andNot has cardinality exactly T in {4095, 4096, 4097}"""
    r = g.r
    T = r.choice([4095, 4096, 4096, 4097])
    k = min(r.choice([1, 5, 300, 5000]), 5000)
    base = r.choice([0, 7, 1000, 20000])
    R = interval_set(r, base, T, r.choice([1, 3, 40]))
    D = interval_set(r, R[-1][1] + 20, k, r.choice([1, 2, 10]))
    E = interval_set(r, D[-1][1] + 20, r.choice([1, 50, 4000]), r.choice([1, 4]))
    cut = r.randrange(1, max(2, len(R)))
    return T, R, D, [
        ("andnot", ivs_union(R, D), ivs_union(D, E)),
        ("and", ivs_union(R, D), ivs_union(R, E)),
        ("or", R[:cut] + R[cut:][:1], R[cut:] if R[cut:] else R),
        ("xor", ivs_union(R[:cut], D), ivs_union(R[cut:], D) if R[cut:] else D)]


@suite("thresh")
def _thresh(g, scale):
    """bitmap-level version of kernthresh: results landing exactly on the array/bitmap threshold, then serialized,
    validated and round-tripped (C01 / C05 / C09 / C14)"""
    r = g.r
    for it in range(int(8 * scale)):
        T, R, D, cases = thresh_cases(g)
        key = g.key()
        for op, a, b in cases:
            # every pairing of kinds (the first rounds sample the argument's kind, then all of them)
            for ka, kb in [(ka, kb) for ka in ("A", "B", "R") for kb in ("A", "B", "R")]:
                ca = wf_render(g, a, ka)
                if ca is None:
                    continue
                cb = wf_render(g, b, kb)
                if cb is None:
                    continue
                x, y, z = g.fresh(), g.fresh(), g.fresh()
                g.emit("mkrepr %s cow=0;%d:%s" % (x, key, ca))
                g.emit("mkrepr %s cow=0;%d:%s" % (y, key, cb))
                g.emit("%s %s %s %s" % (op, z, x, y))
                g.emit("wf %s" % z)
                g.emit("ser %s" % z)
                g.emit("size %s" % z)
                g.emit("i%s %s %s" % (op, x, y))
                g.emit("wf %s" % x)
                g.emit("ser %s" % x)
                g.emit("rd %s %s %s" % (g.fresh(), r.choice(["readfrom", "frombuffer", "unmarshal"]), x))
                g.count("thresh:%s:%d" % (op, T))


@suite("kernthresh")
def _kernthresh(g, scale):
    """operands constructed so that the RESULT has cardinality exactly 4095 / 4096 / 4097 (the array<->bitmap threshold)
    or is exactly full / empty, for every kind pairing and both forms: the re-typing decision after each kernel"""
    r = g.r
    for _ in range(int(14 * scale)):
        T = r.choice([4095, 4096, 4096, 4097])
        k = r.choice([1, 5, 300, 5000])
        base = r.choice([0, 7, 1000, 20000])
        k = min(k, 5000)
        R = interval_set(r, base, T, r.choice([1, 3, 40]))            # the target result
        hiR = R[-1][1]
        D = interval_set(r, hiR + 20, k, r.choice([1, 2, 10]))         # disjoint from R, above it
        E = interval_set(r, D[-1][1] + 20, r.choice([1, 50, 4000]), r.choice([1, 4]))
        cases = []
        # andNot: (R ∪ D) \ (D ∪ E) = R
        cases.append((["andNot", "iandNot"], ivs_union(R, D), ivs_union(D, E)))
        # and: (R ∪ D) ∩ (R ∪ E) = R
        cases.append((["and", "iand"], ivs_union(R, D), ivs_union(R, E)))
        # or: two overlapping parts of R
        cut = r.randrange(1, max(2, len(R)))
        cases.append((["or", "ior", "lazyOR", "lazyIOR"], R[:cut] + R[cut:][:1], R[cut:] if R[cut:] else R))
        # xor: (R1 ∪ D) xor (R2 ∪ D) = R1 ∪ R2 = R
        cases.append((["xor", "ixor"], ivs_union(R[:cut], D), ivs_union(R[cut:], D) if R[cut:] else D))
        for ops, a, b in cases:
            for ka in ("A", "B", "R"):
                ca = wf_render(g, a, ka)
                if ca is None:
                    continue
                for kb in ("A", "B", "R"):
                    cb = wf_render(g, b, kb)
                    if cb is None:
                        continue
                    for op in ops:
                        if not op.startswith("lazy"):       # lazy kernels may defer the cardinality (repaired later)
                            g.emit("kernwf %s %s %s" % (op, ca, cb))
                        g.emit("kern %s %s %s" % (op, ca, cb))
                        g.count("kthresh:%s:%d" % (op, T))
        # range kernels landing exactly on the threshold
        for ka in ("A", "B", "R"):
            ca = wf_render(g, ivs_union(R, D), ka)
            if ca is not None and D:
                # (iaddRange / iremoveRange keep their in-place contract on run containers; AddRange/RemoveRange re-type
                #  in the driver, which the bitmap-level `thresh` and `hist` suites check) -> contents only:
                g.emit("kern iremoveRange %s - %d %d" % (ca, D[0][0], D[-1][1] + 1))
                g.emit("kernwf inot %s - %d %d" % (ca, D[0][0], D[-1][1] + 1))
                g.emit("kernwf not %s - %d %d" % (ca, D[0][0], D[-1][1] + 1))
            cb = wf_render(g, R[:-1] if len(R) > 1 else R, ka)
            if cb is not None and len(R) > 1:
                g.emit("kern iaddRange %s - %d %d" % (cb, R[-1][0], R[-1][1] + 1))
                g.emit("kernwf inot %s - %d %d" % (cb, R[-1][0], R[-1][1] + 1))


@suite("eqpairs")
def _eqpairs(g, scale):
    """C03: Equals in BOTH orders on bitmaps with the same chunk keys whose contents are identical / a strict prefix / a strict
    suffix / differ in one middle value, for every pairing of container kinds (forced through mkrepr)"""
    r = g.r
    fixed = [[(1000, 3999), (10000, 12499), (20000, 20000), (30000, 30499)], [(5, 5), (9, 9000)], [(0, 4999), (6000, 6000), (65535, 65535)]]
    for it in range(int(10 * scale) + len(fixed)):
        a = fixed[it] if it < len(fixed) else rand_set(g)
        if not a:
            continue
        variants = [("same", list(a))]
        if a[-1][1] + 3 < CH:
            variants.append(("prefix", ivs_union(list(a), [(a[-1][1] + r.choice([2, 3]),) * 2, (min(CH - 1, a[-1][1] + r.choice([5, 300, 20000])),) * 2])))
        if a[0][0] >= 2:
            variants.append(("suffix", ivs_union([(r.choice([0, a[0][0] - 2]),) * 2], list(a))))
        if a[0][1] > a[0][0] + 1:
            m = r.randrange(a[0][0] + 1, a[0][1])
            variants.append(("hole", [(a[0][0], m - 1), (m + 1, a[0][1])] + list(a[1:])))
        # same cardinality, one value moved: the last / first / an interior value of a run is dropped and a value outside every
        # run (and not touching one) is added instead
        free = [v for v in (a[-1][1] + 2, a[-1][1] + 700, a[0][0] - 2, a[0][0] - 900) if 0 <= v < CH
                and all(not (lo - 1 <= v <= hi + 1) for lo, hi in a)]
        if free:
            for j in (range(len(a)) if it < len(fixed) else [r.randrange(len(a))]):
                lo, hi = a[j]
                for cls, drop in (("moved-last", hi), ("moved-first", lo), ("moved-mid", (lo + hi) // 2)):
                    rest = [(lo, drop - 1), (drop + 1, hi)]
                    b2 = ivs_union(list(a[:j]) + [iv for iv in rest if iv[0] <= iv[1]] + list(a[j + 1:]), [(free[0], free[0])])
                    variants.append((cls, b2))
        common = rand_set(g)
        k0, k1 = sorted(r.sample(range(0, 65536), 2)) if r.random() < 0.7 else (65534, 65535)
        for cls, b in variants:
            for ka in ("A", "B", "R"):
                for kb in ("A", "B", "R"):
                    ca, cb = render(g, a, ka), render(g, b, kb)
                    x, y = g.fresh("q"), g.fresh("q")
                    lead = ("%d:%s;" % (k0, render(g, common))) if common and r.random() < 0.6 else ""
                    g.emit("mkrepr %s cow=0;%s%d:%s" % (x, lead, k1, ca))
                    g.emit("mkrepr %s cow=0;%s%d:%s" % (y, lead, k1, cb))
                    g.emit("eq %s %s" % (x, y))
                    g.emit("eq %s %s" % (y, x))
                    g.count("eqpairs:" + cls)
