"""Suite `bytein`: the byte-input layer under every decoder (internal.ByteInput: ByteBuffer vs ByteInputAdapter).

  bytein <buf|adapter> <data> <chunks> <errAt|-1> <op>...
     data   : hex | "-" | g<len>:<seed>
     chunks : csv | "-", optional trailing "!" (eager end-of-data)
     op     : n<k> Next(k) | s<k> SkipBytes(k) | u32 | u16
  -> one token per op  ok:<v>:<readBytes> | eof:<rb> | ueof:<rb> | err:<rb> | panic,  then  safe=..,alias=..,stable=..

Every plan (data, ops) is emitted as ONE `buf` line followed by `adapter` lines over several chunk schedules (the checker ties
each adapter line to the buffer line of the same bytes/ops); plans with an error position emit the `buf` line over the bytes
before the error position.  Domain: request sizes are non-negative and at most 2^26 (the decoders ask for at most 4*65536 bytes).
"""
from genlib import suite

LENS = [0, 1, 2, 3, 4, 5, 7, 8, 9, 16, 511, 512, 513, 1024, 1536, 4095, 4096, 4097, 8192, 12288,
        65535, 65536, 65537, 69632, 70000]
REQS = [0, 1, 2, 3, 4, 5, 8, 511, 512, 513, 1024, 4096, 8192, 65536, 65537, 70000]
SCHEDS = ["1", "2,3,7", "512", "4096", "65536", "-"]
CHUNK_POOL = [0, 1, 1, 2, 3, 5, 7, 64, 255, 256, 511, 512, 513, 1000, 4095, 4096, 4097, 65535, 65536, 65537, 100000]


def op_size(op):
    if op == "u32":
        return 4
    if op == "u16":
        return 2
    return int(op[1:])


def data_token(g, n):
    """a data token of n bytes and a function giving the token of its first k bytes"""
    r = g.r
    if n == 0:
        return "-", lambda k: "-"
    if n <= 48 and r.random() < 0.8:
        c = r.random()
        if c < 0.15:
            bs = bytes([r.choice([0, 0xFF])] * n)
        elif c < 0.3:
            bs = bytes(range(1, n + 1))
        else:
            bs = bytes(r.randrange(256) for _ in range(n))
        g.count("bytein:data-hex")
        return bs.hex(), lambda k: (bs[:k].hex() if k > 0 else "-")
    seed = r.choice([0, 1, 5, 77, r.randrange(1 << 32)])
    g.count("bytein:data-gen")
    return "g%d:%d" % (n, seed), lambda k: ("g%d:%d" % (k, seed) if k > 0 else "-")


def rand_sched(g):
    r = g.r
    c = r.random()
    if c < 0.5:
        s = r.choice(SCHEDS)
    else:
        s = ",".join(str(r.choice(CHUNK_POOL)) for _ in range(r.choice([1, 2, 2, 3, 4, 6])))
        g.count("bytein:sched-irregular")
    if r.random() < 0.3:
        s += "!"
        g.count("bytein:sched-eager")
    return s


def rand_req(g, remaining):
    r = g.r
    c = r.random()
    if c < 0.45:
        return r.choice(REQS)
    if c < 0.6:
        return max(0, remaining + r.choice([-2, -1, 0, 0, 1, 2, 511, 512, 4096]))
    if c < 0.8:
        return r.randrange(0, 10)
    return r.randrange(0, remaining + 2)


def rand_op(g, remaining):
    r = g.r
    c = r.random()
    if c < 0.2:
        return "u32"
    if c < 0.4:
        return "u16"
    if c < 0.7:
        return "n%d" % rand_req(g, remaining)
    return "s%d" % rand_req(g, remaining)


def plan_walk(g, n, maxops=40, tail=3):
    """random ops until one fails, then a few more (behaviour after a failure: each implementation against its own model)"""
    r = g.r
    ops, rem = [], n
    failed = 0
    while len(ops) < maxops and failed < tail:
        op = rand_op(g, rem)
        if failed and r.random() < 0.4:
            op = r.choice(["n0", "s0", "n1", "s1", "u16"])
        sz = op_size(op)
        if failed or sz > rem:
            failed += 1
        else:
            rem -= sz
        ops.append(op)
    return ops


def plan_exact(g, n):
    """consume the data exactly, then probe the end"""
    r = g.r
    ops, rem = [], n
    while rem > 0 and len(ops) < 60:
        op = r.choice(["u32", "u16", "n%d" % min(rem, r.choice(REQS[1:])), "s%d" % min(rem, r.choice(REQS[1:])),
                       "n%d" % rem, "s%d" % rem])
        sz = op_size(op)
        if sz > rem:
            op = "n%d" % rem
            sz = rem
        rem -= sz
        ops.append(op)
    ops += r.choice([["n0", "s0", "u16"], ["u32"], ["n1"], ["s1"], ["s0", "n0", "n1", "u32", "s0"], ["u16", "n0"]])
    return ops


def plan_long(g, n):
    r = g.r
    ops, rem = [], n
    for _ in range(r.choice([120, 250, 400])):
        op = r.choice(["u16", "u16", "u32", "u32", "n%d" % r.randrange(0, 9), "s%d" % r.randrange(0, 9),
                       "n%d" % r.choice([511, 512, 513]), "s%d" % r.choice([511, 512, 513])])
        ops.append(op)
    return ops


def plan_decoder(g, n):
    """the shape of roaringArray.readFrom: cookie, size, descriptive header, offsets skipped, containers"""
    r = g.r
    size = r.choice([1, 2, 3, 4, 5, 16, 100, 1000, 16384, 65536])
    ops = ["u32"]
    if r.random() < 0.5:
        ops.append("n%d" % ((size + 7) // 8))
    else:
        ops.append("u32")
    ops.append("n%d" % (4 * size))
    if r.random() < 0.7:
        ops.append("s%d" % (4 * size))
    for _ in range(min(size, r.choice([1, 3, 8]))):
        c = r.random()
        if c < 0.3:
            ops += ["u16", "n%d" % (4 * r.choice([1, 2, 5, 100, 2047]))]
        elif c < 0.6:
            ops.append("n8192")
        else:
            ops.append("n%d" % (2 * r.choice([1, 2, 100, 4096])))
    return ops


def err_positions(g, ops, n):
    """error positions relative to the request boundaries of `ops`"""
    r = g.r
    out = []
    pos = 0
    for op in ops:
        sz = op_size(op)
        if pos > n:
            break
        out.append((pos, "boundary"))
        if sz >= 2:
            kind = {"u": "in-int", "n": "in-next", "s": "in-skip"}[op[0]]
            out.append((pos + r.randrange(1, sz), kind))
            out.append((pos + sz - 1, kind))
            out.append((pos + 1, kind))
        pos += sz
    out += [(0, "zero"), (n, "at-end"), (n + 1, "beyond-end"), (max(0, n - 1), "before-end")]
    return out


def emit_plan(g, n, ops, nsched=3, nerr=2, scheds=None):
    r = g.r
    tok, prefix = data_token(g, n)
    opstr = " ".join(ops)
    g.emit("bytein buf %s - -1 %s" % (tok, opstr))
    g.count("bytein:buf")
    for s in (scheds if scheds is not None else [rand_sched(g) for _ in range(nsched)]):
        g.emit("bytein adapter %s %s -1 %s" % (tok, s, opstr))
        g.count("bytein:adapter")
    if nerr:
        cands = err_positions(g, ops, n)
        for e, kind in r.sample(cands, min(nerr, len(cands))):
            eff = min(e, n)
            # the buffer over the bytes before the error position, then the adapter with the error position
            g.emit("bytein buf %s - -1 %s" % (prefix(eff), opstr))
            g.count("bytein:buf")
            for _ in range(r.choice([1, 2])):
                g.emit("bytein adapter %s %s %d %s" % (tok, rand_sched(g), e, opstr))
                g.count("bytein:adapter-err:" + kind)


def catalogue(g):
    """every boundary length against every boundary request, Next and Skip, three schedules"""
    for n in [0, 1, 3, 4, 511, 512, 513, 4096, 65535, 65536, 65537, 70000]:
        for k in [0, 1, 511, 512, 513, 4096, 65536, 65537, 70000]:
            for kind in "ns":
                ops = ["%s%d" % (kind, k), "u16", "n0"]
                emit_plan(g, n, ops, nerr=0, scheds=["1", g.r.choice(["512", "4096", "2,3,7", "65536!"]), "-"])
                g.count("bytein:catalogue")
    # multiples of 512 / 4096 skipped and read back, the position after the skip must be exact
    for k in [512, 1024, 1536, 2048, 4096, 8192, 65536]:
        for n in [k, k + 1, k + 6]:
            emit_plan(g, n, ["s%d" % k, "u32", "u16", "n1"], nerr=1, scheds=["1", "512", "4096", "-"])
            g.count("bytein:catalogue-skip")


def negative(g):
    """malformed lines give skip on both sides"""
    for l in ["bytein", "bytein buf", "bytein buf 00 - -1 n-1", "bytein tape 00 - -1 u16", "bytein buf 0 - -1 u16",
              "bytein buf zz - -1 u16", "bytein adapter 00 a -1 u16", "bytein adapter 00 - -2 u16", "bytein adapter 00 - -1 x3",
              "bytein adapter 00 - -1 n", "bytein buf g5 - -1 u16", "bytein buf 00 - -1 n99999999999"]:
        g.emit(l)
        g.count("bytein:malformed")


@suite("bytein")
def _bytein(g, scale):
    r = g.r
    catalogue(g)
    negative(g)
    for _ in range(int(70 * scale)):
        n = r.choice(LENS) if r.random() < 0.8 else r.randrange(0, 70001)
        c = r.random()
        if c < 0.35:
            ops = plan_walk(g, n)
            g.count("bytein:plan-walk")
        elif c < 0.6:
            ops = plan_exact(g, n)
            g.count("bytein:plan-exact")
        elif c < 0.8:
            ops = plan_decoder(g, n)
            g.count("bytein:plan-decoder")
        else:
            n = r.choice([0, 7, 600, 2048, 4096, 5000])
            ops = plan_long(g, n)
            g.count("bytein:plan-long")
        emit_plan(g, n, ops, nsched=r.choice([2, 3, 4]), nerr=r.choice([0, 2, 3]))
