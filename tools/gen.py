#!/usr/bin/env python3
"""Entry point: loads every suite module and generates a script."""
import sys
from genlib import G, SUITES, suite
import gen_r64      # noqa: F401  (registers suites)
import gen_bsi      # noqa: F401
import gen_kern     # noqa: F401
import gen_contops  # noqa: F401
import gen_contq    # noqa: F401
import gen_l2rep    # noqa: F401
import gen_contmut  # noqa: F401
import gen_l2agg    # noqa: F401
import gen_l2mut    # noqa: F401
import gen_l2xform  # noqa: F401
import gen_l2iter   # noqa: F401
import gen_l2r64    # noqa: F401
import gen_l2r64q   # noqa: F401
import gen_l2par    # noqa: F401
import gen_l2ser64  # noqa: F401
import gen_l2q      # noqa: F401
import gen_l2iter2  # noqa: F401
import gen_l2bulk   # noqa: F401
import gen_bsibig   # noqa: F401
import gen_bytein   # noqa: F401
import gen_bsi32ops # noqa: F401
import gen_ser      # noqa: F401
import gen_alias    # noqa: F401
import gen_iter     # noqa: F401
import gen_frozen   # noqa: F401
import gen_agg      # noqa: F401


def generate(suite_name, seed, scale=1.0, tier="quick"):
    g = G(seed, tier)
    SUITES[suite_name](g, scale)
    return g.lines, g.hist


if __name__ == "__main__":
    lines, hist = generate(sys.argv[1], int(sys.argv[2]), float(sys.argv[3]) if len(sys.argv) > 3 else 1.0)
    sys.stdout.write("\n".join(lines) + "\n")
    sys.stderr.write(repr(hist) + "\n")
