#!/usr/bin/env python3
"""Count the `l2mut` / `l2iop` lines on which the exact bitmap-level representation check (RepMut) applies.
usage: l2mut_count.py script.txt go.out [more pairs ...]
per op: lines, exact-check lines (receiver / both operands Rep.wf), lines whose receiver carries needCopyOnWrite flags,
lines with the copy-on-write switch on, lines that changed the number of containers, self operations, and for the
in-place binary operations the lines on which the ARGUMENT's flags changed (containers became shared)."""
import sys
from collections import Counter
from l2rep_count import parse_rep, rep_wf


def main():
    cnt = Counter()
    args = sys.argv[1:]
    for si in range(0, len(args), 2):
        lines = open(args[si]).read().splitlines()
        outs = open(args[si + 1]).read().splitlines()
        for ln, o in zip(lines, outs):
            t = ln.split()
            if not t or t[0] not in ("l2mut", "l2iop") or len(t) < 3:
                continue
            op = t[0] + ":" + t[1]
            toks = o.split(" ")
            if o.startswith("skip") or o.startswith("panic"):
                cnt[op + " skip/panic"] += 1
                continue
            cnt[op + " lines"] += 1
            if t[0] == "l2mut":
                rb, ra = parse_rep(toks[0]), parse_rep(toks[1])
                if rb is None or ra is None:
                    cnt[op + " unparsable"] += 1
                    continue
                if rep_wf(rb):
                    cnt[op + " exact"] += 1
                if any(f for _, _, f in rb[1]):
                    cnt[op + " flagged-receiver"] += 1
                if rb[0]:
                    cnt[op + " cow-on"] += 1
                if len(rb[1]) != len(ra[1]):
                    cnt[op + " keys-changed"] += 1
                if toks[0] == toks[1]:
                    cnt[op + " representation-unchanged"] += 1
            else:
                rx, ry, rxa, rya = (parse_rep(x) for x in toks[:4])
                if None in (rx, ry, rxa, rya):
                    cnt[op + " unparsable"] += 1
                    continue
                if rep_wf(rx) and rep_wf(ry):
                    cnt[op + " exact"] += 1
                if t[2] == t[3]:
                    cnt[op + " self"] += 1
                if any(f for _, _, f in rx[1]):
                    cnt[op + " flagged-receiver"] += 1
                if any(f for _, _, f in ry[1]):
                    cnt[op + " flagged-argument"] += 1
                if rx[0] and ry[0]:
                    cnt[op + " cow-both"] += 1
                if toks[1] != toks[3] and t[2] != t[3]:
                    cnt[op + " argument-flags-changed"] += 1
                if any(f for _, _, f in rxa[1]):
                    cnt[op + " result-shares-containers"] += 1
    for k in sorted(cnt):
        print("%-45s %d" % (k, cnt[k]))


if __name__ == "__main__":
    main()
