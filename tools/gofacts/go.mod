module gofacts

go 1.24.0

toolchain go1.24.4

require golang.org/x/tools v0.30.0

require (
	golang.org/x/mod v0.23.0 // indirect
	golang.org/x/sync v0.11.0 // indirect
)
