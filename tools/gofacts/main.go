// Command gofacts regenerates lean/RModel/Gen/Facts.lean from the Go source in -repo:
// (1) named constants, evaluated by go/types; (2) an allow-list of pure scalar functions, translated
// statement by statement into Lean definitions over Int with explicit wrap-around at every fixed-width
// conversion / arithmetic result; (3) source fingerprints of functions mirrored by hand-written model code.
// If a listed item is missing or falls outside the translatable subset the program says so in the output
// (as a Lean comment starting with "-- UNTRANSLATABLE") and omits the definition, which breaks the
// dependent proof obligations.
package main

import (
	"bytes"
	"flag"
	"fmt"
	"go/ast"
	"go/constant"
	"go/printer"
	"go/token"
	"go/types"
	"hash/fnv"
	"os"
	"sort"
	"strings"

	"golang.org/x/tools/go/packages"
)

type item struct {
	pkg  string // "" root, "roaring64", "BitSliceIndexing"
	name string // Go name (for methods: Recv.Name)
	lean string // Lean name
}

var consts = []item{
	{"", "arrayDefaultMaxSize", "arrayDefaultMaxSize"},
	{"", "arrayLazyLowerBound", "arrayLazyLowerBound"},
	{"", "maxCapacity", "maxCapacity"},
	{"", "serialCookieNoRunContainer", "serialCookieNoRunContainer"},
	{"", "serialCookie", "serialCookie"},
	{"", "noOffsetThreshold", "noOffsetThreshold"},
	{"", "invalidCardinality", "invalidCardinality"},
	{"", "maxLowBit", "maxLowBit"},
	{"", "MaxUint32", "maxUint32"},
	{"", "MaxUint16", "maxUint16"},
	{"", "MaxRange", "maxRange"},
	{"", "bcBaseBytes", "bcBaseBytes"},
	{"", "baseRc16Size", "baseRc16Size"},
	{"", "perIntervalRc16Size", "perIntervalRc16Size"},
	{"", "wordSizeInBits", "wordSizeInBits"},
	{"", "frozenCookie", "frozenCookie"},
	{"roaring64", "serialCookieNoRunContainer", "r64SerialCookieNoRunContainer"},
	{"roaring64", "serialCookie", "r64SerialCookie"},
	{"roaring64", "maxLowBit", "r64MaxLowBit"},
}

var funcs = []item{
	{"", "highbits", "highbits"},
	{"", "lowbits", "lowbits"},
	{"", "combineLoHi32", "combineLoHi32"},
	{"", "combineLoHi16", "combineLoHi16"},
	{"", "getSizeInBytesFromCardinality", "getSizeInBytesFromCardinality"},
	{"", "arrayContainerSizeInBytes", "arrayContainerSizeInBytes"},
	{"", "bitmapContainerSizeInBytes", "bitmapContainerSizeInBytes"},
	{"", "runContainer16SerializedSizeInBytes", "runContainer16SerializedSizeInBytes"},
	{"", "minOfInt", "minOfInt"},
	{"", "maxOfInt", "maxOfInt"},
	{"", "minOfUint16", "minOfUint16"},
	{"", "maxOfUint16", "maxOfUint16"},
	{"", "BoundSerializedSizeInBytes", "boundSerializedSizeInBytes"},
	{"roaring64", "highbits", "r64Highbits"},
	{"roaring64", "lowbits", "r64Lowbits"},
	{"roaring64", "transformBSI64SignedEncoding", "transformBSI64SignedEncoding"},
	{"roaring64", "bsi64ValueFitsBitCount", "bsi64ValueFitsBitCount"},
	{"roaring64", "encodeBSI64Value", "encodeBSI64Value"},
	{"roaring64", "decodeBSI64Value", "decodeBSI64Value"},
}

// functions whose normalised source is fingerprinted (hand-written model code mirrors them)
var fingerprints = []item{
	{"", "roaringArray.writeTo", ""}, {"", "roaringArray.readFrom", ""}, {"", "roaringArray.headerSize", ""},
	{"", "roaringArray.serializedSizeInBytes", ""}, {"", "roaringArray.validate", ""}, {"", "arrayContainer.validate", ""},
	{"", "bitmapContainer.validate", ""}, {"", "runContainer16.validate", ""}, {"", "interval16.isNonContiguousDisjoint", ""},
	{"", "roaringArray.frozenView", ""}, {"", "Bitmap.FreezeTo", ""}, {"", "Bitmap.WriteFrozenTo", ""}, {"", "Bitmap.GetFrozenSizeInBytes", ""},
	{"", "ParOr", ""}, {"", "ParAnd", ""}, {"", "ParHeapOr", ""}, {"", "appenderRoutine", ""},
	{"", "AddOffset64", ""}, {"", "Bitmap.Flip", ""}, {"", "Bitmap.AddRange", ""}, {"", "Bitmap.RemoveRange", ""},
	{"roaring64", "Bitmap.WriteTo", ""}, {"roaring64", "Bitmap.ReadFrom", ""}, {"roaring64", "Bitmap.FromUnsafeBytes", ""},
}

// comparison skeletons: for every function declared in the listed source files, every comparison (< <= > >= == !=) one side of
// which is a compile-time integer constant with absolute value >= 2 (thresholds, sizes, cookies, widths; the 0 / 1 / -1 idioms of
// loops and emptiness tests are left out), normalised to "<function>: <non-constant side> <op> <value>" with the constant on the right.
type cmpGroup struct {
	lean  string
	pkg   string
	files []string
}

var cmpGroups = []cmpGroup{
	{"cmpSkeletonSerial", "", []string{"roaringarray.go", "serialization.go", "serialization_generic.go", "serialization_littleendian.go"}},
	{"cmpSkeletonKernels", "", []string{"arraycontainer.go", "bitmapcontainer.go", "runcontainer.go", "setutil.go", "util.go"}},
	{"cmpSkeletonBitmap", "", []string{"roaring.go"}},
	{"cmpSkeletonAgg", "", []string{"fastaggregation.go", "parallel.go", "priorityqueue.go"}},
	{"cmpSkeletonR64", "roaring64", []string{"roaring64.go", "roaringarray64.go", "fastaggregation64.go", "parallel64.go", "iterables64.go"}},
	{"cmpSkeletonBSI64", "roaring64", []string{"bsi64.go"}},
	{"cmpSkeletonBSI32", "BitSliceIndexing", []string{"bsi.go"}},
}

// sharing skeletons: every call of the copy-on-write bookkeeping primitives (with its printed arguments), every clone, and every
// assignment to a copy-on-write flag, per package, as "<function>: <call or assignment>"
var cowCallees = map[string]bool{"appendContainer": true, "appendWithoutCopy": true, "appendCopy": true, "appendWithoutCopyMany": true,
	"appendCopyMany": true, "appendCopiesUntil": true, "appendCopiesAfter": true, "insertNewKeyValueAt": true,
	"replaceKeyAndContainerAtIndex": true, "setContainerAtIndex": true, "setNeedsCopyOnWrite": true, "markAllAsNeedingCopyOnWrite": true,
	"getWritableContainerAtIndex": true, "getFastContainerAtIndex": true, "getUnionedWritableContainer": true,
	"copyOrSourceContainerAt": true, "cloneCopyOnWriteContainers": true, "clone": true, "Clone": true, "CloneCopyOnWriteContainers": true}

var cowParts = []string{"Mut", "Alg", "Agg", "Dec", "Xf"}

// cowPartOf classifies the function an entry of the 32-bit sharing skeleton stands in
func cowPartOf(fn string) string {
	switch fn {
	case "roaringArray.readFrom", "roaringArray.frozenView":
		return "Dec"
	case "Bitmap.FromDense", "AddOffset64", "Flip":
		return "Xf"
	case "Bitmap.Add", "Bitmap.AddMany", "Bitmap.AddRange", "Bitmap.CheckedAdd", "Bitmap.CheckedRemove", "Bitmap.Remove", "Bitmap.RemoveRange",
		"Bitmap.Flip", "Bitmap.addwithptr", "Bitmap.Clone", "Bitmap.CloneCopyOnWriteContainers", "Bitmap.SetCopyOnWrite":
		return "Mut"
	case "And", "AndNot", "Or", "Xor", "Bitmap.And", "Bitmap.AndNot", "Bitmap.Or", "Bitmap.Xor", "roaringArray.mergeBulk":
		return "Alg"
	case "Bitmap.AndAny", "lazyOR", "Bitmap.lazyOR", "Bitmap.repairAfterLazy", "FastAnd", "FastOr", "HeapOr", "HeapXor", "ParAnd", "ParHeapOr",
		"ParOr", "appenderRoutine", "lazyIOrOnRange", "lazyOrOnRange":
		return "Agg"
	}
	if strings.HasPrefix(fn, "roaringArray.") {
		return "Prim"
	}
	if strings.HasPrefix(fn, "arrayContainer.") || strings.HasPrefix(fn, "bitmapContainer.") || strings.HasPrefix(fn, "runContainer16.") ||
		fn == "newRunContainer16FromContainer" {
		if strings.Contains(fn, "lazy") {
			return "Agg"
		}
		return "Alg"
	}
	return "Prim" // a function not classified above concerns every part
}

var cowGroups = []struct{ lean, pkg string }{{"cowSkeleton", ""}, {"cowSkeleton64", "roaring64"}, {"cowSkeletonBSI32", "BitSliceIndexing"}}

var skeletons = []item{
	{"", "ParHeapOr", "skeletonParHeapOr"},
	{"", "ParAnd", "skeletonParAnd"},
	{"", "ParOr", "skeletonParOr"},
	{"", "appenderRoutine", "skeletonAppender"},
	{"roaring64", "ParOr", "skeletonParOr64"},
}

type pkgInfo struct {
	p     *packages.Package
	funcs map[string]*ast.FuncDecl
}

var out bytes.Buffer

func main() {
	repo := flag.String("repo", "/repo", "repository root")
	flag.Parse()
	cfg := &packages.Config{
		Mode: packages.NeedName | packages.NeedFiles | packages.NeedSyntax | packages.NeedTypes | packages.NeedTypesInfo | packages.NeedTypesSizes | packages.NeedImports | packages.NeedDeps,
		Dir:  *repo,
		Env:  append(os.Environ(), "GOFLAGS=-mod=mod", "GOPROXY=off"),
	}
	pkgs, err := packages.Load(cfg, ".", "./roaring64", "./BitSliceIndexing")
	if err != nil {
		fmt.Fprintln(os.Stderr, "load:", err)
		os.Exit(1)
	}
	infos := map[string]*pkgInfo{}
	for _, p := range pkgs {
		if len(p.Errors) > 0 {
			for _, e := range p.Errors {
				fmt.Fprintln(os.Stderr, "package error:", e)
			}
			os.Exit(1)
		}
		key := ""
		if strings.HasSuffix(p.PkgPath, "/roaring64") {
			key = "roaring64"
		} else if strings.HasSuffix(p.PkgPath, "/BitSliceIndexing") {
			key = "BitSliceIndexing"
		}
		pi := &pkgInfo{p: p, funcs: map[string]*ast.FuncDecl{}}
		for _, f := range p.Syntax {
			for _, d := range f.Decls {
				if fd, ok := d.(*ast.FuncDecl); ok {
					name := fd.Name.Name
					if fd.Recv != nil && len(fd.Recv.List) == 1 {
						t := fd.Recv.List[0].Type
						if st, ok := t.(*ast.StarExpr); ok {
							t = st.X
						}
						if id, ok := t.(*ast.Ident); ok {
							name = id.Name + "." + name
						}
					}
					pi.funcs[name] = fd
				}
			}
		}
		infos[key] = pi
	}

	fmt.Fprintln(&out, "-- GENERATED by tools/gofacts from the Go source of RoaringBitmap/roaring — do not edit.")
	fmt.Fprintln(&out, "-- Integers are modelled as Int; every conversion to / arithmetic result of a fixed-width type wraps explicitly;")
	fmt.Fprintln(&out, "-- 64-bit `int` arithmetic is assumed not to overflow (stated in the trusted base).")
	fmt.Fprintln(&out, "namespace RModel.Facts")
	fmt.Fprintln(&out, "")
	fmt.Fprintln(&out, "def wrapU (w : Nat) (x : Int) : Int := x % ((2 : Int) ^ w)")
	fmt.Fprintln(&out, "def wrapS (w : Nat) (x : Int) : Int := let y := x % ((2 : Int) ^ w); if y ≥ (2 : Int) ^ (w - 1) then y - (2 : Int) ^ w else y")
	fmt.Fprintln(&out, "def bitAnd (w : Nat) (a b : Int) : Int := Int.ofNat ((wrapU w a).toNat &&& (wrapU w b).toNat)")
	fmt.Fprintln(&out, "def bitOr (w : Nat) (a b : Int) : Int := Int.ofNat ((wrapU w a).toNat ||| (wrapU w b).toNat)")
	fmt.Fprintln(&out, "def bitXor (w : Nat) (a b : Int) : Int := Int.ofNat ((wrapU w a).toNat ^^^ (wrapU w b).toNat)")
	fmt.Fprintln(&out, "def shl (a : Int) (k : Int) : Int := a * (2 : Int) ^ k.toNat")
	fmt.Fprintln(&out, "def shr (a : Int) (k : Int) : Int := a / (2 : Int) ^ k.toNat")
	fmt.Fprintln(&out, "")

	fmt.Fprintln(&out, "/-! ### constants -/")
	for _, c := range consts {
		pi := infos[c.pkg]
		obj := pi.p.Types.Scope().Lookup(c.name)
		k, ok := obj.(*types.Const)
		if !ok {
			fmt.Fprintf(&out, "-- UNTRANSLATABLE constant %s.%s: not found\n", c.pkg, c.name)
			continue
		}
		v := constant.ToInt(k.Val())
		if v.Kind() != constant.Int {
			fmt.Fprintf(&out, "-- UNTRANSLATABLE constant %s.%s: not an integer\n", c.pkg, c.name)
			continue
		}
		fmt.Fprintf(&out, "def %s : Int := %s\n", c.lean, leanInt(v.ExactString()))
	}
	fmt.Fprintln(&out, "")
	fmt.Fprintln(&out, "/-! ### pure scalar functions -/")
	for _, f := range funcs {
		pi := infos[f.pkg]
		fd := pi.funcs[f.name]
		if fd == nil {
			fmt.Fprintf(&out, "-- UNTRANSLATABLE function %s.%s: not found\n\n", f.pkg, f.name)
			continue
		}
		tr := &translator{pi: pi, pkg: f.pkg}
		src, err := tr.function(fd, f.lean)
		if err != nil {
			fmt.Fprintf(&out, "-- UNTRANSLATABLE function %s.%s: %v\n\n", f.pkg, f.name, err)
			continue
		}
		out.WriteString(src)
		out.WriteString("\n")
	}
	fmt.Fprintln(&out, "/-! ### channel-protocol skeletons: goroutine starts, channel operations and closes in source order -/")
	for _, f := range skeletons {
		pi := infos[f.pkg]
		fd := pi.funcs[f.name]
		if fd == nil {
			fmt.Fprintf(&out, "-- UNTRANSLATABLE skeleton %s.%s: not found\n", f.pkg, f.name)
			continue
		}
		ev := skeleton(pi, fd)
		fmt.Fprintf(&out, "def %s : List String := [\n", f.lean)
		for i, e := range ev {
			sep := ","
			if i == len(ev)-1 {
				sep = ""
			}
			fmt.Fprintf(&out, "  %q%s\n", e, sep)
		}
		fmt.Fprintln(&out, "]")
	}
	fmt.Fprintln(&out, "")
	fmt.Fprintln(&out, "/-! ### comparison skeletons: every comparison against an integer constant of absolute value >= 2, per group of source files -/")
	for _, g := range cmpGroups {
		ev := cmpSkeleton(infos[g.pkg], g.files)
		fmt.Fprintf(&out, "def %s : List String := [\n", g.lean)
		for i, e := range ev {
			sep := ","
			if i == len(ev)-1 {
				sep = ""
			}
			fmt.Fprintf(&out, "  %q%s\n", e, sep)
		}
		fmt.Fprintln(&out, "]")
	}
	fmt.Fprintln(&out, "")
	fmt.Fprintln(&out, "/-! ### sharing skeletons: calls of the copy-on-write primitives, clones, and assignments to copy-on-write flags -/")
	for _, g := range cowGroups {
		ev := cowSkeleton(infos[g.pkg])
		fmt.Fprintf(&out, "def %s : List String := [\n", g.lean)
		for i, e := range ev {
			sep := ","
			if i == len(ev)-1 {
				sep = ""
			}
			fmt.Fprintf(&out, "  %q%s\n", e, sep)
		}
		fmt.Fprintln(&out, "]")
		if g.pkg == "" {
			// the same list once more, split by the kind of function the entry stands in (the bookkeeping primitives of roaringArray
			// belong to every part): a refactoring of Add/Remove then concerns the mutation property, not the decoders or aggregates
			for _, part := range cowParts {
				var sel []string
				for _, e := range ev {
					fn := e
					if k := strings.Index(e, ":"); k >= 0 {
						fn = e[:k]
					}
					if cowPartOf(fn) == part || cowPartOf(fn) == "Prim" {
						sel = append(sel, e)
					}
				}
				fmt.Fprintf(&out, "def %s%s : List String := [\n", g.lean, part)
				for i, e := range sel {
					sep := ","
					if i == len(sel)-1 {
						sep = ""
					}
					fmt.Fprintf(&out, "  %q%s\n", e, sep)
				}
				fmt.Fprintln(&out, "]")
			}
		}
	}
	fmt.Fprintln(&out, "")
	fmt.Fprintln(&out, "/-! ### source fingerprints (FNV-1a of the gofmt-normalised declaration) — informational, not obligations -/")
	fmt.Fprintln(&out, "def fingerprints : List (String × String) := [")
	var fps []string
	for _, f := range fingerprints {
		pi := infos[f.pkg]
		fd := pi.funcs[f.name]
		h := "missing"
		if fd != nil {
			var b bytes.Buffer
			cp := *fd
			cp.Doc = nil
			printer.Fprint(&b, pi.p.Fset, &cp)
			hh := fnv.New64a()
			hh.Write(b.Bytes())
			h = fmt.Sprintf("%016x", hh.Sum64())
		}
		n := f.name
		if f.pkg != "" {
			n = f.pkg + "." + n
		}
		fps = append(fps, fmt.Sprintf("  (%q, %q)", n, h))
	}
	sort.Strings(fps)
	fmt.Fprintln(&out, strings.Join(fps, ",\n"))
	fmt.Fprintln(&out, "]")
	fmt.Fprintln(&out, "")
	fmt.Fprintln(&out, "end RModel.Facts")
	os.Stdout.Write(out.Bytes())
}

func leanInt(s string) string {
	if strings.HasPrefix(s, "-") {
		return "(" + s + ")"
	}
	return s
}

// ---------------------------------------------------------------------------------------------------------
type translator struct {
	pi     *pkgInfo
	pkg    string
	locals map[string]bool
}

func (t *translator) typeOf(e ast.Expr) types.Type { return t.pi.p.TypesInfo.TypeOf(e) }

// width and signedness of an integer type; ok=false for non-integers
func intKind(ty types.Type) (w int, signed bool, ok bool) {
	b, isB := ty.Underlying().(*types.Basic)
	if !isB {
		return 0, false, false
	}
	switch b.Kind() {
	case types.Uint8:
		return 8, false, true
	case types.Uint16:
		return 16, false, true
	case types.Uint32:
		return 32, false, true
	case types.Uint64, types.Uint, types.Uintptr:
		return 64, false, true
	case types.Int8:
		return 8, true, true
	case types.Int16:
		return 16, true, true
	case types.Int32:
		return 32, true, true
	case types.Int64, types.Int:
		return 64, true, true
	case types.UntypedInt:
		return 0, true, true
	}
	return 0, false, false
}

func (t *translator) wrap(ty types.Type, s string) string {
	w, signed, ok := intKind(ty)
	if !ok || w == 0 {
		return s
	}
	if signed {
		// signed arithmetic is assumed not to overflow (only conversions wrap)
		return s
	}
	return fmt.Sprintf("(wrapU %d %s)", w, s)
}

func (t *translator) conv(ty types.Type, s string) string {
	w, signed, ok := intKind(ty)
	if !ok || w == 0 {
		return s
	}
	if signed {
		return fmt.Sprintf("(wrapS %d %s)", w, s)
	}
	return fmt.Sprintf("(wrapU %d %s)", w, s)
}

func (t *translator) leanFuncName(pkg, name string) (string, bool) {
	for _, f := range funcs {
		if f.pkg == pkg && f.name == name {
			return f.lean, true
		}
	}
	return "", false
}

func (t *translator) expr(e ast.Expr) (string, error) {
	if tv, ok := t.pi.p.TypesInfo.Types[e]; ok && tv.Value != nil {
		switch tv.Value.Kind() {
		case constant.Int:
			return leanInt(tv.Value.ExactString()), nil
		case constant.Bool:
			if constant.BoolVal(tv.Value) {
				return "true", nil
			}
			return "false", nil
		}
	}
	switch x := e.(type) {
	case *ast.ParenExpr:
		return t.expr(x.X)
	case *ast.Ident:
		if x.Name == "true" || x.Name == "false" {
			return x.Name, nil
		}
		if !t.locals[x.Name] {
			return "", fmt.Errorf("free identifier %s", x.Name)
		}
		return leanIdent(x.Name), nil
	case *ast.UnaryExpr:
		a, err := t.expr(x.X)
		if err != nil {
			return "", err
		}
		switch x.Op {
		case token.SUB:
			return t.wrap(t.typeOf(e), "(-"+a+")"), nil
		case token.NOT:
			return "(!" + a + ")", nil
		case token.XOR:
			w, signed, ok := intKind(t.typeOf(e))
			if !ok || w == 0 {
				return "", fmt.Errorf("^ on untyped")
			}
			if signed {
				return "(-" + a + " - 1)", nil
			}
			return fmt.Sprintf("((2 : Int) ^ %d - 1 - %s)", w, a), nil
		}
		return "", fmt.Errorf("unary %s", x.Op)
	case *ast.BinaryExpr:
		a, err := t.expr(x.X)
		if err != nil {
			return "", err
		}
		b, err := t.expr(x.Y)
		if err != nil {
			return "", err
		}
		ty := t.typeOf(e)
		w, signed, _ := intKind(ty)
		bit := func(fn string) (string, error) {
			if w == 0 {
				return "", fmt.Errorf("bit op on untyped operands")
			}
			s := fmt.Sprintf("(%s %d %s %s)", fn, w, a, b)
			if signed {
				s = fmt.Sprintf("(wrapS %d %s)", w, s)
			}
			return s, nil
		}
		switch x.Op {
		case token.ADD:
			return t.wrap(ty, "("+a+" + "+b+")"), nil
		case token.SUB:
			return t.wrap(ty, "("+a+" - "+b+")"), nil
		case token.MUL:
			return t.wrap(ty, "("+a+" * "+b+")"), nil
		case token.QUO:
			return "(Int.tdiv " + a + " " + b + ")", nil
		case token.REM:
			return "(Int.tmod " + a + " " + b + ")", nil
		case token.SHL:
			if signed {
				return fmt.Sprintf("(wrapS %d (shl %s %s))", w, a, b), nil
			}
			return t.wrap(ty, "(shl "+a+" "+b+")"), nil
		case token.SHR:
			return "(shr " + a + " " + b + ")", nil
		case token.AND:
			return bit("bitAnd")
		case token.OR:
			return bit("bitOr")
		case token.XOR:
			return bit("bitXor")
		case token.AND_NOT:
			if w == 0 || signed {
				return "", fmt.Errorf("&^ unsupported here")
			}
			return fmt.Sprintf("(bitAnd %d %s ((2 : Int) ^ %d - 1 - %s))", w, a, w, b), nil
		case token.LSS:
			return "(decide (" + a + " < " + b + "))", nil
		case token.LEQ:
			return "(decide (" + a + " ≤ " + b + "))", nil
		case token.GTR:
			return "(decide (" + a + " > " + b + "))", nil
		case token.GEQ:
			return "(decide (" + a + " ≥ " + b + "))", nil
		case token.EQL:
			return "(" + a + " == " + b + ")", nil
		case token.NEQ:
			return "(" + a + " != " + b + ")", nil
		case token.LAND:
			return "(" + a + " && " + b + ")", nil
		case token.LOR:
			return "(" + a + " || " + b + ")", nil
		}
		return "", fmt.Errorf("binary %s", x.Op)
	case *ast.CallExpr:
		// conversion?
		if tv, ok := t.pi.p.TypesInfo.Types[x.Fun]; ok && tv.IsType() {
			if len(x.Args) != 1 {
				return "", fmt.Errorf("conversion arity")
			}
			a, err := t.expr(x.Args[0])
			if err != nil {
				return "", err
			}
			if _, _, ok := intKind(tv.Type); !ok {
				return "", fmt.Errorf("conversion to non-integer %s", tv.Type)
			}
			return t.conv(tv.Type, a), nil
		}
		if id, ok := x.Fun.(*ast.Ident); ok {
			if ln, ok := t.leanFuncName(t.pkg, id.Name); ok {
				s := "(" + ln
				for _, arg := range x.Args {
					a, err := t.expr(arg)
					if err != nil {
						return "", err
					}
					s += " " + a
				}
				return s + ")", nil
			}
			return "", fmt.Errorf("call to unlisted function %s", id.Name)
		}
		return "", fmt.Errorf("unsupported call")
	}
	return "", fmt.Errorf("unsupported expression %T", e)
}

func leanIdent(n string) string {
	switch n {
	case "end", "at", "from", "to", "in", "then", "else", "fun", "let", "have", "show", "by", "do", "mut", "max", "min", "open", "local", "prefix", "instance":
		return n + "_"
	}
	return n
}

func (t *translator) stmts(list []ast.Stmt, ind string) (string, error) {
	var sb strings.Builder
	for _, s := range list {
		switch x := s.(type) {
		case *ast.ReturnStmt:
			if len(x.Results) != 1 {
				return "", fmt.Errorf("return arity")
			}
			e, err := t.expr(x.Results[0])
			if err != nil {
				return "", err
			}
			fmt.Fprintf(&sb, "%sreturn %s\n", ind, e)
		case *ast.AssignStmt:
			if len(x.Lhs) != 1 || len(x.Rhs) != 1 {
				return "", fmt.Errorf("multi-assignment")
			}
			id, ok := x.Lhs[0].(*ast.Ident)
			if !ok {
				return "", fmt.Errorf("assignment to non-identifier")
			}
			rhs, err := t.expr(x.Rhs[0])
			if err != nil {
				return "", err
			}
			name := leanIdent(id.Name)
			switch x.Tok {
			case token.DEFINE:
				t.locals[id.Name] = true
				fmt.Fprintf(&sb, "%slet mut %s : Int := %s\n", ind, name, rhs)
			case token.ASSIGN:
				fmt.Fprintf(&sb, "%s%s := %s\n", ind, name, rhs)
			case token.ADD_ASSIGN:
				fmt.Fprintf(&sb, "%s%s := %s\n", ind, name, t.wrap(t.typeOf(id), "("+name+" + "+rhs+")"))
			case token.SUB_ASSIGN:
				fmt.Fprintf(&sb, "%s%s := %s\n", ind, name, t.wrap(t.typeOf(id), "("+name+" - "+rhs+")"))
			case token.OR_ASSIGN:
				w, signed, _ := intKind(t.typeOf(id))
				if w == 0 || signed {
					return "", fmt.Errorf("|= on signed/untyped")
				}
				fmt.Fprintf(&sb, "%s%s := (bitOr %d %s %s)\n", ind, name, w, name, rhs)
			default:
				return "", fmt.Errorf("assignment operator %s", x.Tok)
			}
		case *ast.DeclStmt:
			gd, ok := x.Decl.(*ast.GenDecl)
			if !ok || gd.Tok != token.VAR {
				return "", fmt.Errorf("declaration")
			}
			for _, sp := range gd.Specs {
				vs := sp.(*ast.ValueSpec)
				for i, n := range vs.Names {
					v := "0"
					if i < len(vs.Values) {
						var err error
						v, err = t.expr(vs.Values[i])
						if err != nil {
							return "", err
						}
					}
					t.locals[n.Name] = true
					fmt.Fprintf(&sb, "%slet mut %s : Int := %s\n", ind, leanIdent(n.Name), v)
				}
			}
		case *ast.IfStmt:
			if x.Init != nil {
				return "", fmt.Errorf("if with init")
			}
			c, err := t.expr(x.Cond)
			if err != nil {
				return "", err
			}
			body, err := t.stmts(x.Body.List, ind+"  ")
			if err != nil {
				return "", err
			}
			fmt.Fprintf(&sb, "%sif %s then\n%s", ind, c, body)
			if x.Else != nil {
				var eb string
				switch el := x.Else.(type) {
				case *ast.BlockStmt:
					eb, err = t.stmts(el.List, ind+"  ")
				case *ast.IfStmt:
					eb, err = t.stmts([]ast.Stmt{el}, ind+"  ")
				}
				if err != nil {
					return "", err
				}
				fmt.Fprintf(&sb, "%selse\n%s", ind, eb)
			}
		case *ast.IncDecStmt:
			id, ok := x.X.(*ast.Ident)
			if !ok {
				return "", fmt.Errorf("++ on non-identifier")
			}
			op := "+"
			if x.Tok == token.DEC {
				op = "-"
			}
			fmt.Fprintf(&sb, "%s%s := %s\n", ind, leanIdent(id.Name), t.wrap(t.typeOf(id), "("+leanIdent(id.Name)+" "+op+" 1)"))
		default:
			return "", fmt.Errorf("unsupported statement %T", s)
		}
	}
	return sb.String(), nil
}

func (t *translator) function(fd *ast.FuncDecl, lean string) (string, error) {
	t.locals = map[string]bool{}
	if fd.Type.Results == nil || len(fd.Type.Results.List) != 1 || len(fd.Type.Results.List[0].Names) > 0 {
		return "", fmt.Errorf("needs exactly one unnamed result")
	}
	rt := t.typeOf(fd.Type.Results.List[0].Type)
	retTy := "Int"
	if b, ok := rt.Underlying().(*types.Basic); ok && b.Kind() == types.Bool {
		retTy = "Bool"
	} else if _, _, ok := intKind(rt); !ok {
		return "", fmt.Errorf("result type %s", rt)
	}
	var params []string
	for _, f := range fd.Type.Params.List {
		if _, _, ok := intKind(t.typeOf(f.Type)); !ok {
			return "", fmt.Errorf("parameter type %s", t.typeOf(f.Type))
		}
		for _, n := range f.Names {
			t.locals[n.Name] = true
			params = append(params, leanIdent(n.Name))
		}
	}
	body, err := t.stmts(fd.Body.List, "  ")
	if err != nil {
		return "", err
	}
	var sb strings.Builder
	fmt.Fprintf(&sb, "def %s", lean)
	for _, p := range params {
		fmt.Fprintf(&sb, " (%s : Int)", p)
	}
	// parameters are reassigned in some Go functions: shadow them as mutable locals
	fmt.Fprintf(&sb, " : %s := Id.run do\n", retTy)
	for _, p := range params {
		if assigned(fd.Body, p) {
			fmt.Fprintf(&sb, "  let mut %s : Int := %s\n", p, p)
		}
	}
	sb.WriteString(body)
	return sb.String(), nil
}

// assigned reports whether the (Lean-renamed) identifier is assigned anywhere in the body
func assigned(body *ast.BlockStmt, leanName string) bool {
	found := false
	ast.Inspect(body, func(n ast.Node) bool {
		switch x := n.(type) {
		case *ast.AssignStmt:
			for _, l := range x.Lhs {
				if id, ok := l.(*ast.Ident); ok && leanIdent(id.Name) == leanName && x.Tok != token.DEFINE {
					found = true
				}
			}
		case *ast.IncDecStmt:
			if id, ok := x.X.(*ast.Ident); ok && leanIdent(id.Name) == leanName {
				found = true
			}
		}
		return true
	})
	return found
}

// skeleton lists, in source order, the concurrency-relevant events of a function body.
func skeleton(pi *pkgInfo, fd *ast.FuncDecl) []string {
	var ev []string
	isChan := func(e ast.Expr) bool {
		t := pi.p.TypesInfo.TypeOf(e)
		if t == nil {
			return false
		}
		_, ok := t.Underlying().(*types.Chan)
		return ok
	}
	name := func(e ast.Expr) string {
		var b bytes.Buffer
		printer.Fprint(&b, pi.p.Fset, e)
		return b.String()
	}
	var walk func(n ast.Node)
	walkList := func(l []ast.Stmt) {
		for _, s := range l {
			walk(s)
		}
	}
	walk = func(n ast.Node) {
		switch x := n.(type) {
		case nil:
		case *ast.BlockStmt:
			if x != nil {
				walkList(x.List)
			}
		case *ast.GoStmt:
			ev = append(ev, "go "+name(x.Call.Fun))
			if fl, ok := x.Call.Fun.(*ast.FuncLit); ok {
				ev[len(ev)-1] = "go func{"
				walk(fl.Body)
				ev = append(ev, "}")
			}
		case *ast.SendStmt:
			ev = append(ev, "send "+name(x.Chan))
		case *ast.ExprStmt:
			walk(x.X)
		case *ast.AssignStmt:
			for i, r := range x.Rhs {
				if ce, ok := r.(*ast.CallExpr); ok {
					if id, ok := ce.Fun.(*ast.Ident); ok && id.Name == "make" && len(ce.Args) >= 1 {
						if _, ok := ce.Args[0].(*ast.ChanType); ok && i < len(x.Lhs) {
							c := "0"
							if len(ce.Args) > 1 {
								c = name(ce.Args[1])
							}
							ev = append(ev, "make "+name(x.Lhs[i])+" cap="+c)
							continue
						}
					}
				}
				if fl, ok := r.(*ast.FuncLit); ok && i < len(x.Lhs) {
					ev = append(ev, "func "+name(x.Lhs[i])+"{")
					walk(fl.Body)
					ev = append(ev, "}")
					continue
				}
				walk(r)
			}
		case *ast.UnaryExpr:
			if x.Op == token.ARROW {
				ev = append(ev, "recv "+name(x.X))
			} else {
				walk(x.X)
			}
		case *ast.CallExpr:
			if id, ok := x.Fun.(*ast.Ident); ok && id.Name == "close" && len(x.Args) == 1 {
				ev = append(ev, "close "+name(x.Args[0]))
				return
			}
			if se, ok := x.Fun.(*ast.SelectorExpr); ok {
				if se.Sel.Name == "Wait" || se.Sel.Name == "Done" || se.Sel.Name == "Add" {
					if t := pi.p.TypesInfo.TypeOf(se.X); t != nil && strings.Contains(t.String(), "sync.WaitGroup") {
						ev = append(ev, "wg."+se.Sel.Name)
					}
				}
			}
			for _, a := range x.Args {
				walk(a)
			}
		case *ast.RangeStmt:
			if isChan(x.X) {
				ev = append(ev, "range "+name(x.X)+"{")
			} else {
				ev = append(ev, "for{")
			}
			walk(x.Body)
			ev = append(ev, "}")
		case *ast.ForStmt:
			ev = append(ev, "for{")
			walk(x.Body)
			ev = append(ev, "}")
		case *ast.SelectStmt:
			ev = append(ev, "select{")
			for _, c := range x.Body.List {
				cc := c.(*ast.CommClause)
				if cc.Comm == nil {
					ev = append(ev, "default")
				} else {
					walk(cc.Comm)
				}
				walkList(cc.Body)
			}
			ev = append(ev, "}")
		case *ast.IfStmt:
			walk(x.Init)
			walk(x.Body)
			if x.Else != nil {
				walk(x.Else)
			}
		case *ast.ReturnStmt:
			ev = append(ev, "return")
		case *ast.DeferStmt:
			ev = append(ev, "defer")
			walk(x.Call)
		case *ast.DeclStmt, *ast.IncDecStmt, *ast.BranchStmt, *ast.EmptyStmt, *ast.LabeledStmt, *ast.SwitchStmt, *ast.TypeSwitchStmt:
		}
	}
	walk(fd.Body)
	// drop empty for{ } pairs (loops without any event) to keep the skeleton readable
	changed := true
	for changed {
		changed = false
		for i := 0; i+1 < len(ev); i++ {
			if ev[i] == "for{" && ev[i+1] == "}" {
				ev = append(ev[:i], ev[i+2:]...)
				changed = true
				break
			}
		}
	}
	return ev
}

// ---------------------------------------------------------------------------------------------------------
// comparison skeleton of the functions declared in the given files (file order, then source order)
func cmpSkeleton(pi *pkgInfo, files []string) []string {
	var ev []string
	want := map[string]bool{}
	for _, f := range files {
		want[f] = true
	}
	type fileDecls struct {
		name string
		f    *ast.File
	}
	var fs []fileDecls
	for _, f := range pi.p.Syntax {
		fn := pi.p.Fset.Position(f.Pos()).Filename
		base := fn[strings.LastIndex(fn, "/")+1:]
		if want[base] {
			fs = append(fs, fileDecls{base, f})
		}
	}
	sort.Slice(fs, func(i, j int) bool { return fs[i].name < fs[j].name })
	flip := map[token.Token]token.Token{token.LSS: token.GTR, token.LEQ: token.GEQ, token.GTR: token.LSS, token.GEQ: token.LEQ, token.EQL: token.EQL, token.NEQ: token.NEQ}
	constOf := func(e ast.Expr) (string, bool) {
		tv, ok := pi.p.TypesInfo.Types[e]
		if !ok || tv.Value == nil {
			return "", false
		}
		v := constant.ToInt(tv.Value)
		if v.Kind() != constant.Int {
			return "", false
		}
		if constant.Compare(v, token.GTR, constant.MakeInt64(-2)) && constant.Compare(v, token.LSS, constant.MakeInt64(2)) {
			return "", false
		}
		return v.ExactString(), true
	}
	show := func(e ast.Expr) string {
		var b bytes.Buffer
		printer.Fprint(&b, pi.p.Fset, e)
		return strings.Join(strings.Fields(b.String()), " ")
	}
	for _, fd := range fs {
		for _, d := range fd.f.Decls {
			fn, ok := d.(*ast.FuncDecl)
			if !ok || fn.Body == nil {
				continue
			}
			name := fn.Name.Name
			if fn.Recv != nil && len(fn.Recv.List) == 1 {
				t := fn.Recv.List[0].Type
				if st, ok := t.(*ast.StarExpr); ok {
					t = st.X
				}
				if id, ok := t.(*ast.Ident); ok {
					name = id.Name + "." + name
				}
			}
			ast.Inspect(fn.Body, func(n ast.Node) bool {
				be, ok := n.(*ast.BinaryExpr)
				if !ok {
					return true
				}
				if _, isCmp := flip[be.Op]; !isCmp {
					return true
				}
				lv, lc := constOf(be.X)
				rv, rc := constOf(be.Y)
				switch {
				case rc && !lc:
					ev = append(ev, fmt.Sprintf("%s: %s %s %s", name, show(be.X), be.Op, rv))
				case lc && !rc:
					ev = append(ev, fmt.Sprintf("%s: %s %s %s", name, show(be.Y), flip[be.Op], lv))
				}
				return true
			})
		}
	}
	return ev
}

// sharing skeleton of one package: all non-test, non-hook files in name order, functions in source order
func cowSkeleton(pi *pkgInfo) []string {
	var ev []string
	type fileDecls struct {
		name string
		f    *ast.File
	}
	var fs []fileDecls
	for _, f := range pi.p.Syntax {
		fn := pi.p.Fset.Position(f.Pos()).Filename
		base := fn[strings.LastIndex(fn, "/")+1:]
		if strings.HasSuffix(base, "_test.go") || strings.HasPrefix(base, "verif_hooks") {
			continue
		}
		fs = append(fs, fileDecls{base, f})
	}
	sort.Slice(fs, func(i, j int) bool { return fs[i].name < fs[j].name })
	show := func(e ast.Node) string {
		var b bytes.Buffer
		printer.Fprint(&b, pi.p.Fset, e)
		return strings.Join(strings.Fields(b.String()), " ")
	}
	for _, fd := range fs {
		for _, d := range fd.f.Decls {
			fn, ok := d.(*ast.FuncDecl)
			if !ok || fn.Body == nil {
				continue
			}
			name := fn.Name.Name
			if fn.Recv != nil && len(fn.Recv.List) == 1 {
				t := fn.Recv.List[0].Type
				if st, ok := t.(*ast.StarExpr); ok {
					t = st.X
				}
				if id, ok := t.(*ast.Ident); ok {
					name = id.Name + "." + name
				}
			}
			ast.Inspect(fn.Body, func(n ast.Node) bool {
				switch x := n.(type) {
				case *ast.CallExpr:
					if sel, ok := x.Fun.(*ast.SelectorExpr); ok && cowCallees[sel.Sel.Name] {
						args := make([]string, len(x.Args))
						for i, a := range x.Args {
							args[i] = show(a)
						}
						ev = append(ev, fmt.Sprintf("%s: %s.%s(%s)", name, show(sel.X), sel.Sel.Name, strings.Join(args, ", ")))
					}
				case *ast.AssignStmt:
					for i, l := range x.Lhs {
						ls := show(l)
						if strings.Contains(ls, "needCopyOnWrite") || strings.HasSuffix(ls, ".copyOnWrite") {
							r := "?"
							if i < len(x.Rhs) {
								r = show(x.Rhs[i])
							} else if len(x.Rhs) == 1 {
								r = show(x.Rhs[0])
							}
							ev = append(ev, fmt.Sprintf("%s: %s %s %s", name, ls, x.Tok, r))
						}
					}
				}
				return true
			})
		}
	}
	return ev
}
