// Command gofacts regenerates lean/RModel/Gen/Facts.lean from the Go source in -repo:
// (1) named constants, evaluated by go/types; (2) an allow-list of pure scalar functions, translated
// statement by statement into Lean definitions over Int with explicit wrap-around at every fixed-width
// conversion / arithmetic result; (3) source fingerprints of functions mirrored by hand-written model code.
// If a listed item is missing or falls outside the translatable subset the program says so in the output
// (as a Lean comment starting with "-- UNTRANSLATABLE") and omits the definition, which breaks the
// dependent proof obligations.
package main

import (
	"bytes"
	"flag"
	"fmt"
	"go/ast"
	"go/constant"
	"go/printer"
	"go/token"
	"go/types"
	"hash/fnv"
	"os"
	"sort"
	"strings"

	"golang.org/x/tools/go/packages"
)

type item struct {
	pkg  string // "" root, "roaring64", "BitSliceIndexing"
	name string // Go name (for methods: Recv.Name)
	lean string // Lean name
}

var consts = []item{
	{"", "arrayDefaultMaxSize", "arrayDefaultMaxSize"},
	{"", "arrayLazyLowerBound", "arrayLazyLowerBound"},
	{"", "maxCapacity", "maxCapacity"},
	{"", "serialCookieNoRunContainer", "serialCookieNoRunContainer"},
	{"", "serialCookie", "serialCookie"},
	{"", "noOffsetThreshold", "noOffsetThreshold"},
	{"", "invalidCardinality", "invalidCardinality"},
	{"", "maxLowBit", "maxLowBit"},
	{"", "MaxUint32", "maxUint32"},
	{"", "MaxUint16", "maxUint16"},
	{"", "MaxRange", "maxRange"},
	{"", "bcBaseBytes", "bcBaseBytes"},
	{"", "baseRc16Size", "baseRc16Size"},
	{"", "perIntervalRc16Size", "perIntervalRc16Size"},
	{"", "wordSizeInBits", "wordSizeInBits"},
	{"", "frozenCookie", "frozenCookie"},
	{"roaring64", "serialCookieNoRunContainer", "r64SerialCookieNoRunContainer"},
	{"roaring64", "serialCookie", "r64SerialCookie"},
	{"roaring64", "maxLowBit", "r64MaxLowBit"},
}

var funcs = []item{
	{"", "highbits", "highbits"},
	{"", "lowbits", "lowbits"},
	{"", "combineLoHi32", "combineLoHi32"},
	{"", "combineLoHi16", "combineLoHi16"},
	{"", "getSizeInBytesFromCardinality", "getSizeInBytesFromCardinality"},
	{"", "arrayContainerSizeInBytes", "arrayContainerSizeInBytes"},
	{"", "bitmapContainerSizeInBytes", "bitmapContainerSizeInBytes"},
	{"", "runContainer16SerializedSizeInBytes", "runContainer16SerializedSizeInBytes"},
	{"", "minOfInt", "minOfInt"},
	{"", "maxOfInt", "maxOfInt"},
	{"", "minOfUint16", "minOfUint16"},
	{"", "maxOfUint16", "maxOfUint16"},
	{"", "BoundSerializedSizeInBytes", "boundSerializedSizeInBytes"},
	{"roaring64", "highbits", "r64Highbits"},
	{"roaring64", "lowbits", "r64Lowbits"},
	{"roaring64", "transformBSI64SignedEncoding", "transformBSI64SignedEncoding"},
	{"roaring64", "bsi64ValueFitsBitCount", "bsi64ValueFitsBitCount"},
	{"roaring64", "encodeBSI64Value", "encodeBSI64Value"},
	{"roaring64", "decodeBSI64Value", "decodeBSI64Value"},
}

// functions whose normalised source is fingerprinted (hand-written model code mirrors them)
var fingerprints = []item{
	{"", "roaringArray.writeTo", ""}, {"", "roaringArray.readFrom", ""}, {"", "roaringArray.headerSize", ""},
	{"", "roaringArray.serializedSizeInBytes", ""}, {"", "roaringArray.validate", ""}, {"", "arrayContainer.validate", ""},
	{"", "bitmapContainer.validate", ""}, {"", "runContainer16.validate", ""}, {"", "interval16.isNonContiguousDisjoint", ""},
	{"", "roaringArray.frozenView", ""}, {"", "Bitmap.FreezeTo", ""}, {"", "Bitmap.WriteFrozenTo", ""}, {"", "Bitmap.GetFrozenSizeInBytes", ""},
	{"", "ParOr", ""}, {"", "ParAnd", ""}, {"", "ParHeapOr", ""}, {"", "appenderRoutine", ""},
	{"", "AddOffset64", ""}, {"", "Bitmap.Flip", ""}, {"", "Bitmap.AddRange", ""}, {"", "Bitmap.RemoveRange", ""},
	{"roaring64", "Bitmap.WriteTo", ""}, {"roaring64", "Bitmap.ReadFrom", ""}, {"roaring64", "Bitmap.FromUnsafeBytes", ""},
}

type pkgInfo struct {
	p     *packages.Package
	funcs map[string]*ast.FuncDecl
}

var out bytes.Buffer

func main() {
	repo := flag.String("repo", "/repo", "repository root")
	flag.Parse()
	cfg := &packages.Config{
		Mode: packages.NeedName | packages.NeedFiles | packages.NeedSyntax | packages.NeedTypes | packages.NeedTypesInfo | packages.NeedTypesSizes | packages.NeedImports | packages.NeedDeps,
		Dir:  *repo,
		Env:  append(os.Environ(), "GOFLAGS=-mod=mod", "GOPROXY=off"),
	}
	pkgs, err := packages.Load(cfg, ".", "./roaring64", "./BitSliceIndexing")
	if err != nil {
		fmt.Fprintln(os.Stderr, "load:", err)
		os.Exit(1)
	}
	infos := map[string]*pkgInfo{}
	for _, p := range pkgs {
		if len(p.Errors) > 0 {
			for _, e := range p.Errors {
				fmt.Fprintln(os.Stderr, "package error:", e)
			}
			os.Exit(1)
		}
		key := ""
		if strings.HasSuffix(p.PkgPath, "/roaring64") {
			key = "roaring64"
		} else if strings.HasSuffix(p.PkgPath, "/BitSliceIndexing") {
			key = "BitSliceIndexing"
		}
		pi := &pkgInfo{p: p, funcs: map[string]*ast.FuncDecl{}}
		for _, f := range p.Syntax {
			for _, d := range f.Decls {
				if fd, ok := d.(*ast.FuncDecl); ok {
					name := fd.Name.Name
					if fd.Recv != nil && len(fd.Recv.List) == 1 {
						t := fd.Recv.List[0].Type
						if st, ok := t.(*ast.StarExpr); ok {
							t = st.X
						}
						if id, ok := t.(*ast.Ident); ok {
							name = id.Name + "." + name
						}
					}
					pi.funcs[name] = fd
				}
			}
		}
		infos[key] = pi
	}

	fmt.Fprintln(&out, "-- GENERATED by tools/gofacts from the Go source of RoaringBitmap/roaring — do not edit.")
	fmt.Fprintln(&out, "-- Integers are modelled as Int; every conversion to / arithmetic result of a fixed-width type wraps explicitly;")
	fmt.Fprintln(&out, "-- 64-bit `int` arithmetic is assumed not to overflow (stated in the trusted base).")
	fmt.Fprintln(&out, "namespace RModel.Facts")
	fmt.Fprintln(&out, "")
	fmt.Fprintln(&out, "def wrapU (w : Nat) (x : Int) : Int := x % ((2 : Int) ^ w)")
	fmt.Fprintln(&out, "def wrapS (w : Nat) (x : Int) : Int := let y := x % ((2 : Int) ^ w); if y ≥ (2 : Int) ^ (w - 1) then y - (2 : Int) ^ w else y")
	fmt.Fprintln(&out, "def bitAnd (w : Nat) (a b : Int) : Int := Int.ofNat ((wrapU w a).toNat &&& (wrapU w b).toNat)")
	fmt.Fprintln(&out, "def bitOr (w : Nat) (a b : Int) : Int := Int.ofNat ((wrapU w a).toNat ||| (wrapU w b).toNat)")
	fmt.Fprintln(&out, "def bitXor (w : Nat) (a b : Int) : Int := Int.ofNat ((wrapU w a).toNat ^^^ (wrapU w b).toNat)")
	fmt.Fprintln(&out, "def shl (a : Int) (k : Int) : Int := a * (2 : Int) ^ k.toNat")
	fmt.Fprintln(&out, "def shr (a : Int) (k : Int) : Int := a / (2 : Int) ^ k.toNat")
	fmt.Fprintln(&out, "")

	fmt.Fprintln(&out, "/-! ### constants -/")
	for _, c := range consts {
		pi := infos[c.pkg]
		obj := pi.p.Types.Scope().Lookup(c.name)
		k, ok := obj.(*types.Const)
		if !ok {
			fmt.Fprintf(&out, "-- UNTRANSLATABLE constant %s.%s: not found\n", c.pkg, c.name)
			continue
		}
		v := constant.ToInt(k.Val())
		if v.Kind() != constant.Int {
			fmt.Fprintf(&out, "-- UNTRANSLATABLE constant %s.%s: not an integer\n", c.pkg, c.name)
			continue
		}
		fmt.Fprintf(&out, "def %s : Int := %s\n", c.lean, leanInt(v.ExactString()))
	}
	fmt.Fprintln(&out, "")
	fmt.Fprintln(&out, "/-! ### pure scalar functions -/")
	for _, f := range funcs {
		pi := infos[f.pkg]
		fd := pi.funcs[f.name]
		if fd == nil {
			fmt.Fprintf(&out, "-- UNTRANSLATABLE function %s.%s: not found\n\n", f.pkg, f.name)
			continue
		}
		tr := &translator{pi: pi, pkg: f.pkg}
		src, err := tr.function(fd, f.lean)
		if err != nil {
			fmt.Fprintf(&out, "-- UNTRANSLATABLE function %s.%s: %v\n\n", f.pkg, f.name, err)
			continue
		}
		out.WriteString(src)
		out.WriteString("\n")
	}
	fmt.Fprintln(&out, "/-! ### source fingerprints (FNV-1a of the gofmt-normalised declaration) — informational, not obligations -/")
	fmt.Fprintln(&out, "def fingerprints : List (String × String) := [")
	var fps []string
	for _, f := range fingerprints {
		pi := infos[f.pkg]
		fd := pi.funcs[f.name]
		h := "missing"
		if fd != nil {
			var b bytes.Buffer
			cp := *fd
			cp.Doc = nil
			printer.Fprint(&b, pi.p.Fset, &cp)
			hh := fnv.New64a()
			hh.Write(b.Bytes())
			h = fmt.Sprintf("%016x", hh.Sum64())
		}
		n := f.name
		if f.pkg != "" {
			n = f.pkg + "." + n
		}
		fps = append(fps, fmt.Sprintf("  (%q, %q)", n, h))
	}
	sort.Strings(fps)
	fmt.Fprintln(&out, strings.Join(fps, ",\n"))
	fmt.Fprintln(&out, "]")
	fmt.Fprintln(&out, "")
	fmt.Fprintln(&out, "end RModel.Facts")
	os.Stdout.Write(out.Bytes())
}

func leanInt(s string) string {
	if strings.HasPrefix(s, "-") {
		return "(" + s + ")"
	}
	return s
}

// ---------------------------------------------------------------------------------------------------------
type translator struct {
	pi     *pkgInfo
	pkg    string
	locals map[string]bool
}

func (t *translator) typeOf(e ast.Expr) types.Type { return t.pi.p.TypesInfo.TypeOf(e) }

// width and signedness of an integer type; ok=false for non-integers
func intKind(ty types.Type) (w int, signed bool, ok bool) {
	b, isB := ty.Underlying().(*types.Basic)
	if !isB {
		return 0, false, false
	}
	switch b.Kind() {
	case types.Uint8:
		return 8, false, true
	case types.Uint16:
		return 16, false, true
	case types.Uint32:
		return 32, false, true
	case types.Uint64, types.Uint, types.Uintptr:
		return 64, false, true
	case types.Int8:
		return 8, true, true
	case types.Int16:
		return 16, true, true
	case types.Int32:
		return 32, true, true
	case types.Int64, types.Int:
		return 64, true, true
	case types.UntypedInt:
		return 0, true, true
	}
	return 0, false, false
}

func (t *translator) wrap(ty types.Type, s string) string {
	w, signed, ok := intKind(ty)
	if !ok || w == 0 {
		return s
	}
	if signed {
		// signed arithmetic is assumed not to overflow (only conversions wrap)
		return s
	}
	return fmt.Sprintf("(wrapU %d %s)", w, s)
}

func (t *translator) conv(ty types.Type, s string) string {
	w, signed, ok := intKind(ty)
	if !ok || w == 0 {
		return s
	}
	if signed {
		return fmt.Sprintf("(wrapS %d %s)", w, s)
	}
	return fmt.Sprintf("(wrapU %d %s)", w, s)
}

func (t *translator) leanFuncName(pkg, name string) (string, bool) {
	for _, f := range funcs {
		if f.pkg == pkg && f.name == name {
			return f.lean, true
		}
	}
	return "", false
}

func (t *translator) expr(e ast.Expr) (string, error) {
	if tv, ok := t.pi.p.TypesInfo.Types[e]; ok && tv.Value != nil {
		switch tv.Value.Kind() {
		case constant.Int:
			return leanInt(tv.Value.ExactString()), nil
		case constant.Bool:
			if constant.BoolVal(tv.Value) {
				return "true", nil
			}
			return "false", nil
		}
	}
	switch x := e.(type) {
	case *ast.ParenExpr:
		return t.expr(x.X)
	case *ast.Ident:
		if x.Name == "true" || x.Name == "false" {
			return x.Name, nil
		}
		if !t.locals[x.Name] {
			return "", fmt.Errorf("free identifier %s", x.Name)
		}
		return leanIdent(x.Name), nil
	case *ast.UnaryExpr:
		a, err := t.expr(x.X)
		if err != nil {
			return "", err
		}
		switch x.Op {
		case token.SUB:
			return t.wrap(t.typeOf(e), "(-"+a+")"), nil
		case token.NOT:
			return "(!" + a + ")", nil
		case token.XOR:
			w, signed, ok := intKind(t.typeOf(e))
			if !ok || w == 0 {
				return "", fmt.Errorf("^ on untyped")
			}
			if signed {
				return "(-" + a + " - 1)", nil
			}
			return fmt.Sprintf("((2 : Int) ^ %d - 1 - %s)", w, a), nil
		}
		return "", fmt.Errorf("unary %s", x.Op)
	case *ast.BinaryExpr:
		a, err := t.expr(x.X)
		if err != nil {
			return "", err
		}
		b, err := t.expr(x.Y)
		if err != nil {
			return "", err
		}
		ty := t.typeOf(e)
		w, signed, _ := intKind(ty)
		bit := func(fn string) (string, error) {
			if w == 0 {
				return "", fmt.Errorf("bit op on untyped operands")
			}
			s := fmt.Sprintf("(%s %d %s %s)", fn, w, a, b)
			if signed {
				s = fmt.Sprintf("(wrapS %d %s)", w, s)
			}
			return s, nil
		}
		switch x.Op {
		case token.ADD:
			return t.wrap(ty, "("+a+" + "+b+")"), nil
		case token.SUB:
			return t.wrap(ty, "("+a+" - "+b+")"), nil
		case token.MUL:
			return t.wrap(ty, "("+a+" * "+b+")"), nil
		case token.QUO:
			return "(Int.tdiv " + a + " " + b + ")", nil
		case token.REM:
			return "(Int.tmod " + a + " " + b + ")", nil
		case token.SHL:
			if signed {
				return fmt.Sprintf("(wrapS %d (shl %s %s))", w, a, b), nil
			}
			return t.wrap(ty, "(shl "+a+" "+b+")"), nil
		case token.SHR:
			return "(shr " + a + " " + b + ")", nil
		case token.AND:
			return bit("bitAnd")
		case token.OR:
			return bit("bitOr")
		case token.XOR:
			return bit("bitXor")
		case token.AND_NOT:
			if w == 0 || signed {
				return "", fmt.Errorf("&^ unsupported here")
			}
			return fmt.Sprintf("(bitAnd %d %s ((2 : Int) ^ %d - 1 - %s))", w, a, w, b), nil
		case token.LSS:
			return "(decide (" + a + " < " + b + "))", nil
		case token.LEQ:
			return "(decide (" + a + " ≤ " + b + "))", nil
		case token.GTR:
			return "(decide (" + a + " > " + b + "))", nil
		case token.GEQ:
			return "(decide (" + a + " ≥ " + b + "))", nil
		case token.EQL:
			return "(" + a + " == " + b + ")", nil
		case token.NEQ:
			return "(" + a + " != " + b + ")", nil
		case token.LAND:
			return "(" + a + " && " + b + ")", nil
		case token.LOR:
			return "(" + a + " || " + b + ")", nil
		}
		return "", fmt.Errorf("binary %s", x.Op)
	case *ast.CallExpr:
		// conversion?
		if tv, ok := t.pi.p.TypesInfo.Types[x.Fun]; ok && tv.IsType() {
			if len(x.Args) != 1 {
				return "", fmt.Errorf("conversion arity")
			}
			a, err := t.expr(x.Args[0])
			if err != nil {
				return "", err
			}
			if _, _, ok := intKind(tv.Type); !ok {
				return "", fmt.Errorf("conversion to non-integer %s", tv.Type)
			}
			return t.conv(tv.Type, a), nil
		}
		if id, ok := x.Fun.(*ast.Ident); ok {
			if ln, ok := t.leanFuncName(t.pkg, id.Name); ok {
				s := "(" + ln
				for _, arg := range x.Args {
					a, err := t.expr(arg)
					if err != nil {
						return "", err
					}
					s += " " + a
				}
				return s + ")", nil
			}
			return "", fmt.Errorf("call to unlisted function %s", id.Name)
		}
		return "", fmt.Errorf("unsupported call")
	}
	return "", fmt.Errorf("unsupported expression %T", e)
}

func leanIdent(n string) string {
	switch n {
	case "end", "at", "from", "to", "in", "then", "else", "fun", "let", "have", "show", "by", "do", "mut", "max", "min", "open", "local", "prefix", "instance":
		return n + "_"
	}
	return n
}

func (t *translator) stmts(list []ast.Stmt, ind string) (string, error) {
	var sb strings.Builder
	for _, s := range list {
		switch x := s.(type) {
		case *ast.ReturnStmt:
			if len(x.Results) != 1 {
				return "", fmt.Errorf("return arity")
			}
			e, err := t.expr(x.Results[0])
			if err != nil {
				return "", err
			}
			fmt.Fprintf(&sb, "%sreturn %s\n", ind, e)
		case *ast.AssignStmt:
			if len(x.Lhs) != 1 || len(x.Rhs) != 1 {
				return "", fmt.Errorf("multi-assignment")
			}
			id, ok := x.Lhs[0].(*ast.Ident)
			if !ok {
				return "", fmt.Errorf("assignment to non-identifier")
			}
			rhs, err := t.expr(x.Rhs[0])
			if err != nil {
				return "", err
			}
			name := leanIdent(id.Name)
			switch x.Tok {
			case token.DEFINE:
				t.locals[id.Name] = true
				fmt.Fprintf(&sb, "%slet mut %s : Int := %s\n", ind, name, rhs)
			case token.ASSIGN:
				fmt.Fprintf(&sb, "%s%s := %s\n", ind, name, rhs)
			case token.ADD_ASSIGN:
				fmt.Fprintf(&sb, "%s%s := %s\n", ind, name, t.wrap(t.typeOf(id), "("+name+" + "+rhs+")"))
			case token.SUB_ASSIGN:
				fmt.Fprintf(&sb, "%s%s := %s\n", ind, name, t.wrap(t.typeOf(id), "("+name+" - "+rhs+")"))
			case token.OR_ASSIGN:
				w, signed, _ := intKind(t.typeOf(id))
				if w == 0 || signed {
					return "", fmt.Errorf("|= on signed/untyped")
				}
				fmt.Fprintf(&sb, "%s%s := (bitOr %d %s %s)\n", ind, name, w, name, rhs)
			default:
				return "", fmt.Errorf("assignment operator %s", x.Tok)
			}
		case *ast.DeclStmt:
			gd, ok := x.Decl.(*ast.GenDecl)
			if !ok || gd.Tok != token.VAR {
				return "", fmt.Errorf("declaration")
			}
			for _, sp := range gd.Specs {
				vs := sp.(*ast.ValueSpec)
				for i, n := range vs.Names {
					v := "0"
					if i < len(vs.Values) {
						var err error
						v, err = t.expr(vs.Values[i])
						if err != nil {
							return "", err
						}
					}
					t.locals[n.Name] = true
					fmt.Fprintf(&sb, "%slet mut %s : Int := %s\n", ind, leanIdent(n.Name), v)
				}
			}
		case *ast.IfStmt:
			if x.Init != nil {
				return "", fmt.Errorf("if with init")
			}
			c, err := t.expr(x.Cond)
			if err != nil {
				return "", err
			}
			body, err := t.stmts(x.Body.List, ind+"  ")
			if err != nil {
				return "", err
			}
			fmt.Fprintf(&sb, "%sif %s then\n%s", ind, c, body)
			if x.Else != nil {
				var eb string
				switch el := x.Else.(type) {
				case *ast.BlockStmt:
					eb, err = t.stmts(el.List, ind+"  ")
				case *ast.IfStmt:
					eb, err = t.stmts([]ast.Stmt{el}, ind+"  ")
				}
				if err != nil {
					return "", err
				}
				fmt.Fprintf(&sb, "%selse\n%s", ind, eb)
			}
		case *ast.IncDecStmt:
			id, ok := x.X.(*ast.Ident)
			if !ok {
				return "", fmt.Errorf("++ on non-identifier")
			}
			op := "+"
			if x.Tok == token.DEC {
				op = "-"
			}
			fmt.Fprintf(&sb, "%s%s := %s\n", ind, leanIdent(id.Name), t.wrap(t.typeOf(id), "("+leanIdent(id.Name)+" "+op+" 1)"))
		default:
			return "", fmt.Errorf("unsupported statement %T", s)
		}
	}
	return sb.String(), nil
}

func (t *translator) function(fd *ast.FuncDecl, lean string) (string, error) {
	t.locals = map[string]bool{}
	if fd.Type.Results == nil || len(fd.Type.Results.List) != 1 || len(fd.Type.Results.List[0].Names) > 0 {
		return "", fmt.Errorf("needs exactly one unnamed result")
	}
	rt := t.typeOf(fd.Type.Results.List[0].Type)
	retTy := "Int"
	if b, ok := rt.Underlying().(*types.Basic); ok && b.Kind() == types.Bool {
		retTy = "Bool"
	} else if _, _, ok := intKind(rt); !ok {
		return "", fmt.Errorf("result type %s", rt)
	}
	var params []string
	for _, f := range fd.Type.Params.List {
		if _, _, ok := intKind(t.typeOf(f.Type)); !ok {
			return "", fmt.Errorf("parameter type %s", t.typeOf(f.Type))
		}
		for _, n := range f.Names {
			t.locals[n.Name] = true
			params = append(params, leanIdent(n.Name))
		}
	}
	body, err := t.stmts(fd.Body.List, "  ")
	if err != nil {
		return "", err
	}
	var sb strings.Builder
	fmt.Fprintf(&sb, "def %s", lean)
	for _, p := range params {
		fmt.Fprintf(&sb, " (%s : Int)", p)
	}
	// parameters are reassigned in some Go functions: shadow them as mutable locals
	fmt.Fprintf(&sb, " : %s := Id.run do\n", retTy)
	for _, p := range params {
		if assigned(fd.Body, p) {
			fmt.Fprintf(&sb, "  let mut %s : Int := %s\n", p, p)
		}
	}
	sb.WriteString(body)
	return sb.String(), nil
}

// assigned reports whether the (Lean-renamed) identifier is assigned anywhere in the body
func assigned(body *ast.BlockStmt, leanName string) bool {
	found := false
	ast.Inspect(body, func(n ast.Node) bool {
		switch x := n.(type) {
		case *ast.AssignStmt:
			for _, l := range x.Lhs {
				if id, ok := l.(*ast.Ident); ok && leanIdent(id.Name) == leanName && x.Tok != token.DEFINE {
					found = true
				}
			}
		case *ast.IncDecStmt:
			if id, ok := x.X.(*ast.Ident); ok && leanIdent(id.Name) == leanName {
				found = true
			}
		}
		return true
	})
	return found
}
