#!/usr/bin/env python3
"""Evaluate a seeded change: confirm it (demo fails with it / passes without, existing tests pass with it) in a scratch
worktree, then apply it to /repo, run the given property checks, and undo it.

  python3 tools/seed_eval.py <seed-dir> <pkg-dir-of-demo> <PROP> [<PROP>...] [--no-confirm] [--tier quick]
"""
import json
import os
import shutil
import subprocess
import sys
import time

ROOT = os.path.dirname(os.path.dirname(os.path.abspath(__file__)))
REPO = os.environ.get("VERIF_REPO", "/repo")
SKIP = "BatchEqualExistenceAuthority|TestLargeFile"


def sh(cmd, cwd=None, timeout=3600):
    env = dict(os.environ, GOFLAGS="-mod=mod", GOPROXY="off")
    r = subprocess.run(cmd, shell=True, cwd=cwd, env=env, stdout=subprocess.PIPE, stderr=subprocess.STDOUT, text=True, timeout=timeout)
    return r.returncode, r.stdout


def main():
    args = [a for a in sys.argv[1:] if not a.startswith("--")]
    flags = [a for a in sys.argv[1:] if a.startswith("--")]
    seed, pkg, props = args[0], args[1], args[2:]
    patch = os.path.join(seed, "patch.diff")
    import glob
    demo = (sorted(glob.glob(os.path.join(seed, "seed_demo*_test.go"))) or [os.path.join(seed, "seed_demo_test.go")])[0]
    res = {"seed": seed, "props": {}, "confirm": None}
    assert sh("git -C " + REPO + " status --porcelain --untracked-files=no")[1].strip() == "", "/repo not clean"
    if "--no-confirm" not in flags:
        wt = "/tmp/seedwt_%d" % os.getpid()
        sh("git -C " + REPO + " worktree add -q %s HEAD" % wt)
        try:
            shutil.copy(demo, os.path.join(wt, pkg, "seed_demo_test.go"))
            rc0, out0 = sh("go test -vet=off -count=1 -run TestSeedDemo ./%s" % pkg, cwd=wt)
            rc, out = sh("git apply %s" % os.path.abspath(patch), cwd=wt)
            assert rc == 0, "patch does not apply: " + out
            rc1, out1 = sh("go build ./... && go test -vet=off -count=1 -run TestSeedDemo ./%s" % pkg, cwd=wt)
            rc2, out2 = sh("go test -vet=off -count=1 -skip '%s|TestSeedDemo' ./..." % SKIP, cwd=wt)
            res["confirm"] = {"demo_passes_without": rc0 == 0, "demo_fails_with": rc1 != 0, "suite_passes_with": rc2 == 0,
                              "suite_tail": out2[-300:] if rc2 != 0 else ""}
        finally:
            sh("git -C " + REPO + " worktree remove --force %s" % wt)
    rc, out = sh("git -C " + REPO + " apply %s" % os.path.abspath(patch))
    assert rc == 0, out
    try:
        for p in props:
            t0 = time.time()
            tier = "quick"
            for f in flags:
                if f.startswith("--tier="):
                    tier = f.split("=", 1)[1]
            rc, out = sh("python3 tools/run_check.py --prop %s --tier %s" % (p, tier), cwd=ROOT)
            lines = [l for l in out.splitlines() if l.startswith(("VIOLATION", "OK", "KNOWN"))]
            res["props"][p] = {"rc": rc, "lines": lines, "wall": round(time.time() - t0, 1)}
    finally:
        sh("git -C " + REPO + " checkout -- .")
    print(json.dumps(res, indent=1))


if __name__ == "__main__":
    main()
