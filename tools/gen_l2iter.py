"""L2 tie of the iterator state machines (lean/RModel/Impl/Iter.lean): iterators created with `l2it` on bitmaps whose
raw representation is chosen here container by container (`mkrepr`), driven through the protocols that move the Go
structs across container boundaries:

  drain      plain drain (fwd / rev / many), step by step (hasnext, next?, next!, peek?) and in bulk
  adv        AdvanceIfNeeded into the middle of a run, onto a run start / end, into a gap, past the end of a container,
             into an absent key, beyond the last value, backwards; after partial consumption of a run
  advrel     AdvanceIfNeeded relative to the iterator's own next value
  reinit     re-Initialize the same object mid-container on another / the same / an empty bitmap
  many       NextMany / NextMany64 with buffer-length sequences that end inside a word / a run / exactly at a container end

Every line on an `l2it` iterator is checked three ways by the checker: Go = set-level cursor (stepIter),
L2 model = Go, L2 model = set-level cursor."""
from genlib import G, suite, CH, U32
from gen_kern import rand_set, render, card

FULL_B = "B:65536:ffffffffffffffff*1024"
FULL_R = "R:0+65535"
MANY_SIZES = [1, 2, 10, 63, 64, 65, 100, 4096, 70000]


def clamp(v):
    return max(0, min(U32 - 1, v))


class Proto:
    """counts the script lines emitted for one protocol"""
    def __init__(self, g, name):
        self.g, self.name = g, name

    def __enter__(self):
        self.n0 = len(self.g.lines)
        return self

    def __exit__(self, *a):
        k = "l2lines:" + self.name
        self.g.hist[k] = self.g.hist.get(k, 0) + len(self.g.lines) - self.n0
        self.g.count("l2proto:" + self.name)


# ------------------------------------------------------------------ containers
def ivs_of(g, shape):
    """inclusive 16-bit intervals of a named shape"""
    r = g.r
    if shape == "full":
        return [(0, CH - 1)]
    if shape == "single":
        v = r.choice([0, 1, 63, 64, 65535, 65534, g.lowval()])
        return [(v, v)]
    if shape == "onerun":
        a = r.choice([0, 1, 64, 1000, g.lowval()])
        b = min(CH - 1, a + r.choice([1, 2, 62, 63, 64, 65, 99, 100, 4095, 4096, 30000]))
        return [(a, b)]
    if shape == "runs":
        nb = r.choice([2, 3, 5, 12, 40])
        pts = sorted(r.sample(range(CH + 1), 2 * nb))
        return [(pts[i], pts[i + 1] - 1) for i in range(0, 2 * nb, 2)]
    if shape == "shortruns":
        # runs of known small lengths: buffer lengths land inside / exactly at the end of a run
        pos = r.choice([0, 1, 60, 4000])
        out = []
        for _ in range(r.choice([3, 8, 30])):
            ln = r.choice([1, 2, 3, 10, 63, 64, 65, 100])
            if pos + ln > CH:
                break
            out.append((pos, pos + ln - 1))
            pos += ln + r.choice([1, 2, 64, 500])
        return out or [(5, 9)]
    if shape == "edges":
        out = [(0, r.choice([0, 1, 63, 64]))]
        if r.random() < 0.7:
            out.append((r.choice([4095, 4096, 30000]), 30010))
        out.append((CH - 1 - r.choice([0, 1, 63, 64]), CH - 1))
        return out
    if shape == "sparse":
        vals = sorted({g.lowval() for _ in range(r.choice([2, 5, 20, 80]))})
        return vals_to_ivs(vals)
    if shape == "alt":
        step = r.choice([2, 3, 16, 64])
        return [(v, v) for v in range(r.randrange(step), r.choice([640, 8192, 20000]), step)]
    if shape == "dense":
        vals = sorted(r.sample(range(CH), r.choice([4097, 5000, 9000])))
        return vals_to_ivs(vals)
    if shape == "wordy":
        # bitmap-friendly: whole words, half words, words with only bit 0 / bit 63, long zero stretches
        out = []
        w = r.choice([0, 1, 5])
        while w < 1024 and len(out) < 400:
            c = r.random()
            if c < 0.3:
                out.append((w * 64, w * 64 + 63))
            elif c < 0.5:
                out.append((w * 64, w * 64))
            elif c < 0.7:
                out.append((w * 64 + 63, w * 64 + 63))
            elif c < 0.85:
                out.append((w * 64 + 31, w * 64 + 32))
            else:
                a = r.randrange(64)
                out.append((w * 64 + a, w * 64 + r.randrange(a, 64)))
            w += r.choice([1, 1, 1, 2, 3, 17])
        return merge(out)
    return rand_set(g) or [(7, 7)]


def vals_to_ivs(vals):
    out = []
    for v in vals:
        if out and out[-1][1] + 1 == v:
            out[-1] = (out[-1][0], v)
        else:
            out.append((v, v))
    return out


def merge(ivs):
    out = []
    for a, b in sorted(ivs):
        if out and out[-1][1] + 1 >= a:
            out[-1] = (out[-1][0], max(out[-1][1], b))
        else:
            out.append((a, b))
    return out


def pad_card(g, ivs, n):
    """make the cardinality exceed n by adding a block in the largest gap (so that kind B is legal)"""
    if card(ivs) > n:
        return ivs
    need = n + 1 - card(ivs) + g.r.choice([0, 1, 50])
    gaps = []
    prev = 0
    for a, b in ivs:
        gaps.append((a - prev, prev, a - 1))
        prev = b + 1
    gaps.append((CH - prev, prev, CH - 1))
    gaps.sort(reverse=True)
    out = list(ivs)
    for sz, lo, hi in gaps:
        if need <= 0:
            break
        take = min(sz, need)
        if take > 0:
            out.append((lo, lo + take - 1))
            need -= take
    return merge(out)


# sequences of (shape, kind) per chunk, in key order: what meets what at a container boundary
SEQS = [
    [("onerun", "R"), ("sparse", "A")],                      # run chunk followed by array chunk
    [("runs", "R"), ("runs", "R"), ("shortruns", "R")],      # several run chunks
    [("full", "R"), ("full", "B"), ("full", "R")],           # full chunks of both kinds
    [("full", "B"), ("sparse", "A"), ("full", "R")],
    [("single", "A"), ("single", "A"), ("single", "R"), ("single", "A")],   # single-value chunks
    [("sparse", "A"), ("dense", "B"), ("runs", "R")],
    [("dense", "B"), ("wordy", "B")],
    [("wordy", "B"), ("onerun", "R"), ("alt", "A")],
    [("shortruns", "R"), ("shortruns", "A"), ("shortruns", "R")],
    [("edges", "A"), ("edges", "R"), ("edges", "B")],
    [("alt", "A"), ("alt", "B")],
    [("onerun", "R")],
    [("sparse", "A")],
    [("wordy", "B")],
    [("rand", None), ("rand", None), ("rand", None)],
]


def key_layout(g, n):
    r = g.r
    c = r.random()
    if c < 0.3:
        s = r.choice([0, 1, 7, 1000])
        ks = list(range(s, s + n))                      # adjacent keys
    elif c < 0.55:
        ks = list(range(65536 - n, 65536))              # ... ending at key 65535
    elif c < 0.7:
        ks = sorted(set(r.sample(range(0, 3 * n + 2), n - 1) + [65535])) if n > 1 else [65535]
    else:
        ks = sorted(r.sample(range(65536), n))          # absent keys in between
    return ks


def mk_bitmap(g, x, seq=None):
    """bitmap x from an explicit representation; returns list of (key, ivs)"""
    r = g.r
    if seq is None:
        seq = r.choice(SEQS)
    ks = key_layout(g, len(seq))
    parts = ["cow=0"]
    chunks = []
    for k, (shape, kind) in zip(ks, seq):
        ivs = ivs_of(g, shape)
        if kind == "B":
            ivs = pad_card(g, ivs, 4096)
        if kind == "A" and card(ivs) > 4096:
            kind = "R"
        if ivs == [(0, CH - 1)] and kind == "B":
            parts.append("%d:%s" % (k, FULL_B))
        else:
            parts.append("%d:%s" % (k, render(g, ivs, kind)))
        g.count("l2chunk:%s/%s" % (shape, kind or "any"))
        chunks.append((k, ivs))
    g.emit("mkrepr %s %s" % (x, ";".join(parts)))
    return chunks


def targets(g, chunks):
    """labelled AdvanceIfNeeded targets"""
    r = g.r
    t = []
    for k, ivs in chunks:
        base = k * CH
        for a, b in ([ivs[0], ivs[-1]] + [r.choice(ivs) for _ in range(4)]):
            t.append(("runstart", base + a))
            t.append(("runend", base + b))
            if b > a + 1:
                t.append(("midrun", base + r.randrange(a + 1, b)))
            if b + 1 < CH:
                t.append(("gap", base + b + 1))
            if a > 0:
                t.append(("gap", base + a - 1))
        if ivs[-1][1] < CH - 1:
            t.append(("pastcont", base + r.randrange(ivs[-1][1] + 1, CH)))     # same key, above its last value
            t.append(("pastcont", base + CH - 1))
        if ivs[0][0] > 0:
            t.append(("beforecont", base + r.randrange(0, ivs[0][0])))
        t.append(("nextkey", clamp(base + CH)))
        t.append(("nextkey", clamp(base + CH + g.lowval())))
        t.append(("prevkey", clamp(base - 1)))
        t.append(("prevkey", clamp(base - CH + g.lowval())))
    if chunks:
        last = chunks[-1][0] * CH + chunks[-1][1][-1][1]
        t += [("beyondlast", clamp(last + 1)), ("beyondlast", clamp(last + CH)), ("beyondlast", U32 - 1)]
    t += [("zero", 0), ("max", U32 - 1)]
    return t


def total_card(chunks):
    return sum(card(ivs) for _, ivs in chunks)


# ------------------------------------------------------------------ protocols
def p_drain(g, x, chunks):
    r = g.r
    n = total_card(chunks)
    with Proto(g, "drain-bulk"):
        for kind in ("fwd", "rev", "many"):
            i = g.fresh("li")
            g.emit("l2it %s %s %s" % (kind, i, x))
            if r.random() < 0.5:
                g.emit("drain %s %d" % (i, r.choice([0, 1, 2, 63, 64, 65, 999, 1000, 1001, 4096, 70000])))
            g.emit("drain %s" % i)
            if kind != "many":
                g.emit("hasnext %s" % i)
                g.emit("next? %s" % i)
            else:
                g.emit("many %s 5" % i)
            g.emit("drain %s" % i)
    with Proto(g, "drain-step"):
        for kind in ("fwd", "rev"):
            i = g.fresh("li")
            g.emit("l2it %s %s %s" % (kind, i, x))
            steps = min(n + 3, r.choice([20, 80, 300]))
            for _ in range(steps):
                op = r.choices(["next?", "next!", "hasnext", "peek?", "peek!"], [6, 6, 2, 2, 2])[0]
                if kind == "rev" and op.startswith("peek"):
                    op = "next!"
                g.emit("%s %s" % (op, i))
            g.emit("drain %s" % i)
            g.emit("hasnext %s" % i)
            g.emit("next! %s" % i)


def p_adv(g, x, chunks):
    r = g.r
    tg = targets(g, chunks)
    with Proto(g, "adv"):
        for _ in range(3):
            i = g.fresh("li")
            g.emit("l2it fwd %s %s" % (i, x))
            # ascending walk through labelled targets with reads in between; sometimes a backwards target
            seq = sorted(r.sample(tg, min(len(tg), r.choice([4, 8, 16]))), key=lambda p: p[1])
            prev = None
            for lab, m in seq:
                if prev is not None and r.random() < 0.2:
                    g.emit("adv %s %d" % (i, prev))           # at / below the cursor: no move
                    g.count("l2adv:back")
                g.emit("adv %s %d" % (i, m))
                g.count("l2adv:" + lab)
                for _ in range(r.choice([0, 1, 1, 2, 5])):
                    g.emit("%s %s" % (r.choice(["next?", "next!", "peek?", "hasnext", "peek!"]), i))
                prev = m
            g.emit("drain %s %d" % (i, r.choice([1, 5, 100])))
            g.emit("adv %s %d" % (i, r.choice(tg)[1]))
            g.emit("drain %s" % i)
            g.emit("adv %s %d" % (i, r.choice(tg)[1]))        # exhausted: stays exhausted
            g.emit("hasnext %s" % i)
            g.emit("peek! %s" % i)
    with Proto(g, "adv-after-partial-run"):
        # consume part of a run, then advance inside the same run / to its end / into the next run / elsewhere
        for k, ivs in chunks:
            longruns = [(a, b) for a, b in ivs if b - a >= 4]
            if not longruns or r.random() < 0.3:
                continue
            a, b = r.choice(longruns)
            i = g.fresh("li")
            g.emit("l2it fwd %s %s" % (i, x))
            g.emit("adv %s %d" % (i, k * CH + a))
            for _ in range(r.choice([1, 2, 3])):
                g.emit("next! %s" % i)
            for m in sorted(r.sample([a, a + 1, a + 2, a + 3, (a + b) // 2, b - 1, b, b + 1, b + 2, CH - 1, CH, CH + 1], 4)):
                g.emit("adv %s %d" % (i, clamp(k * CH + m)))
                g.emit("peek? %s" % i)
                if r.random() < 0.5:
                    g.emit("next? %s" % i)
            g.emit("drain %s %d" % (i, 70))
            g.count("l2adv:after-partial-run")
    with Proto(g, "advrel"):
        i = g.fresh("li")
        g.emit("l2it fwd %s %s" % (i, x))
        for _ in range(r.choice([6, 15, 30])):
            d = r.choice([0, 0, 1, 1, 2, 3, -1, 62, 63, 64, 65, 100, 4096, 65535, 65536, 65537, r.randrange(1, 70000)])
            g.emit("advrel %s %d" % (i, d))
            if r.random() < 0.6:
                g.emit("%s %s" % (r.choice(["next?", "peek?", "next!"]), i))
        g.emit("drain %s 3" % i)


def p_many(g, x, chunks):
    r = g.r
    n = total_card(chunks)
    with Proto(g, "many"):
        for _ in range(3):
            i = g.fresh("li")
            g.emit("l2it many %s %s" % (i, x))
            c = r.random()
            if c < 0.3:
                sizes = [r.choice([1, 2, 10, 63, 64, 65, 100])] * r.choice([5, 20, 60])      # fixed stride
            elif c < 0.45:
                # exactly to the end of each container, then one more
                sizes = []
                for _, ivs in chunks:
                    k = card(ivs)
                    sizes += [k] if r.random() < 0.5 else [k - 1, 1] if k > 1 else [1]
                sizes += [1, 5]
            else:
                sizes = [r.choice(MANY_SIZES) for _ in range(r.choice([4, 10, 20]))]
            left = n
            over = 0
            for s in sizes:
                if left <= 0:
                    over += 1
                    if over > 2:            # exhausted: two more calls are enough
                        break
                if r.random() < 0.12:
                    g.emit("manyhs %s %d %d" % (i, s, U32 * r.choice([0, 1, 2, 0xFFFFFFFF, r.randrange(1 << 32)])))
                    g.count("l2many64:%d" % s if s in MANY_SIZES else "l2many64:other")
                else:
                    g.emit("many %s %d" % (i, s))
                    g.count("l2many:%d" % s if s in MANY_SIZES else "l2many:other")
                left -= s
            g.emit("drain %s %d" % (i, r.choice([0, 1, 999, 1000, 1001, 5000])))
            g.emit("drain %s" % i)
            g.emit("many %s %d" % (i, r.choice([1, 64])))
            g.emit("many %s 0" % i)


def p_reinit(g, x, chunks, others):
    r = g.r
    with Proto(g, "reinit"):
        for kind in ("fwd", "rev", "many"):
            i = g.fresh("li")
            g.emit("l2it %s %s %s" % (kind, i, x))
            for rounds in range(r.choice([1, 2, 3])):
                # leave the object mid-container / exhausted / fresh
                st = r.choice(["mid", "mid", "mid", "exhausted", "fresh"])
                g.count("l2reinit:from-" + st)
                if st == "mid":
                    if kind == "many":
                        g.emit("many %s %d" % (i, r.choice([1, 3, 63, 65, 100, 5000])))
                    else:
                        if kind == "fwd" and r.random() < 0.5:
                            g.emit("adv %s %d" % (i, r.choice(targets(g, chunks))[1]))
                        for _ in range(r.choice([1, 2, 7, 70])):
                            g.emit("next! %s" % i)
                elif st == "exhausted":
                    g.emit("drain %s" % i)
                y, ychunks = r.choice(others + [(x, chunks)])
                g.emit("l2reinit %s %s" % (i, y))
                g.count("l2reinit:onto-" + ("empty" if not ychunks else "same" if y == x else "other"))
                if kind == "many":
                    g.emit("many %s %d" % (i, r.choice([1, 2, 64, 100])))
                    g.emit("many %s %d" % (i, r.choice(MANY_SIZES)))
                else:
                    for _ in range(r.choice([2, 5])):
                        g.emit("%s %s" % (r.choice(["hasnext", "next?", "next!"] + (["peek?", "peek!"] if kind == "fwd" else [])), i))
                    if kind == "fwd" and ychunks and r.random() < 0.6:
                        g.emit("adv %s %d" % (i, r.choice(targets(g, ychunks))[1]))
                        g.emit("next? %s" % i)
                x, chunks = y, ychunks
            g.emit("drain %s" % i)


def one_case(g, seq=None):
    r = g.r
    x = g.fresh("lb")
    chunks = mk_bitmap(g, x, seq)
    g.emit("card %s" % x)
    p_drain(g, x, chunks)
    p_adv(g, x, chunks)
    p_many(g, x, chunks)
    prev = getattr(g, "_l2prev", [])
    p_reinit(g, x, chunks, prev[-3:] + [("lb_empty", [])])
    prev.append((x, chunks))
    g._l2prev = prev[-4:]
    g.emit("dig %s" % x)


def library_case(g):
    """a bitmap built by the library itself (whatever containers AddRange / RunOptimize choose)"""
    r = g.r
    x = g.fresh("lb")
    g.build(x)
    with Proto(g, "library-built"):
        for kind in ("fwd", "rev", "many"):
            i = g.fresh("li")
            g.emit("l2it %s %s %s" % (kind, i, x))
            if kind == "fwd":
                for _ in range(6):
                    g.emit("adv %s %d" % (i, r.randrange(U32) if r.random() < 0.3 else g.val_near([])))
                    g.emit("next? %s" % i)
            if kind == "many":
                for _ in range(6):
                    g.emit("many %s %d" % (i, r.choice(MANY_SIZES)))
            g.emit("drain %s" % i)


@suite("l2iter")
def _l2iter(g, scale):
    r = g.r
    g.emit("new lb_empty")
    # the empty bitmap
    with Proto(g, "empty"):
        for c in ("l2it fwd le0 lb_empty", "hasnext le0", "next? le0", "peek? le0", "adv le0 5", "hasnext le0", "drain le0",
                  "l2it rev le1 lb_empty", "hasnext le1", "next? le1", "drain le1",
                  "l2it many le2 lb_empty", "many le2 0", "many le2 5", "manyhs le2 5 4294967296", "drain le2"):
            g.emit(c)
    seqs = list(SEQS)
    r.shuffle(seqs)
    n = max(1, int(6 * scale))
    for j in range(n):
        one_case(g, seqs[j % len(seqs)] if r.random() < 0.8 else None)
    for _ in range(max(1, int(2 * scale))):
        library_case(g)
