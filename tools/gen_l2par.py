"""Suite `l2par`: exact-representation tie of the L2 DATA model of the parallel aggregates (lean/RModel/Impl/ParData.lean).

`l2par <paror|parand|parheapor> z w x1 … xn` (n = 0 … 6, w = the `parallelism` argument, 0 = runtime.NumCPU()).

Operand groups, by KEY LAYOUT (what decides the chunk grid of ParOr and the pop order of the container heap):
  * `few`       : a handful of keys, chunks from the heavy pool of gen_l2agg (arrays around 1024 / 4096, bitmaps, full chunks as run
                  AND as bitmap containers, many / few runs) and the kind SEQUENCES of gen_l2agg at one key;
  * `hundreds`  : 100 … 400 keys out of a span, light containers;
  * `wide`      : keys from 0 up to 65535 (keyRange = 65536, the top of the key space);
  * `span4w`    : for a chosen worker count w the key range is 4w-1, 4w, 4w+1, … 8w±1, 12w+1 … (both sides of the
                  `parallelism*4 > keyRange` test and of the rounding / re-trimming of the chunk grid), anchored at 0, somewhere,
                  or so that hKey = 65535;
  * `interleaved`: the first two operands own every third key, later operands bring keys BEFORE, BETWEEN and AFTER those already
                  merged (insertNewKeyValueAt in the middle of a chunk, appendCopy at its end);
  * `shared`    : all operands have all keys;   `disjoint`: no key common to all (ParAnd must be empty);
  * `ops`       : operands made by the library itself (addr / addmany / opt / cowclone / setcow), duplicates of one object, empties.
Every group is run through ParOr with several worker counts out of 0,1,2,3,4,5,7,8,16,33,64,100,192,1000 (always the one the
layout was built for), and through ParAnd / ParHeapOr; results are validated (`wf z`), mutated and the aggregate repeated so that
sharing between a result and an operand would show.
Domain: bitmaps as the library itself produces them (Rep.wf); w >= 0."""
from genlib import suite, CH
from gen_l2agg import rand_cont, mk, SEQS

WORKERS = [0, 1, 2, 3, 4, 5, 7, 8, 16, 33, 64, 100, 192, 1000]
FULLB = "B:65536:ffffffffffffffff*1024"


def light_cont(g):
    """a cheap well-formed container (no value list is expanded)"""
    r = g.r
    c = r.random()
    if c < 0.30:
        g.count("kind:A")
        return "A:%d" % g.lowval()
    if c < 0.55:
        g.count("kind:A")
        return "A:" + ",".join(str(v) for v in sorted(set(g.lowval() for _ in range(r.randrange(2, 9)))))
    if c < 0.70:
        s = r.choice([0, 1, 63, 64, 1000, 30000, 65000])
        l = r.choice([3, 4, 63, 64, 500])
        g.count("kind:R")
        return "R:%d+%d" % (s, min(l, 65535 - s))
    if c < 0.78:
        a = r.randrange(0, 30000)
        g.count("kind:R")
        return "R:%d+%d,%d+%d" % (a, r.choice([2, 5, 100]), a + 1000, r.choice([2, 7, 3000]))
    if c < 0.86:
        g.count("kind:Rfull")
        return "R:0+65535"
    if c < 0.91:
        g.count("kind:Bfull")
        return FULLB
    if c < 0.96:
        g.count("kind:B")
        return "B:4097:ffffffffffffffff*64.%x.0*959" % (1 << r.randrange(64))
    g.count("kind:B")
    return "B:65535:ffffffffffffffff*1023.7fffffffffffffff"


def cont_for(g, heavy):
    if heavy and g.r.random() < 0.7:
        return rand_cont(g)
    return light_cont(g)


def operands(g, keysets, heavy=False):
    names = []
    for ks in keysets:
        x = g.fresh()
        mk(g, x, {k: cont_for(g, heavy) for k in ks})
        names.append(x)
    return names


# ------------------------------------------------------------------ key layouts: each returns (list of key lists, preferred w or None)
def lay_few(g, n):
    r = g.r
    nk = r.choice([2, 2, 3, 5, 8])
    if r.random() < 0.5:
        uni = sorted(r.sample(range(0, 12), nk))
    else:
        uni = sorted(set(g.key() for _ in range(nk)))
    dens = r.choice([0.5, 0.8, 1.0])
    return [[k for k in uni if r.random() < dens] for _ in range(n)], None


def lay_hundreds(g, n):
    r = g.r
    span = r.choice([500, 1000, 5000, 65536])
    lo = r.choice([0, 1, r.randrange(0, 65536 - span + 1), 65536 - span])
    uni = sorted(r.sample(range(lo, lo + span), r.randrange(100, 400)))
    dens = r.choice([0.3, 0.6, 0.9])
    return [[k for k in uni if r.random() < dens] for _ in range(n)], None


def lay_wide(g, n):
    r = g.r
    uni = sorted(set([0, 65535] + [g.key() for _ in range(r.randrange(3, 30))] + r.sample(range(65536), r.randrange(0, 60))))
    out = [[k for k in uni if r.random() < 0.5] for _ in range(n)]
    if n:
        a, b = r.randrange(n), r.randrange(n)
        out[a] = sorted(set(out[a] + [0]))
        out[b] = sorted(set(out[b] + [65535]))
    return out, None


def lay_span4w(g, n):
    r = g.r
    w = r.choice([1, 2, 3, 4, 5, 7, 8, 16, 33, 64, 100, 192, 1000])
    cands = [4 * w - 1, 4 * w, 4 * w + 1, 4 * w + 2, 4 * w + 3, 5 * w, 6 * w, 8 * w - 1, 8 * w, 8 * w + 1, 12 * w + 1,
             4 * w * 3 - 1, 16 * w + r.randrange(0, 4 * w), 4 * w * r.randrange(2, 9) + r.choice([-1, 0, 1])]
    kr = max(2, min(65536, r.choice(cands)))
    lo = r.choice([0, 1, 65536 - kr, r.randrange(0, 65536 - kr + 1)])
    hi = lo + kr - 1
    g.count("span4w:w%d" % w)
    inner = list(range(lo + 1, hi))
    dens = r.choice([0.02, 0.1, 0.5, 1.0]) if kr <= 600 else r.choice([0.01, 0.05])
    out = [sorted(k for k in inner if r.random() < dens) for _ in range(n)]
    if n:
        # the extremes must exist somewhere, every operand non-empty more often than not
        a, b = r.randrange(n), r.randrange(n)
        out[a] = sorted(set(out[a] + [lo]))
        out[b] = sorted(set(out[b] + [hi]))
    return out, w


def lay_interleaved(g, n):
    r = g.r
    step = r.choice([3, 4, 7])
    lo = r.choice([10, 100, 40000, 65535 - 40 * step - 10])
    base = [lo + step * i for i in range(r.randrange(5, 40))]
    out = []
    for i in range(n):
        if i < 2:
            out.append([k for k in base if r.random() < 0.8] or base[:1])
        else:
            ks = set()
            for k in base:
                c = r.random()
                if c < 0.3:
                    ks.add(k + r.randrange(1, step))          # between
                elif c < 0.45:
                    ks.add(k)                                 # on
            if r.random() < 0.7:
                ks.update(range(lo - r.randrange(1, 10), lo))  # before everything merged so far
            if r.random() < 0.7:
                ks.update(range(base[-1] + 1, base[-1] + r.randrange(2, 10)))   # after
            out.append(sorted(k for k in ks if 0 <= k < 65536))
    return out, None


def lay_shared(g, n):
    r = g.r
    nk = r.choice([2, 3, 10, 50, 200])
    lo = r.choice([0, 5, 65536 - nk * 3])
    uni = sorted(r.sample(range(lo, lo + nk * 3), nk))
    return [list(uni) for _ in range(n)], None


def lay_disjoint(g, n):
    r = g.r
    nk = r.choice([3, 10, 60])
    uni = sorted(r.sample(range(0, 65536), nk)) if r.random() < 0.5 else list(range(7, 7 + nk))
    out = [[] for _ in range(n)]
    for i, k in enumerate(uni):
        # every key misses at least one operand
        miss = r.randrange(n) if n else 0
        for j in range(n):
            if j != miss and r.random() < 0.8:
                out[j].append(k)
    return out, None


def lay_onekey(g, n):
    """every operand has the same single key: keyRange = 1, ParOr reverts to FastOr"""
    k = g.key()
    return [[k] for _ in range(n)], None


LAYOUTS = [("onekey", lay_onekey), ("few", lay_few), ("hundreds", lay_hundreds), ("wide", lay_wide), ("span4w", lay_span4w),
           ("interleaved", lay_interleaved), ("shared", lay_shared), ("disjoint", lay_disjoint)]


def seq_operands(g, n):
    """kind sequence at one key (as in gen_l2agg) inside a spread of other keys so that ParOr really chunks"""
    r = g.r
    seq = r.choice([q for q in SEQS if len(q) >= n] or SEQS)[:n]
    k = r.choice([0, 1, 2, 7, 300, 65535])
    others = [kk for kk in (0, 1, 2, 3, 7, 9, 100, 300, 40000, 65534, 65535) if kk != k]
    names = []
    for shape, pr in seq:
        x = g.fresh()
        conts = {k: rand_cont(g, shape, pr)}
        for kk in others:
            if r.random() < 0.35:
                conts[kk] = light_cont(g)
        mk(g, x, conts)
        names.append(x)
    if r.random() < 0.4:
        r.shuffle(names)
    return names, [k] + others


# run containers whose pairwise intersections are typed differently (toEfficientContainer: run / array) depending on the ORDER in
# which ParAnd's worker meets them — the order the container heap hands them out
def _runs(parts):
    return "R:" + ",".join("%d+%d" % (s, l) for s, l in parts)


AND_R1 = _runs([(0, 999), (2000, 999)])
AND_R2 = _runs([(10 * i, 2) for i in range(50)] + [(2000 + 2 * i, 0) for i in range(100)] + [(5000, 999)])
AND_R3 = _runs([(0, 999)])
AND_R4 = _runs([(0, 1500), (2000, 50), (2100, 3), (2150, 3)])


def andorder_operands(g, n):
    r = g.r
    k = r.choice([0, 3, 50, 65535])
    others = [kk for kk in (0, 1, 2, 3, 4, 9, 50, 51, 700, 65534, 65535) if kk != k]
    common = [kk for kk in others if r.random() < 0.3]
    pool = [AND_R1, AND_R2, AND_R3, AND_R4]
    r.shuffle(pool)
    names = []
    for i in range(n):
        x = g.fresh()
        conts = {k: pool[i % len(pool)] if r.random() < 0.85 else light_cont(g)}
        for kk in others:
            if kk in common or r.random() < 0.3:
                conts[kk] = r.choice(pool) if r.random() < 0.4 else light_cont(g)
        mk(g, x, conts)
        names.append(x)
    return names, [k] + others


def ops_operands(g, n):
    r = g.r
    uni = g.keyset(r.choice([2, 3, 4, 8]))
    names = []
    for _ in range(n):
        x = g.fresh()
        c = r.random()
        if names and c < 0.2:
            g.emit("%s %s %s" % (r.choice(["clone", "cowclone", "cowclone"]), x, r.choice(names)))
            if r.random() < 0.6:
                g.emit("add %s %d" % (x, g.val_near(uni)))
            g.count("ops:clone")
        elif names and c < 0.3:
            names.append(r.choice(names))
            g.count("ops:duplicate")
            continue
        elif c < 0.38:
            g.emit("new %s" % x)
            g.count("ops:empty")
        else:
            g.emit("new %s" % x)
            for k in uni:
                c2 = r.random()
                if c2 < 0.3:
                    continue
                if c2 < 0.42:
                    g.emit("addr %s %d %d" % (x, k * CH, (k + 1) * CH))
                    g.count("ops:fullchunk")
                else:
                    g.chunk_ops(x, k)
            if r.random() < 0.5:
                g.emit("opt %s" % x)
            if r.random() < 0.25:
                g.emit("setcow %s 1" % x)
                g.count("ops:setcow")
        names.append(x)
    return names, uni


# ------------------------------------------------------------------ the calls
def calls(g, names, wpref, pool, nw, keys=()):
    r = g.r
    n = len(names)
    keys = list(keys)
    ws = set(r.sample(WORKERS, nw))
    if wpref is not None:
        ws.add(wpref)
        for d in (wpref - 1, wpref + 1, 2 * wpref):
            if d >= 1 and r.random() < 0.3:
                ws.add(d)
    if r.random() < 0.5:
        ws.add(0)
    results = []
    z = None
    for w in sorted(ws):
        z = g.fresh("z")
        g.emit("l2par paror %s %d %s" % (z, w, " ".join(names)))
        g.count("l2par:paror:w%d" % w)
        g.count("l2par:paror:n%d" % n)
    results.append(z)
    if r.random() < 0.5:
        g.emit("wf %s" % z)
    for fn in ("parheapor", "parand"):
        for w in r.sample(WORKERS, 2):
            zz = g.fresh("z")
            g.emit("l2par %s %s %d %s" % (fn, zz, w, " ".join(names)))
            g.count("l2par:%s:w%d" % (fn, w))
            g.count("l2par:%s:n%d" % (fn, n))
        if r.random() < 0.4:
            g.emit("wf %s" % zz)
        results.append(zz)
    if n >= 1 and r.random() < 0.5:
        # mutate a result IN PLACE at keys the operands own, repeat the aggregate (it prints the operands again): a container
        # shared with an operand without its flag would show as a changed operand; then mutate an operand: the earlier results
        # keep their value
        tz = r.choice(results[:2] * 2 + results[2:])
        for _ in range(r.choice([1, 2, 4])):
            g.emit("add %s %d" % (tz, g.val_near(keys)))
        c = r.random()
        if c < 0.35:
            g.emit("remr %s 0 %d" % (tz, 1 << 32))
            g.count("l2par:result-cleared")
        elif c < 0.6 and keys:
            k = r.choice(keys)
            g.emit("addr %s %d %d" % (tz, k * CH, (k + 1) * CH))
        elif c < 0.8:
            g.emit("remr %s %d %d" % (tz, 0, 4 * CH))
        perm = list(names)
        if r.random() < 0.5:
            r.shuffle(perm)
            g.count("l2par:permuted")
        w = r.choice(WORKERS)
        fn = r.choice(["paror", "paror", "parheapor", "parand"])
        z2 = g.fresh("z")
        g.emit("l2par %s %s %d %s" % (fn, z2, w, " ".join(perm)))
        g.count("l2par:%s:w%d" % (fn, w))
        g.count("l2par:after-result-mutation")
        t = r.choice(names)
        g.emit("add %s %d" % (t, g.val_near(keys)))
        if r.random() < 0.3:
            g.emit("remr %s 0 %d" % (t, 1 << 32))
        for q in results:
            g.emit("dig %s" % q)
        g.emit("dig %s" % z2)
    pool.extend(results)


def gen(g, scale):
    r = g.r
    rounds = max(1, int(2 * scale))
    pool = []
    for _ in range(rounds):
        for lname, lay in LAYOUTS:
            n = r.choice([0, 1, 2, 2, 3, 3, 4, 5, 6])
            keysets, wpref = lay(g, n)
            if n >= 2 and r.random() < 0.25:
                keysets[r.randrange(n)] = []                 # an empty operand
                g.count("group:with-empty")
            names = operands(g, keysets, heavy=(lname == "few"))
            g.count("layout:" + lname)
            if names and r.random() < 0.2:
                names.append(r.choice(names))                # the same object twice
                g.count("group:duplicate")
            if names and pool and r.random() < 0.15:
                names[r.randrange(len(names))] = r.choice(pool)
                g.count("group:result-as-operand")
            calls(g, names, wpref, pool, nw=r.choice([2, 3, 4]), keys=sorted(set(k for ks in keysets for k in ks)))
        for _ in range(2):
            n = r.choice([2, 3, 3, 4, 5])
            names, keys = seq_operands(g, n)
            g.count("layout:seq")
            calls(g, names, None, pool, nw=2, keys=keys)
        for _ in range(2):
            names, keys = andorder_operands(g, r.choice([2, 3, 3, 4, 5, 6]))
            g.count("layout:andorder")
            calls(g, names, None, pool, nw=1, keys=keys)
        names, keys = ops_operands(g, r.choice([1, 2, 3, 4, 6]))
        g.count("layout:ops")
        calls(g, names, None, pool, nw=2, keys=keys)
    # the Clone paths under copy-on-write, empties only, degenerate lines
    x = g.fresh()
    mk(g, x, {0: "A:1,2", 3: FULLB, 9: "R:5+10"}, cow=True, flags=0.0)
    e1, e2 = g.fresh(), g.fresh()
    g.emit("new %s" % e1)
    g.emit("new %s" % e2)
    for fn in ("paror", "parheapor", "parand"):
        g.emit("l2par %s %s 3 %s" % (fn, g.fresh("z"), x))
        g.emit("l2par %s %s 0 %s %s" % (fn, g.fresh("z"), e1, x))
        g.emit("l2par %s %s 2 %s %s" % (fn, g.fresh("z"), e1, e2))
        g.emit("l2par %s %s 1" % (fn, g.fresh("z")))
        g.count("l2par:%s:degenerate" % fn)
    g.emit("dig %s" % x)
    g.emit("wf %s" % x)
    # the whole key space (keyRange = 65536) around the worker count at which 4*w reaches it
    y1, y2, y3 = g.fresh(), g.fresh(), g.fresh()
    mk(g, y1, {0: light_cont(g), 65535: light_cont(g)})
    mk(g, y2, {1: light_cont(g), 32768: light_cont(g), 65534: light_cont(g)})
    mk(g, y3, {0: light_cont(g), 2: light_cont(g), 65535: light_cont(g)})
    for w in (16383, 16384, 16385, 65536):
        g.emit("l2par paror %s %d %s %s %s" % (g.fresh("z"), w, y1, y2, y3))
        g.count("l2par:paror:w%d" % w)
    g.emit("l2par paror z0 1 nosuch")
    g.emit("l2par parxor z0 1 %s" % x)
    g.emit("l2par paror z0 x %s" % x)
    g.emit("l2par paror z0")


@suite("l2par")
def _l2par(g, scale):
    gen(g, scale)
