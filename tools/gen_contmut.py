"""Suite `kernmut`: the exact-representation tie of the L2 model of the container MUTATION kernels
(lean/RModel/Impl/ContMut.lean; checker verdict `l2Mut` in lean/RModel/Driver/Kern.lean).

Only WELL-FORMED receivers (and arguments): the exact check applies to nothing else.  Every receiver kind (A / B / R) and
  * iaddReturnMinimized / iremoveReturnMinimized / iadd / iremove  with x: present / absent, first-1, last+1, run start / end /
    middle (split), the one-value gap between two runs (fuse), 0, 65535, word boundaries; cardinalities 4095 / 4096 / 4097 / 4098
    (array -> bitmap on add, bitmap -> array on remove), single value (-> empty), full-1 (-> run [0,65535]), full bitmap;
    run containers that are minimal by a hair (toEfficientContainer -> array / bitmap after the edit)
  * iaddRange / iremoveRange / not / inot with [lo,hi): empty (lo == hi), ends 0 / 65535 / 65536, word boundaries 63/64/65,
    the whole chunk, spans above / below 32768 (the three cardinality paths of bitmapContainer.inot), ends touching / adjacent to
    the runs of the receiver, and ranges constructed so that the RESULT has cardinality exactly 4095 / 4096 / 4097 or is
    empty / full
  * iand / ior / ixor / iandNot on the 3x3 pairings over the decision shapes of the `kernl2` suite, plus the
    arrayContainer.iorRun16 heuristic (run cardinality < array cardinality and sum < 4096) and bitmap ior -> full.
Each line is emitted as `kern` (set semantics + exact representation) and, for the ops whose kernel must return a well-formed
container, also as `kernwf`.
Domain: x in [0,65536), 0 <= lo <= hi <= 65536, containers as the library itself can produce them (Cont.wf)."""
from genlib import suite, CH
from gen_kern import rand_set, card, wf_render, interval_set, ivs_union, karg, render
from gen_contops import shapes, striped, complement

UNARY1 = ["iaddReturnMinimized", "iremoveReturnMinimized", "iadd", "iremove"]
RANGE = ["iaddRange", "iremoveRange", "not", "inot"]
IBIN = ["iand", "ior", "ixor", "iandNot"]
# kernels whose result must be well-formed-or-empty for a well-formed receiver (C09 at kernel level);
# iadd / iremove (bare) and iaddRange / iremoveRange on run containers are documented exceptions
WFOPS = {"iaddReturnMinimized", "iremoveReturnMinimized", "not", "inot", "iand", "ior", "ixor", "iandNot"}

KINDS = ("A", "B", "R")


def ivs_minus(a, lo, hi):
    """a \\ [lo,hi] (inclusive)"""
    out = []
    for x, y in a:
        if y < lo or x > hi:
            out.append((x, y))
            continue
        if x < lo:
            out.append((x, lo - 1))
        if y > hi:
            out.append((hi + 1, y))
    return out


def emit1(g, op, ca, x, tag):
    g.emit("kern %s %s - %d" % (op, ca, x))
    if op in WFOPS:
        g.emit("kernwf %s %s - %d" % (op, ca, x))
    g.count("mut:%s:%s" % (ca[0], op))
    g.count("mutshape:" + tag)


def emit2(g, op, ca, lo, hi, tag):
    assert 0 <= lo <= hi <= CH
    g.emit("kern %s %s - %d %d" % (op, ca, lo, hi))
    if op in WFOPS or (op in ("iaddRange", "iremoveRange") and ca[0] != "R"):
        g.emit("kernwf %s %s - %d %d" % (op, ca, lo, hi))
    g.count("mut:%s:%s" % (ca[0], op))
    g.count("mutshape:" + tag)


def xpool(g, ivs):
    """values around the receiver's runs + constants"""
    r = g.r
    pool = [0, 1, 62, 63, 64, 65, 127, 128, 4095, 4096, 4097, 32767, 32768, 65534, 65535]
    pick = ivs if len(ivs) <= 12 else r.sample(ivs, 12)
    for a, b in pick + ivs[:2] + ivs[-2:]:
        pool += [a, b, a - 1, b + 1, a + 1, b - 1, (a + b) // 2, b + 2, a - 2]
    # one-value gaps between consecutive runs (adding them fuses two runs)
    for (a, b), (c, d) in zip(ivs, ivs[1:]):
        if c - b == 2:
            pool += [b + 1] * 3
    return [v for v in pool if 0 <= v < CH]


def rpool(g, ivs):
    pool = xpool(g, ivs) + [CH, CH, 0, 0]
    return pool


def unary_for(g, ivs, tag, ops1=UNARY1, opsr=RANGE, n1=3, nr=3):
    r = g.r
    xs = xpool(g, ivs)
    rs = rpool(g, ivs)
    for k in KINDS:
        ca = wf_render(g, ivs, k)
        if ca is None:
            continue
        for _ in range(n1):
            x = r.choice(xs) if r.random() < 0.85 else r.randrange(CH)
            emit1(g, r.choice(ops1), ca, x, tag)
        for _ in range(nr):
            c = r.random()
            if c < 0.12:
                lo = hi = r.choice(rs)
            elif c < 0.2:
                lo, hi = 0, CH
            elif c < 0.3:
                lo, hi = r.choice([(0, 32768), (0, 32769), (1, 32770), (32768, CH), (32767, CH), (5, 65535), (1, CH), (0, 65535)])
            else:
                lo, hi = sorted([r.choice(rs), r.choice(rs)])
                hi = min(CH, hi + r.choice([0, 1, 1, 2]))
            emit2(g, r.choice(opsr), ca, lo, hi, tag)


def thresh_scalar(g):
    """cardinality 4095 / 4096 / 4097 / 4098 receivers, x present / absent / beyond the ends"""
    r = g.r
    n = r.choice([4095, 4096, 4096, 4097, 4097, 4098])
    lo = r.choice([0, 1, 64, 1000, 30000, CH - 2 * n - 200])
    pieces = r.choice([1, 2, 7, 40, 700, n])
    ivs = interval_set(r, lo, n, pieces) if pieces < n else striped(r, lo, n, 1, 1)
    inside = [a for a, b in ivs[:5]] + [b for a, b in ivs[-5:]] + [ivs[len(ivs) // 2][0]]
    outside = [v for v in [ivs[0][0] - 1, ivs[-1][1] + 1, ivs[-1][1] + 2, ivs[0][1] + 1, 0, CH - 1, ivs[-1][1] + 100] if 0 <= v < CH
               and not any(a <= v <= b for a, b in ivs)]
    for k in KINDS:
        ca = wf_render(g, ivs, k)
        if ca is None:
            continue
        for op in UNARY1:
            xs = outside if op.startswith("iadd") else inside
            if r.random() < 0.25:
                xs = inside if op.startswith("iadd") else outside
            if xs:
                emit1(g, op, ca, r.choice(xs), "thresh-scalar-%d" % n)


def thresh_range(g):
    """[lo,hi) chosen so that the result of iaddRange / iremoveRange / not has cardinality exactly T"""
    r = g.r
    T = r.choice([4095, 4096, 4096, 4097, 4097])
    # --- iaddRange: m values outside the range, L = T - m
    m = r.choice([1, 2, 100, 2000, 4000, T - 1])
    L = T - m
    lo = r.choice([0, 63, 64, 1000, 20000])
    hi = lo + L
    k = r.choice([0, 1, min(L, 50), min(L, 4096 - m)])
    k = max(0, min(k, L, 4096 - m))
    inside = sorted(r.sample(range(lo, hi), k))
    outside = interval_set(r, hi + r.choice([0, 1, 2, 50]), m, r.choice([1, 3, 50]))
    a = ivs_union([(v, v) for v in inside], outside)
    for kk in KINDS:
        ca = wf_render(g, a, kk)
        if ca is not None:
            emit2(g, "iaddRange", ca, lo, hi, "thresh-addrange-%d" % T)
    # --- iremoveRange: T values outside the range, k >= 1 inside
    lo = r.choice([0, 64, 5000])
    L = r.choice([1, 64, 700, 9000])
    hi = lo + L
    k = r.choice([1, min(L, 5), L, max(1, L // 2)])
    inside = [(lo + L - k, hi - 1)] if r.random() < 0.5 else [(v, v) for v in sorted(r.sample(range(lo, hi), k))]
    outside = interval_set(r, hi + r.choice([0, 1, 30]), T, r.choice([1, 3, 60]))
    a = ivs_union(inside, outside)
    for kk in KINDS:
        ca = wf_render(g, a, kk)
        if ca is not None:
            emit2(g, "iremoveRange", ca, lo, hi, "thresh-remrange-%d" % T)
    # --- not / inot: m outside, k inside, L - k + m = T
    m = r.choice([0, 1, 100, 3000, T - 1, T + 500, 20000])
    lo = r.choice([0, 63, 64, 4096])
    if m <= T:
        k = r.choice([0, 1, 30, 4096 - m if m < 4096 else 0])
        k = max(0, k)
        L = T - m + k
    else:
        # more outside than T: impossible to land on T; aim for inside result (L - k) small instead
        k = r.choice([1, 100, 5000])
        L = k + r.choice([0, 1, 5])
    hi = lo + L
    if hi <= CH - m - 200 and k <= L:
        inside = sorted(r.sample(range(lo, hi), k)) if k < L else list(range(lo, hi))
        outside = interval_set(r, hi + r.choice([0, 1, 2, 40]), m, r.choice([1, 3, 50])) if m else []
        a = ivs_union([(v, v) for v in inside], outside)
        for kk in KINDS:
            ca = wf_render(g, a, kk)
            if ca is not None:
                emit2(g, r.choice(["not", "inot"]), ca, lo, hi, "thresh-not-%d" % T)
                emit2(g, r.choice(["not", "inot"]), ca, lo, hi, "thresh-not-%d" % T)


def full_shapes(g):
    r = g.r
    full = [(0, CH - 1)]
    v = g.lowval()
    fm1 = [(x, y) for (x, y) in [(0, v - 1), (v + 1, CH - 1)] if x <= y]
    w = r.choice([1, 2, 64, 100, 5000])
    lo = r.choice([0, 1, 63, 64, 30000, CH - w])
    hole = ivs_minus(full, lo, lo + w - 1)
    for k in KINDS:
        ca = wf_render(g, full, k)
        if ca is not None:
            for op in UNARY1:
                emit1(g, op, ca, r.choice([0, v, CH - 1]), "full")
            for op in RANGE:
                lo2, hi2 = r.choice([(0, CH), (0, 0), (CH, CH), (v, v + 1), (0, 32769), (1, CH), (0, CH - 1), (0, 61440), (0, 61441)])
                emit2(g, op, ca, lo2, hi2, "full")
        ca = wf_render(g, fm1, k)
        if ca is not None:
            for op in UNARY1:
                emit1(g, op, ca, v if r.random() < 0.7 else g.lowval(), "fullminus")
            for op in RANGE:
                lo2, hi2 = r.choice([(v, v + 1), (v, v + 1), (0, CH), (max(0, v - 1), min(CH, v + 2)), (0, v), (v + 1, CH), (v, v)])
                emit2(g, op, ca, lo2, hi2, "fullminus")
        ca = wf_render(g, hole, k)
        if ca is not None:
            for op in RANGE:
                lo2, hi2 = r.choice([(lo, lo + w), (lo, lo + w), (0, CH), (lo, lo + w - 1), (max(0, lo - 1), lo + w), (lo, min(CH, lo + w + 1))])
                emit2(g, op, ca, lo2, hi2, "fullhole")
    # tiny receivers: results empty
    s = [(v, v)]
    for k in ("A",):
        ca = wf_render(g, s, k)
        for op in UNARY1:
            emit1(g, op, ca, r.choice([v, v, (v + 1) % CH, (v - 1) % CH]), "single")
        for op in RANGE:
            lo2, hi2 = r.choice([(v, v + 1), (0, CH), (v, v), (max(0, v - 1), v), (v + 1, min(CH, v + 2)) if v + 1 <= CH - 1 else (v, v + 1), (0, v + 1)])
            emit2(g, op, ca, lo2, hi2, "single")
    # short single run (run container of 3..6 values)
    n = r.choice([3, 4, 5, 6])
    a0 = r.choice([0, 1, 63, 64, CH - n, g.lowval() % (CH - n)])
    s = [(a0, a0 + n - 1)]
    for k in ("A", "R"):
        ca = wf_render(g, s, k)
        if ca is None:
            continue
        for op in UNARY1:
            emit1(g, op, ca, r.choice([a0, a0 + n - 1, a0 + 1, max(0, a0 - 1), min(CH - 1, a0 + n), min(CH - 1, a0 + n + 1)]), "shortrun")
        for op in RANGE:
            lo2, hi2 = r.choice([(a0, a0 + n), (a0 + 1, a0 + n - 1), (a0, a0 + 1), (a0 + n - 1, a0 + n), (0, CH), (max(0, a0 - 1), min(CH, a0 + n + 1)),
                                 (a0 + n, min(CH, a0 + n + 2)), (a0 + 1, a0 + 2)])
            emit2(g, op, ca, lo2, hi2, "shortrun")


def runedge_shapes(g):
    """run receivers on either side of the minimality boundary 2+4r < min(8224, 2c), edited by one value / one range"""
    r = g.r
    k = r.choice([1, 2, 3, 10, 100, 1000])
    e = r.choice([1, 2, 3])
    gap = r.choice([1, 2, 3])
    base = striped(r, r.randrange(0, 100), k, 2, gap)
    if not base:
        return
    ext = [(base[0][0], base[0][1] + e)] + [(x + e, y + e) for x, y in base[1:]]
    unary_for(g, ext, "runmin", n1=4, nr=4)
    # the in-place range kernels of run containers keep the run type even when the result is no longer minimal:
    # an isolated value after the last run (+1 run, +1 value), a one-value hole in the first run (+1 run, -1 value)
    ca = wf_render(g, ext, "R")
    if ca is not None:
        last = ext[-1][1]
        if last + 3 < CH:
            emit2(g, "iaddRange", ca, last + 2, last + 3, "runmin-nonminimal")
            emit1(g, "iadd", ca, last + 2, "runmin-nonminimal")
            emit1(g, "iaddReturnMinimized", ca, last + 2, "runmin-nonminimal")
        a0, b0 = ext[0]
        if b0 - a0 >= 2:
            emit2(g, "iremoveRange", ca, a0 + 1, a0 + 2, "runmin-nonminimal")
            emit1(g, "iremove", ca, a0 + 1, "runmin-nonminimal")
            emit1(g, "iremoveReturnMinimized", ca, a0 + 1, "runmin-nonminimal")
            emit2(g, r.choice(["not", "inot"]), ca, a0 + 1, a0 + 2, "runmin-nonminimal")
    # around 2055 runs (run <-> bitmap)
    if r.random() < 0.35:
        kk = r.choice([2050, 2054, 2055])
        many = striped(r, r.randrange(0, 20), kk, r.choice([4, 6]), r.choice([1, 2]))
        unary_for(g, many, "runmax", n1=3, nr=3)


def binary_extra(g):
    """in-place binary shapes that the kernl2 shapes do not aim at"""
    r = g.r
    prs = []
    # arrayContainer.iorRun16 heuristic: run cardinality < array cardinality, sum < 4096 (and the two boundaries)
    na = r.choice([10, 100, 2000, 2047, 2048, 3000])
    arr = striped(r, r.choice([0, 7, 1000]), na, 1, r.choice([1, 2, 5]))
    if r.random() < 0.5:
        # an array container that would compress well as runs: at the heuristic's boundary the two branches of iorRun16
        # (add range by range -> array; rc.orArray -> toEfficientContainer -> run container) return different kinds
        arr = interval_set(r, r.choice([0, 7, 1000]), na, r.choice([1, 2, 5]))
    for rc in (r.choice([3, 5, 9]), na - 1, na, 4095 - na, 4096 - na, 4097 - na):
        if rc < 3:
            continue
        pieces = r.choice([1, 1, 2])
        pos = r.choice([0, arr[0][0], arr[len(arr) // 2][0], arr[-1][1] + 1, arr[-1][1] + 2, arr[-1][1] + 50])
        if pos + rc + 20 >= CH:
            continue
        prs.append(("arr-ior-run", arr, interval_set(r, pos, rc, pieces)))
    # the boundary runCard + arrCard == 4096 of the heuristic, with an array that compresses well as runs
    nb = r.choice([2049, 2500, 3000, 4000])
    arr2 = interval_set(r, r.choice([0, 7, 1000]), nb, r.choice([1, 2, 5]))
    for rc in (4095 - nb, 4096 - nb):
        pos = r.choice([0, arr2[0][0] + 3, arr2[-1][1] + 1, arr2[-1][1] + 2, arr2[-1][1] + 50])
        prs.append(("arr-ior-run-boundary", arr2, interval_set(r, pos, rc, r.choice([1, 2]))))
    # bitmap ior array / run -> full; bitmap iandNot run -> 4096 / 4097 / empty
    v = g.lowval()
    w = r.choice([1, 2, 70, 3000])
    lo = r.choice([0, 63, 1000, CH - w])
    holeset = ivs_minus([(0, CH - 1)], lo, lo + w - 1)
    fill = [(lo, lo + w - 1)]
    prs.append(("bmp-ior-full", holeset, fill))
    prs.append(("bmp-ior-almost", holeset, [(lo, lo + w - 2)] if w > 1 else [(lo + 1, lo + 1)] if lo + 1 < CH and False else fill))
    T = r.choice([4095, 4096, 4097])
    keep = interval_set(r, r.choice([0, 100]), T, r.choice([1, 5, 300]))
    drop = interval_set(r, keep[-1][1] + 10, r.choice([1, 500, 9000]), r.choice([1, 4]))
    prs.append(("bmp-iandnot-thresh", ivs_union(keep, drop), ivs_union(drop, [(drop[-1][1] + 5, drop[-1][1] + 9)])))
    prs.append(("iandnot-all", keep, [(0, CH - 1)]))
    prs.append(("iandnot-all2", ivs_union(keep, drop), [(0, drop[-1][1] + 3)]))
    return prs


@suite("kernmutbin")
def _kernmutbin(g, scale):
    """only the in-place binary kernels iand / ior / ixor / iandNot (3x3 pairings)"""
    for _ in range(max(1, int(2 * scale))):
        binary_round(g)


def fixed_mut_cases(g):
    """always present: ranges that TOUCH a run from below / above (the result must fuse them), ranges ending exactly at the
    container's minimum / starting right after its maximum, and flips of array containers whose range holds a prefix with more
    absent than present values but more present than absent values overall (in-place compaction orders)"""
    for runs in ([(100, 200), (300, 400), (1000, 1100)], [(64, 127), (4096, 8191)], [(1, 1), (3, 3), (70, 90)]):
        ca = wf_render(g, runs, "R") or render(g, runs, "R")
        lo0, hi0 = runs[0]
        lo9, hi9 = runs[-1]
        for op in ("iaddRange", "iremoveRange", "not", "inot"):
            for (a, b) in [(max(0, lo0 - 7), lo0), (max(0, lo0 - 7), lo0 + 1), (hi9 + 1, hi9 + 9), (hi9, hi9 + 9), (hi0 + 1, runs[1][0]),
                           (0, lo0), (lo0, lo0)]:
                if a <= b:
                    emit2(g, op, ca, a, b, "fixed-touching")
        for x in (max(0, lo0 - 1), hi0 + 1, runs[1][0] - 1, hi9 + 1):
            emit1(g, "iaddReturnMinimized", ca, x, "fixed-touching")
            emit1(g, "iadd", ca, x, "fixed-touching")
    for vals, (a, b) in [([11, 12, 50], (10, 13)), ([1, 2, 3, 4, 9], (0, 5)), ([5, 6, 7, 9, 10, 11, 12, 40, 41], (4, 13)),
                         ([2, 3, 5, 6, 7, 100], (1, 8)), ([10, 20, 21, 22, 23, 24, 30000], (9, 25)), ([0, 2, 3, 65535], (1, 4))]:
        ca = render(g, [(v, v) for v in vals], "A")
        for op in ("inot", "not"):
            emit2(g, op, ca, a, b, "fixed-array-flip")
            emit2(g, op, ca, a, b + 1, "fixed-array-flip")


@suite("kernmut")
def _kernmut(g, scale):
    r = g.r
    fixed_mut_cases(g)
    for it in range(max(1, int(3 * scale))):
        # generic receivers
        for _ in range(10):
            s = rand_set(g)
            if card(s) == 0:
                continue
            unary_for(g, s, "rand")
        for _ in range(4):
            thresh_scalar(g)
        for _ in range(4):
            thresh_range(g)
        full_shapes(g)
        for _ in range(3):
            runedge_shapes(g)
        # in-place binary kernels (one round in three: they dominate the checker's running time)
        if it % 3 != 0:
            continue
        binary_round(g)


def binary_round(g):
    r = g.r
    prs = shapes(g) + binary_extra(g)
    for name, a, b in prs:
        if card(a) == 0 or card(b) == 0:
            continue
        heavy = name.startswith("arrarr-big") or name.startswith("thresh") or name.startswith("manyruns") or name.startswith("rr-")
        for ka in KINDS:
            ca = wf_render(g, a, ka)
            if ca is None:
                continue
            for kb in KINDS:
                cb = wf_render(g, b, kb)
                if cb is None:
                    continue
                ops = IBIN if not heavy else r.sample(IBIN, 2)
                for op in ops:
                    g.emit("kern %s %s %s" % (op, ca, cb))
                    g.emit("kernwf %s %s %s" % (op, ca, cb))
                    g.count("mut:%s%s:%s" % (ka, kb, op))
                g.count("mutshape:bin-" + name.split("-")[0].split(":")[0])
