#!/usr/bin/env python3
"""Regenerates MANIFEST.json from tools/props.py (single source of truth for what is claimed)."""
import json
import os
import sys

ROOT = os.path.dirname(os.path.dirname(os.path.abspath(__file__)))
sys.path.insert(0, os.path.join(ROOT, "tools"))
import props  # noqa: E402

ALL = ["C%02d" % i for i in range(1, 21)]
BASELINE = json.load(open("/root/.vp/BASELINE.json"))["cmd"] if os.path.exists("/root/.vp/BASELINE.json") else ""

m = {
    "version": 1,
    "setup_cmd": "python3 tools/run_check.py --setup",
    "hooks": {
        "guard": "verif",
        "enable": "go build -tags verif (harness/ is built with -tags verif against /repo through a replace directive)",
        "baseline_off_cmd": BASELINE,
        "source_commits": props.HOOK_COMMITS,
        "add_only": True,
    },
    "engines": [
        {"name": "lean", "path": "lean/", "serves_properties": sorted(props.PROPS),
         "kind_free_text": "Lean 4 model (RModel), proofs (RProofs) and compiled checker (rdriver)"},
        {"name": "harness", "path": "harness/", "serves_properties": sorted(props.PROPS),
         "kind_free_text": "Go executor of the script language against the real code, -tags verif"},
        {"name": "gofacts", "path": "tools/gofacts/", "serves_properties": sorted(props.PROPS),
         "kind_free_text": "Go->Lean translator for constants and scalar helpers (regenerated every run)"},
        {"name": "runner", "path": "tools/run_check.py", "serves_properties": sorted(props.PROPS),
         "kind_free_text": "build, audit, generate, run both executors, minimise, evidence"},
    ],
    "checks": [],
    "not_applicable": [],
    "notes": "All checks: theorems in Lean 4 about a model + a checked tie (regenerated facts, correspondence on generated scripts). See DESIGN.md.",
}
for pid in ALL:
    if pid in props.PROPS:
        P = props.PROPS[pid]
        m["checks"].append({
            "property_id": pid,
            "quick_cmd": "python3 tools/run_check.py --prop %s --tier quick" % pid,
            "thorough_cmd": "python3 tools/run_check.py --prop %s --tier thorough" % pid,
            "evidence_file": "evidence/%s.json" % pid,
            "replay_cmd_template": "python3 tools/run_check.py --replay {path}",
            "engine": "lean+harness",
            "level_claimed": {"category": "proof", "text": P.get("level_text", props.DEFAULT_LEVEL_TEXT),
                              "design_ref": "DESIGN.md section 3, " + pid},
            "level_note": P.get("level_note", props.DEFAULT_LEVEL_NOTE),
            "technique": P.get("technique", "Lean 4 theorems over a model + Go/Lean correspondence check"),
        })
    else:
        m["not_applicable"].append({"property_id": pid, "reason": props.NOT_YET.get(pid, "check not built yet (work in progress; technique applies)")})
json.dump(m, open(os.path.join(ROOT, "MANIFEST.json"), "w"), indent=1)
print("MANIFEST.json: %d checks, %d not_applicable" % (len(m["checks"]), len(m["not_applicable"])))
