"""Serialization suites: round trips (C05), spec conformance (C06), untrusted bytes (C10)."""
import struct
from genlib import G, suite, CH, U32
from gen_kern import rand_set, card


# ------------------------------------------------------------------ an independent encoder, written from the format spec
def enc_container(kind, ivs, split_runs=None):
    if kind == "A":
        vals = [v for a, b in ivs for v in range(a, b + 1)]
        return struct.pack("<%dH" % len(vals), *vals)
    if kind == "B":
        words = [0] * 1024
        for a, b in ivs:
            for v in range(a, b + 1):
                words[v >> 6] |= 1 << (v & 63)
        return struct.pack("<1024Q", *words)
    runs = []
    for a, b in ivs:
        if split_runs and b > a and split_runs.random() < 0.3:
            m = split_runs.randrange(a, b)       # legal finer granularity: two adjacent runs
            runs += [(a, m - a), (m + 1, b - m - 1)]
        else:
            runs.append((a, b - a))
    out = struct.pack("<H", len(runs))
    for s, l in runs:
        out += struct.pack("<HH", s, l)
    return out


def enc_stream(conts, run_cookie=None, split_runs=None):
    """conts: list of (key, kind, ivs), keys ascending.  run_cookie: force the run-capable cookie even without run chunks."""
    n = len(conts)
    has_run = any(k == "R" for _, k, _ in conts)
    if run_cookie is None:
        run_cookie = has_run
    if has_run:
        run_cookie = True
    if n == 0:
        run_cookie = False
    payloads = [enc_container(k, ivs, split_runs) for _, k, ivs in conts]
    if run_cookie:
        hdr = struct.pack("<HH", 12347, n - 1)
        bits = bytearray((n + 7) // 8)
        for i, (_, k, _) in enumerate(conts):
            if k == "R":
                bits[i // 8] |= 1 << (i % 8)
        hdr += bytes(bits)
    else:
        hdr = struct.pack("<II", 12346, n)
    desc = b"".join(struct.pack("<HH", key, card(ivs) - 1) for key, _, ivs in conts)
    with_offsets = (not run_cookie) or n >= 4
    pos = len(hdr) + len(desc) + (4 * n if with_offsets else 0)
    offs = b""
    if with_offsets:
        for p in payloads:
            offs += struct.pack("<I", pos)
            pos += len(p)
    return hdr + desc + offs + b"".join(payloads)


def fnv_digest(conts):
    """digest of the encoded set, same function as harness/view.go and Driver/Util.lean"""
    ivs = []
    for key, _, c in conts:
        for a, b in c:
            lo, hi = key * CH + a, key * CH + b
            if ivs and ivs[-1][1] + 1 == lo:
                ivs[-1] = (ivs[-1][0], hi)
            else:
                ivs.append((lo, hi))
    h = 1469598103934665603
    for lo, hi in ivs:
        h = ((h ^ lo) * 1099511628211) & 0xFFFFFFFFFFFFFFFF
        h = ((h ^ hi) * 1099511628211) & 0xFFFFFFFFFFFFFFFF
    return "%d:%016x" % (len(ivs), h)


def rand_conts(g, n=None, small=False):
    r = g.r
    if n is None:
        n = r.choice([0, 1, 1, 2, 3, 3, 4, 4, 5, 8, 17])
    keys = sorted(set(g.key() for _ in range(n))) if r.random() < 0.6 else sorted(r.sample(range(65536), n))
    conts = []
    for k in keys:
        ivs = rand_set(g)
        while card(ivs) == 0 or (small and card(ivs) > 300):
            ivs = rand_set(g)
        c = card(ivs)
        kinds = ["R"]
        kinds.append("A" if c <= 4096 else "B")
        kind = r.choice(kinds)
        conts.append((k, kind, ivs))
    return conts


# ------------------------------------------------------------------ suites
ENTRIES = ["readfrom", "frombuffer", "fromunsafe", "unmarshal", "base64", "readfromck", "must", "mustck", "readpipe"]
# for CONFORMANT streams of another implementation, which may hold legal but non-canonical chunks (e.g. more runs than Validate() tolerates):
# MustReadFrom panics on those by design, so the validating entry points are left out
SPEC_ENTRIES = [e for e in ENTRIES if e not in ("must", "mustck")]


@suite("ser")
def _ser(g, scale):
    """C05: round trips through every entry point, chunked readers, trailing bytes, reused receivers, failing writers"""
    r = g.r
    _ser_scale_episodes(g)
    for it in range(int(40 * scale)):
        x = g.fresh()
        nk = r.choice([0, 1, 2, 3, 4, 5, 9, 20]) if it > 2 else [0, 3, 4][it]
        if nk == 0:
            g.emit("new %s" % x)
        else:
            g.build(x, g.keyset(nk))
        g.count("ser:nkeys=%s" % ("0" if nk == 0 else "<4" if nk < 4 else ">=4"))
        g.emit("ser %s" % x)
        for e in ENTRIES:
            y = g.fresh()
            opts = []
            if e in ("readfrom", "readfromck"):
                opts.append("chunk=%d" % r.choice([1, 2, 3, 7, 64, 4096, 0]))
            if e in ("readfrom", "readfromck", "frombuffer", "fromunsafe") and r.random() < 0.7:
                opts.append("extra=%d" % r.choice([1, 7, 100]))
            g.emit("rd %s %s %s %s" % (y, e, x, " ".join(opts)))
            # the decoded bitmap supports further operations
            g.emit("add %s %d" % (y, g.val_near([0, 1])))
            g.emit("wf %s" % y)
            if r.random() < 0.5:
                z = g.fresh()
                g.emit("or %s %s %s" % (z, y, x))
            if r.random() < 0.4:
                # reuse a previously used receiver
                g.emit("rd %s %s %s reuse" % (y, r.choice(ENTRIES), x))
                g.emit("wf %s" % y)
        for off in r.sample([0, 1, 2, 3, 4, 5, 7, 8, 9, 12, 15, 16, 17, 20, 100, 1000, 8191, 8192, 8200, 100000, 10 ** 7], 6):
            g.emit("wrfail %s %d" % (x, off))
        # a failed decode into a previously used receiver, which is then used again
        for cut in r.sample([1, 4, 7, 8, 9, 12, 13, 16, 20, 33, 100, 1000], 3):
            y = g.fresh()
            g.build(y, g.keyset(r.choice([1, 2, 5])))
            g.emit("rdfail %s %s %s %d %s" % (y, r.choice(ENTRIES[:4]), x, cut, " ".join(str(g.val_near([0, 1])) for _ in range(2))))
        g.emit("wrfailall %s" % x)
        g.emit("rdsplit %s" % x)
        g.emit("trunc %s %s" % (x, r.choice(["readfrom", "frombuffer", "fromunsafe", "unmarshal", "base64"])))
        g.emit("dig %s" % x)


def _ser_scale_episodes(g):
    """fixed: several LARGE headers written one after the other in one process (hundreds of chunks, run chunks at different
    positions each time, then the first one again), and decodes into receivers that were grown chunk by chunk"""
    r = g.r
    big = []
    for j in range(3):
        x = g.fresh("h")
        n = r.choice([520, 600, 777, 1100])
        g.emit("new %s" % x)
        g.emit("addstride %s %d 65536 %d" % (x, 65536 * r.choice([0, 3, 100]) + 5, n))
        for k in r.sample(range(n), 6):
            g.emit("addr %s %d %d" % (x, (k + 3 * (j % 2)) * 65536 + 100, (k + 3 * (j % 2)) * 65536 + 100 + r.choice([300, 5000])))
        g.emit("opt %s" % x)
        big.append(x)
    for n in (128, 256, 1024, 4096):
        x = g.fresh("h")
        g.emit("new %s" % x)
        g.emit("addstride %s %d 65536 %d" % (x, 65536 * 2 + 9, n))
        g.emit("addstride %s %d 65536 %d" % (x, 65536 * 2 + 10, n))
        if n != 256:
            g.emit("addr %s %d %d" % (x, 65536 * 5 + 100, 65536 * 5 + 900))
            g.emit("opt %s" % x)
        g.emit("ser %s" % x)
        for e in ENTRIES:
            g.emit("rd %s %s %s" % (g.fresh(), e, x))
        g.count("ser:chunk-count-multiple-of-128")
    for x in big + [big[0], big[2], big[1]]:
        g.emit("ser %s" % x)
        y = g.fresh()
        g.emit("rd %s %s %s" % (y, r.choice(ENTRIES), x))
        g.count("ser:large-header")
    for n0, cnts in ((45, [65, 70, 71]), (100, [129, 140, 143]), (200, [257, 300, 303]), (40, [41, 64, 72])):
        for cnt in cnts:
            x, y = g.fresh("c"), g.fresh("u")
            g.emit("new %s" % x)
            g.emit("addstride %s %d 65536 %d" % (x, r.choice([1, 65536 * 7]), cnt))
            g.emit("new %s" % y)
            g.emit("addstride %s %d 65536 %d" % (y, r.choice([0, 9]), n0))
            if r.random() < 0.4:
                g.emit("clear %s" % y)
            g.emit("rd %s %s %s reuse" % (y, r.choice(ENTRIES), x))
            g.emit("card %s" % y)
            g.count("ser:grown-receiver")
    # serializations of 64 KiB and more whose length takes every residue mod 3 (text encodings pad the last group): every writer must agree
    # with ToBytes, every entry point reads them back
    for extra in (0, 1, 2, 3, 4):
        x = g.fresh("b64")
        g.emit("new %s" % x)
        for k in range(8 + extra % 2):
            g.emit("addstride %s %d 2 5000" % (x, k * 65536 + 1))
        if extra:
            g.emit("addmany %s %s" % (x, " ".join(str(40 * 65536 + 7 * i) for i in range(extra))))
        g.emit("ser %s" % x)
        for e in ("base64", "readfrom", "unmarshal"):
            g.emit("rd %s %s %s" % (g.fresh(), e, x))
        g.count("ser:64KiB-length-mod-3")
    # a working copy (copy-on-write clone, possibly edited) REFRESHED from the serialized original through every copying entry point:
    # the receiver ends up equal to the original and the original (which shared containers with it) is what it was
    for kinds in ("BBBB", "ARBA", "RRRR"):
        conts = {"B": "B:32768:5555555555555555*1024", "A": "A:1,5,9,300", "R": "R:10+90,1000+5"}
        for entry in ("readfrom", "unmarshal", "base64", "readpipe", "frombuffer"):
            o, wk = g.fresh("wc"), g.fresh("wc")
            pats = ["5555555555555555", "aaaaaaaaaaaaaaaa", "3333333333333333", "cccccccccccccccc"]     # every chunk different
            g.emit("mkrepr %s cow=1;%s" % (o, ";".join("%d:%s" % (3 + 2 * i, conts[k].replace("5555555555555555", pats[i]).replace("A:1,5,9,300", "A:%d,5,9,300" % (i + 1)).replace("R:10+90", "R:%d+90" % (10 + i)))
                                                        for i, k in enumerate(kinds))))
            g.emit("clone %s %s" % (wk, o))
            g.emit("remr %s %d %d" % (wk, 3 * 65536, 4 * 65536))        # the working copy loses its first chunk
            g.emit("add %s %d" % (wk, 7 * 65536 + 77))
            g.emit("rd %s %s %s reuse" % (wk, entry, o))
            g.emit("dig %s" % o)
            g.emit("eq %s %s" % (wk, o))
            g.emit("add %s %d" % (wk, 5 * 65536 + 2)); g.emit("rem %s %d" % (wk, 9 * 65536 + 10))
            g.emit("dig %s" % o)
            g.emit("wf %s" % o)
        g.count("ser:refresh-cow-working-copy")
    # decoded bitmaps with SEVERAL IDENTICAL chunks (completely full run chunks, equal array chunks, equal bitmap chunks): an in-place
    # edit of the first (then of a middle one) must not show in the others — the chunks of a decoded bitmap are separate objects
    for conts in ("R:0+65535", "A:1,5,9,300", "B:32768:5555555555555555*1024"):
        o = g.fresh("idc")
        g.emit("mkrepr %s cow=0;%s" % (o, ";".join("%d:%s" % (k, conts) for k in (3, 4, 9, 10))))
        g.emit("ser %s" % o)
        for entry in ENTRIES:
            if entry in ("must", "mustck"):
                continue
            for reuse in ("", " reuse"):
                y = g.fresh("idc")
                if reuse:
                    g.emit("of %s 7 70000" % y)
                g.emit("rd %s %s %s%s" % (y, entry, o, reuse))
                g.emit("rem %s %d" % (y, 3 * 65536 + 5)); g.emit("dig %s" % y)
                g.emit("remr %s %d %d" % (y, 9 * 65536 + 1, 9 * 65536 + 9)); g.emit("dig %s" % y)
                g.emit("add %s %d" % (y, 4 * 65536 + 2)); g.emit("flip %s %d %d" % (y, 10 * 65536, 10 * 65536 + 3)); g.emit("dig %s" % y)
                g.emit("wf %s" % y)
                g.emit("dig %s" % o)
        g.count("ser:identical-chunks-edited-after-decode")
    # run chunks around the largest run count the library keeps as runs (2+4*runs < 8224: up to 2055 runs), alone and beside other
    # chunks, through every entry point and into a used receiver
    for n in (2040, 2047, 2048, 2049, 2050, 2053, 2055, 2056):
        x = g.fresh("mr")
        g.emit("new %s" % x)
        for off in (0, 1, 2):
            g.emit("addstride %s %d 31 %d" % (x, 3 * 65536 + off, n))
        if n % 2:
            g.emit("addr %s %d %d" % (x, 9 * 65536, 9 * 65536 + 70000))
        g.emit("opt %s" % x)
        g.emit("ser %s" % x)
        for e in ENTRIES:
            y = g.fresh()
            g.emit("rd %s %s %s" % (y, e, x))
        y = g.fresh("u")
        g.emit("of %s 1 2 3 70000 140000" % y)
        g.emit("rd %s %s %s reuse" % (y, r.choice(ENTRIES), x))
        g.count("ser:max-run-count")


@suite("serall")
def _serall(g, scale):
    """C05 at the top of the quantifier: bitmaps occupying 65535 / 65536 chunks, with and without a run chunk (the run-capable
    cookie stores the count minus one in 16 bits; the plain cookie stores it in 32 bits)"""
    r = g.r
    cases = [(65536, True), (65536, False), (65535, True)]
    if scale < 2:
        cases = [cases[0]]
    for n, withrun in cases:
        x = g.fresh("w")
        g.emit("new %s" % x)
        g.emit("addstride %s %d 65536 %d" % (x, r.choice([0, 7, 65535]), n))
        if withrun:
            k = r.choice([0, 1, 40000, n - 1])
            g.emit("addr %s %d %d" % (x, k * 65536 + 10, k * 65536 + 300))
            g.emit("opt %s" % x)
        g.emit("card %s" % x)
        g.emit("ser %s" % x)
        for e in ENTRIES:
            y = g.fresh()
            g.emit("rd %s %s %s%s" % (y, e, x, " extra=5" if e in ("readfrom", "frombuffer", "fromunsafe") else ""))
            g.emit("card %s" % y)
        g.emit("add %s %d" % (y, 12345))
        g.emit("wf %s" % y)
        g.emit("trunc %s %s" % (x, r.choice(["readfrom", "frombuffer", "unmarshal", "readfromck"])))
        # the same bitmap through the frozen format (three writers, view)
        g.emit("frz %s" % x)
        v = g.fresh("v")
        g.emit("fview %s %s" % (v, x))
        g.emit("card %s" % v)
        g.count("serall:%d:%s" % (n, "run" if withrun else "norun"))


@suite("spec")
def _spec(g, scale):
    """C06: write direction rides on `ser` lines (spec-decode of the written bytes); read direction: conformant streams
    making the other legal encoder choices"""
    r = g.r
    prev = []
    for it in range(int(60 * scale)):
        conts = rand_conts(g)
        rc = r.choice([None, True, False])
        data = enc_stream(conts, run_cookie=rc, split_runs=r if r.random() < 0.3 else None)
        g.count("spec:%s" % ("runcookie" if (rc or any(k == "R" for _, k, _ in conts)) and conts else "norun"))
        g.count("spec:n%s" % ("<4" if len(conts) < 4 else ">=4"))
        e = r.choice(["readfrom", "readfrom", "frombuffer", "fromunsafe", "unmarshal", "base64", "readfromck", "readfromck"])
        opts = []
        if prev and r.random() < 0.35:
            y = r.choice(prev)          # a receiver that already holds another decoded stream
            opts.append("reuse")
            g.count("spec:reused-receiver")
        else:
            y = g.fresh()
        if e in ("readfrom", "readfromck") and r.random() < 0.7:
            opts.append("chunk=%d" % r.choice([1, 1, 2, 3, 5, 7, 16, 64]))   # the stream arrives in pieces
            g.count("spec:chunked")
        g.emit(("spec %s %s %s %s %s" % (y, e, data.hex(), fnv_digest(conts), " ".join(opts))).strip())
        g.emit("card %s" % y)
        g.emit("toarr %s" % y)
        prev.append(y)
    # chunk counts around the multiples of 8 (the run-flag bitset has ceil(n/8) bytes) with the run-capable cookie, both directions
    for n in (7, 8, 9, 15, 16, 17, 24, 32, 40, 64):
        ks = sorted(r.sample(range(65536), n))
        conts = []
        for j, k in enumerate(ks):
            if j % 3 == 0:
                conts.append((k, "R", [(10 * j, 10 * j + 5), (3000 + j, 3100 + j)]))
            else:
                conts.append((k, "A", [(v, v) for v in sorted(r.sample(range(65536), r.choice([1, 3, 9])))]))
        y = g.fresh()
        g.emit("spec %s %s %s %s" % (y, r.choice(SPEC_ENTRIES), enc_stream(conts, run_cookie=True).hex(), fnv_digest(conts)))
        g.emit("card %s" % y)
        g.emit("ser %s" % y)          # write direction: the library's bytes for the same bitmap are read by the independent spec reading
        g.count("spec:multiple-of-8")
    # chunk counts whose offset header (4 bytes per chunk) is a multiple of 512 / 1024 / 4096 bytes, through EVERY entry point (the
    # stream readers step over the offset header, the slice readers index past it), both cookies
    for n in (128, 256, 384, 512, 1024):
        ks = sorted(r.sample(range(65536), n))
        for rc in (None, True):
            conts = []
            for j, k in enumerate(ks):
                if rc and j % 50 == 7:
                    conts.append((k, "R", [(100 + j, 130 + j)]))
                else:
                    conts.append((k, "A", [(v, v) for v in sorted(r.sample(range(65536), 2))]))
            stream, dg = enc_stream(conts, run_cookie=rc).hex(), fnv_digest(conts)
            for e in (ENTRIES if n in (128, 512) else ["readfrom", "unmarshal", "frombuffer"]):
                y = g.fresh()
                g.emit("spec %s %s %s %s" % (y, e, stream, dg))
            g.emit("ser %s" % y)
            g.count("spec:offset-header-multiple-of-512")
    # EVERY one of the 65536 keys populated, written by another implementation under both cookies (the run-capable cookie stores
    # the count minus one in 16 bits, the plain one the count in 32 bits), and the neighbouring count 65535
    for n, rc, first in ((65536, None, 0), (65536, True, 0), (65535, True, 1)):
        conts = [(k, "A", [(7, 7)]) for k in range(first, first + n)]
        if rc:
            conts[5] = (conts[5][0], "R", [(100, 130)])
        y = g.fresh()
        g.emit("spec %s %s %s %s" % (y, "readfrom" if rc else "frombuffer", enc_stream(conts, run_cookie=rc).hex(), fnv_digest(conts)))
        g.emit("card %s" % y)
        g.count("spec:all-keys-populated")
    # conformant streams into receivers that grew chunk by chunk (container counts in the gaps between their slice capacities)
    for n0, cnts in ((45, [65, 71]), (100, [129, 143]), (200, [257, 303])):
        for cnt in cnts:
            y = g.fresh("u")
            g.emit("new %s" % y)
            g.emit("addstride %s %d 65536 %d" % (y, r.choice([0, 9]), n0))
            conts = [(k, "A", [(v, v) for v in sorted(r.sample(range(65536), 2))]) for k in sorted(r.sample(range(65536), cnt))]
            g.emit("spec %s %s %s %s reuse" % (y, r.choice(SPEC_ENTRIES), enc_stream(conts, run_cookie=r.choice([None, True])).hex(), fnv_digest(conts)))
            g.emit("card %s" % y)
            g.count("spec:grown-receiver")
    # a run chunk with very many runs (the count is a 16-bit field; 32768 runs is the most a chunk can hold)
    for nr in ([16383, 16384, 20000, 32768] if scale >= 2 else [r.choice([16384, 20000, 32768])]):
        ivs = [(2 * i, 2 * i) for i in range(nr)]
        conts = [(r.choice([0, 7, 65535]), "R", ivs)]
        if r.random() < 0.5:
            conts = sorted(conts + [((conts[0][0] + 1) % 65536, "A", [(5, 5), (9, 9)])])
        y = g.fresh()
        g.emit("spec %s %s %s %s" % (y, r.choice(SPEC_ENTRIES), enc_stream(conts).hex(), fnv_digest(conts)))
        g.emit("card %s" % y)
        g.count("spec:manyruns")
    # the empty stream (both cookies) into fresh and used receivers, through every entry point
    for e in ENTRIES:
        for rc in (None, None):      # (the run-capable cookie cannot express zero containers)
            if not prev:
                break
            y = r.choice(prev)
            g.emit("spec %s %s %s %s reuse" % (y, e, enc_stream([], run_cookie=rc).hex(), fnv_digest([])))
            g.emit("card %s" % y)
            g.emit("toarr %s" % y)
            g.count("spec:empty-into-used")
    for it in range(int(15 * scale)):
        x = g.fresh()
        g.build(x)
        g.emit("ser %s" % x)


def mutate(g, data, conts):
    """structural corruptions of a valid stream"""
    r = g.r
    b = bytearray(data)
    kind = r.choice(["trunc", "byte", "field16", "field32", "cookie", "count", "swapkeys", "dupkey", "card", "append", "runlen",
                     "unsort", "zero"])
    g.count("mut:" + kind)
    if kind == "trunc":
        return bytes(b[:r.randrange(len(b) + 1)])
    if kind == "byte" and b:
        i = r.randrange(len(b))
        b[i] = r.choice([0, 1, 0xFF, 0x80, b[i] ^ (1 << r.randrange(8))])
    elif kind == "field16" and len(b) >= 2:
        i = r.randrange(0, min(len(b) - 1, 64), 2)
        b[i:i + 2] = struct.pack("<H", r.choice([0, 1, 4095, 4096, 4097, 65535, r.randrange(65536)]))
    elif kind == "field32" and len(b) >= 4:
        i = r.randrange(0, min(len(b) - 3, 64), 4)
        b[i:i + 4] = struct.pack("<I", r.choice([0, 1, 4, 65535, 65536, 65537, 0x7FFFFFFF, 0xFFFFFFFF]))
    elif kind == "cookie" and len(b) >= 4:
        b[0:4] = struct.pack("<I", r.choice([12345, 12346, 12347, 12348, 0, 0xFFFFFFFF, 12347 | (r.randrange(65536) << 16)]))
    elif kind == "count" and len(b) >= 8:
        if b[0:2] == struct.pack("<H", 12347):
            b[2:4] = struct.pack("<H", r.choice([0, 1, 3, 4, 7, 8, 65535, r.randrange(65536)]))
        else:
            b[4:8] = struct.pack("<I", r.choice([0, 1, 65535, 65536, 65537, 1 << 20, 0xFFFFFFFF]))
    elif kind in ("swapkeys", "dupkey", "card") and len(conts) >= 1:
        n = len(conts)
        run_cookie = b[0:2] == struct.pack("<H", 12347)
        base = 4 + (n + 7) // 8 if run_cookie else 8
        i = r.randrange(n)
        j = r.randrange(n)
        if kind == "swapkeys" and n >= 2:
            ki, kj = b[base + 4 * i:base + 4 * i + 2], b[base + 4 * j:base + 4 * j + 2]
            b[base + 4 * i:base + 4 * i + 2], b[base + 4 * j:base + 4 * j + 2] = kj, ki
        elif kind == "dupkey" and n >= 2:
            b[base + 4 * i:base + 4 * i + 2] = b[base + 4 * j:base + 4 * j + 2]
        else:
            old = struct.unpack("<H", b[base + 4 * i + 2:base + 4 * i + 4])[0]
            b[base + 4 * i + 2:base + 4 * i + 4] = struct.pack("<H", (old + r.choice([1, -1, 2, 4096, 100])) & 0xFFFF)
    elif kind == "append":
        b += bytes(r.randrange(256) for _ in range(r.randrange(1, 9)))
    elif kind == "runlen" and len(b) >= 12:
        i = len(b) - 2 * r.randrange(1, min(8, len(b) // 2))
        b[i:i + 2] = struct.pack("<H", r.choice([0, 65535, 65534, 1, r.randrange(65536)]))
    elif kind == "unsort" and len(b) >= 16:
        i = len(b) - 2 * r.randrange(2, min(10, len(b) // 2))
        b[i:i + 2], b[i + 2:i + 4] = b[i + 2:i + 4], b[i:i + 2]
    elif kind == "zero":
        i = r.randrange(len(b) + 1)
        b[i:] = bytes(len(b) - i)
    return bytes(b)


def run_stream_early(key, runs):
    hdr = struct.pack("<HH", 12347, 0) + bytes([1])
    c = sum(l + 1 for _, l in runs)
    desc = struct.pack("<HH", key, (c - 1) & 0xFFFF)
    pay = struct.pack("<H", len(runs)) + b"".join(struct.pack("<HH", s_ & 0xFFFF, l & 0xFFFF) for s_, l in runs)
    return hdr + desc + pay


@suite("fuzzdec")
def _fuzzdec(g, scale):
    """C10: mostly-valid streams, structurally corrupted; accepted+validated inputs get the query battery"""
    r = g.r
    for it in range(int(150 * scale)):
        conts = rand_conts(g, n=r.choice([0, 1, 2, 3, 4, 5]), small=r.random() < 0.7)
        data = enc_stream(conts, run_cookie=r.choice([None, True]), split_runs=r if r.random() < 0.2 else None)
        if it % 3 == 0 and len(data) < 40000:
            # the stream without its last one / two / three bytes, through every entry point (text entry points pad)
            for cut in (1, 2, 3):
                for e in ("base64", r.choice(["readfrom", "frombuffer", "fromunsafe", "unmarshal"])):
                    g.emit("dec %s %s %s" % (g.fresh(), e, data[:len(data) - cut].hex()))
                    g.count("mut:lastbytes")
        for _ in range(3):
            m = mutate(g, data, conts) if r.random() < 0.9 else data
            if len(m) > 40000:
                continue
            y = g.fresh()
            e = r.choice(["readfrom", "frombuffer", "fromunsafe", "unmarshal", "must", "base64", "readfromck", "mustck"])
            g.emit("dec %s %s %s" % (y, e, m.hex()))
            # battery on accepted+validated inputs (skipped on both sides otherwise)
            g.emit("card %s" % y)
            g.emit("toarr %s" % y)
            g.emit("min %s" % y)
            g.emit("max %s" % y)
            g.emit("rank %s %d" % (y, g.val_near([k for k, _, _ in conts])))
            g.emit("sel %s %d" % (y, r.choice([0, 1, 5, 100])))
            g.emit("ser %s" % y)
            z = g.fresh()
            g.emit("of %s %d %d" % (z, g.val_near([k for k, _, _ in conts]), g.val_near([0])))
            g.emit("or %s %s %s" % (g.fresh(), y, z))
            g.emit("andnot %s %s %s" % (g.fresh(), y, z))
            g.emit("ixor %s %s" % (z, y))
            g.emit("wf %s" % z)
    # valid streams into receivers that were used before and grew chunk by chunk (their internal slices have different spare
    # capacities): container counts around the powers of two the slices grow by
    for n0 in r.sample([40, 50, 100, 200, 400], 2 if scale < 2 else 5):
        for cnt in r.sample([n0 + 1, 64, 65, 70, 71, 72, 128, 129, 140, 143, 144, 256, 257, 300, 303, 304, 512, 513, 590], 4):
            y = g.fresh("u")
            g.emit("new %s" % y)
            g.emit("addstride %s %d 65536 %d" % (y, r.choice([0, 9]), n0))
            if r.random() < 0.4:
                g.emit("clear %s" % y)
            conts = [(k, "A", [(v, v) for v in sorted(r.sample(range(65536), r.choice([1, 2, 5])))]) for k in sorted(r.sample(range(65536), cnt))]
            e = r.choice(["readfrom", "frombuffer", "fromunsafe", "unmarshal", "base64", "readfromck"])
            g.emit("dec %s %s %s reuse" % (y, e, enc_stream(conts).hex()))
            g.emit("card %s" % y)
            g.emit("wf %s" % y)
            g.count("dec:reused-grown-receiver")
    # wrapping runs that are not the last run of their container
    for runs in ([(60000, 10000), (65000, 10)], [(65530, 10), (65534, 1)], [(10, 5), (65000, 600), (65100, 2)], [(65535, 1), (3, 1)]):
        y = g.fresh()
        g.emit("dec %s %s %s" % (y, r.choice(["frombuffer", "readfrom", "fromunsafe", "unmarshal"]), run_stream_early(r.choice([0, 5, 65535]), runs).hex()))
        g.emit("card %s" % y)
        g.emit("toarr %s" % y)
        g.count("dec:wrapping-interior-run")
    # systematic structured-but-illegal (and barely legal) run / array / key layouts
    def run_stream(key, runs, cardfield=None):
        hdr = struct.pack("<HH", 12347, 0) + bytes([1])
        c = sum(l + 1 for _, l in runs) if cardfield is None else cardfield
        desc = struct.pack("<HH", key, (c - 1) & 0xFFFF)
        pay = struct.pack("<H", len(runs)) + b"".join(struct.pack("<HH", s_ & 0xFFFF, l & 0xFFFF) for s_, l in runs)
        return hdr + desc + pay

    def battery(y):
        g.emit("card %s" % y)
        g.emit("toarr %s" % y)
        g.emit("rank %s %d" % (y, r.randrange(1 << 20)))
        g.emit("ser %s" % y)
        g.emit("wf %s" % y)

    for _ in range(int(12 * scale)):
        s0 = r.choice([0, 1, 100, 4000, 65000, 65500])
        l0 = r.choice([0, 1, 9, 30])
        for delta in (-2, -1, 0, 1, 2, 3):          # second run starts at first.last + delta  (overlap / touch / adjacent / gap)
            s1 = s0 + l0 + delta
            if s1 < 0 or s1 > 65535:
                continue
            l1 = r.choice([0, 1, 9, 40])
            pad = [(s1 + l1 + 5 + 3 * i, 2) for i in range(r.choice([0, 0, 6]))]   # extra runs so that the container is run-minimal
            y = g.fresh()
            g.emit("dec %s %s %s" % (y, r.choice(["frombuffer", "readfrom", "fromunsafe"]), run_stream(g.key(), [(s0, l0), (s1, l1)] + pad).hex()))
            g.count("illegal:runpair%+d" % delta)
            battery(y)
        # array neighbours: equal / descending / ascending by one
        base = r.randrange(0, 65000)
        for vals in ([base, base], [base + 1, base], [base, base + 1], [base, base + 1, base + 1], [base, base + 2, base + 1]):
            hdr = struct.pack("<II", 12346, 1)
            desc = struct.pack("<HH", g.key(), len(vals) - 1)
            pay = struct.pack("<%dH" % len(vals), *vals)
            y = g.fresh()
            g.emit("dec %s frombuffer %s" % (y, (hdr + desc + struct.pack("<I", 16) + pay).hex()))
            g.count("illegal:arraypair")
            battery(y)
        # key neighbours: equal / descending / ascending
        k0 = r.choice([0, 1, 5, 65534])
        for k1 in (k0, k0 + 1, max(0, k0 - 1)):
            hdr = struct.pack("<II", 12346, 2)
            desc = struct.pack("<HH", k0, 2) + struct.pack("<HH", k1 & 0xFFFF, 2)
            pay = struct.pack("<3H", 1, 2, 3) + struct.pack("<3H", 2, 3, 4)
            y = g.fresh()
            g.emit("dec %s %s %s" % (y, r.choice(["frombuffer", "readfrom"]), (hdr + desc + struct.pack("<II", 24, 30) + pay).hex()))
            g.count("illegal:keypair")
            battery(y)
        # bitmap container whose header cardinality is 4096 / 4097 / wrong
        for cardf, nbits in ((4097, 4097), (4097, 4096), (4098, 4097), (65536, 65536), (65536, 65535)):
            words = [0] * 1024
            for v in range(nbits):
                words[v >> 6] |= 1 << (v & 63)
            hdr = struct.pack("<II", 12346, 1)
            desc = struct.pack("<HH", g.key(), (cardf - 1) & 0xFFFF)
            y = g.fresh()
            g.emit("dec %s frombuffer %s" % (y, (hdr + desc + struct.pack("<I", 16) + struct.pack("<1024Q", *words)).hex()))
            g.count("illegal:bitmapcard")
            battery(y)
    # wrapping runs and other structured-but-illegal encodings, explicitly
    for key, runs in [(0, [(65535, 5)]), (3, [(65530, 10)]), (0, [(10, 5), (12, 5)]), (0, [(10, 5), (16, 5)]), (0, [(20, 1), (10, 1)]),
                      (0, [(0, 65535), (0, 65535)]), (1, [(5, 0)] * 3)]:
        n = 1
        hdr = struct.pack("<HH", 12347, n - 1) + bytes([1])
        c = sum(l + 1 for _, l in runs)
        desc = struct.pack("<HH", key, (c - 1) & 0xFFFF)
        pay = struct.pack("<H", len(runs)) + b"".join(struct.pack("<HH", s, l) for s, l in runs)
        y = g.fresh()
        g.emit("dec %s frombuffer %s" % (y, (hdr + desc + pay).hex()))
        g.emit("card %s" % y)
        g.emit("toarr %s" % y)
        g.emit("has %s 65535" % y)
        g.emit("max %s" % y)
