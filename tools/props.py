"""Property table: which theorems are the proof obligations of each property, which correspondence suites tie the
model to the Go code, and which script operators a property 'owns' (a disagreement on another operator inside one of its
suites is recorded as foreign and reported by the property that owns it)."""

THOROUGH_SCALE = 4
THOROUGH_SEEDS = 8

TRUSTED_BASE = [
    "Lean 4.33.0 kernel; axioms allowed: propext, Classical.choice, Quot.sound (checked by #print axioms on every obligation)",
    "L0 definitions in lean/RModel/Spec/BSet.lean (BSet.mem = what membership means)",
    "tools/gofacts translator (constants and scalar helpers regenerated from /repo on every run)",
    "correspondence machinery: tools/gen*.py, harness/*.go (+ /repo verif hooks), lean RDriver parser/printer, tools/run_check.py",
    "model-to-code tie outside Gen/Facts.lean is sampled by the correspondence suites, not proved",
]

ASSUMPTIONS = [
    "amd64 little-endian code paths only",
    "Go runtime, slices, append/copy, math/bits, encoding/binary behave as documented",
]

DEFAULT_MODULES = ["RProofs.BSet", "RProofs.BSetQuery"]
FASTEQ = ["RModel.Impl.Cont.toBSetFast_eq", "RModel.Impl.Rep.toBSetFast_eq"]
FASTEQ_MOD = "RProofs.FastEq"
FACTS = "RProofs.Facts.Constants"
F_SERIAL = ["RModel.Facts.serialCookie_spec", "RModel.Facts.serialCookieNoRun_spec", "RModel.Facts.noOffsetThreshold_spec",
            "RModel.Facts.arrayDefaultMaxSize_spec", "RModel.Facts.maxCapacity_spec", "RModel.Facts.bitmap_sizes",
            "RModel.Facts.getSizeInBytesFromCardinality_spec", "RModel.Facts.run_size_constants",
            "RModel.Facts.runContainer16SerializedSizeInBytes_spec", "RModel.Facts.arrayContainerSizeInBytes_spec"]
PINS = ["RModel.Facts.arrayMax_pinned", "RModel.Facts.lazyLowerBound_pinned", "RModel.Facts.invalidCardinality_pinned",
        "RModel.Facts.efficient_sizes_pinned"]
PINS_MOD = "RProofs.Facts.Pins"
# pinned comparison skeletons (every comparison against an integer constant >= 2 in a group of source files, regenerated each run)
CMP_MOD = "RProofs.Facts.CmpSkeleton"
def CMP(*groups):
    return ["RModel.Facts.cmpSkeleton%s_pinned" % g for g in groups]
CMP_OF = {"C01": ("Kernels", "Bitmap"), "C02": ("Kernels", "Bitmap"), "C03": ("Kernels", "Bitmap"), "C04": ("Kernels", "Bitmap"),
          "C05": ("Serial",), "C06": ("Serial",), "C07": ("Bitmap",), "C08": ("Serial", "Bitmap"), "C09": ("Kernels", "Serial"),
          "C10": ("Serial",), "C11": ("Agg",), "C12": ("Agg",), "C13": ("Serial",), "C14": ("Kernels", "Serial"), "C15": ("Kernels", "Bitmap"),
          "C16": ("Kernels", "Bitmap"), "C17": ("R64",), "C18": ("R64", "Serial"), "C19": ("BSI64", "BSI32"), "C20": ("BSI64", "BSI32")}
F_THRESH = ["RModel.Facts.arrayDefaultMaxSize_spec", "RModel.Facts.maxCapacity_spec", "RModel.Facts.bitmap_sizes",
            "RModel.Facts.invalidCardinality_spec", "RModel.Facts.maxUint_spec"]

L1_AGG = ["RModel.BSet.mem_unionL", "RModel.BSet.mem_interL", "RModel.BSet.mem_xorL", "RModel.BSet.mem_andAny",
          "RModel.BSet.canon_unionL", "RModel.BSet.canon_interL", "RModel.BSet.canon_xorL", "RModel.BSet.canon_andAny",
          "RModel.BSet.unionL_perm"]
AGG_OPS = {"fastor", "fastand", "heapor", "heapxor", "paror", "parand", "parheapor", "andany", "aggindep"}
PAR = ["RModel.Par.hinv_step", "RModel.Par.hvariant_decreases", "RModel.Par.hno_deadlock", "RModel.Par.hquiescent_at_close",
       "RModel.Par.hdelivered_complete", "RModel.Par.hinv_reach", "RModel.Par.hreach_bound", "RModel.Par.oinv_step",
       "RModel.Par.ovariant_decreases", "RModel.Par.ono_deadlock", "RModel.Par.oquiescent_at_close",
       "RModel.Facts.skeletonParHeapOr_pinned", "RModel.Facts.skeletonParAnd_pinned", "RModel.Facts.skeletonParOr_pinned",
       "RModel.Facts.skeletonAppender_pinned", "RModel.Facts.skeletonParOr64_pinned"]

# the byte-input layer under every decoder (internal/byte_input.go): ByteInputAdapter over any chunked reader = ByteBuffer
BI = "RModel.Impl.ByteIn."
BYTEIN = [BI + n for n in ["read_contract", "readFull_spec", "adapter_step_spec", "buf_step_spec", "buf_step_wf",
                           "adapter_refines_buf", "adapter_refines_buf_from", "adapter_refines_buf_errAt", "prog_adapter_eq_buf",
                           "buf_fail_spec", "adapter_fail_spec", "adapter_after_fail", "next_spec", "skip_spec", "skip_short",
                           "u32_spec", "u16_spec", "takeN_buf", "takeN_adapter", "rd32_buf", "rd32_adapter", "rd16_buf", "rd16_adapter"]]
BYTEIN_DEC = [BI + n for n in ["decodeProg_runList", "decode_via_buf", "decode_via_adapter", "decode_consumed"]]
BYTEIN_DEC64 = [BI + n for n in ["progS_adapter_sim", "readFrom64_eq_decode64", "fromUnsafe64_eq_decode64"]]

L1_ALGEBRA = ["RModel.BSet.mem_combine", "RModel.BSet.canon_combine", "RModel.BSet.canon_ext",
              "RModel.BSet.mem_union", "RModel.BSet.mem_inter", "RModel.BSet.mem_xor", "RModel.BSet.mem_diff",
              "RModel.BSet.canon_union", "RModel.BSet.canon_inter", "RModel.BSet.canon_xor", "RModel.BSet.canon_diff"]
L1_MUT = ["RModel.BSet.mem_add", "RModel.BSet.mem_remove", "RModel.BSet.mem_addRange", "RModel.BSet.mem_removeRange",
          "RModel.BSet.mem_flipRange", "RModel.BSet.canon_range", "RModel.BSet.canon_single", "RModel.BSet.canon_ext"]
L1_QUERY = ["RModel.BSet.rankLt_succ", "RModel.BSet.rankLt_eq_count", "RModel.BSet.card_eq_rankLt", "RModel.BSet.select_spec",
            "RModel.BSet.select_none", "RModel.BSet.minimum_some", "RModel.BSet.minimum_none", "RModel.BSet.maximum_some",
            "RModel.BSet.maximum_none", "RModel.BSet.cardInRange_spec", "RModel.BSet.mem_toList", "RModel.BSet.toList_sorted",
            "RModel.BSet.toList_length", "RModel.BSet.isEmpty_iff", "RModel.BSet.canon_ext"]
L1_NBR = ["RModel.BSet.nextValue_some", "RModel.BSet.nextValue_none", "RModel.BSet.prevValue_some", "RModel.BSet.prevValue_none",
          "RModel.BSet.nextAbsent_spec", "RModel.BSet.prevAbsent_some", "RModel.BSet.prevAbsent_none"]
L2_CONT = ["RModel.Impl.toBSet_and2", "RModel.Impl.toBSet_or2", "RModel.Impl.toBSet_xor2", "RModel.Impl.toBSet_andNot2",
           "RModel.Impl.wf_and2", "RModel.Impl.wf_or2", "RModel.Impl.wf_xor2", "RModel.Impl.wf_andNot2", "RModel.Impl.mem_toBSet"]
L2_REP = ["RModel.Impl.mem_rep", "RModel.Impl.Rep.toBSet_and2", "RModel.Impl.Rep.toBSet_or2", "RModel.Impl.Rep.toBSet_xor2",
          "RModel.Impl.Rep.toBSet_andNot2", "RModel.Impl.Rep.wf_and2", "RModel.Impl.Rep.wf_or2", "RModel.Impl.Rep.wf_xor2",
          "RModel.Impl.Rep.wf_andNot2"]
L2_QUERY = ["RModel.Impl.containsQ_spec", "RModel.Impl.rankQ_spec", "RModel.Impl.selectQ_spec", "RModel.Impl.minimumQ_spec",
            "RModel.Impl.maximumQ_spec", "RModel.Impl.cardInRangeQ_spec", "RModel.Impl.getCardinalityQ_spec"]
L2_NBRQ = ["RModel.Impl.nextValueQ_spec", "RModel.Impl.previousValueQ_spec", "RModel.Impl.nextAbsentValueQ_spec",
           "RModel.Impl.previousAbsentValueQ_spec"]
L2_MUT = ["RModel.Impl.toBSet_iaddRM", "RModel.Impl.toBSet_iremoveRM", "RModel.Impl.toBSet_iadd", "RModel.Impl.toBSet_iremove",
          "RModel.Impl.iadd_bool_mem", "RModel.Impl.iremove_bool_mem", "RModel.Impl.toBSet_iaddRange",
          "RModel.Impl.toBSet_iremoveRange", "RModel.Impl.toBSet_notRange", "RModel.Impl.toBSet_inotRange"]
L2_MUT_WF = ["RModel.Impl.wf_iaddRM", "RModel.Impl.wf_iremoveRM", "RModel.Impl.wf_iaddRange", "RModel.Impl.wf_iremoveRange",
             "RModel.Impl.wf_notRange", "RModel.Impl.wf_inotRange", "RModel.Impl.wf_iand2", "RModel.Impl.wf_ior2",
             "RModel.Impl.wf_ixor2", "RModel.Impl.wf_iandNot2"]
L2_IBIN = ["RModel.Impl.toBSet_iand2", "RModel.Impl.toBSet_ior2", "RModel.Impl.toBSet_ixor2", "RModel.Impl.toBSet_iandNot2"]
L2_AGG = ["RModel.Impl.Rep.toBSet_fastOr", "RModel.Impl.Rep.wf_fastOr", "RModel.Impl.Rep.toBSet_fastAnd", "RModel.Impl.Rep.wf_fastAnd",
          "RModel.Impl.Rep.toBSet_andAny", "RModel.Impl.Rep.wf_andAny", "RModel.Impl.Rep.wf_repairAfterLazy",
          "RModel.Impl.Rep.toBSet_repairAfterLazy", "RModel.Impl.lazyOk_lazyIOR2", "RModel.Impl.lazyOk_lazyOR2"]
IT = "RModel.Impl.It."
L2_ITER = [IT + "IntIt.drain_create", IT + "IntIt.advanceIfNeeded_spec", IT + "IntIt.advance_from_cursor", IT + "IntIt.peek_eq_nextValue",
           IT + "IntRevIt.drain_create", IT + "ManyIt.nextManySeq_create", IT + "CIt.drain_ofCont"]
L2_ITER2 = [IT + n for n in ["UnsetIt.drain_create", "UnsetIt.advanceIfNeeded_spec", "UnsetIt.hasNext_spec", "UnsetIt.next_spec",
            "absVals_eq_toList", "UCIt.drain_ofCont", "iterateRep_spec", "iterateSeen_spec", "valuesRep_spec", "backwardRep_spec",
            "unsetRep_spec", "rangesSeen_spec", "IntIt64.drain_create", "IntIt64.advanceIfNeeded_spec", "IntIt64.peek_eq_nextValue",
            "IntRevIt64.drain_create", "ManyIt64.nextMany_spec", "ManyIt64.nextManySeq_create"]]
RP = "RModel.Impl.Rep."
L2_REPMUT = [RP + n for n in ["toBSet_add", "toBSet_remove", "toBSet_addRange", "toBSet_removeRange", "toBSet_flip", "toBSet_runOptimize",
                              "checkedAdd_snd", "checkedRemove_snd"]]
L2_REPIBIN = [RP + n for n in ["toBSet_iand", "toBSet_ior", "toBSet_ixor", "toBSet_iandNot", "shareTail_same"]]
L2_REPMUT_WF = [RP + n for n in ["wf_add", "wf_remove", "wf_addRange", "wf_removeRange", "wf_flip", "wf_iand", "wf_ior", "wf_ixor",
                                 "wf_iandNot", "wf_runOptimize"]]
L2_XFORM = [RP + n for n in ["toBSet_addOffset64", "wf_addOffset64", "toBSet_flipStatic", "wf_flipStatic", "testBit_toDense",
                             "length_toDense", "toBSet_fromDense", "wf_fromDense", "toBSet_fromDense_toDense"]]
R64 = "RModel.Impl.Rep64."
L2_R64 = ["RModel.Impl.mem_rep64"] + [R64 + n for n in ["toBSet_and2", "toBSet_or2", "toBSet_xor2", "toBSet_andNot2", "wf_and2", "wf_or2", "wf_xor2",
          "wf_andNot2", "toBSet_flip", "toBSet_sflip", "toBSet_addRange", "toBSet_removeRange", "toBSet_ixor",
          "toBSet_flip_viaStatic", "toBSet_addRange_viaStatic"]]
L2_R64Q = [R64 + n for n in ["toBSet_add", "wf_add", "checkedAdd_snd", "toBSet_addInt", "toBSet_remove", "wf_remove", "checkedRemove_fst",
           "checkedRemove_snd", "toBSet_addMany", "wf_addMany", "add_frame", "add_bucket", "add_flagged", "remove_frame", "remove_bucket",
           "card_spec", "isEmpty_spec", "contains_spec", "minimum_spec", "maximum_spec", "rank_spec", "select_spec", "equals_spec",
           "andCardinality_spec", "orCardinality_spec", "intersects_spec", "toBSet_fastOr", "wf_fastOr", "toBSet_fastAnd", "wf_fastAnd",
           "fastOr_exact", "fastAnd_exact", "toBSet_parOr", "wf_parOr", "parOr_worker_independent", "parOr_exact"]] + \
    ["RModel.Impl.Ops32.exact_sound", "RModel.Impl.Ops32.exact_soundBin", "RModel.Impl.R64Par.chunk_partition64", "RModel.Impl.Rep.addManyF_eq"]
B32 = "RModel.BSI32."
L2_BSI32_UPD = [B32 + n for n in ["wf_new", "wf_setValue", "getValue_eq", "get_set_same", "get_set_other", "get_foldl_setValue",
                                  "get_clearValues", "get_retainSet", "wf_clearValues", "get_parOr", "get_addIndex", "get_increment"]]
L2_BSI32_Q = [B32 + n for n in ["compare_spec", "minMax_spec", "sum_spec", "batchEqual_spec", "getValue_eq"]]
L2_BSI32_OPS_Q = [B32 + n for n in ["batchEqualAny_spec", "batchEqual_worker_independent", "batchEqualAny_eq_fast", "batchEqualScan_values",
                                    "batchEqualAny_of_batchEqual", "matchTrieS_eq", "goSearch_spec", "transpose_spec", "transpose_spec_dom",
                                    "transpose_worker_independent", "transposeWithCounts_spec", "transposeWithCounts_worker_independent",
                                    "transposeWithCounts_order_independent", "transposeWithCounts_planes_order_independent",
                                    "transposeWithCounts_planes_independent", "compareValue_worker_independent", "compareValuePar_spec",
                                    "minMax_worker_independent", "minMax_order_independent", "sum_order_independent"]]
L2_BSI32_OPS_UPD = [B32 + n for n in ["roundTrip_eq", "get_marshal32", "bitCount_roundTrip", "wf_transposeWithCounts", "tight_ext"]]
L2_BSI32_PAR = [B32 + n for n in ["batches_flatten", "batches_length", "parExec_rel", "parExec_independent", "parExec_one_batch",
                                  "batchEqual_worker_independent", "batchEqualScan_worker_independent", "compareValue_worker_independent",
                                  "minMax_worker_independent", "minMax_order_independent", "sum_order_independent",
                                  "transpose_worker_independent", "transposeWithCounts_planes_order_independent"]]
BSI32OPS_MODS = ["RProofs.BSI32Ops", "RProofs.BSI32OpsPlanes"]
L2_PAR = [RP + n for n in ["toBSet_parOr", "wf_parOr", "parOr_worker_independent", "toBSet_parHeapOr", "wf_parHeapOr",
                           "toBSet_parAnd", "wf_parAnd", "parHeapOr_worker_independent", "parAnd_worker_independent"]] + \
    ["RModel.Impl.ParData.chunk_partition"]
L2_REPQ = [RP + n for n in ["card_spec", "isEmpty_spec", "contains_spec", "minimum_spec", "maximum_spec", "rank_spec", "select_spec",
                            "cardInRange_spec", "intersectsWithInterval_spec", "equals_spec"]]
L2_REPNBR = [RP + n for n in ["nextValue_spec", "previousValue_spec", "nextAbsentValue_spec", "previousAbsentValue_spec"]]
L2_REPCARD = [RP + n for n in ["andCardinality_spec", "orCardinality_spec", "intersects_spec", "equals_spec"]] + \
    ["RModel.Impl.Cont.andCardinalityQ_spec", "RModel.Impl.Cont.intersectsQ_spec", "RModel.Impl.Cont.equalsQ_spec"]
L1_XFORM = ["RModel.BSet.mem_shift", "RModel.BSet.canon_shift", "RModel.BSet.mem_flipRange", "RModel.BSet.canon_xor"]

L2_BULK_ADD = [RP + n for n in ["addMany_eq_foldl", "toBSet_addMany", "wf_addMany", "mem_addMany", "toBSet_bitmapOf", "wf_bitmapOf",
                                "addManyWriteFlags_false", "addMany_untouched", "addMany_slots"]]
L2_BULK_HEAP = [RP + n for n in ["toBSet_heapOr", "wf_heapOr", "toBSet_heapXor", "wf_heapXor", "toBSet_heapOr_perm",
                                 "toBSet_heapXor_perm", "heapOr_share", "heapXor_share"]] + ["RModel.Impl.RepBulk.pqReduce_spec"]
L2_BULK_ARR = [RP + n for n in ["toArray_spec", "toArray_length", "toExistingArray_spec", "stats_spec"]] + ["RModel.Impl.Cont.fill_spec"]
L2_CKSUM = ["RModel.Impl.Rep." + n for n in ["checksum_congr", "checksum_clone", "checksum_cloneSrc", "checksum_asDecoded",
                                              "checksum_roundtrip", "checksum_frozenOf", "checksum_frozen_roundtrip"]]
C13_OWNS = {"frz", "frzsmall", "frzwfail", "fview", "fdec", "fspec", "fchk", "fgc", "wf", "dig", "eq", "card", "toarr"}
FROZEN_WRITES = {"add", "cadd", "rem", "crem", "addmany", "addmanyfrom", "addr", "remr", "flip", "iand", "ior", "ixor", "iandnot", "opt", "clear", "clone",
                 "and", "or", "xor", "andnot", "has", "rank", "sel", "min", "max"}
C16_OWNS = {"off", "off32", "sflip", "eq", "dense", "fromdense", "frombitset", "densechk", "dig",
            "zdense", "zfromdense", "safe", "digall", "zdetach", "zsame", "l2off", "l2sflip", "l2dense", "l2fromdense"}

PROPS = {
    "C01": {"suites": [("alg", 1.0), ("kern", 0.3), ("kernspecial", 1.0), ("kernthresh", 0.5), ("popcnt", 1.0), ("kernl2", 0.5), ("l2rep", 0.5), ("kernmutbin", 0.3), ("l2mut", 0.3), ("l2q", 0.4)],
            "theorems": L1_ALGEBRA + F_THRESH + L2_CONT + L2_REP + L2_IBIN + L2_REPIBIN + PINS + FASTEQ + L2_REPCARD,
            "modules": DEFAULT_MODULES + [FACTS, PINS_MOD, FASTEQ_MOD, "RProofs.RepQuery", "RProofs.ContOps", "RProofs.RepOps", "RProofs.ContMut", "RProofs.RepMut"],
            "owns": {"and", "or", "xor", "andnot", "iand", "ior", "ixor", "iandnot", "andcard", "orcard", "isect", "eq", "dig",
                     "kern", "popcnt", "l2op", "l2iop", "l2q2"}},
    "C02": {"suites": [("hist", 1.0), ("kernmut", 0.4), ("l2mut", 0.6), ("l2bulk", 0.5)], "theorems": L1_MUT + L1_ALGEBRA[:3] + F_THRESH + L2_MUT + L2_REPMUT + PINS + L2_BULK_ADD,
            "modules": DEFAULT_MODULES + [FACTS, PINS_MOD, "RProofs.ContMut", "RProofs.RepMut", "RProofs.RepBulk"],
            "owns": {"new", "add", "cadd", "addint", "addmany", "addmanyfrom", "rem", "crem", "addr", "remr", "flip", "clear", "opt", "clone",
                     "cowclone", "detach", "setcow", "dig", "card", "empty", "of", "kern", "l2mut", "l2addmany", "l2bitmapof"}},
    "C03": {"suites": [("query", 1.0), ("kernq", 0.3), ("eqpairs", 0.5), ("kernq2", 0.3), ("l2q", 0.7), ("l2bulk", 0.3)], "theorems": L1_QUERY + L2_QUERY + L2_REPQ + L2_CKSUM + L2_BULK_ARR,
            "modules": DEFAULT_MODULES + ["RProofs.ContQuery", "RProofs.ContQueryNumRuns", "RProofs.RepQuery", "RProofs.Checksum", "RProofs.RepBulk"],
            "owns": {"card", "empty", "has", "min", "max", "rank", "sel", "cir", "iwi", "eq", "toarr", "toexarr", "chkeq", "dig", "kern", "mkrepr", "l2q", "l2q2", "l2cksum", "l2toarr", "l2toex", "l2stats"}},
    "C04": {"suites": [("iter", 1.0), ("iterun", 1.0), ("l2iter", 0.6), ("l2iter2", 0.5)], "modules": DEFAULT_MODULES + ["RProofs.Iter", "RProofs.IterAdv", "RProofs.IterRev", "RProofs.IterMany", "RProofs.Iter2"],
            "theorems": L1_NBR[:4] + ["RModel.BSet.rankLt_eq_count", "RModel.BSet.card_eq_rankLt", "RModel.BSet.select_spec",
                                      "RModel.BSet.select_none", "RModel.BSet.mem_toList", "RModel.BSet.toList_sorted",
                                      "RModel.BSet.mem_inter", "RModel.BSet.mem_xor", "RModel.BSet.canon_ext"] + L2_ITER + L2_ITER2,
            "owns": {"it", "rit", "mit", "uit", "reinit", "hasnext", "next?", "next!", "peek?", "peek!", "adv", "advrel", "many",
                     "manyhs", "drain", "iterate", "values", "backward", "unset", "ranges", "seqlate", "l2it", "l2reinit",
                     "l2iterate", "l2seq", "l2ranges", "l2it64", "l2reit64", "hasnext64", "next64", "peek64", "adv64", "many64", "drain64"}},
    "C05": {"suites": [("ser", 1.0), ("thresh", 1.0), ("serall", 1.0), ("bytein", 1.0)],
            "theorems": ["RModel.Impl.encode_length", "RModel.Impl.decode_encode", "RModel.Impl.prefix_rejected",
                         "RModel.Impl.decode_no_panic", "RModel.Impl.roundtrip_wf", "RModel.BSet.canon_ext"] + F_SERIAL + BYTEIN + BYTEIN_DEC,
            "modules": DEFAULT_MODULES + [FACTS, "RProofs.Properties.C05", "RProofs.ByteInput", "RProofs.ByteInputDecode"],
            # "… that supports all further operations": the edits of a decoded bitmap in these suites are this property's too
            "owns": {"ser", "rd", "rdfail", "wrfail", "wrfailall", "rdsplit", "trunc", "wf", "dig", "add", "or", "mkrepr", "card", "addstride", "bytein",
                     "rem", "remr", "addr", "flip", "cadd", "crem", "iand", "ior", "ixor", "iandnot", "eq"}},
    "C06": {"suites": [("spec", 1.0)],
            "theorems": ["RModel.FormatSpec.encode_conforms", "RModel.FormatSpec.conformant_decodes", "RModel.BSet.canon_ext"] + F_SERIAL,
            "modules": DEFAULT_MODULES + [FACTS, "RProofs.Properties.C06"], "owns": {"spec", "ser", "card", "toarr"}},
    # C07 also rides on the aggregate suites, where it owns "the operands and the caller's slice are left alone": a line whose
    # result digest is right but whose operand digests / slice verdict differ (a wrong result is C11's)
    "C07": {"suites": [("alias", 1.0), ("agg", 0.5), ("r64", 0.3)], "modules": ["RProofs.Heap"], "corpus": ["corpus/C07/failed-read-into-cow-clone.txt"],
            # `aggindep` edits an aggregate's result (or an input) chunk by chunk and re-observes everything else: any disagreement there is a
            # failure of independence (also when the edited result itself is wrong: its own chunks alias one another)
            # 64-bit counterparts: in the `r64` suite only the sharing observations are this property's (`alias64`: a bucket reachable from two
            # objects must be flagged in both; `dig64`: an input re-observed after its result was edited)
            "owns_fn": lambda op, mm, suite: (op in ("alias64", "dig64")) if suite.split(":")[-1] == "r64" else ("agg" not in suite) or (op == "aggindep" and not mm.get("got", "").startswith("panic")) or ((op == "dig" or (op in AGG_OPS and
            mm.get("expected", "").split(" ")[:1] == mm.get("got", "").split(" ")[:1])) and not mm.get("got", "").startswith("panic")),
            "theorems": ["RModel.Impl.safe_nil", "RModel.Impl.safe_iff", "RModel.Impl.safe_unflagged_private",
                         "RModel.Impl.safe_gate", "RModel.Impl.safe_cloneBitmap", "RModel.Impl.safe_appendCopy",
                         "RModel.Impl.safe_appendFresh", "RModel.Impl.safe_insertFresh", "RModel.Impl.safe_removeSlot",
                         "RModel.Impl.safe_detach", "RModel.Impl.safe_dropBitmap", "RModel.Impl.safe_setCow",
                         "RModel.Impl.gate_private", "RModel.Impl.gate_frame", "RModel.Impl.safe_run", "RModel.Impl.safe_reachable"],
            "owns": None},
    "C08": {"suites": [("zerocopy", 1.0)], "modules": ["RProofs.Heap"],
            "theorems": ["RModel.Impl.safe_unflagged_not_foreign", "RModel.Impl.safe_addZeroCopy", "RModel.Impl.gate_not_foreign",
                         "RModel.Impl.detach_no_foreign'", "RModel.Impl.safe_reachable", "RModel.Impl.hdrLocal_run"],
            "owns": None},
    "C09": {"suites": [("hist", 1.0), ("alg", 0.7), ("xform", 0.7), ("ser", 0.5), ("kernwf", 1.0), ("kernthresh", 1.0), ("thresh", 0.5), ("agg", 0.5), ("kernl2", 0.5), ("l2rep", 0.3), ("kernmut", 0.3), ("l2mut", 0.3), ("l2xform", 0.3), ("frozen", 0.3), ("sizeb", 0.5)],
            "theorems": ["RModel.Impl.wf_implies_validate", "RModel.Impl.validate_implies_wf_of_decoded", "RModel.BSet.canon_ext"] + F_THRESH + L2_CONT[4:8] + L2_REP[5:] + L2_MUT_WF + L2_REPMUT_WF + [L2_XFORM[1], L2_XFORM[3], L2_XFORM[7]] + PINS + FASTEQ,
            "modules": DEFAULT_MODULES + [FACTS, PINS_MOD, FASTEQ_MOD, "RProofs.Properties.C09", "RProofs.ContOps", "RProofs.RepOps", "RProofs.ContMut", "RProofs.RepMut", "RProofs.RepXform"],
            # a library-written stream read back must validate: `rd` lines whose Go side reports an invalid bitmap are C09's
            "owns_fn": lambda op, mm, suite: op in ("wf", "kernwf", "l2op", "l2mut", "l2iop", "l2off", "l2sflip", "l2fromdense") or (op in ("rd", "fview") and "invalid:" in mm.get("got", ""))
            or (op in AGG_OPS and "valid=no" in mm.get("got", "")),
            "owns": {"wf", "kernwf"}},
    "C10": {"suites": [("fuzzdec", 1.0), ("fuzzfrozen", 0.5), ("bytein", 0.5)], "corpus": ["corpus/C10/frozen-bitmap4096.txt"],
            "theorems": ["RModel.Impl.decode_no_panic", "RModel.Impl.prefix_rejected", "RModel.Impl.decode_shape",
                         "RModel.Impl.decoded_valid_is_wf", "RModel.Impl.validate_implies_wf_of_decoded",
                         "RModel.Impl.frozenView_no_panic", "RModel.BSet.canon_ext"] + F_SERIAL +
                        [BI + n for n in ["adapter_refines_buf", "adapter_refines_buf_errAt", "prog_adapter_eq_buf", "buf_step_wf",
                                          "adapter_fail_spec", "buf_fail_spec", "decode_via_buf", "decode_via_adapter"]],
            "modules": DEFAULT_MODULES + [FACTS, "RProofs.Properties.C09", "RProofs.Properties.C05", "RProofs.Properties.C13",
                                          "RProofs.ByteInput", "RProofs.ByteInputDecode"], "owns": None},
    "C11": {"suites": [("agg", 1.0), ("kernspecial", 0.6), ("l2agg", 0.7), ("l2par", 0.5), ("l2bulk", 0.5)], "theorems": L1_AGG + L1_ALGEBRA + L2_AGG + PINS + L2_PAR[:8] + L2_BULK_HEAP,
            "modules": DEFAULT_MODULES + ["RProofs.Agg", "RProofs.LazyOps", PINS_MOD, "RProofs.ParData", "RProofs.RepBulk"], "owns": set(AGG_OPS) | {"kern", "l2agg", "l2lazy", "l2par", "aggmany", "l2heap"}},
    # C12: schedule independence / termination / no leak (sched), concurrent decoding through the pools (concdec); the
    # protocol theorems are about the transition systems of Impl/Par.lean, pinned to the source by the skeleton obligations
    "C12": {"suites": [("sched", 1.0), ("l2par", 0.5), ("l2r64qpar", 0.5)], "theorems": PAR + L1_AGG[:3] + L2_PAR +
            [R64 + "toBSet_parOr", R64 + "parOr_worker_independent", "RModel.Impl.R64Par.chunk_partition64"] + L2_BSI32_PAR,
            "modules": DEFAULT_MODULES + ["RProofs.Agg", "RProofs.Par", "RProofs.Facts.Skeleton", "RProofs.ParData", "RProofs.Rep64ParOr"] + BSI32OPS_MODS, "owns": {"sched", "concdec", "concagg", "concagg64"},
            # everything a race-detector job reports is C12's (also on the goroutine-parallel paths of the bit-sliced indexes and
            # of the 64-bit bitmap, whose results are checked by C17/C19/C20); elsewhere C12 owns its own commands only
            "owns_fn": lambda op, mm, suite: suite.startswith("race:") or op in ("sched", "concdec", "concagg", "concagg64", "l2par", "l2agg64"),
            "race_suites": [("sched", 1.0), ("bsi", 1.0), ("bsiq", 0.5), ("bsix", 0.3), ("r64", 0.5), ("agg", 0.5), ("bsi32ops", 0.3)],
            "race_quick": [("sched", 0.3), ("bsi", 0.4), ("bsiq", 0.3), ("r64", 0.3)]},
    "C13": {"suites": [("frozen", 1.0), ("frozenmis", 0.5), ("serall", 1.0)], "corpus": ["corpus/C10/frozen-bitmap4096.txt"],
            "theorems": ["RModel.Impl.freeze_length", "RModel.Impl.frozenView_freeze", "RModel.Impl.frozenView_no_panic",
                         "RModel.FrozenSpec.frozenSpec_freeze", "RModel.BSet.canon_ext", "RModel.Facts.frozenCookie_spec"],
            "modules": DEFAULT_MODULES + [FACTS, "RProofs.Properties.C13", "RProofs.Properties.C13Spec"],
            # in the `frozen` suite every mutation is a write on a frozen view (or on a bitmap derived from one): "supports all read and
            # (copying) write operations" makes their outcome this property's
            "owns_fn": lambda op, mm, suite: op in C13_OWNS or (suite.split(":")[-1] == "frozen" and op in FROZEN_WRITES)},
    "C14": {"suites": [("hist", 1.0), ("alg", 0.7), ("xform", 0.5), ("thresh", 0.5), ("sizeb", 1.0), ("agg", 0.5)],
            "theorems": ["RModel.Impl.readme_bound", "RModel.Impl.bound_function", "RModel.Facts.boundSerializedSizeInBytes_spec",
                         "RModel.BSet.canon_ext"] + F_SERIAL,
            "modules": DEFAULT_MODULES + [FACTS, "RProofs.Facts.Bits", "RProofs.Properties.C14"], "owns": {"size"}},
    "C15": {"suites": [("nbr", 1.0), ("kernq", 0.3), ("kernq2", 0.3), ("l2q", 0.5)], "theorems": L1_NBR + L2_NBRQ + L2_REPNBR,
            "modules": DEFAULT_MODULES + ["RProofs.ContQuery", "RProofs.RepQuery"], "owns": {"nv", "pv", "nav", "pav", "kern", "l2q"}},
    "C16": {"suites": [("xform", 1.0), ("dense", 1.0), ("zc_dense", 0.5), ("l2xform", 1.0)], "theorems": L1_XFORM + L2_XFORM,
            "modules": DEFAULT_MODULES + ["RProofs.RepXform"],
            # in the `xform` suite the only mutations are edits (removals, insertions, unions) of the RESULT of a static Flip / AddOffset (the operand is re-observed with
            # `dig`): a result that does not behave like a bitmap of its own under those edits is this property's
            "owns_fn": lambda op, mm, suite: op in C16_OWNS or (suite.split(":")[-1] == "xform" and op in {"rem", "remr", "crem", "card", "has", "wf", "add", "addr", "addmany", "ior", "toarr"})},
    "C17": {"suites": [("r64", 1.0), ("l2r64", 0.6), ("l2iter2", 0.3), ("l2r64q", 0.6)], "theorems": L1_ALGEBRA + L1_MUT[:5] + L1_QUERY[:9] + L1_NBR[:4] +
            ["RModel.Facts.r64Highbits_spec", "RModel.Facts.r64Lowbits_spec"] + L2_R64 + ["RModel.Impl.Rep64.toBSetFast_eq'"] + L2_R64Q,
            "modules": DEFAULT_MODULES + ["RProofs.Facts.Bits", FASTEQ_MOD, "RProofs.Rep64", "RProofs.Rep64Range", "RProofs.Rep64InPlace", "RProofs.Rep64Witness",
                                          "RProofs.Rep64Mut", "RProofs.Rep64Query", "RProofs.Rep64QueryPair", "RProofs.Rep64Agg", "RProofs.Rep64ParOr"], "owns": None},
    "C18": {"suites": [("ser64", 1.0), ("l2ser64", 1.0)],
            "theorems": ["RModel.BSet.canon_ext", "RModel.Facts.r64_cookies_spec",
                         "RModel.Impl.decode_encode", "RModel.Impl.prefix_rejected", "RModel.Impl.decode_no_panic",
                         "RModel.Impl.Rep64.encode_length", "RModel.Impl.decode64_encode", "RModel.Impl.decode64_prefix_rejected",
                         "RModel.Impl.decode64_no_panic", "RModel.FormatSpec.encode64_conforms", "RModel.Impl.decoded_valid_is_wf64",
                         "RModel.Impl.decode64_bucket_bound", "RModel.Impl.roundtrip_wf64"] +
                        [BI + "readFull_spec", BI + "adapter_refines_buf_from"] + BYTEIN_DEC64,
            "modules": DEFAULT_MODULES + [FACTS, "RProofs.Properties.C05", "RProofs.Serial64", "RProofs.ByteInputDecode64"], "owns": None},
    "C19": {"suites": [("bsi", 1.0), ("bsi32ops", 0.5)], "corpus": ["corpus/bsi/F02_marshal_sign.txt", "corpus/bsi/F14_unmarshal_reused_receiver.txt"],
            "theorems": ["RModel.BSI.wf_new", "RModel.BSI.wf_setValue", "RModel.BSI.get_set_same", "RModel.BSI.get_set_other",
                         "RModel.BSI.exists_set", "RModel.BSI.get_foldl_setValue", "RModel.BSI.wf_foldl_setValue",
                         "RModel.BSI.get_clearValues", "RModel.BSI.get_retainSet", "RModel.BSI.get_setFixed_same",
                         "RModel.BSI.get_setFixed_other", "RModel.BSI.get_setFixed_wrap", "RModel.BSI.getValue_eq",
                         "RModel.Facts.bsi64ValueFitsBitCount_spec", "RModel.Facts.encodeBSI64Value_range",
                         "RModel.Facts.encodeBSI64Value_spec", "RModel.Facts.decode_encode_BSI64"] + L2_BSI32_UPD + L2_BSI32_OPS_UPD +
            ["RModel.BSI." + n for n in ["get_addIndex", "get_increment", "get_parOr", "get_stream", "get_marshal", "get_marshal_gen",
                                         "get_marshal_neg", "get_setMany", "get_retain", "wf_addIndex", "wf_increment", "wf_parOr",
                                         "getBigValuesGeneric_spec", "getValuesInt64_spec", "getBigValues_spec", "getValues_spec"]],
            "modules": ["RProofs.Facts.Bits", "RProofs.BSI", "RProofs.BSI32", "RProofs.BSI64Ops", "RProofs.BSI64Big"] + BSI32OPS_MODS, "owns": None},
    "C20": {"suites": [("bsiq", 1.0), ("bsix", 0.5), ("bsibig", 0.5), ("bsi32ops", 1.0)], "corpus": ["corpus/bsibig/K1_same_with_bcmpabs_passes.txt"],
            "theorems": ["RModel.BSI.compare_spec", "RModel.BSI.compareLE_spec", "RModel.BSI.compareInt64LessAndEqual_spec",
                         "RModel.BSI.batchEqual1_spec", "RModel.BSI.compareInt64Value_isSome", "RModel.BSI.value_fits",
                         "RModel.BSI.sum_spec", "RModel.BSI.sumAll_spec", "RModel.BSI.minMax_spec", "RModel.BSI.minMaxCandidates_spec",
                         "RModel.Facts.transform_monotone", "RModel.Facts.encodeBSI64Value_spec", "RModel.Facts.decode_encode_BSI64"] + L2_BSI32_Q + L2_BSI32_OPS_Q +
            ["RModel.BSI.batchEqual_spec", "RModel.BSI.transpose_spec", "RModel.BSI.get_transposeWithCounts1"] +
            ["RModel.BSI." + n for n in ["compareColumn_spec", "compareBig_spec", "compareBig_spec_existing", "compareBigValue_spec",
                                         "compareValueAny_spec", "minMaxBig_spec", "compareBSILessAndEqual_spec", "compareBSI_spec",
                                         "getBigValuesGeneric_spec", "getValuesInt64_spec", "getBigValues_spec", "getValues_spec",
                                         "batchEqualBig_spec", "batchEqualAny_spec", "compareBigPar_eq", "batchEqualPar_eq", "minOrMax_spec"]],
            "modules": ["RProofs.Facts.Bits", "RProofs.BSI", "RProofs.BSI32", "RProofs.BSI64Ops", "RProofs.BSI64Big"] + BSI32OPS_MODS, "owns": None},
}

HOOK_COMMITS = ["ad703f4", "ff7f62c", "c535057", "a3657c9", "ae1381d"]
NOT_YET = {}
DEFAULT_LEVEL_TEXT = ("Theorems (Lean 4 kernel-checked, unbounded) give the meaning of every operation of the executable oracle in terms of "
                      "membership, and uniqueness of canonical forms; the real Go code is tied to that proved oracle by a correspondence "
                      "check on generated operation scripts (every step compared), with minimised replays.")
DEFAULT_LEVEL_NOTE = ("Proved: the listed theorems about the Lean model (axioms: propext, Classical.choice, Quot.sound). Sampled, not proved: "
                      "that the Go code behaves like the model (correspondence suites). Trusted: generator, harness, hooks, driver parser.")

# ------------------------------------------------------------------------------------------------ per-property level statements
_LT = {
    "C01": "L1: every set operation of the verified oracle has its membership meaning (mem_combine) and canonical forms are unique; L2: all nine container pairings of and/or/xor/andNot, their in-place forms, and the static and in-place bitmap-level drivers are modelled down to the returned representation and proved to compute those operations and to preserve well-formedness. Tie: the Go result must be literally the model's representation (kern, l2op, l2iop), plus digest-level comparison of every public form.",
    "C02": "L1: add/remove/addRange/removeRange/flipRange have their membership meaning; L2: the mutation kernels of all three container kinds and the bitmap-level mutators (copy-on-write gate, range splitting, re-typing, dropped chunks) are modelled exactly and proved (toBSet_*, Checked* booleans, wf_*). Tie: exact representation after every kernel / mutator call (kernmut, l2mut) and digest after every step of generated histories.",
    "C03": "L1: rank, select, min, max, cardinality-in-range, toList of the oracle are proved against their specifications; L2: the Go query algorithms of the three container kinds (binary searches, word scans, run searches) are modelled as algorithms and proved to return the L1 answers. Tie: every kernel query result must equal both; public queries are compared with the oracle, Equals in both orders.",
    "C04": "L1: cursor semantics (nextValue/prevValue, toList sorted and complete); L2: the iterators as the Go state machines (per-container and bitmap-level, forward, reverse, many) with invariants, drain / AdvanceIfNeeded / NextMany theorems and harmless re-initialisation. Tie: an L2 state machine is stepped next to the real iterator on every command (l2iter) in addition to the L1 cursor comparison.",
    "C05": "The writer/reader model of the portable format is proved: exact length, round trip with arbitrary trailing bytes and exact consumption, every proper prefix rejected, no panic on any byte string. Tie: encode(representation) must equal the Go bytes byte for byte; all entry points x chunked readers x trailing bytes x reused receivers x failing writers at every offset; 65535/65536 chunks.",
    "C06": "Both directions between the writer/reader model and an independent reading of the published format are proved (encode_conforms, conformant_decodes); the literals of the reading are tied to the regenerated constants. Tie: an independent encoder making the other legal choices must be read exactly; Go's bytes are fed to the independent reading.",
    "C07": "A pointer-graph model with the sharing invariant Safe is preserved by every copy-on-write primitive and a write through the gate touches nothing another bitmap reaches (gate_private); at representation level the flags are part of the exact L2 models (RepMut: an in-place operation changes at most the flags of its argument). Tie: Safe is evaluated on the REAL pointer graph and all live bitmaps are digested after every step.",
    "C08": "PARTIAL: theorems say an unflagged container is never caller memory, the gate never returns caller memory and detaching severs every reference (model); that the process never stores into the caller's bytes is observed (buffers in read-only mmap regions, then scrambled and unmapped), not proved; the garbage collector is not modelled.",
    "C09": "wf implies Validate (and conversely for decoded input) is proved; well-formedness is proved preserved by every modelled operation: all container kernels, static and in-place binary operations, mutators, ranges, RunOptimize, transforms, lazy aggregates, parallel aggregates (model), serialization round trip. Tie: Validate + raw representation after the steps of every suite; exact-representation ties; roaring64/BSI by sampling.",
    "C10": "decode is proved total without panic on every byte string (portable and frozen readers), every proper prefix of an encoding is rejected, accepted-and-validated input is well-formed (so every theorem about well-formed bitmaps applies). Tie: the model decoder must classify every generated byte string like Go, with the same representation and Validate verdict; accepted input gets a query/algebra battery. One recorded finding (4096-value bitmap container).",
    "C11": "L1: folds (unionL/interL/xorL/andAny) with permutation invariance; L2: FastOr/FastAnd/AndAny with lazy cardinalities and the repair step, ParOr/ParAnd/ParHeapOr data models, proved equal to the folds and well-formed. Tie: exact representation of aggregate results (l2agg, l2par) and digest comparison over operand lists, orders, worker counts.",
    "C12": "PARTIAL: the goroutine/channel protocols are transition systems proved deadlock-free, terminating under every schedule, with nothing in flight at close; the source skeletons are regenerated and pinned; the data model proves the chunk grid a partition and the result independent of the worker count. The Go scheduler and memory model are not modelled: data-race freedom is observed by race-detector executions (both tiers), goroutine leaks by counting.",
    "C13": "freeze/frozenView model: exact length, a frozen well-formed representation is viewed as itself, no panic on any byte string, the independent layout reading agrees. Tie: three writers byte for byte against the model, views validated and mutated, corrupted streams classified identically. One recorded finding shared with C10.",
    "C14": "readme_bound and bound_function are proved for every well-formed representation (the serialized size of the model encoder never exceeds the documented bound / BoundSerializedSizeInBytes, whose closed form is proved from the regenerated function). Tie: size lines after the steps of histories, algebra, transforms, aggregates (sizes must also equal the model's).",
    "C15": "L1: nextValue/prevValue/nextAbsent/prevAbsent specifications; L2: the container algorithms proved to return them. Tie: kernel-level and public neighbour queries against both.",
    "C16": "L1: shift with clipping, flipRange; L2: AddOffset64, static Flip, ToDense/FromDense modelled exactly and proved (toBSet_*, wf_*, dense round trip). Tie: exact representation / exact word list (l2xform), digest comparison, borrowed word slices never written.",
    "C17": "L1 with universe 2^64 and the proved key split; L2: the bucket structure of the 64-bit bitmap with static/in-place binary operations, Flip, AddRange, RemoveRange proved against L1 (32-bit operations inside touched buckets enter as a parameter with a proved instance). Tie: bucket structure compared exactly, everything else through digests.",
    "C18": "The 64-bit writer/reader model is proved on top of the 32-bit theorems: exact length, round trip with trailing bytes and exact consumption, every proper prefix rejected, no panic, the untrusted bucket count bounded by the data (decode64_bucket_bound), conformance with the independent spec reading, accepted-and-validated implies well-formed. Tie: encode(representation) = bytes byte for byte, the model decoder classifies every generated stream like Go with the same bucket structure and Validate verdict; every entry point, trailing bytes, reused receivers, truncations, corrupted headers, many buckets.",
    "C19": "Both BSI implementations are modelled plane by plane and proved against a map from column to integer (set/get, histories of SetValue, clear, retain, ParOr, Add/Increment for the 32-bit one, widening, two's complement helpers regenerated from the source). Tie: the real bit planes (hooks) must equal the plane model after every update; map oracle for every operation. One recorded finding (MarshalBinary cannot carry the sign plane).",
    "C20": "Plane-algebra comparison, Sum, MinMax (and BatchEqual for the 32-bit index) proved against the map semantics; monotonicity of the signed/unsigned transform proved from the regenerated helper. Tie: every query against the map oracle, also answered by the plane algorithms.",
}
_LN_TAIL = (" Axioms: propext, Classical.choice, Quot.sound only (audited per obligation). Sampled, not proved: that the Go code behaves like the model "
            "(correspondence suites; exact token-by-token where an L2 model exists). Trusted: generators, harness + hooks, the checker's parser/printer.")
for _k, _v in _LT.items():
    PROPS[_k].setdefault("level_text", _v)
    PROPS[_k].setdefault("level_note", "Proved about the model: the theorems listed in the evidence file (coverage.theorems)." + _LN_TAIL)

# pinned sharing skeletons (calls of the copy-on-write primitives with their arguments, clones, flag assignments)
# the 32-bit skeleton also exists split by the kind of function an entry stands in (Mut / Alg / Agg / Dec / Xf, each with the shared
# bookkeeping primitives of roaringArray): a property about one kind is tied to that part; C07 and C08 (sharing itself) to the whole
COW_OF = {"C01": ("Alg",), "C02": ("Mut",), "C05": ("Dec",), "C10": ("Dec",), "C13": ("Dec", "Mut"), "C11": ("Agg",), "C12": ("Agg",),
          "C16": ("Xf",), "C07": ("", "64"), "C08": ("",), "C17": ("64",), "C19": ("64", "BSI32"), "C20": ("64", "BSI32")}
for _p, _g in CMP_OF.items():
    PROPS[_p]["theorems"] = list(PROPS[_p].get("theorems", [])) + CMP(*_g) + \
        ["RModel.Facts.cowSkeleton%s_pinned" % g for g in COW_OF.get(_p, ())]
    # one module per pinned skeleton: a change in one group of source files breaks the properties mapped to that group only
    PROPS[_p]["modules"] = list(PROPS[_p].get("modules", [])) + ["RProofs.Facts.CmpPins.CmpSkeleton%s" % g for g in _g] + \
        ["RProofs.Facts.CmpPins.CowSkeleton%s" % g for g in COW_OF.get(_p, ())]

# the readable top layer: lean/RProofs/Statements/Cxx.lean restates every clause of the property (theorems `clause_*`); all of them
# are obligations of that property
import os as _os, re as _re
_SDIR = _os.path.join(_os.path.dirname(_os.path.dirname(_os.path.abspath(__file__))), "lean", "RProofs", "Statements")
for _p in sorted(PROPS):
    _f = _os.path.join(_SDIR, _p + ".lean")
    if _os.path.exists(_f):
        _names = _re.findall(r"^theorem (clause_[A-Za-z0-9_']+)", open(_f).read(), _re.M)
        PROPS[_p]["theorems"] = list(PROPS[_p].get("theorems", [])) + ["RModel.Statements.%s.%s" % (_p, n) for n in _names]
        PROPS[_p]["modules"] = list(PROPS[_p].get("modules", [])) + ["RProofs.Statements." + _p]
