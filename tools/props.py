"""Property table: which theorems are the proof obligations of each property, which correspondence suites tie the
model to the Go code, and which script operators a property 'owns' (a disagreement on another operator inside one of its
suites is recorded as foreign and reported by the property that owns it)."""

THOROUGH_SCALE = 4
THOROUGH_SEEDS = 8

TRUSTED_BASE = [
    "Lean 4.33.0 kernel; axioms allowed: propext, Classical.choice, Quot.sound (checked by #print axioms on every obligation)",
    "L0 definitions in lean/RModel/Spec/BSet.lean (BSet.mem = what membership means)",
    "tools/gofacts translator (constants and scalar helpers regenerated from /repo on every run)",
    "correspondence machinery: tools/gen*.py, harness/*.go (+ /repo verif hooks), lean RDriver parser/printer, tools/run_check.py",
    "model-to-code tie outside Gen/Facts.lean is sampled by the correspondence suites, not proved",
]

ASSUMPTIONS = [
    "amd64 little-endian code paths only",
    "Go runtime, slices, append/copy, math/bits, encoding/binary behave as documented",
]

DEFAULT_MODULES = ["RProofs.BSet", "RProofs.BSetQuery"]
FASTEQ = ["RModel.Impl.Cont.toBSetFast_eq", "RModel.Impl.Rep.toBSetFast_eq"]
FASTEQ_MOD = "RProofs.FastEq"
FACTS = "RProofs.Facts.Constants"
F_SERIAL = ["RModel.Facts.serialCookie_spec", "RModel.Facts.serialCookieNoRun_spec", "RModel.Facts.noOffsetThreshold_spec",
            "RModel.Facts.arrayDefaultMaxSize_spec", "RModel.Facts.maxCapacity_spec", "RModel.Facts.bitmap_sizes",
            "RModel.Facts.getSizeInBytesFromCardinality_spec", "RModel.Facts.run_size_constants",
            "RModel.Facts.runContainer16SerializedSizeInBytes_spec", "RModel.Facts.arrayContainerSizeInBytes_spec"]
PINS = ["RModel.Facts.arrayMax_pinned", "RModel.Facts.lazyLowerBound_pinned", "RModel.Facts.invalidCardinality_pinned",
        "RModel.Facts.efficient_sizes_pinned"]
PINS_MOD = "RProofs.Facts.Pins"
F_THRESH = ["RModel.Facts.arrayDefaultMaxSize_spec", "RModel.Facts.maxCapacity_spec", "RModel.Facts.bitmap_sizes",
            "RModel.Facts.invalidCardinality_spec", "RModel.Facts.maxUint_spec"]

L1_AGG = ["RModel.BSet.mem_unionL", "RModel.BSet.mem_interL", "RModel.BSet.mem_xorL", "RModel.BSet.mem_andAny",
          "RModel.BSet.canon_unionL", "RModel.BSet.canon_interL", "RModel.BSet.canon_xorL", "RModel.BSet.canon_andAny",
          "RModel.BSet.unionL_perm"]
AGG_OPS = {"fastor", "fastand", "heapor", "heapxor", "paror", "parand", "parheapor", "andany", "aggindep"}
PAR = ["RModel.Par.hinv_step", "RModel.Par.hvariant_decreases", "RModel.Par.hno_deadlock", "RModel.Par.hquiescent_at_close",
       "RModel.Par.hdelivered_complete", "RModel.Par.hinv_reach", "RModel.Par.hreach_bound", "RModel.Par.oinv_step",
       "RModel.Par.ovariant_decreases", "RModel.Par.ono_deadlock", "RModel.Par.oquiescent_at_close",
       "RModel.Facts.skeletonParHeapOr_pinned", "RModel.Facts.skeletonParAnd_pinned", "RModel.Facts.skeletonParOr_pinned",
       "RModel.Facts.skeletonAppender_pinned", "RModel.Facts.skeletonParOr64_pinned"]

L1_ALGEBRA = ["RModel.BSet.mem_combine", "RModel.BSet.canon_combine", "RModel.BSet.canon_ext",
              "RModel.BSet.mem_union", "RModel.BSet.mem_inter", "RModel.BSet.mem_xor", "RModel.BSet.mem_diff",
              "RModel.BSet.canon_union", "RModel.BSet.canon_inter", "RModel.BSet.canon_xor", "RModel.BSet.canon_diff"]
L1_MUT = ["RModel.BSet.mem_add", "RModel.BSet.mem_remove", "RModel.BSet.mem_addRange", "RModel.BSet.mem_removeRange",
          "RModel.BSet.mem_flipRange", "RModel.BSet.canon_range", "RModel.BSet.canon_single", "RModel.BSet.canon_ext"]
L1_QUERY = ["RModel.BSet.rankLt_succ", "RModel.BSet.rankLt_eq_count", "RModel.BSet.card_eq_rankLt", "RModel.BSet.select_spec",
            "RModel.BSet.select_none", "RModel.BSet.minimum_some", "RModel.BSet.minimum_none", "RModel.BSet.maximum_some",
            "RModel.BSet.maximum_none", "RModel.BSet.cardInRange_spec", "RModel.BSet.mem_toList", "RModel.BSet.toList_sorted",
            "RModel.BSet.toList_length", "RModel.BSet.isEmpty_iff", "RModel.BSet.canon_ext"]
L1_NBR = ["RModel.BSet.nextValue_some", "RModel.BSet.nextValue_none", "RModel.BSet.prevValue_some", "RModel.BSet.prevValue_none",
          "RModel.BSet.nextAbsent_spec", "RModel.BSet.prevAbsent_some", "RModel.BSet.prevAbsent_none"]
L2_CONT = ["RModel.Impl.toBSet_and2", "RModel.Impl.toBSet_or2", "RModel.Impl.toBSet_xor2", "RModel.Impl.toBSet_andNot2",
           "RModel.Impl.wf_and2", "RModel.Impl.wf_or2", "RModel.Impl.wf_xor2", "RModel.Impl.wf_andNot2", "RModel.Impl.mem_toBSet"]
L2_REP = ["RModel.Impl.mem_rep", "RModel.Impl.Rep.toBSet_and2", "RModel.Impl.Rep.toBSet_or2", "RModel.Impl.Rep.toBSet_xor2",
          "RModel.Impl.Rep.toBSet_andNot2", "RModel.Impl.Rep.wf_and2", "RModel.Impl.Rep.wf_or2", "RModel.Impl.Rep.wf_xor2",
          "RModel.Impl.Rep.wf_andNot2"]
L2_QUERY = ["RModel.Impl.containsQ_spec", "RModel.Impl.rankQ_spec", "RModel.Impl.selectQ_spec", "RModel.Impl.minimumQ_spec",
            "RModel.Impl.maximumQ_spec", "RModel.Impl.cardInRangeQ_spec", "RModel.Impl.getCardinalityQ_spec"]
L2_NBRQ = ["RModel.Impl.nextValueQ_spec", "RModel.Impl.previousValueQ_spec", "RModel.Impl.nextAbsentValueQ_spec",
           "RModel.Impl.previousAbsentValueQ_spec"]
L2_MUT = ["RModel.Impl.toBSet_iaddRM", "RModel.Impl.toBSet_iremoveRM", "RModel.Impl.toBSet_iadd", "RModel.Impl.toBSet_iremove",
          "RModel.Impl.iadd_bool_mem", "RModel.Impl.iremove_bool_mem", "RModel.Impl.toBSet_iaddRange",
          "RModel.Impl.toBSet_iremoveRange", "RModel.Impl.toBSet_notRange", "RModel.Impl.toBSet_inotRange"]
L2_MUT_WF = ["RModel.Impl.wf_iaddRM", "RModel.Impl.wf_iremoveRM", "RModel.Impl.wf_iaddRange", "RModel.Impl.wf_iremoveRange",
             "RModel.Impl.wf_notRange", "RModel.Impl.wf_inotRange", "RModel.Impl.wf_iand2", "RModel.Impl.wf_ior2",
             "RModel.Impl.wf_ixor2", "RModel.Impl.wf_iandNot2"]
L2_IBIN = ["RModel.Impl.toBSet_iand2", "RModel.Impl.toBSet_ior2", "RModel.Impl.toBSet_ixor2", "RModel.Impl.toBSet_iandNot2"]
L2_AGG = ["RModel.Impl.Rep.toBSet_fastOr", "RModel.Impl.Rep.wf_fastOr", "RModel.Impl.Rep.toBSet_fastAnd", "RModel.Impl.Rep.wf_fastAnd",
          "RModel.Impl.Rep.toBSet_andAny", "RModel.Impl.Rep.wf_andAny", "RModel.Impl.Rep.wf_repairAfterLazy",
          "RModel.Impl.Rep.toBSet_repairAfterLazy", "RModel.Impl.lazyOk_lazyIOR2", "RModel.Impl.lazyOk_lazyOR2"]
IT = "RModel.Impl.It."
L2_ITER = [IT + "IntIt.drain_create", IT + "IntIt.advanceIfNeeded_spec", IT + "IntIt.advance_from_cursor", IT + "IntIt.peek_eq_nextValue",
           IT + "IntRevIt.drain_create", IT + "ManyIt.nextManySeq_create", IT + "CIt.drain_ofCont"]
RP = "RModel.Impl.Rep."
L2_REPMUT = [RP + n for n in ["toBSet_add", "toBSet_remove", "toBSet_addRange", "toBSet_removeRange", "toBSet_flip", "toBSet_runOptimize",
                              "checkedAdd_snd", "checkedRemove_snd"]]
L2_REPIBIN = [RP + n for n in ["toBSet_iand", "toBSet_ior", "toBSet_ixor", "toBSet_iandNot", "shareTail_same"]]
L2_REPMUT_WF = [RP + n for n in ["wf_add", "wf_remove", "wf_addRange", "wf_removeRange", "wf_flip", "wf_iand", "wf_ior", "wf_ixor",
                                 "wf_iandNot", "wf_runOptimize"]]
L2_XFORM = [RP + n for n in ["toBSet_addOffset64", "wf_addOffset64", "toBSet_flipStatic", "wf_flipStatic", "testBit_toDense",
                             "length_toDense", "toBSet_fromDense", "wf_fromDense", "toBSet_fromDense_toDense"]]
R64 = "RModel.Impl.Rep64."
L2_R64 = ["RModel.Impl.mem_rep64"] + [R64 + n for n in ["toBSet_and2", "toBSet_or2", "toBSet_xor2", "toBSet_andNot2", "wf_and2", "wf_or2", "wf_xor2",
          "wf_andNot2", "toBSet_flip", "toBSet_sflip", "toBSet_addRange", "toBSet_removeRange", "toBSet_ixor",
          "toBSet_flip_viaStatic", "toBSet_addRange_viaStatic"]]
B32 = "RModel.BSI32."
L2_BSI32_UPD = [B32 + n for n in ["wf_new", "wf_setValue", "getValue_eq", "get_set_same", "get_set_other", "get_foldl_setValue",
                                  "get_clearValues", "get_retainSet", "wf_clearValues", "get_parOr", "get_addIndex", "get_increment"]]
L2_BSI32_Q = [B32 + n for n in ["compare_spec", "minMax_spec", "sum_spec", "batchEqual_spec", "getValue_eq"]]
L2_PAR = [RP + n for n in ["toBSet_parOr", "wf_parOr", "parOr_worker_independent", "toBSet_parHeapOr", "wf_parHeapOr",
                           "toBSet_parAnd", "wf_parAnd", "parHeapOr_worker_independent", "parAnd_worker_independent"]] + \
    ["RModel.Impl.ParData.chunk_partition"]
L1_XFORM = ["RModel.BSet.mem_shift", "RModel.BSet.canon_shift", "RModel.BSet.mem_flipRange", "RModel.BSet.canon_xor"]

PROPS = {
    "C01": {"suites": [("alg", 1.0), ("kern", 0.3), ("kernspecial", 1.0), ("kernthresh", 0.5), ("popcnt", 1.0), ("kernl2", 0.5), ("l2rep", 0.5), ("kernmutbin", 0.3), ("l2mut", 0.3)],
            "theorems": L1_ALGEBRA + F_THRESH + L2_CONT + L2_REP + L2_IBIN + L2_REPIBIN + PINS + FASTEQ,
            "modules": DEFAULT_MODULES + [FACTS, PINS_MOD, FASTEQ_MOD, "RProofs.ContOps", "RProofs.RepOps", "RProofs.ContMut", "RProofs.RepMut"],
            "owns": {"and", "or", "xor", "andnot", "iand", "ior", "ixor", "iandnot", "andcard", "orcard", "isect", "eq", "dig",
                     "kern", "popcnt", "l2op", "l2iop"}},
    "C02": {"suites": [("hist", 1.0), ("kernmut", 0.4), ("l2mut", 0.6)], "theorems": L1_MUT + L1_ALGEBRA[:3] + F_THRESH + L2_MUT + L2_REPMUT + PINS,
            "modules": DEFAULT_MODULES + [FACTS, PINS_MOD, "RProofs.ContMut", "RProofs.RepMut"],
            "owns": {"new", "add", "cadd", "addint", "addmany", "addmanyfrom", "rem", "crem", "addr", "remr", "flip", "clear", "opt", "clone",
                     "cowclone", "detach", "setcow", "dig", "card", "empty", "of", "kern", "l2mut"}},
    "C03": {"suites": [("query", 1.0), ("kernq", 0.3), ("eqpairs", 0.5), ("kernq2", 0.3)], "theorems": L1_QUERY + L2_QUERY,
            "modules": DEFAULT_MODULES + ["RProofs.ContQuery", "RProofs.ContQueryNumRuns"],
            "owns": {"card", "empty", "has", "min", "max", "rank", "sel", "cir", "iwi", "eq", "toarr", "toexarr", "chkeq", "dig", "kern", "mkrepr"}},
    "C04": {"suites": [("iter", 1.0), ("iterun", 1.0), ("l2iter", 0.6)], "modules": DEFAULT_MODULES + ["RProofs.Iter", "RProofs.IterAdv", "RProofs.IterRev", "RProofs.IterMany"],
            "theorems": L1_NBR[:4] + ["RModel.BSet.rankLt_eq_count", "RModel.BSet.card_eq_rankLt", "RModel.BSet.select_spec",
                                      "RModel.BSet.select_none", "RModel.BSet.mem_toList", "RModel.BSet.toList_sorted",
                                      "RModel.BSet.mem_inter", "RModel.BSet.mem_xor", "RModel.BSet.canon_ext"] + L2_ITER,
            "owns": {"it", "rit", "mit", "uit", "reinit", "hasnext", "next?", "next!", "peek?", "peek!", "adv", "advrel", "many",
                     "manyhs", "drain", "iterate", "values", "backward", "unset", "ranges", "l2it", "l2reinit"}},
    "C05": {"suites": [("ser", 1.0), ("thresh", 1.0), ("serall", 1.0)],
            "theorems": ["RModel.Impl.encode_length", "RModel.Impl.decode_encode", "RModel.Impl.prefix_rejected",
                         "RModel.Impl.decode_no_panic", "RModel.Impl.roundtrip_wf", "RModel.BSet.canon_ext"] + F_SERIAL,
            "modules": DEFAULT_MODULES + [FACTS, "RProofs.Properties.C05"],
            "owns": {"ser", "rd", "wrfail", "wrfailall", "rdsplit", "trunc", "wf", "dig", "add", "or", "mkrepr", "card", "addstride"}},
    "C06": {"suites": [("spec", 1.0)],
            "theorems": ["RModel.FormatSpec.encode_conforms", "RModel.FormatSpec.conformant_decodes", "RModel.BSet.canon_ext"] + F_SERIAL,
            "modules": DEFAULT_MODULES + [FACTS, "RProofs.Properties.C06"], "owns": {"spec", "ser", "card", "toarr"}},
    # C07 also rides on the aggregate suites, where it owns "the operands and the caller's slice are left alone": a line whose
    # result digest is right but whose operand digests / slice verdict differ (a wrong result is C11's)
    "C07": {"suites": [("alias", 1.0), ("agg", 0.5)], "modules": ["RProofs.Heap"],
            "owns_fn": lambda op, mm, suite: ("agg" not in suite) or (op in AGG_OPS | {"dig"} and
            mm.get("expected", "").split(" ")[:1] == mm.get("got", "").split(" ")[:1] and not mm.get("got", "").startswith("panic")),
            "theorems": ["RModel.Impl.safe_nil", "RModel.Impl.safe_iff", "RModel.Impl.safe_unflagged_private",
                         "RModel.Impl.safe_gate", "RModel.Impl.safe_cloneBitmap", "RModel.Impl.safe_appendCopy",
                         "RModel.Impl.safe_appendFresh", "RModel.Impl.safe_insertFresh", "RModel.Impl.safe_removeSlot",
                         "RModel.Impl.safe_detach", "RModel.Impl.safe_dropBitmap", "RModel.Impl.safe_setCow",
                         "RModel.Impl.gate_private", "RModel.Impl.gate_frame", "RModel.Impl.safe_run", "RModel.Impl.safe_reachable"],
            "owns": None},
    "C08": {"suites": [("zerocopy", 1.0)], "modules": ["RProofs.Heap"],
            "theorems": ["RModel.Impl.safe_unflagged_not_foreign", "RModel.Impl.safe_addZeroCopy", "RModel.Impl.gate_not_foreign",
                         "RModel.Impl.detach_no_foreign'", "RModel.Impl.safe_reachable", "RModel.Impl.hdrLocal_run"],
            "owns": None},
    "C09": {"suites": [("hist", 1.0), ("alg", 0.7), ("xform", 0.7), ("ser", 0.5), ("kernwf", 1.0), ("kernthresh", 1.0), ("thresh", 0.5), ("agg", 0.5), ("kernl2", 0.5), ("l2rep", 0.3), ("kernmut", 0.3), ("l2mut", 0.3), ("l2xform", 0.3), ("frozen", 0.3)],
            "theorems": ["RModel.Impl.wf_implies_validate", "RModel.Impl.validate_implies_wf_of_decoded", "RModel.BSet.canon_ext"] + F_THRESH + L2_CONT[4:8] + L2_REP[5:] + L2_MUT_WF + L2_REPMUT_WF + [L2_XFORM[1], L2_XFORM[3], L2_XFORM[7]] + PINS + FASTEQ,
            "modules": DEFAULT_MODULES + [FACTS, PINS_MOD, FASTEQ_MOD, "RProofs.Properties.C09", "RProofs.ContOps", "RProofs.RepOps", "RProofs.ContMut", "RProofs.RepMut", "RProofs.RepXform"],
            # a library-written stream read back must validate: `rd` lines whose Go side reports an invalid bitmap are C09's
            "owns_fn": lambda op, mm, suite: op in ("wf", "kernwf", "l2op", "l2mut", "l2iop", "l2off", "l2sflip", "l2fromdense") or (op in ("rd", "fview") and "invalid:" in mm.get("got", ""))
            or (op in AGG_OPS and "valid=no" in mm.get("got", "")),
            "owns": {"wf", "kernwf"}},
    "C10": {"suites": [("fuzzdec", 1.0), ("fuzzfrozen", 0.5)], "corpus": ["corpus/C10/frozen-bitmap4096.txt"],
            "theorems": ["RModel.Impl.decode_no_panic", "RModel.Impl.prefix_rejected", "RModel.Impl.decode_shape",
                         "RModel.Impl.decoded_valid_is_wf", "RModel.Impl.validate_implies_wf_of_decoded",
                         "RModel.Impl.frozenView_no_panic", "RModel.BSet.canon_ext"] + F_SERIAL,
            "modules": DEFAULT_MODULES + [FACTS, "RProofs.Properties.C09", "RProofs.Properties.C05", "RProofs.Properties.C13"], "owns": None},
    "C11": {"suites": [("agg", 1.0), ("kernspecial", 0.6), ("l2agg", 0.7), ("l2par", 0.5)], "theorems": L1_AGG + L1_ALGEBRA + L2_AGG + PINS + L2_PAR[:8],
            "modules": DEFAULT_MODULES + ["RProofs.Agg", "RProofs.LazyOps", PINS_MOD, "RProofs.ParData"], "owns": set(AGG_OPS) | {"kern", "l2agg", "l2lazy", "l2par"}},
    # C12: schedule independence / termination / no leak (sched), concurrent decoding through the pools (concdec); the
    # protocol theorems are about the transition systems of Impl/Par.lean, pinned to the source by the skeleton obligations
    "C12": {"suites": [("sched", 1.0), ("l2par", 0.5)], "theorems": PAR + L1_AGG[:3] + L2_PAR,
            "modules": DEFAULT_MODULES + ["RProofs.Agg", "RProofs.Par", "RProofs.Facts.Skeleton", "RProofs.ParData"], "owns": {"sched", "concdec", "concagg"},
            # everything a race-detector job reports is C12's (also on the goroutine-parallel paths of the bit-sliced indexes and
            # of the 64-bit bitmap, whose results are checked by C17/C19/C20); elsewhere C12 owns its own commands only
            "owns_fn": lambda op, mm, suite: suite.startswith("race:") or op in ("sched", "concdec", "concagg", "l2par"),
            "race_suites": [("sched", 1.0), ("bsi", 1.0), ("bsiq", 0.5), ("bsix", 0.3), ("r64", 0.5), ("agg", 0.5)],
            "race_quick": [("sched", 0.3), ("bsi", 0.4), ("bsiq", 0.3), ("r64", 0.3)]},
    "C13": {"suites": [("frozen", 1.0), ("frozenmis", 0.5), ("serall", 1.0)], "corpus": ["corpus/C10/frozen-bitmap4096.txt"],
            "theorems": ["RModel.Impl.freeze_length", "RModel.Impl.frozenView_freeze", "RModel.Impl.frozenView_no_panic",
                         "RModel.FrozenSpec.frozenSpec_freeze", "RModel.BSet.canon_ext", "RModel.Facts.frozenCookie_spec"],
            "modules": DEFAULT_MODULES + [FACTS, "RProofs.Properties.C13", "RProofs.Properties.C13Spec"],
            "owns": {"frz", "frzsmall", "frzwfail", "fview", "fdec", "fspec", "fchk", "fgc", "wf", "dig", "eq", "card", "toarr"}},
    "C14": {"suites": [("hist", 1.0), ("alg", 0.7), ("xform", 0.5), ("thresh", 0.5), ("sizeb", 1.0), ("agg", 0.5)],
            "theorems": ["RModel.Impl.readme_bound", "RModel.Impl.bound_function", "RModel.BSet.canon_ext"] + F_SERIAL,
            "modules": DEFAULT_MODULES + [FACTS, "RProofs.Properties.C14"], "owns": {"size"}},
    "C15": {"suites": [("nbr", 1.0), ("kernq", 0.3), ("kernq2", 0.3)], "theorems": L1_NBR + L2_NBRQ,
            "modules": DEFAULT_MODULES + ["RProofs.ContQuery"], "owns": {"nv", "pv", "nav", "pav", "kern"}},
    "C16": {"suites": [("xform", 1.0), ("dense", 1.0), ("zc_dense", 0.5), ("l2xform", 1.0)], "theorems": L1_XFORM + L2_XFORM,
            "modules": DEFAULT_MODULES + ["RProofs.RepXform"],
            "owns": {"off", "off32", "sflip", "eq", "dense", "fromdense", "frombitset", "densechk", "dig",
                     "zdense", "zfromdense", "safe", "digall", "zdetach", "zsame", "l2off", "l2sflip", "l2dense", "l2fromdense"}},
    "C17": {"suites": [("r64", 1.0), ("l2r64", 0.6)], "theorems": L1_ALGEBRA + L1_MUT[:5] + L1_QUERY[:9] + L1_NBR[:4] +
            ["RModel.Facts.r64Highbits_spec", "RModel.Facts.r64Lowbits_spec"] + L2_R64 + ["RModel.Impl.Rep64.toBSetFast_eq'"],
            "modules": DEFAULT_MODULES + ["RProofs.Facts.Bits", FASTEQ_MOD, "RProofs.Rep64", "RProofs.Rep64Range", "RProofs.Rep64InPlace", "RProofs.Rep64Witness"], "owns": None},
    "C18": {"suites": [("ser64", 1.0)], "theorems": ["RModel.BSet.canon_ext", "RModel.Facts.r64_cookies_spec",
                                                     "RModel.Impl.decode_encode", "RModel.Impl.prefix_rejected", "RModel.Impl.decode_no_panic"],
            "modules": DEFAULT_MODULES + [FACTS, "RProofs.Properties.C05"], "owns": None},
    "C19": {"suites": [("bsi", 1.0)], "corpus": ["corpus/bsi/F02_marshal_sign.txt", "corpus/bsi/F14_unmarshal_reused_receiver.txt"],
            "theorems": ["RModel.BSI.wf_new", "RModel.BSI.wf_setValue", "RModel.BSI.get_set_same", "RModel.BSI.get_set_other",
                         "RModel.BSI.exists_set", "RModel.BSI.get_foldl_setValue", "RModel.BSI.wf_foldl_setValue",
                         "RModel.BSI.get_clearValues", "RModel.BSI.get_retainSet", "RModel.BSI.get_setFixed_same",
                         "RModel.BSI.get_setFixed_other", "RModel.BSI.get_setFixed_wrap", "RModel.BSI.getValue_eq",
                         "RModel.Facts.bsi64ValueFitsBitCount_spec", "RModel.Facts.encodeBSI64Value_range",
                         "RModel.Facts.encodeBSI64Value_spec", "RModel.Facts.decode_encode_BSI64"] + L2_BSI32_UPD,
            "modules": ["RProofs.Facts.Bits", "RProofs.BSI", "RProofs.BSI32"], "owns": None},
    "C20": {"suites": [("bsiq", 1.0), ("bsix", 0.5)],
            "theorems": ["RModel.BSI.compare_spec", "RModel.BSI.compareLE_spec", "RModel.BSI.compareInt64LessAndEqual_spec",
                         "RModel.BSI.batchEqual1_spec", "RModel.BSI.compareInt64Value_isSome", "RModel.BSI.value_fits",
                         "RModel.BSI.sum_spec", "RModel.BSI.sumAll_spec", "RModel.BSI.minMax_spec", "RModel.BSI.minMaxCandidates_spec",
                         "RModel.Facts.transform_monotone", "RModel.Facts.encodeBSI64Value_spec", "RModel.Facts.decode_encode_BSI64"] + L2_BSI32_Q,
            "modules": ["RProofs.Facts.Bits", "RProofs.BSI", "RProofs.BSI32"], "owns": None},
}

HOOK_COMMITS = ["ad703f4", "ff7f62c", "c535057", "a3657c9"]
NOT_YET = {}
DEFAULT_LEVEL_TEXT = ("Theorems (Lean 4 kernel-checked, unbounded) give the meaning of every operation of the executable oracle in terms of "
                      "membership, and uniqueness of canonical forms; the real Go code is tied to that proved oracle by a correspondence "
                      "check on generated operation scripts (every step compared), with minimised replays.")
DEFAULT_LEVEL_NOTE = ("Proved: the listed theorems about the Lean model (axioms: propext, Classical.choice, Quot.sound). Sampled, not proved: "
                      "that the Go code behaves like the model (correspondence suites). Trusted: generator, harness, hooks, driver parser.")
