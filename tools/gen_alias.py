"""Suites for value semantics / container sharing (C07: `alias`) and zero-copy buffers (C08, C16: `zerocopy`).

Every step is followed by `safe` (the pointer graph of ALL live bitmaps, judged by the Lean `Safe` predicate) and `digall`
(the digest of EVERY live bitmap against its model state), so a forgotten flag is reported before any mutation makes it
visible and an interference is reported at the step where it happens.

Bitmaps are built with `mkrepr` (short lines, chosen container kinds).  Domain assumed: SetCopyOnWrite is never called on
a bitmap obtained from FromBuffer / FromUnsafeBytes / FrozenView (documented as unsafe); a caller buffer is only killed
after every bitmap that may still reference it was detached (CloneCopyOnWriteContainers) or dropped.
"""
from genlib import suite, CH, U32

# ------------------------------------------------------------------------------------------------ container shapes


def _arr(g):
    r = g.r
    if r.random() < 0.03:
        # a full-size array container (4096 values): one more value turns it into a bitmap container
        return "A:" + ",".join(map(str, range(r.randrange(2), 8192, 2)))
    n = r.choice([1, 2, 3, 5, 8, 20, 40])
    vals = sorted({g.lowval() for _ in range(n)})
    return "A:" + ",".join(map(str, vals))


def _bmp(g):
    r = g.r
    c = r.randrange(7)
    if c == 6:
        # 4097 values: one removal turns it into an array container
        return "B:4097:ffffffffffffffff*64.1.0*959"
    if c == 0:
        return "B:32768:%s*1024" % r.choice(["5555555555555555", "aaaaaaaaaaaaaaaa"])
    if c == 1:
        return "B:65536:ffffffffffffffff*1024"
    if c == 2:
        n = r.randrange(65, 1000)
        return "B:%d:ffffffffffffffff*%d.0*%d" % (64 * n, n, 1024 - n)
    if c == 3:
        k = r.randrange(129, 1024)
        return "B:%d:0*%d.5555555555555555*%d" % (32 * k, 1024 - k, k)
    if c == 4:
        w = r.getrandbits(64) | 0x8000000000000001
        pc = bin(w).count("1")
        k = max(4097 // pc + 1, r.randrange(100, 1024))
        k = min(k, 1024)
        if pc * k <= 4096:
            return "B:65536:ffffffffffffffff*1024"
        return "B:%d:%x*%d%s" % (pc * k, w, k, "" if k == 1024 else ".0*%d" % (1024 - k))
    # full minus one word
    i = r.randrange(1, 1023)
    return "B:%d:ffffffffffffffff*%d.0.ffffffffffffffff*%d" % (65536 - 64, i, 1023 - i)


def _run(g):
    r = g.r
    c = r.randrange(4)
    if c == 0:
        return "R:0+65535"
    if c == 1:
        s = r.choice([0, 1, 100, 30000])
        return "R:%d+%d" % (s, r.choice([10, 1000, 65535 - s]))
    nb = r.randrange(2, 5)
    pts = sorted(r.sample(range(0, CH, 16), 2 * nb))
    return "R:" + ",".join("%d+%d" % (pts[i], pts[i + 1] - pts[i] - 2) for i in range(0, 2 * nb, 2))


def _cont(g):
    k = g.r.choices(["A", "B", "R"], [5, 3, 4])[0]
    g.count("cont:" + k)
    return {"A": _arr, "B": _bmp, "R": _run}[k](g)


class A:
    """one episode: live names, their (approximate) key sets and buffer taints"""

    def __init__(self, g):
        self.g = g
        self.live = []          # names in creation order
        self.keys = {}          # name -> set of chunk keys it may have
        self.taint = {}         # name -> set of buffer names it may reference
        self.views = set()      # names created directly by a zero-copy entry point
        self.frozen = False

    # -------------------------------------------------------------------------------------------- bookkeeping
    def check(self):
        self.g.emit("safe")
        self.g.emit("digall")

    def define(self, y, keys, taint=()):
        if y not in self.live:
            self.live.append(y)
        self.keys[y] = set(keys)
        self.taint[y] = set(taint)
        self.views.discard(y)

    def drop(self, x):
        self.g.emit("drop %s" % x)
        self.live.remove(x)
        self.views.discard(x)

    def dropall(self):
        for x in list(self.live):
            self.drop(x)

    def allkeys(self):
        s = set()
        for x in self.live:
            s |= self.keys[x]
        return s or {0}

    def mk(self, x, keys, cow):
        g = self.g
        if keys:
            g.emit("mkrepr %s cow=%d;%s" % (x, cow, ";".join("%d:%s" % (k, _cont(g)) for k in sorted(keys))))
        else:
            g.emit("new %s" % x)
            g.emit("setcow %s %d" % (x, cow))
        self.define(x, keys)
        if keys and g.r.random() < 0.15:
            g.emit("opt %s" % x)

    def preflag(self, x):
        """make x carry flagged (shared) containers although its own switch may be off: x := clone of a cow bitmap"""
        g = self.g
        x0 = g.fresh("p")
        g.emit("setcow %s 1" % x)
        g.emit("clone %s %s" % (x0, x))
        self.define(x0, self.keys[x], self.taint[x])
        g.count("alias:preflag")

    # -------------------------------------------------------------------------------------------- values / ranges
    def val(self, x=None):
        g, r = self.g, self.g.r
        ks = self.keys.get(x) if x and r.random() < 0.7 else None
        ks = ks or self.allkeys()
        k = r.choice(sorted(ks))
        c = r.random()
        if c < 0.07 and k > 0:
            return k * CH - 1
        if c < 0.14 and k < 65535:
            return (k + 1) * CH
        return k * CH + g.lowval()

    def rng(self, x=None):
        r = self.g.r
        ks = sorted(self.keys.get(x) or self.allkeys())
        c = r.random()
        if c < 0.25:
            k = r.choice(ks)
            return k * CH, (k + 1) * CH
        if c < 0.45 and len(ks) >= 2:
            # strictly inside the key span: leaves containers before and after the range untouched
            i = r.randrange(len(ks))
            j = r.randrange(i, len(ks))
            return ks[i] * CH + r.choice([0, 0, 1, 777]), min(U32, (ks[j] + 1) * CH - r.choice([0, 0, 1, 555]))
        a = self.val(x)
        if c < 0.8:
            return a, min(U32, a + r.choice([1, 2, 64, 100, 4096, 5000, 65536, 70000, 200000]))
        b = self.val(x)
        return (a, b) if a <= b else (b, a)

    # -------------------------------------------------------------------------------------------- steps
    def mutate(self, x=None, allow_setcow=True):
        """one mutation of a live bitmap in a chunk that may be shared"""
        g, r = self.g, self.g.r
        x = x or r.choice(self.live)
        ops = ["add", "rem", "cadd", "crem", "addmany", "addr", "remr", "flip", "opt", "inplace", "detach", "setcow", "clear",
               "query", "rdfail"]
        w = [10, 10, 4, 4, 3, 6, 6, 6, 3, 10, 1.5, 3, 0.3, 5, 2.5]
        op = r.choices(ops, w)[0]
        if op == "setcow" and (not allow_setcow or x in self.views):
            op = "add"
        g.count("mut:" + op)
        if op == "rdfail":
            # a failed decode INTO a bitmap that shares containers with others, then continued use of that bitmap
            others = [n_ for n_ in self.live if n_ != x]
            if len(self.live) < 3 or not others or x in self.views:
                op = "add"
            else:
                src = r.choice(others)
                y = g.fresh("t")
                g.emit("%s %s %s" % (r.choice(["clone", "cowclone", "cowclone"]), y, x))
                self.define(y, self.keys[x], self.taint[x])
                vals = [self.val(x) for _ in range(3)]
                g.emit("rdfail %s %s %s %d %s" % (y, r.choice(["readfrom", "frombuffer", "fromunsafe", "unmarshal"]), src,
                                                r.choice([1, 5, 9, 11, 13, 17, 20, 30, 40, 100, 1000, 5000]), " ".join(map(str, vals))))
                self.live.remove(y)
                self.check()
                return
        if op in ("add", "rem", "cadd", "crem"):
            v = self.val(x)
            g.emit("%s %s %d" % (op, x, v))
            if op in ("add", "cadd"):
                self.keys[x].add(v // CH)
        elif op == "addmany" and r.random() < 0.5:
            # a batch whose first value is already present (the chunk's first member at or after v), the rest mostly new
            v = (self.val(x) // CH) * CH if r.random() < 0.7 else self.val(x)
            n = r.choice([1, 3, 10])
            g.emit("addmanyfrom %s %d %d %d" % (x, v, n, r.choice([1, 2, 3, 257, 4099, 6007])))
            self.keys[x] |= {k for k in range(v // CH, min(65536, v // CH + 2))} | self.keys[x]
            self.keys[x] |= set(k for k in self.allkeys() if k >= v // CH)
            g.count("mut:addmanyfrom")
        elif op == "addmany":
            vs = [self.val(x) for _ in range(r.choice([1, 2, 6]))]
            g.emit("addmany %s %s" % (x, " ".join(map(str, vs))))
            self.keys[x] |= {v // CH for v in vs}
        elif op in ("addr", "remr", "flip"):
            a, b = self.rng(x)
            if b - a > 40 * CH:
                b = a + 3 * CH
            g.emit("%s %s %d %d" % (op, x, a, b))
            if op != "remr" and b > a:
                self.keys[x] |= set(range(a // CH, (b - 1) // CH + 1))
        elif op == "opt":
            g.emit("opt %s" % x)
            self.check()            # content-neutral: sharing flags must still describe what is shared (also with caller memory)
            # … and the next edit lands in a chunk RunOptimize looked at
            v = self.val(x)
            g.emit("%s %s %d" % (g.r.choice(["add", "rem", "cadd", "crem"]), x, v))
            self.keys[x].add(v // CH)
            self.check()
        elif op == "detach":
            g.emit("detach %s" % x)
            self.taint[x] = set()
        elif op == "setcow":
            g.emit("setcow %s %d" % (x, r.randrange(2)))
        elif op == "clear":
            g.emit("clear %s" % x)
        elif op == "query":
            # operations documented as read-only: arguments (possibly shared / in caller memory) stay unchanged
            q = r.choice(self.live)
            a, b = self.rng(x)
            g.emit(r.choice(["card %s" % x, "empty %s" % x, "min %s" % x, "max %s" % x, "toarr %s" % x,
                             "rank %s %d" % (x, self.val(x)), "has %s %d" % (x, self.val(x)),
                             "sel %s %d" % (x, r.choice([0, 1, 5, 4096, 70000])),
                             "nv %s %d" % (x, self.val(x)), "pav %s %d" % (x, self.val(x)),
                             "cir %s %d %d" % (x, a, b), "iwi %s %d %d" % (x, a, b),
                             "eq %s %s" % (x, q), "andcard %s %s" % (x, q), "orcard %s %s" % (x, q), "isect %s %s" % (x, q),
                             "chkeq %s" % x]))
        else:
            q = r.choice(self.live)
            iop = r.choice(["iand", "ior", "ixor", "iandnot"])
            g.count("mut:" + iop)
            g.emit("%s %s %s" % (iop, x, q))
            if iop in ("ior", "ixor"):
                self.keys[x] |= self.keys[q]
                self.taint[x] |= self.taint[q]
        self.check()

    def derive(self):
        """create a bitmap from live ones through one of the constructors of the C07 statement"""
        g, r = self.g, self.g.r
        x = r.choice(self.live)
        y = g.fresh("d")
        ops = ["clone", "cowclone", "and", "or", "xor", "andnot", "sflip", "sflipempty", "offk", "off", "off32", "agg"]
        w = [6, 5, 4, 8, 8, 8, 8, 1, 4, 3, 1, 6]
        op = r.choices(ops, w)[0]
        if op == "cowclone" and x in self.views:
            op = "clone"
        g.count("derive:" + op)
        if op in ("clone", "cowclone"):
            g.emit("%s %s %s" % (op, y, x))
            self.define(y, self.keys[x], self.taint[x])
        elif op in ("and", "or", "xor", "andnot"):
            q = r.choice(self.live)
            g.emit("%s %s %s %s" % (op, y, x, q))
            self.define(y, self.keys[x] | self.keys[q], self.taint[x] | self.taint[q])
        elif op == "agg":
            # a many-way aggregate with x FIRST (the first pair is combined by other kernels than the rest) or somewhere else
            fn = r.choice(["fastor", "fastor", "heapor", "heapxor", "fastand", "paror 2", "parheapor 2", "parand 1"])
            others = [r.choice(self.live) for _ in range(r.choice([1, 1, 2, 3]))]
            names = [x] + others
            if r.random() < 0.3:
                r.shuffle(names)
            g.emit("%s %s" % (fn.replace(" ", " %s " % y) if " " in fn else "%s %s" % (fn, y), " ".join(names)))
            ks, tn = set(), set()
            for n_ in names:
                ks |= self.keys[n_]
                tn |= self.taint[n_]
            self.define(y, ks, tn)
            g.count("derive:" + fn.split()[0])
        elif op == "sflip":
            a, b = self.rng(x)
            if b - a > 40 * CH:
                b = a + 3 * CH
            g.emit("sflip %s %s %d %d" % (y, x, a, b))
            ks = set(self.keys[x])
            if b > a:
                ks |= set(range(a // CH, (b - 1) // CH + 1))
            self.define(y, ks, self.taint[x])
        elif op == "sflipempty":
            a = self.val(x)
            g.emit("sflip %s %s %d %d" % (y, x, a, a))
            self.define(y, self.keys[x], self.taint[x])
        elif op == "offk":
            d = r.choice([0, 1, 1, 2, -1, -1, 3, 65535, -65535]) * CH
            g.emit("off %s %s %d" % (y, x, d))
            self.define(y, {k + d // CH for k in self.keys[x] if 0 <= k + d // CH < 65536}, self.taint[x])
        elif op == "off":
            d = r.choice([1, -1, 63, 64, 1000, -1000, 65535, 65537, -65537, 32768])
            g.emit("off %s %s %d" % (y, x, d))
            ks = set()
            for k in self.keys[x]:
                for kk in ((k * CH + d) // CH, (k * CH + CH - 1 + d) // CH):
                    if 0 <= kk < 65536:
                        ks.add(kk)
            self.define(y, ks, self.taint[x])
        else:
            d = r.choice([0, CH, 2 * CH, 1, 65535])
            g.emit("off32 %s %s %d" % (y, x, d))
            ks = set()
            for k in self.keys[x]:
                for kk in ((k * CH + d) // CH, (k * CH + CH - 1 + d) // CH):
                    if 0 <= kk < 65536:
                        ks.add(kk)
            self.define(y, ks, self.taint[x])
        self.check()
        return y


# ------------------------------------------------------------------------------------------------ key layouts

LAYOUTS = ["aligned", "interleaved", "trail_a", "trail_b", "lead_a", "lead_b", "disjoint_ab", "disjoint_ba", "mixed", "empty_b"]


def layout_keys(g, layout):
    r = g.r
    base = r.choice([0, 0, 1, 7, 100, 65520])
    n = r.choice([1, 2, 2, 3, 4])
    if layout == "aligned":
        ka = kb = [base + i for i in range(n)]
    elif layout == "interleaved":
        n = max(n, 2)
        ka = [base + 2 * i for i in range(n)]
        kb = [base + 2 * i + 1 for i in range(n)]
        if r.random() < 0.5:
            ka, kb = kb, ka
        if r.random() < 0.5:
            kb = kb + ka[:1]          # one aligned key among interleaved ones
    elif layout in ("trail_a", "trail_b"):
        common = [base + i for i in range(n)]
        extra = [base + n + i for i in range(r.choice([1, 2, 3]))]
        ka, kb = (common + extra, common) if layout == "trail_a" else (common, common + extra)
    elif layout in ("lead_a", "lead_b"):
        lead = [base + i for i in range(r.choice([1, 2]))]
        common = [base + 2 + i for i in range(n)]
        ka, kb = (lead + common, common) if layout == "lead_a" else (common, lead + common)
    elif layout in ("disjoint_ab", "disjoint_ba"):
        lo = [base + i for i in range(n)]
        hi = [base + n + 1 + i for i in range(r.choice([1, 2]))]
        ka, kb = (lo, hi) if layout == "disjoint_ab" else (hi, lo)
    elif layout == "empty_b":
        ka, kb = [base + i for i in range(n)], []
        if r.random() < 0.5:
            ka, kb = kb, ka
    else:
        pool = [base + i for i in range(6)]
        ka = [k for k in pool if r.random() < 0.55] or pool[:1]
        kb = [k for k in pool if r.random() < 0.55] or pool[-1:]
    return sorted(set(ka)), sorted(set(kb))


BINOPS = ["and", "or", "xor", "andnot", "iand", "ior", "ixor", "iandnot"]


def grid_binary(g, p):
    """every binary operation x cow switch of both operands x key layout x operands that already carry flags"""
    r = g.r
    for op in BINOPS:
        for cowa in (0, 1):
            for cowb in (0, 1):
                for layout in LAYOUTS:
                    if r.random() >= p:
                        continue
                    ep = A(g)
                    ka, kb = layout_keys(g, layout)
                    a, b = g.fresh("a"), g.fresh("b")
                    ep.mk(a, ka, cowa)
                    ep.mk(b, kb, cowb)
                    pre = r.choice(["none", "none", "a", "b", "both"])
                    if pre in ("a", "both"):
                        ep.preflag(a)
                        g.emit("setcow %s %d" % (a, cowa))
                    if pre in ("b", "both"):
                        ep.preflag(b)
                        g.emit("setcow %s %d" % (b, cowb))
                    g.count("grid:%s:cow%d%d:%s" % (op, cowa, cowb, layout))
                    if op.startswith("i"):
                        g.emit("%s %s %s" % (op, a, b))
                        if op in ("ior", "ixor"):
                            ep.keys[a] |= ep.keys[b]
                        y = a
                    else:
                        y = g.fresh("y")
                        g.emit("%s %s %s %s" % (op, y, a, b))
                        ep.define(y, ep.keys[a] | ep.keys[b])
                    ep.check()
                    # mutate the participants in turn, result first
                    order = [y] + [n for n in ep.live if n != y]
                    r.shuffle(order)
                    for x in order[:3]:
                        ep.mutate(x)
                    ep.mutate()
                    ep.dropall()


def grid_unary(g, p):
    r = g.r
    ctors = ["clone", "cowclone", "clonechain", "sflipmid", "sflipempty", "sflipall", "offk", "off", "flipmid", "detach",
             "cowoff_clone", "remrmid", "opt"]
    for ctor in ctors:
        for cow in (0, 1):
            for pre in (0, 1):
                if r.random() >= p:
                    continue
                ep = A(g)
                base = r.choice([0, 1, 50, 65500])
                n = r.choice([2, 3, 4, 5])
                ks = [base + i for i in range(n)]
                if r.random() < 0.3:
                    ks = [base + 2 * i for i in range(n)]
                x = g.fresh("x")
                ep.mk(x, ks, cow)
                if pre:
                    ep.preflag(x)
                    g.emit("setcow %s %d" % (x, cow))
                g.count("gridu:%s:cow%d:pre%d" % (ctor, cow, pre))
                y = g.fresh("y")
                mid = ks[len(ks) // 2]
                if ctor == "clone":
                    g.emit("clone %s %s" % (y, x))
                    ep.define(y, ks)
                elif ctor == "cowclone":
                    g.emit("cowclone %s %s" % (y, x))
                    ep.define(y, ks)
                elif ctor == "clonechain":
                    z = g.fresh("z")
                    g.emit("%s %s %s" % (r.choice(["clone", "cowclone"]), y, x))
                    ep.define(y, ks)
                    g.emit("setcow %s %d" % (y, r.randrange(2)))
                    g.emit("clone %s %s" % (z, y))
                    ep.define(z, ks)
                elif ctor == "sflipmid":
                    g.emit("sflip %s %s %d %d" % (y, x, mid * CH + r.choice([0, 5]), (mid + 1) * CH - r.choice([0, 5])))
                    ep.define(y, ks)
                elif ctor == "sflipempty":
                    g.emit("sflip %s %s %d %d" % (y, x, mid * CH + 9, mid * CH + 9))
                    ep.define(y, ks)
                elif ctor == "sflipall":
                    g.emit("sflip %s %s %d %d" % (y, x, ks[0] * CH, (ks[-1] + 1) * CH))
                    ep.define(y, range(ks[0], ks[-1] + 1))
                elif ctor == "offk":
                    d = r.choice([0, 1, 2, -1]) if ks[0] > 0 else r.choice([0, 1, 2])
                    g.emit("off %s %s %d" % (y, x, d * CH))
                    ep.define(y, [k + d for k in ks])
                elif ctor == "off":
                    g.emit("off %s %s %d" % (y, x, r.choice([1, 100, 32768, 65535])))
                    ep.define(y, ks + [ks[-1] + 1])
                elif ctor == "flipmid":
                    g.emit("cowclone %s %s" % (y, x))
                    ep.define(y, ks)
                    g.emit("flip %s %d %d" % (y, mid * CH + 3, (mid + 1) * CH - 3))
                elif ctor == "remrmid":
                    g.emit("cowclone %s %s" % (y, x))
                    ep.define(y, ks)
                    g.emit("remr %s %d %d" % (y, ks[0] * CH + 100, ks[-1] * CH + 100))
                elif ctor == "detach":
                    g.emit("cowclone %s %s" % (y, x))
                    ep.define(y, ks)
                    g.emit("detach %s" % r.choice([x, y]))
                elif ctor == "cowoff_clone":
                    g.emit("cowclone %s %s" % (y, x))
                    ep.define(y, ks)
                    g.emit("setcow %s 0" % y)
                    z = g.fresh("z")
                    g.emit("clone %s %s" % (z, y))
                    ep.define(z, ks)
                elif ctor == "opt":
                    g.emit("cowclone %s %s" % (y, x))
                    ep.define(y, ks)
                    g.emit("opt %s" % r.choice([x, y]))
                ep.check()
                order = list(ep.live)
                r.shuffle(order)
                for n_ in order[:3]:
                    ep.mutate(n_)
                ep.mutate()
                ep.dropall()


def random_histories(g, nep, steps):
    r = g.r
    for _ in range(nep):
        ep = A(g)
        ka, kb = layout_keys(g, r.choice(LAYOUTS))
        for ks in (ka, kb):
            ep.mk(g.fresh("h"), ks, r.randrange(2))
        if r.random() < 0.4:
            ep.preflag(r.choice(ep.live))
        ep.check()
        for _ in range(steps):
            if len(ep.live) < 9 and r.random() < 0.4:
                ep.derive()
            else:
                ep.mutate()
        ep.dropall()


def shift_episodes(g, nep):
    """mixed flags + slot shifting: x (cow on, >= 4 chunks) is cloned, the clone un-shares ONE middle chunk (its flag becomes
    false while its neighbours stay true), then an operation removes / inserts a whole chunk BEFORE it so that keys,
    containers and flags must all shift together; `safe` looks at the pointer graph right after the shift"""
    r = g.r
    for _ in range(nep):
        ep = A(g)
        n = r.choice([4, 5, 6])
        base = r.choice([0, 1, 7, 65536 - n - 1, 65536 - n])
        keys = [base + i for i in range(n)]
        x = g.fresh("s")
        ep.mk(x, keys, 1)
        y = g.fresh("s")
        g.emit("clone %s %s" % (y, x))
        ep.define(y, keys)
        mid = r.choice(keys[1:-1])
        g.emit("add %s %d" % (y, mid * 65536 + r.choice([0, 5, 65535])))          # y owns chunk `mid` privately now
        ep.check()
        victim = r.choice([k for k in keys if k < mid])                              # a chunk before the private one
        lo, hi = victim * 65536, (victim + 1) * 65536
        how = r.choice(["iandnot", "iandnot_full", "iand", "ixor", "remr", "remr_multi", "flip", "insert"])
        g.count("alias:shift:" + how)
        z = g.fresh("s")
        if how in ("iandnot", "iandnot_full"):
            g.emit("new %s" % z)
            g.emit("addr %s %d %d" % (z, lo, hi))
            if how == "iandnot_full" and r.random() < 0.5:
                g.emit("opt %s" % z)
            ep.define(z, [victim])
            g.emit("iandnot %s %s" % (y, z))
        elif how == "iand":
            g.emit("new %s" % z)
            for k in keys:
                if k != victim:
                    g.emit("addr %s %d %d" % (z, k * 65536, (k + 1) * 65536))
            ep.define(z, [k for k in keys if k != victim])
            g.emit("iand %s %s" % (y, z))
        elif how == "ixor":
            g.emit("clone %s %s" % (z, x))
            ep.define(z, keys)
            g.emit("remr %s %d %d" % (z, hi, (keys[-1] + 1) * 65536))                  # z = chunks <= victim of x
            if victim > keys[0]:
                g.emit("remr %s %d %d" % (z, keys[0] * 65536, lo))
            g.emit("ixor %s %s" % (y, z))                                               # cancels chunk `victim` of y
        elif how == "remr":
            g.emit("remr %s %d %d" % (y, lo, hi))
        elif how == "remr_multi":
            g.emit("remr %s %d %d" % (y, keys[0] * 65536, mid * 65536))
        elif how == "flip":
            g.emit("of %s %d" % (z, lo + 3))
            ep.define(z, [victim])
            g.emit("iand %s %s" % (y, y))                                               # no-op, keeps flags
            g.emit("clone %s %s" % (z, y))
            ep.define(z, keys)
            g.emit("remr %s %d %d" % (z, lo, hi))
        else:   # insert a new chunk before the private one
            newk = base - 1 if base > 0 else keys[-1] + 1
            g.emit("add %s %d" % (y, newk * 65536 + 9))
        ep.check()
        # now write into every chunk of y and of x: any stale flag shows as interference
        for k in keys:
            g.emit("add %s %d" % (y, k * 65536 + r.choice([1, 77, 65534])))
        ep.check()
        for k in keys:
            g.emit("rem %s %d" % (x, k * 65536 + r.choice([2, 78, 65533])))
        ep.check()
        ep.dropall()


def spare_capacity_episodes(g):
    """operands whose internal slices have spare capacity because of their HISTORY (ascending range insertions into a run chunk,
    single insertions into an array chunk), united / intersected several times with operands lying beyond them: earlier results,
    the operand and its copy-on-write siblings are all looked at after every call"""
    r = g.r
    for kind in ("runs", "array"):
        k = r.choice([0, 7, 65535])
        base = k * CH
        a = g.fresh("ca")
        g.emit("new %s" % a)
        if kind == "runs":
            for j in range(r.choice([3, 5])):
                g.emit("addr %s %d %d" % (a, base + 1000 * j + 10, base + 1000 * j + 200))
        else:
            for j in range(r.choice([5, 17, 33])):
                g.emit("add %s %d" % (a, base + 7 * j))
        sib = g.fresh("ca")
        g.emit("cowclone %s %s" % (sib, a))
        zs = []
        for j in range(3):
            y, z = g.fresh("cb"), g.fresh("cz")
            g.emit("new %s" % y)
            if kind == "runs":
                for t in range(r.choice([1, 2, 3])):
                    g.emit("addr %s %d %d" % (y, base + 20000 + 5000 * j + 700 * t, base + 20000 + 5000 * j + 700 * t + 150 + j))
            else:
                g.emit("addmany %s %s" % (y, " ".join(str(base + 30000 + 100 * j + t) for t in range(r.choice([1, 3, 9])))))
            g.emit("or %s %s %s" % (z, a, y))
            zs.append(z)
            g.emit("orcard %s %s" % (a, y))
            g.emit("safe")
            g.emit("digall")
        g.emit("add %s %d" % (zs[0], base + 60000))
        g.emit("safe")
        g.emit("digall")
        for n_ in [a, sib] + zs:
            g.emit("drop %s" % n_)
        g.count("alias:spare-capacity")


def alias_fixed_episodes(g):
    """deterministic sharing episodes on ordinary bitmaps: both sides of a copy-on-write Clone receive bulk insertions whose FIRST value
    in a shared chunk is already present (then new ones), point edits, range edits and in-place operations, chunk kind by chunk kind"""
    conts = {"A": ("A:5,9,300,40000", 5), "R": ("R:100+50,1000+200", 100), "B": ("B:32768:5555555555555555*1024", 0)}
    for kind, (c, present) in conts.items():
        for side in ("clone", "source"):
            ep = A(g)
            x, y = g.fresh("af"), g.fresh("af")
            g.emit("mkrepr %s cow=1;5:%s;9:A:1,2,3" % (x, c))
            ep.define(x, [5, 9])
            g.emit("clone %s %s" % (y, x))
            ep.define(y, [5, 9])
            t = y if side == "clone" else x
            ep.check()
            g.emit("addmanyfrom %s %d %d %d" % (t, 5 * CH + present, 6, 3))     # first value present, the following ones new
            ep.check()
            g.emit("addmany %s %d %d %d" % (t, 9 * CH + 1, 9 * CH + 70, 9 * CH + 71))
            ep.check()
            g.emit("addr %s %d %d" % (t, 5 * CH + 60000, 5 * CH + 60010)); ep.check()
            g.emit("remr %s %d %d" % (t, 5 * CH + 100, 5 * CH + 130)); ep.check()
            g.emit("flip %s %d %d" % (t, 9 * CH, 9 * CH + 5)); ep.check()
            o = x if t == y else y
            g.emit("ior %s %s" % (t, o)); ep.check()
            g.emit("add %s %d" % (t, 5 * CH + 7)); g.emit("rem %s %d" % (t, 9 * CH + 2)); ep.check()
            g.count("alias:fixed-cow-clone-bulk:" + kind)
            ep.dropall()


def alias_self_operand_episodes(g):
    """deterministic: a bitmap combined WITH ITSELF by every new-result and in-place operation (C01 names this form), chunk kind by
    chunk kind and with the copy-on-write switch off and on; afterwards the operand is edited where it lies (point, bulk, range, in
    place), then the result is — each must leave the other as it was"""
    conts = "5:A:5,9,300,40000;7:R:100+50,1000+200;9:B:32768:5555555555555555*1024"
    for cow in (0, 1):
        for op in ("and", "or", "xor", "andnot", "iand", "ior"):
            ep = A(g)
            x = g.fresh("so")
            g.emit("mkrepr %s cow=%d;%s" % (x, cow, conts))
            ep.define(x, [5, 7, 9])
            w = g.fresh("so")
            g.emit("mkrepr %s cow=0;5:A:5,6,7;7:R:120+10;9:A:1,3" % w)
            ep.define(w, [5, 7, 9])
            if op.startswith("i"):
                keep = g.fresh("so")
                g.emit("clone %s %s" % (keep, x)); ep.define(keep, [5, 7, 9])
                g.emit("%s %s %s" % (op, x, x))
                y = keep
            else:
                y = g.fresh("so")
                g.emit("%s %s %s %s" % (op, y, x, x))
                ep.define(y, [5, 7, 9])
            ep.check()
            for t in (x, y):
                g.emit("add %s %d" % (t, 5 * CH + 6)); ep.check()
                g.emit("rem %s %d" % (t, 9 * CH + 2)); ep.check()
                g.emit("addr %s %d %d" % (t, 7 * CH + 150, 7 * CH + 160)); ep.check()
                g.emit("iandnot %s %s" % (t, w)); ep.check()
                g.emit("ior %s %s" % (t, w)); ep.check()
                g.emit("flip %s %d %d" % (t, 9 * CH, 9 * CH + 70)); ep.check()
            g.count("alias:fixed-self-operand:%s:cow%d" % (op, cow))
            ep.dropall()


@suite("alias")
def _alias(g, scale):
    alias_fixed_episodes(g)
    alias_self_operand_episodes(g)
    spare_capacity_episodes(g)
    grid_binary(g, min(1.0, 0.28 * scale))
    grid_unary(g, min(1.0, 0.5 * scale))
    random_histories(g, max(1, int(6 * scale)), 22)
    shift_episodes(g, max(2, int(16 * scale)))


@suite("alias_grid")
def _alias_grid(g, scale):
    """the full constructor x cow x layout grid (thorough tier)"""
    grid_binary(g, min(1.0, 0.6 * scale))
    grid_unary(g, 1.0)


# ------------------------------------------------------------------------------------------------ zero-copy


def zc_episode(g, kind, steps):
    """kind in frombuffer | fromunsafe | frozen | dense0 | dense1"""
    r = g.r
    ep = A(g)
    ep.frozen = kind == "frozen"
    # dense words cover [0, max]: keep those bitmaps in the low chunks
    base = r.choice([0, 1, 3]) if kind.startswith("dense") else r.choice([0, 1, 9, 65500])
    n = r.choice([1, 2, 3, 4, 5])
    ks = sorted(set(base + i * r.choice([1, 1, 2]) for i in range(n)))
    x = g.fresh("s")
    ep.mk(x, ks, r.randrange(2))
    m = g.fresh("m")
    g.count("zc:" + kind)
    views = []
    if kind in ("frombuffer", "fromunsafe", "frozen"):
        g.emit("%s %s %s" % ("zfrozen" if kind == "frozen" else "zbuf", m, x))
        for _ in range(r.choice([1, 1, 2])):
            v = g.fresh("v")
            entry = kind if kind == "frozen" else r.choice([kind, kind, "frombuffer", "fromunsafe"])
            if r.random() < 0.4:
                # the receiver was used before: an ordinary bitmap with at least as many chunks (its own, unshared containers),
                # possibly edited or cleared, is loaded again from the caller's buffer
                ep.mk(v, sorted(set(ks) | {k + 1 for k in ks if k < 65535} | {0}), r.randrange(2))
                if r.random() < 0.5:
                    ep.mutate(v)
                if r.random() < 0.3:
                    g.emit("clear %s" % v)
                g.count("zc:reused-receiver")
            g.emit("zrd %s %s %s" % (v, entry, m))
            ep.define(v, ks, [m])
            ep.views.add(v)
            views.append(v)
        if kind != "frozen" and r.random() < 0.4:
            # a copying decoder reading the same caller buffer must not keep any reference to it
            c = g.fresh("c")
            g.emit("zrd %s %s %s" % (c, r.choice(["readfrom", "must", "unmarshal", "base64"]), m))
            ep.define(c, ks)
    else:
        if r.random() < 0.25:
            g.emit("zdense %s %s" % (m, x))
        else:
            g.emit("zdense %s %s pad" % (m, x))
        v = g.fresh("v")
        g.emit("zfromdense %s %s copy=%s" % (v, m, kind[-1]))
        ep.define(v, ks, [m] if kind == "dense0" else [])
        ep.views.add(v)
        views.append(v)
    if views and len(ks) >= 2 and r.random() < 0.6:
        # a static Flip of the fresh view over its first chunks only: the chunks above the range are carried over from the view; the
        # result is then edited in exactly those chunks (and in the flipped ones)
        v = r.choice(views)
        d = g.fresh("d")
        cutk = r.choice(ks[1:])
        g.emit("sflip %s %s %d %d" % (d, v, ks[0] * CH + r.choice([0, 5, 1000]), cutk * CH - r.choice([0, 1, 70000 if cutk > ks[0] + 1 else 1])))
        ep.define(d, set(ks) | set(range(ks[0], cutk)), [m])
        ep.check()
        for k in [kk for kk in ks if kk >= cutk][:3] + [ks[0]]:
            g.emit("%s %s %d" % (r.choice(["add", "rem", "cadd", "crem"]), d, k * CH + g.lowval()))
            g.emit("flip %s %d %d" % (d, k * CH + 2000, k * CH + 2003))
            g.emit("zsame %s" % m)
        g.count("zc:sflip-first")
        ep.check()
    if views and r.random() < 0.5:
        # the view united with itself and with a bitmap derived from it (the very same borrowed container on both sides), then edits
        v = r.choice(views)
        d = g.fresh("d")
        g.emit("ior %s %s" % (v, v))
        g.emit("or %s %s %s" % (d, v, v))
        ep.define(d, ks, [m])
        g.emit("ior %s %s" % (d, v))
        g.emit("ior %s %s" % (v, d))
        ep.check()
        for k in r.sample(ks, min(len(ks), 2)):
            for w_ in (v, d):
                g.emit("%s %s %d" % (r.choice(["add", "rem", "cadd", "crem"]), w_, k * CH + g.lowval()))
            g.emit("zsame %s" % m)
        g.count("zc:self-union-first")
        ep.check()
    if views and r.random() < 0.5:
        # RunOptimize on the fresh view (content-neutral; chunks that keep their kind still borrow the caller's bytes), then edits
        # in every chunk and a detach: the buffer stays what it was, and after the detach nothing refers to it
        v = r.choice(views)
        g.emit("opt %s" % v)
        ep.check()
        for k in r.sample(ks, min(len(ks), 3)):
            g.emit("%s %s %d" % (r.choice(["add", "rem", "cadd", "crem"]), v, k * CH + g.lowval()))
            g.emit("flip %s %d %d" % (v, k * CH + 1000, k * CH + 1003))
            g.emit("zsame %s" % m)
        g.count("zc:opt-first")
        ep.check()
    if views and r.random() < 0.6:
        # straight away, while every chunk of the view still borrows the caller's bytes: a batch whose first value is present
        v = r.choice(views)
        for k in r.sample(ks, min(len(ks), 3)):
            g.emit("addmanyfrom %s %d %d %d" % (v, k * CH, r.choice([1, 3, 10]), r.choice([1, 2, 3, 257, 4099, 6007])))
            ep.keys[v] |= set(kk for kk in ep.allkeys() if kk >= k) | {min(65535, k + 1)}
            g.emit("zsame %s" % m)
        g.count("zc:addmanyfrom-first")
        ep.check()
    # an ordinary partner with overlapping keys
    o = g.fresh("o")
    ko = sorted(set(k + r.choice([0, 0, 0, 1]) for k in ks) | ({ks[-1] + 2} if r.random() < 0.5 and ks[-1] + 2 < 65536 else set()))
    ep.mk(o, ko, r.randrange(2))
    if r.random() < 0.3:
        ep.drop(x)
    ep.check()
    for _ in range(steps):
        c = r.random()
        v = r.choice(views)
        if c < 0.30:
            ep.mutate(v)                          # the view itself
        elif c < 0.45:
            # the view as receiver / as argument of an in-place operation
            iop = r.choice(["iand", "ior", "ixor", "iandnot"])
            others = [n_ for n_ in ep.live if n_ != v]
            q = r.choice(others)
            if r.random() < 0.5:
                p_, q_ = v, q
            else:
                p_, q_ = q, v
            g.count("zc:" + iop + (":recv" if p_ == v else ":arg"))
            g.emit("%s %s %s" % (iop, p_, q_))
            if iop in ("ior", "ixor"):
                ep.keys[p_] |= ep.keys[q_]
                ep.taint[p_] |= ep.taint[q_]
            ep.check()
        elif c < 0.70 and len(ep.live) < 9:
            ep.derive()
        else:
            ep.mutate()
        if ep.frozen and r.random() < 0.3:
            g.emit("gc")
            g.emit("digall")
    # detach everything that may still reference the buffer, or drop it; then destroy the buffer
    for n_ in list(ep.live):
        if m in ep.taint[n_] or n_ in views:
            if r.random() < 0.8 or len(ep.live) <= 2:
                g.emit("zdetach %s" % n_)
                ep.taint[n_] = set()
                ep.views.discard(n_)
            else:
                ep.drop(n_)
    g.emit("zsame %s" % m)
    g.emit("zkill %s%s" % (m, " keep" if r.random() < 0.3 else ""))
    g.emit("gc")
    ep.check()
    for _ in range(4):
        ep.mutate()
    ep.dropall()


def zc_fixed_episodes(g, kinds):
    """deterministic zero-copy episodes:
    (a) a view with several RUN chunks as the ARGUMENT of every in-place operation whose receiver holds small ARRAY (and other)
        chunks under the same keys, then edits of the receiver in those chunks;
    (b) one view OBJECT loaded again and again (no Clear in between) from different buffers with the same container kinds per slot,
        while bitmaps derived from the earlier loads (static or / xor / andnot / flip with disjoint partners, clones) stay alive"""
    runs = ["R:100+50,1000+200,9000+3", "R:0+10,500+1000,40000+9", "R:7+3,20000+100,65000+535"]
    arrs = ["A:120,1100,30000", "A:5,40003", "A:9,10,11,20050,65535"]
    for kind in kinds:
        zmk = "zfrozen" if kind == "frozen" else "zbuf"
        for iop in ("ixor", "ior", "iand", "iandnot"):
            ep = A(g)
            ep.frozen = kind == "frozen"
            x, m, v = g.fresh("s"), g.fresh("m"), g.fresh("v")
            ks = [1, 2, 3]
            g.emit("mkrepr %s cow=0;%s" % (x, ";".join("%d:%s" % (k, c) for k, c in zip(ks, runs))))
            ep.define(x, ks)
            g.emit("%s %s %s" % (zmk, m, x))
            g.emit("zrd %s %s %s" % (v, kind, m))
            ep.define(v, ks, [m]); ep.views.add(v)
            for cow in (0, 1):
                o = g.fresh("o")
                g.emit("mkrepr %s cow=%d;%s" % (o, cow, ";".join("%d:%s" % (k, c) for k, c in zip(ks, arrs))))
                ep.define(o, ks)
                g.emit("%s %s %s" % (iop, o, v))
                ep.taint[o] = {m}
                g.emit("zsame %s" % m)
                ep.check()
                for k in ks:
                    g.emit("rem %s %d" % (o, k * CH + 1001)); g.emit("add %s %d" % (o, k * CH + 1001)); g.emit("add %s %d" % (o, k * CH + 60000))
                    g.emit("zsame %s" % m)
                ep.check()
            g.count("zc:fixed-run-argument:" + iop)
            for n_ in list(ep.live):
                if n_ != x:
                    g.emit("zdetach %s" % n_)
            g.emit("zkill %s" % m)
            ep.check()
            ep.dropall()
        # (c) a view with several small ARRAY chunks as the FIRST operand of the many-way aggregates; the partner's chunks hold values
        #     above / below / among the view's; then edits of the result and of the partner
        for fn in ("fastor", "heapor", "heapxor", "paror 2", "parheapor 2", "fastand"):
            ep = A(g)
            ep.frozen = kind == "frozen"
            x, m, v = g.fresh("s"), g.fresh("m"), g.fresh("v")
            ks = [1, 2, 3, 4]
            g.emit("mkrepr %s cow=0;1:A:5,9,300;2:A:7,8;3:A:100,200,40000;4:A:1,2,3" % x)
            ep.define(x, ks)
            g.emit("%s %s %s" % (zmk, m, x))
            g.emit("zrd %s %s %s" % (v, kind, m))
            ep.define(v, ks, [m]); ep.views.add(v)
            o, e0 = g.fresh("o"), g.fresh("o")
            g.emit("mkrepr %s cow=0;1:A:400,500;2:A:1,2;3:A:150,50000;9:A:7" % o)
            ep.define(o, [1, 2, 3, 9])
            g.emit("new %s" % e0)
            ep.define(e0, [])
            for names in ([v, o], [v, o, e0], [o, v], [v, v, o]):
                d = g.fresh("d")
                g.emit("%s %s" % (fn.replace(" ", " %s " % d) if " " in fn else "%s %s" % (fn, d), " ".join(names)))
                ep.define(d, ks + [9], [m])
                g.emit("zsame %s" % m)
                ep.check()
                for k in (1, 2, 3):
                    g.emit("add %s %d" % (d, k * CH + 60000)); g.emit("rem %s %d" % (d, k * CH + 7)); g.emit("rem %s %d" % (d, k * CH + 5))
                g.emit("zsame %s" % m)
                ep.check()
            g.count("zc:fixed-view-first-in-aggregate:" + fn.split()[0])
            for n_ in list(ep.live):
                if ep.taint[n_]:
                    g.emit("zdetach %s" % n_)
            g.emit("zkill %s" % m)
            ep.check()
            ep.dropall()
        # (d) a view whose image holds a completely FULL chunk stored as a bitmap container (count field 65535), next to others:
        #     cardinalities, ranks, selects, derived bitmaps, edits
        ep = A(g)
        ep.frozen = kind == "frozen"
        x, m, v = g.fresh("s"), g.fresh("m"), g.fresh("v")
        ks = [2, 3, 4]
        g.emit("mkrepr %s cow=0;2:A:1,2;3:B:65536:ffffffffffffffff*1024;4:B:65535:fffffffffffffffe.ffffffffffffffff*1023" % x)
        ep.define(x, ks)
        g.emit("%s %s %s" % (zmk, m, x))
        g.emit("zrd %s %s %s" % (v, kind, m))
        ep.define(v, ks, [m]); ep.views.add(v)
        for q in ("card %s" % v, "rank %s %d" % (v, 3 * CH + 70000), "sel %s 65537" % v, "sel %s 131072" % v, "toarr %s" % v, "wf %s" % v):
            g.emit(q)
        d = g.fresh("d")
        g.emit("or %s %s %s" % (d, v, x)); ep.define(d, ks, [m])
        g.emit("card %s" % d)
        g.emit("rem %s %d" % (v, 3 * CH + 5)); g.emit("card %s" % v); g.emit("rem %s %d" % (v, 3 * CH + 6)); g.emit("card %s" % v)
        g.emit("zsame %s" % m)
        ep.check()
        g.count("zc:fixed-full-bitmap-chunk")
        for n_ in list(ep.live):
            if ep.taint[n_]:
                g.emit("zdetach %s" % n_)
        g.emit("zkill %s" % m)
        ep.check()
        ep.dropall()
        # (e) a view over eight chunks; a range removal (and an in-place difference) that trims its first and last chunk and drops 1, 2
        #     or 3 whole chunks in between — the bookkeeping arrays slide down —, then an edit of EVERY surviving chunk where it lies
        for dropped in (1, 2, 3):
            for how in ("remr", "iandnot", "flip"):
                for cont in ("A:5,9,300,40000", "B:32768:5555555555555555*1024", "R:100+50,1000+200"):
                    ep = A(g)
                    ep.frozen = kind == "frozen"
                    x, m, v = g.fresh("s"), g.fresh("m"), g.fresh("v")
                    ks = list(range(3, 11))
                    g.emit("mkrepr %s cow=0;%s" % (x, ";".join("%d:%s" % (k, cont) for k in ks)))
                    ep.define(x, ks)
                    g.emit("%s %s %s" % (zmk, m, x))
                    g.emit("zrd %s %s %s" % (v, kind, m))
                    ep.define(v, ks, [m]); ep.views.add(v)
                    a, b = 4 * CH + 200, (5 + dropped) * CH + 1100
                    if how == "remr":
                        g.emit("remr %s %d %d" % (v, a, b))
                    elif how == "flip":
                        o = g.fresh("o")
                        g.emit("new %s" % o); g.emit("addr %s %d %d" % (o, 5 * CH, (5 + dropped) * CH)); ep.define(o, ks)
                        g.emit("ixor %s %s" % (v, o))          # cancels nothing, fills: then the removal below drops the filled chunks
                        g.emit("remr %s %d %d" % (v, a, b))
                    else:
                        o = g.fresh("o")
                        g.emit("new %s" % o); g.emit("addr %s %d %d" % (o, a, b)); ep.define(o, ks)
                        g.emit("iandnot %s %s" % (v, o))
                    g.emit("zsame %s" % m); ep.check()
                    for k in ks:
                        g.emit("rem %s %d" % (v, k * CH + 300)); g.emit("add %s %d" % (v, k * CH + 301)); g.emit("rem %s %d" % (v, k * CH + 1001))
                        g.emit("addr %s %d %d" % (v, k * CH + 149, k * CH + 152))
                        g.emit("zsame %s" % m)
                    ep.check()
                    g.emit("zdetach %s" % v)
                    g.emit("zkill %s" % m)
                    ep.check()
                    ep.dropall()
            g.count("zc:fixed-range-removal-slides-tail")
        if kind == "frozen":
            continue
        # (b)
        ep = A(g)
        ks = [4, 5, 6]
        recs = []
        for j in range(3):
            x, m = g.fresh("s"), g.fresh("m")
            conts = ["A:%d,%d,%d" % (10 + j, 200 + j, 5000 * (j + 1)), "R:%d+%d,30000+%d" % (100 * (j + 1), 50 + j, 10 + j),
                     "B:32768:%s*1024" % ("5555555555555555" if j % 2 == 0 else "aaaaaaaaaaaaaaaa")]
            g.emit("mkrepr %s cow=0;%s" % (x, ";".join("%d:%s" % (k, c) for k, c in zip(ks, conts))))
            ep.define(x, ks)
            g.emit("zbuf %s %s" % (m, x))
            recs.append(m)
        e = g.fresh("o")
        g.emit("mkrepr %s cow=0;9:A:1,2,3" % e)
        ep.define(e, [9])
        v = g.fresh("v")
        for j, m in enumerate(recs):
            g.emit("zrd %s %s %s" % (v, kind, m))
            ep.define(v, ks, [m]); ep.views.add(v)
            ep.check()
            for op in ("or", "xor", "andnot"):
                d = g.fresh("d")
                g.emit("%s %s %s %s" % (op, d, v, e))
                ep.define(d, ks + [9], [m])
            d = g.fresh("d")
            g.emit("sflip %s %s %d %d" % (d, v, 0, 3 * CH))
            ep.define(d, [0, 1, 2] + ks, [m])
            d = g.fresh("d")
            g.emit("clone %s %s" % (d, v))
            ep.define(d, ks, [m])
            ep.check()
            g.count("zc:fixed-reloaded-view")
        ep.check()
        for n_ in list(ep.live):
            if ep.taint[n_]:
                g.emit("zdetach %s" % n_)
        for m in recs:
            g.emit("zkill %s" % m)
        ep.check()
        ep.dropall()


def zc_run(g, kinds, nep, steps):
    for kind in kinds:
        for _ in range(nep):
            zc_episode(g, kind, steps)


def zc_shift_episodes(g, nep):
    """zero-copy receiver + slot shifting: an in-place operation empties an EARLIER chunk of a view, the later chunks (still
    aliasing the caller's buffer) slide down; then every chunk of the view is written to"""
    r = g.r
    for _ in range(nep):
        ep = A(g)
        n = r.choice([3, 4, 5])
        base = r.choice([0, 1, 9, 65500])
        ks = [base + i for i in range(n)]
        x = g.fresh("s")
        ep.mk(x, ks, r.randrange(2))
        m = g.fresh("m")
        kind = r.choice(["frombuffer", "fromunsafe", "frozen"])
        ep.frozen = kind == "frozen"
        g.emit("%s %s %s" % ("zfrozen" if kind == "frozen" else "zbuf", m, x))
        v = g.fresh("v")
        g.emit("zrd %s %s %s" % (v, kind, m))
        ep.define(v, ks, [m])
        ep.views.add(v)
        victim = r.choice(ks[:-1])
        lo, hi = victim * 65536, (victim + 1) * 65536
        w = g.fresh("s")
        how = r.choice(["iandnot", "iandnot", "iand", "remr", "ixor"])
        g.count("zc:shift:" + how)
        if how == "iandnot":
            g.emit("new %s" % w)
            g.emit("addr %s %d %d" % (w, lo, hi))
            ep.define(w, [victim])
            g.emit("iandnot %s %s" % (v, w))
        elif how == "iand":
            g.emit("new %s" % w)
            for k in ks:
                if k != victim:
                    g.emit("addr %s %d %d" % (w, k * 65536, (k + 1) * 65536))
            ep.define(w, [k for k in ks if k != victim])
            g.emit("iand %s %s" % (v, w))
        elif how == "remr":
            g.emit("remr %s %d %d" % (v, lo, hi))
        else:
            g.emit("clone %s %s" % (w, x))
            ep.define(w, ks)
            g.emit("remr %s %d %d" % (w, hi, (ks[-1] + 1) * 65536))
            if victim > ks[0]:
                g.emit("remr %s %d %d" % (w, ks[0] * 65536, lo))
            g.emit("ixor %s %s" % (v, w))
        ep.check()
        for k in ks:
            g.emit("%s %s %d" % (r.choice(["add", "rem", "rem"]), v, k * 65536 + r.choice([0, 1, 77, 65535])))
        g.emit("remr %s %d %d" % (v, ks[-1] * 65536 + 5, ks[-1] * 65536 + 500))
        ep.check()
        g.emit("zsame %s" % m)
        ep.dropall()


@suite("zerocopy")
def _zerocopy(g, scale):
    n = max(1, int(5 * scale))
    # frozen views last: mutating one trips known defects and may take the process down
    zc_fixed_episodes(g, ["frombuffer", "fromunsafe", "frozen"])
    zc_run(g, ["frombuffer", "fromunsafe", "dense0", "dense1"], n, 16)
    zc_run(g, ["frozen"], n, 16)
    zc_shift_episodes(g, max(2, int(10 * scale)))


@suite("zc_portable")
def _zc_portable(g, scale):
    zc_run(g, ["frombuffer", "fromunsafe"], max(1, int(8 * scale)), 16)


@suite("zc_dense")
def _zc_dense(g, scale):
    zc_run(g, ["dense0", "dense1"], max(1, int(8 * scale)), 16)


@suite("zc_frozen")
def _zc_frozen(g, scale):
    zc_run(g, ["frozen"], max(1, int(10 * scale)), 16)


@suite("zc_frozen_ro")
def _zc_frozen_ro(g, scale):
    """frozen views that are never mutated themselves: only used as arguments and as sources of derived bitmaps"""
    r = g.r
    for _ in range(max(1, int(10 * scale))):
        ep = A(g)
        base = r.choice([0, 1, 9, 65500])
        ks = sorted(set(base + i for i in range(r.choice([1, 2, 3, 4]))))
        x = g.fresh("s")
        ep.mk(x, ks, r.randrange(2))
        m = g.fresh("m")
        g.emit("zfrozen %s %s" % (m, x))
        v = g.fresh("v")
        g.emit("zrd %s frozen %s" % (v, m))
        ep.define(v, ks, [m])
        ep.views.add(v)
        o = g.fresh("o")
        ep.mk(o, sorted(set(k + r.choice([0, 0, 1]) for k in ks)), r.randrange(2))
        ep.check()
        for _ in range(14):
            others = [n_ for n_ in ep.live if n_ != v]
            c = r.random()
            if c < 0.3:
                g.emit("%s %s %s" % (r.choice(["iand", "ior", "ixor", "iandnot"]), r.choice(others), v))
                for n_ in others:
                    ep.keys[n_] |= set(ks)
                    ep.taint[n_].add(m)
                ep.check()
            elif c < 0.6 and len(ep.live) < 9:
                ep.derive()
            else:
                ep.mutate(r.choice(others))
            if r.random() < 0.3:
                g.emit("gc")
                g.emit("digall")
        for n_ in list(ep.live):
            if n_ == v:
                ep.drop(v)
            else:
                g.emit("zdetach %s" % n_)
        g.emit("zsame %s" % m)
        g.emit("zkill %s" % m)
        g.emit("gc")
        ep.check()
        for _ in range(3):
            ep.mutate()
        ep.dropall()


# ------------------------------------------------------------------------------------------------ FromBitSet


def bitset_episode(g, caller_mutates, steps):
    r = g.r
    ep = A(g)
    base = r.choice([0, 1, 3])
    ks = sorted(set(base + i * r.choice([1, 1, 2]) for i in range(r.choice([1, 2, 3, 4]))))
    x = g.fresh("s")
    ep.mk(x, ks, r.randrange(2))
    m = g.fresh("t")
    g.emit("zbitset %s %s" % (m, x))
    y = g.fresh("v")
    g.emit("zfrombitset %s %s" % (y, m))
    ep.define(y, ks, [m])
    ep.views.add(y)
    nbits = (max(ks) + 1) * CH
    ep.check()
    for _ in range(steps):
        c = r.random()
        if caller_mutates and c < 0.3:
            # the caller goes on using HIS BitSet: bitmaps made from it earlier must not change
            k = r.choice(ks)
            v = min(nbits - 1, k * CH + g.lowval())
            g.emit("%s %s %d" % (r.choice(["bsset", "bsclr"]), m, v))
            g.count("bitset:caller-mutation")
            ep.check()
        elif c < 0.55:
            ep.mutate(y)
        elif c < 0.75 and len(ep.live) < 8:
            ep.derive()
        else:
            ep.mutate()
        g.emit("bsdig %s" % m)
    g.emit("zsame %s" % m)
    for n_ in list(ep.live):
        if m in ep.taint[n_] or n_ == y:
            g.emit("zdetach %s" % n_)
            ep.views.discard(n_)
    g.emit("zkill %s" % m)
    ep.check()
    ep.mutate()
    ep.dropall()


@suite("bitset_ro")
def _bitset_ro(g, scale):
    """FromBitSet: the bitmap (and everything derived from it) never writes into the caller's BitSet"""
    for _ in range(max(1, int(8 * scale))):
        bitset_episode(g, False, 14)


@suite("bitset")
def _bitset(g, scale):
    """FromBitSet as a value: later changes of the caller's BitSet must not show in bitmaps built from it"""
    for _ in range(max(1, int(8 * scale))):
        bitset_episode(g, True, 14)
