#!/usr/bin/env python3
"""Count the `l2agg` / `l2lazy` lines on which the exact-representation check of the aggregate model (LazyOps) applies.
usage: l2agg_count.py script.txt go.out [more pairs ...]
 -> per function and operand count: lines, exact-check lines (every operand Rep.wf), plus what the lazy path met:
    kinds of the containers in the results, full bitmap containers in results, `changed:` statuses, l2lazy pairings."""
import sys
from collections import Counter
from contops_count import parse, wf
from l2rep_count import parse_rep, rep_wf


def main():
    cnt = Counter()
    args = sys.argv[1:]
    for si in range(0, len(args), 2):
        lines = open(args[si]).read().splitlines()
        outs = open(args[si + 1]).read().splitlines()
        for ln, o in zip(lines, outs):
            t = [x for x in ln.split(" ") if x]
            if not t:
                continue
            if t[0] == "l2lazy" and len(t) == 4:
                if o.startswith("skip") or o.startswith("panic"):
                    cnt[("l2lazy", t[1], "skip/panic")] += 1
                    continue
                c1, c2 = parse(t[2]), parse(t[3])
                dom = c2 is not None and wf(c2) and c1 is not None and (wf(c1) or (t[2][0] == "B" and t[1] in ("lazyIOR", "ior")))
                cnt[("l2lazy", t[1], t[2][0] + t[3][0], "exact" if dom else "set-only")] += 1
                continue
            if t[0] != "l2agg" or len(t) < 3:
                continue
            fn = t[1]
            if o.startswith("skip") or o.startswith("panic"):
                cnt[("l2agg", fn, "skip/panic")] += 1
                continue
            n = len(t) - 3      # operands of fastor/fastand; arguments of andany
            groups = o.split(" | ")
            if len(groups) != 3:
                if o.startswith("| "):
                    groups = ["", o[2:].split(" | ")[0], o.split(" | ")[-1]]
                else:
                    cnt[("l2agg", fn, "unparsable")] += 1
                    continue
            ops = [parse_rep(x) for x in groups[0].split(" ") if x]
            rz = parse_rep(groups[1])
            cnt[("l2agg", fn, n, "lines")] += 1
            if all(r is not None and rep_wf(r) for r in ops):
                cnt[("l2agg", fn, n, "exact")] += 1
            if not groups[2].startswith("ok"):
                cnt[("l2agg", fn, "status", groups[2].split(" ")[0])] += 1
            if rz is not None:
                for _, c, f in rz[1]:
                    cnt[("result-container", fn, c[0])] += 1
                    if c[0] == "B" and c[1][0] == 65536:
                        cnt[("result-container", fn, "full bitmap (card 65536)")] += 1
                    if f:
                        cnt[("result-container", fn, "flagged (shared)")] += 1
    for k in sorted(cnt, key=str):
        print(" ".join(str(x) for x in k), cnt[k])


if __name__ == "__main__":
    main()
