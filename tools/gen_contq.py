"""kernq2: the container-level QUERY kernels only (rank/select/contains/cardinality-in-range/min/max/neighbour searches/
numberOfRuns) on boundary shapes, every receiver kind that can legally hold the set (array: 1..4096 values, bitmap: > 4096
values, run: always a valid interval list; storage-minimal or not), arguments at 0, 65535, word boundaries, just before /
inside / just after every run.  Domain: value arguments in [0, 65535]; getCardinalityInRange(start, end) with
0 <= start, end <= 65536 (start >= end is legal and gives 0); selectInt(i) with i < cardinality."""
from genlib import suite, CH
from gen_kern import rand_set, card, render


def norm(ivs):
    out = []
    for a, b in sorted(ivs):
        if a > b:
            continue
        if out and out[-1][1] + 1 >= a:
            out[-1] = (out[-1][0], max(out[-1][1], b))
        else:
            out.append((a, b))
    return out


def of_vals(vals):
    return norm([(v, v) for v in vals])


def shapes(g):
    """boundary-heavy subsets of [0,65536) as sorted inclusive interval lists"""
    r = g.r
    sh = r.choice(["rand", "rand", "full", "fullminus", "fullminus2", "single", "pair", "smallarr", "consec", "consecgaps",
                   "words", "wordedge", "halfwords", "prefix", "suffix", "bigruns", "thresh", "ends", "comb", "denserand",
                   "holes"])
    g.count("q2shape:" + sh)
    if sh == "rand":
        return rand_set(g)
    if sh == "full":
        return [(0, CH - 1)]
    if sh == "fullminus":
        v = r.choice([0, 1, 63, 64, 65, 4095, 4096, 32767, 32768, 65471, 65472, 65534, 65535, r.randrange(CH)])
        return norm([(0, v - 1), (v + 1, CH - 1)])
    if sh == "fullminus2":
        v = r.choice([0, 63, 64, 65534, r.randrange(CH - 2)])
        w = r.choice([v + 1, v + 2, 65535, r.randrange(CH)])
        return norm([(0, min(v, w) - 1), (min(v, w) + 1, max(v, w) - 1), (max(v, w) + 1, CH - 1)])
    if sh == "single":
        return [(v, v) for v in [r.choice([0, 1, 63, 64, 65, 127, 128, 4095, 4096, 65471, 65472, 65534, 65535, r.randrange(CH)])]]
    if sh == "pair":
        a = r.choice([0, 1, 63, 64, 65534, r.randrange(CH - 1)])
        b = r.choice([a + 1, a + 2, 65535, r.randrange(a + 1, CH)])
        return of_vals({a, min(b, CH - 1)})
    if sh == "smallarr":
        # around the binarySearch linear/bisection switch (low+16 <= high) and tiny arrays
        n = r.choice([1, 2, 3, 4, 15, 16, 17, 18, 31, 32, 33, 34, 35, 63, 64, 65, 100])
        mode = r.random()
        if mode < 0.4:
            vals = set(r.sample(range(CH), n))
        elif mode < 0.7:
            base = r.choice([0, 1, CH - 3 * n - 1, r.randrange(CH - 3 * n)])
            vals = {base + i * r.choice([1, 1, 2, 3]) for i in range(n)}
        else:
            vals = set(r.sample(range(CH - 200, CH), min(n, 200))) | {r.choice([0, CH - 1])}
        return of_vals(vals)
    if sh == "consec":
        # long consecutive stretches inside an array container: the pigeon-hole bisection of next/previousAbsentValue
        n = r.choice([2, 3, 16, 17, 100, 1000, 4095, 4096])
        base = r.choice([0, 1, CH - n, CH - n - 1, r.randrange(CH - n)])
        return [(base, base + n - 1)]
    if sh == "consecgaps":
        out = []
        pos = r.choice([0, 1, 2, r.randrange(1000)])
        budget = r.choice([50, 500, 4096, 4096, 9000])
        while budget > 0 and pos < CH - 1:
            ln = min(r.choice([1, 1, 2, 3, 10, 60, 64, 65, 500]), budget, CH - pos)
            out.append((pos, pos + ln - 1))
            budget -= ln
            pos += ln + r.choice([1, 1, 1, 2, 3, 64, 1000])
        if r.random() < 0.3:
            out.append((CH - r.choice([1, 2, 64, 65]), CH - 1))
        return norm(out)
    if sh == "words":
        # whole words set / clear in a pattern: runs starting and ending exactly at word boundaries
        step = r.choice([2, 2, 3, 5])
        off = r.randrange(step)
        return norm([(64 * i, 64 * i + 63) for i in range(1024) if i % step == off])
    if sh == "wordedge":
        # runs straddling or touching word boundaries
        out = []
        for i in range(0, 1024, r.choice([1, 2, 3, 7])):
            c = r.random()
            b = 64 * i
            if c < 0.25:
                out.append((b + 63, b + 64))
            elif c < 0.5:
                out.append((b, b))
            elif c < 0.75:
                out.append((b + 63, b + 63))
            else:
                out.append((b + 62, b + 65))
        return norm([(a, min(b, CH - 1)) for a, b in out])
    if sh == "halfwords":
        out = []
        for i in range(1024):
            c = r.random()
            if c < 0.3:
                out.append((64 * i, 64 * i + 31))
            elif c < 0.6:
                out.append((64 * i + 32, 64 * i + 63))
            elif c < 0.7:
                out.append((64 * i + 8, 64 * i + 15))
        return norm(out)
    if sh == "prefix":
        return [(0, r.choice([0, 1, 62, 63, 64, 4094, 4095, 4096, 4097, 30000, 65533, 65534]))]
    if sh == "suffix":
        return [(r.choice([65535, 65534, 65472, 65471, 61440, 61439, 30000, 2, 1]), CH - 1)]
    if sh == "bigruns":
        k = r.choice([1, 2, 3, 5])
        pts = sorted(r.sample(range(CH + 1), 2 * k))
        out = [(pts[i], pts[i + 1] - 1) for i in range(0, 2 * k, 2)]
        if r.random() < 0.4:
            out.append((0, r.choice([0, 5, 63])))
        if r.random() < 0.4:
            out.append((CH - r.choice([1, 6, 64]), CH - 1))
        return norm(out)
    if sh == "thresh":
        n = r.choice([4095, 4096, 4097, 4098])
        if r.random() < 0.5:
            start = r.randrange(0, CH - 2 * n)
            return of_vals(set(r.sample(range(start, start + 2 * n), n)))
        return of_vals(set(r.sample(range(CH), n)))
    if sh == "ends":
        vals = {v for v in [0, 1, 2, 62, 63, 64, 65, 65470, 65471, 65472, 65473, 65533, 65534, 65535] if r.random() < 0.6}
        return of_vals(vals or {0})
    if sh == "comb":
        step = r.choice([2, 3, 4, 16, 64, 65])
        lim = r.choice([8192, 8200, 30000, CH])
        return of_vals(set(range(r.randrange(step), lim, step)))
    if sh == "denserand":
        return of_vals(set(r.sample(range(CH), r.choice([4097, 5000, 20000, 60000, 65000, 65530]))))
    if sh == "holes":
        # full except a few holes
        hs = sorted({r.choice([0, 1, 63, 64, 65, 65534, 65535, r.randrange(CH)]) for _ in range(r.choice([2, 3, 10, 200]))})
        out = []
        prev = 0
        for h in hs:
            out.append((prev, h - 1))
            prev = h + 1
        out.append((prev, CH - 1))
        return norm(out)
    return rand_set(g)


def run_minimal(ivs):
    return 2 + 4 * len(ivs) < min(8224, 2 * card(ivs))


def kinds_for(ivs):
    c = card(ivs)
    ks = ["R"]
    if 0 < c <= 4096:
        ks.append("A")
    if c > 4096:
        ks.append("B")
    return ks


def arg_pool(g, ivs):
    r = g.r
    pool = [0, 1, 2, 62, 63, 64, 65, 127, 128, 4095, 4096, 32767, 32768, 65471, 65472, 65533, 65534, 65535]
    pick = ivs if len(ivs) <= 40 else ivs[:8] + ivs[-8:] + r.sample(ivs, 24)
    for a, b in pick:
        for v in (a - 2, a - 1, a, a + 1, b - 1, b, b + 1, b + 2, (a + b) // 2):
            if 0 <= v < CH:
                pool.append(v)
        w = (a // 64) * 64
        for v in (w - 1, w, w + 63, w + 64):
            if 0 <= v < CH:
                pool.append(v)
    return pool


UN1 = ["rank", "contains", "nextValue", "previousValue", "nextAbsentValue", "previousAbsentValue"]
UN0 = ["getCardinality", "minimum", "maximum", "numberOfRuns", "isFull", "isEmpty"]


def _word_edge_cases(g):
    """fixed: the nearest absent / present value sits in the FIRST or the LAST 64-bit word (or word) of the chunk while everything
    between it and the target is present / absent — downward scans must reach word 0, upward scans word 1023"""
    r = g.r
    h = r.choice([0, 1, 2, 31, 62, 63])
    t = r.choice([0, 1, 30, 63])
    sets = [
        norm([(0, h - 1), (h + 1, 30000)]),                         # hole h < 64, then solid up to 30000
        norm([(0, 63 - 1 - t), (64, 30000)]) if t < 63 else [(64, 30000)],   # word 0 partly filled from below
        norm([(35000, CH - 2 - h), (CH - h, CH - 1)]),              # hole in the last word
        [(5, 5), (40000, 50000)],                                   # the nearest present value below is in word 0
        [(30000, 40000), (CH - 1 - t, CH - 1 - t)],                 # the nearest present value above is in the last word
    ]
    for ivs in sets:
        for kind in kinds_for(ivs):
            ca = render(g, ivs, kind)
            for op in ("previousAbsentValue", "nextAbsentValue", "previousValue", "nextValue"):
                for x in sorted(set([64, 65, 100, 127, 128, 29999, 30000, 30001, 35000, 39999, 50001, CH - 65, CH - 64, CH - 1, 0, 63, h, h + 1])):
                    g.emit("kern %s %s - %d" % (op, ca, x))
            g.count("q2:word-edge")


@suite("kernq2")
def _kernq2(g, scale):
    r = g.r
    _word_edge_cases(g)
    for _ in range(int(40 * scale)):
        ivs = shapes(g)
        c = card(ivs)
        if c == 0:
            continue
        pool = arg_pool(g, ivs)
        # cumulative ranks of the run starts / ends: select arguments that hit the first / last value of a run
        selpool = [0, c - 1]
        acc = 0
        for a, b in (ivs if len(ivs) <= 30 else ivs[:10] + ivs[-10:]):
            selpool += [acc, acc + (b - a)]
            acc += b - a + 1
        if len(ivs) > 30:
            selpool = [0, c - 1, ivs[0][1] - ivs[0][0], min(c - 1, ivs[0][1] - ivs[0][0] + 1)]
        for kind in kinds_for(ivs):
            ca = render(g, ivs, kind)
            g.count("q2kind:" + kind + (":minimal" if kind != "R" or run_minimal(ivs) else ":nonminimal"))
            for op in UN1:
                for _ in range(4):
                    x = r.choice(pool) if r.random() < 0.85 else r.randrange(CH)
                    g.emit("kern %s %s - %d" % (op, ca, x))
                    g.count("q2op:%s:%s" % (op, kind))
            for _ in range(4):
                i = r.choice(selpool) if r.random() < 0.7 else r.randrange(c)
                i = max(0, min(c - 1, i + r.choice([0, 0, 0, 1, -1])))
                g.emit("kern selectInt %s - %d" % (ca, i))
                g.count("q2op:selectInt:" + kind)
            for _ in range(5):
                x, y = r.choice(pool), r.choice(pool)
                m = r.random()
                if m < 0.75:
                    x, y = min(x, y), max(x, y) + r.choice([0, 1, 1, 2])
                elif m < 0.85:
                    y = x + r.choice([0, 1])
                elif m < 0.93:
                    y = CH
                # else: unordered pair as drawn (start >= end gives 0)
                g.emit("kern getCardinalityInRange %s - %d %d" % (ca, x, min(CH, y)))
                g.count("q2op:getCardinalityInRange:" + kind)
            for op in UN0:
                g.emit("kern %s %s -" % (op, ca))
                g.count("q2op:%s:%s" % (op, kind))
