#!/usr/bin/env python3
"""Count the `l2par` lines on which the exact-representation check of the parallel-aggregate DATA model (ParData) applies.
usage: l2par_count.py script.txt go.out [more pairs ...]
 -> per function: lines / exact-check lines (every operand Rep.wf) per worker count and per operand count, the chunk-grid regime
    met by ParOr (Clone / FastOr / 4w > keyRange / 4w <= keyRange, hKey = 65535), kinds of result containers, `changed:` statuses."""
import sys
from collections import Counter
from l2rep_count import parse_rep, rep_wf


def main():
    cnt = Counter()
    args = sys.argv[1:]
    for si in range(0, len(args), 2):
        lines = open(args[si]).read().splitlines()
        outs = open(args[si + 1]).read().splitlines()
        for ln, o in zip(lines, outs):
            t = [x for x in ln.split(" ") if x]
            if not t or t[0] != "l2par":
                continue
            fn = t[1] if len(t) > 1 else "?"
            if o.startswith("skip") or o.startswith("panic") or o.startswith("timeout"):
                cnt[(fn, "skip/panic/timeout")] += 1
                continue
            w = int(t[3])
            n = len(t) - 4
            if o.startswith("| "):
                o = " " + o
            groups = o.split(" | ")
            if len(groups) != 4:
                cnt[(fn, "unparsable")] += 1
                continue
            ncpu = int(groups[3].split("=")[1])
            ops = [parse_rep(x) for x in groups[0].split(" ") if x]
            rz = parse_rep(groups[1])
            exact = all(r is not None and rep_wf(r) for r in ops)
            cnt[(fn, "lines")] += 1
            cnt[(fn, "w=%d" % w, "lines")] += 1
            cnt[(fn, "n=%d" % n, "lines")] += 1
            if exact:
                cnt[(fn, "exact")] += 1
                cnt[(fn, "w=%d" % w, "exact")] += 1
            if not groups[2].startswith("ok"):
                cnt[(fn, "status", groups[2].split(" ")[0])] += 1
            if fn == "paror":
                ne = [r for r in ops if r is not None and r[1]]
                if len(ne) == 0:
                    cnt[(fn, "regime", "no non-empty operand")] += 1
                elif len(ne) == 1:
                    cnt[(fn, "regime", "Clone")] += 1
                else:
                    lk = min(r[1][0][0] for r in ne)
                    hk = max(r[1][-1][0] for r in ne)
                    kr = hk - lk + 1
                    we = w if w else ncpu
                    if kr == 1:
                        cnt[(fn, "regime", "FastOr (keyRange 1)")] += 1
                    elif 4 * we > kr:
                        cnt[(fn, "regime", "4w > keyRange (chunkSize 1)")] += 1
                    else:
                        cs = (kr + 4 * we - 1) // (4 * we)
                        cc = (kr + cs - 1) // cs
                        cnt[(fn, "regime", "4w <= keyRange")] += 1
                        if cc < 4 * we:
                            cnt[(fn, "regime", "4w <= keyRange, chunk count re-trimmed")] += 1
                        if kr % cs:
                            cnt[(fn, "regime", "4w <= keyRange, short last chunk")] += 1
                    if hk == 65535 and kr > 1:
                        cnt[(fn, "regime", "hKey = 65535")] += 1
            if rz is not None:
                for _, c, f in rz[1]:
                    cnt[("result-container", fn, c[0])] += 1
                    if c[0] == "B" and c[1][0] == 65536:
                        cnt[("result-container", fn, "full bitmap (card 65536)")] += 1
                    if f:
                        cnt[("result-container", fn, "flagged (shared)")] += 1
    for k in sorted(cnt, key=str):
        print(" ".join(str(x) for x in k), cnt[k])


if __name__ == "__main__":
    main()
