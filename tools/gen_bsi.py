"""BSI suites (registered with genlib.suite)."""
from genlib import G, suite, U32, CH  # noqa: F401
