"""BSI suites (registered with genlib.suite): `bsi` (C19 update histories) and `bsiq` (C20 queries).

The generator keeps its own column -> value model of every index it creates.  It needs it for two things only:
to stay inside the documented domain (constants within the index's width, found-sets of existing columns,
Increment/Add on non-negative values, ParOr on disjoint columns, Transpose on values that are column ids) and to
aim at interesting constants (stored values +-1, extremes of the width).  Expected outputs are NOT produced here:
they come from the Lean model.

Known-defect switches.  The checker stops at the first mismatch, so a defect that fires early hides everything
behind it.  Every trigger of a defect recorded in FINDINGS.md has a tag; tags listed in the environment variable
BSI_AVOID (comma separated) - or all of them for the `*-clean` suites - are not generated.
"""
import os
from genlib import G, suite  # noqa: F401

U64 = 1 << 64
U32 = 1 << 32
I64MIN = -(1 << 63)
I64MAX = (1 << 63) - 1

# tag -> what is NOT generated when the tag is avoided.
# CONFIRMED: every tag below hides the trigger of one defect recorded in FINDINGS.md (Fxx in brackets).
CONFIRMED = [
    "clone_neg",      # [F01] 64: Clone / NewBSIRetainSet of an index holding a negative value
    "marsh_neg",      # [F02] 64: MarshalBinary/UnmarshalBinary of an index holding a negative value
    "paror_neg",      # [F03] 64: ParOr when a participant holds a negative value
    "paror32_multi",  # [F04] 32: ParOr with more than one participant
    "paror_alias",    # [F05] 64: looking at a ParOr participant after the target was changed
    "paror_runopt",   # [F06] 64: ParOr into a run-optimised index
    "xor_share",      # [F07] 64: Increment/Add when columns span more than one high-32 bucket (roaring64.Xor shares containers)
    "inc_neg",        # [F08] Increment/Add on an index that holds a negative value in an untouched column
    "sum_wide",       # [F09] 64: Sum/SumBigValues when some per-plane partial sum count*2^plane reaches 2^63
    "clr_alias",      # [F10] ClearValues(own existence bitmap)
    "neg32",          # [F11] 32: negative values (64 planes)
    "minmax32",       # [F12] 32: MinMax
    "equals_width",   # [F13] 64: Equals between indexes holding the same map at different widths (negative values)
    "inc_neg32",      # [agBSI32] 32: Increment/Add TOUCHING a negative value (carry out of plane 63 appends plane 64; BatchEqual then misses the column)
]
# plain feature switches (no defect behind them on the current tree; useful when bisecting)
SWITCHES = [
    "big_slow",       # 64: CompareValue/CompareBigValue on an index wider than 64 planes (per-column path)
    "cmp_wide63",     # 64: compare on an index with exactly 63/64 planes
    "twc",            # TransposeWithCounts
    "inc_absent",     # Increment on a found-set containing absent columns
    "fixed32_inc",    # 32: increment / add in a fixed-width index
    "add_wide",       # Add/Increment that has to widen the index
    "beq_cube",       # BatchEqual value lists that form a full cube
    "range_rev",      # RANGE with start > end
    "marsh_fixed",    # 64: MarshalBinary round trip of a fixed-width index
    "cmpbsi",         # 64: CompareBSI
    "runopt",         # RunOptimize on the index
]
KNOWN = CONFIRMED + SWITCHES
# the `*-clean` suites avoid exactly the confirmed triggers: they must pass on the current /repo
KNOWN_ACTIVE = CONFIRMED


def env_avoid():
    # default: the script shapes of the findings RECORDED in known_findings.json (not repaired: format change needed /
    # out of the properties' scope) are not generated, so that the rest of the family is explored; the recorded findings
    # themselves are replayed from corpus/ by the runner
    return set(x for x in os.environ.get("BSI_AVOID", "marsh_neg,equals_width,inc_neg32").split(",") if x)


def blen64(v):
    return max(1, abs(v).bit_length())


def blen32(v):
    return (v % U64).bit_length()


class Idx:
    def __init__(self, name, is64, fixed=None, profile="mixed"):
        self.name = name
        self.is64 = is64
        self.fixed = fixed            # (max, min) or None
        self.profile = profile
        self.vals = {}
        self.everneg = False
        self.opt = False              # RunOptimize was called on this object
        if fixed is None:
            self.bc = 0
        elif is64:
            self.bc = max(abs(fixed[0]).bit_length(), abs(fixed[1]).bit_length())
        else:
            self.bc = max(blen32(fixed[0]), blen32(fixed[1]))

    # -- width bookkeeping (a lower bound of Go's BitCount(); exact for Set*-only histories)
    def note(self, v):
        if v < 0:
            self.everneg = True
        if self.fixed is None:
            self.bc = max(self.bc, blen64(v) if self.is64 else blen32(v))

    def colbound(self):
        return U64 if self.is64 else U32

    def hasneg(self):
        return any(v < 0 for v in self.vals.values())

    def krange(self):
        """inclusive range of comparison constants inside the documented domain"""
        if self.fixed is not None:
            return (self.fixed[1], self.fixed[0])
        if self.is64:
            return (-(1 << self.bc) + 1, (1 << self.bc) - 1)
        if self.bc >= 64:
            return (I64MIN, I64MAX)
        return (0, (1 << self.bc) - 1)

    def copy_as(self, name):
        t = Idx(name, self.is64, self.fixed, self.profile)
        t.vals = dict(self.vals)
        t.bc = self.bc
        t.everneg = self.everneg
        return t


PROFILES64 = ["small", "mixed", "mixed", "nonneg", "nonneg", "wide63", "big", "fixed", "fixed", "dup"]
PROFILES32 = ["nonneg", "nonneg", "small0", "neg", "neg", "fixed", "wide", "dup"]
FIXED64 = [(100, -100), (5, -5), (1000, 0), (-1, -100), ((1 << 31) - 1, -(1 << 31)), (I64MAX, I64MIN), (255, 1), (70000, -3)]
FIXED32 = [(1000, 0), (5, -5), (-1, -100), (99, -1), (255, 1), ((1 << 40), 0), (I64MAX, 0)]


class BG:
    def __init__(self, g, avoid):
        self.g = g
        self.r = g.r
        self.avoid = set(avoid)

    def av(self, tag):
        return tag in self.avoid

    def emit(self, s):
        self.g.emit(s)

    # ------------------------------------------------------------------ values / columns
    def newidx(self, is64=None, profile=None):
        r = self.r
        if is64 is None:
            is64 = r.random() < 0.6
        if profile is None:
            profile = r.choice(PROFILES64 if is64 else PROFILES32)
        if not is64 and profile == "neg" and self.av("neg32"):
            profile = "nonneg"
        name = self.g.fresh("s")
        fixed = None
        if profile == "fixed":
            fixed = r.choice(FIXED64 if is64 else FIXED32)
            if not is64 and fixed[1] < 0 and self.av("neg32"):
                fixed = (1000, 0)
            self.emit("bnew %s %s %d %d" % (name, "64" if is64 else "32", fixed[0], fixed[1]))
        else:
            self.emit("bnew %s %s" % (name, "64" if is64 else "32"))
        self.g.count("idx:%s:%s" % ("64" if is64 else "32", profile))
        return Idx(name, is64, fixed, profile)

    def val(self, idx):
        r = self.r
        p = idx.profile
        if idx.fixed is not None:
            mx, mn = idx.fixed
            c = r.random()
            if c < 0.25:
                return r.choice([mx, mn, mn + 1 if mn < mx else mn, mx - 1 if mn < mx else mx])
            if c < 0.45 and mn <= 0 <= mx:
                return r.choice([v for v in (0, 1, -1, 2, -2) if mn <= v <= mx])
            if c < 0.6 and idx.vals:
                return r.choice(list(idx.vals.values()))
            return r.randint(mn, mx) if mx - mn < (1 << 20) or r.random() < 0.5 else max(mn, min(mx, r.choice([-3, 5, 70000, 1 << 20, -(1 << 20)])))
        if p in ("small", "small0"):
            lo = -8 if (idx.is64 and p == "small") else 0
            return r.randint(lo, 8)
        if p == "dup":
            return r.choice([0, 1, 3, 3, 3, 7, 7, 100] if not idx.is64 else [0, 1, 3, 3, 3, -3, -3, 7, 100, -100])
        if p == "nonneg":
            return r.choice([0, 0, 1, 2, 3, 5, 7, 8, 15, 16, 255, 256, 70000, 65535, 65536, (1 << 31) - 1, 1 << 31,
                             (1 << 32) - 1, 1 << 32, 1 << 40, r.randrange(1000), r.randrange(1 << 20)])
        if p == "mixed":
            return r.choice([0, 0, 1, -1, 2, -2, 3, -3, 5, -5, 7, -8, 8, 70000, -70000, 127, 128, -128, -129, 255, 256,
                             (1 << 31) - 1, -(1 << 31), 1 << 32, 1 << 40, -(1 << 40), r.randint(-1000, 1000),
                             r.randint(-(1 << 20), 1 << 20)])
        if p == "wide63":
            return r.choice([0, 1, -1, 5, -5, 1 << 61, (1 << 62) - 1, 1 << 62, (1 << 62) + 1, I64MAX, I64MAX - 1,
                             I64MIN, I64MIN + 1, -(1 << 62), -(1 << 62) - 1, r.randint(I64MIN, I64MAX)])
        if p == "big":
            return r.choice([0, 1, -1, 5, -3, 70000, I64MAX, I64MIN, 1 << 63, -(1 << 63) - 1, 1 << 64, (1 << 64) - 1,
                             -(1 << 64), 1 << 70, -(1 << 70) + 1, (1 << 80) + 12345, r.randint(-(1 << 72), 1 << 72)])
        if p == "neg":      # 32-bit implementation with 64 planes
            return r.choice([0, 1, -1, 2, -2, 5, -5, 100, -100, 70000, -70000, I64MAX, I64MIN, I64MIN + 1, I64MAX - 1,
                             1 << 40, -(1 << 40), r.randint(-1000, 1000)])
        if p == "wide":     # 32-bit implementation, non-negative up to 63 bits
            return r.choice([0, 1, 5, 70000, 1 << 40, (1 << 62) - 1, 1 << 62, I64MAX, I64MAX - 1, r.randrange(1 << 63)])
        raise ValueError(p)

    def newcol(self, idx):
        r = self.r
        for _ in range(50):
            if idx.is64:
                c = r.choice([r.randrange(12), r.randrange(40), r.randrange(300), 65535, 65536, 65537, U32 - 1, U32, U32 + 5,
                              1 << 40, 1 << 63, U64 - 1, U64 - 2, r.randrange(U64)])
            else:
                c = r.choice([r.randrange(12), r.randrange(40), r.randrange(300), 65535, 65536, 65537, U32 - 1, U32 - 2,
                              r.randrange(U32)])
            if c not in idx.vals:
                return c
        return max(idx.vals) + 1 if max(idx.vals) + 1 < idx.colbound() else min(set(range(1000)) - set(idx.vals))

    def col(self, idx, pexist=0.5):
        if idx.vals and self.r.random() < pexist:
            return self.r.choice(list(idx.vals))
        return self.newcol(idx)

    def mkfs(self, idx, cols):
        f = self.g.fresh("f")
        self.emit("%s %s %s" % ("fs64" if idx.is64 else "fs32", f, " ".join(str(c) for c in cols)))
        self.lastfs = (f, idx.is64)
        return f

    def fsdig(self):
        """digest of the most recent found-set: an index operation must never change its argument"""
        if getattr(self, "lastfs", None):
            f, is64 = self.lastfs
            self.emit("%s %s" % ("fsdig64" if is64 else "dig", f))

    def subset(self, idx, pmin=0.2, pmax=0.8):
        r = self.r
        p = r.uniform(pmin, pmax)
        return [c for c in sorted(idx.vals) if r.random() < p]

    # ------------------------------------------------------------------ updates
    def do_set(self, idx, c, v, big=None):
        if big is None:
            big = idx.is64 and (not (I64MIN <= v <= I64MAX) or self.r.random() < 0.25)
        self.emit("%s %s %d %d" % ("bsetbig" if big else "bset", idx.name, c, v))
        idx.vals[c] = v
        idx.note(v)

    def op_set(self, idx):
        r = self.r
        c = self.col(idx, 0.45)
        v = self.val(idx)
        cls = "set:new" if c not in idx.vals else ("set:narrower" if abs(v) < abs(idx.vals[c]) else "set:over")
        if idx.fixed is None and (blen64(v) if idx.is64 else blen32(v)) > idx.bc:
            cls += "+widen"
        self.g.count(cls)
        self.do_set(idx, c, v)

    def op_setmany(self, idx):
        r = self.r
        cols = self.subset(idx, 0.1, 0.6) + [self.newcol(idx) for _ in range(r.choice([0, 0, 1, 2]))]
        cols = sorted(set(cols))
        if not cols:
            cols = [self.newcol(idx)]
        v = self.val(idx)
        if idx.vals and r.random() < 0.1:
            f = "@"                 # the index's own existence bitmap: every stored column := v
            cols = list(idx.vals)
            self.g.count("setmany:own")
        else:
            f = self.mkfs(idx, cols)
        big = idx.is64 and (not (I64MIN <= v <= I64MAX) or r.random() < 0.25)
        self.emit("%s %s %s %d" % ("bsetmanybig" if big else "bsetmany", idx.name, f, v))
        for c in cols:
            idx.vals[c] = v
        idx.note(v)
        self.g.count("setmany")

    def op_clr(self, idx):
        r = self.r
        if idx.vals and r.random() < 0.08 and not self.av("clr_alias"):
            cols = sorted(idx.vals)
            self.emit("bclr %s @" % idx.name)
            idx.vals.clear()
            self.g.count("clr:alias")
        else:
            cols = self.subset(idx, 0.1, 0.5)
            extra = [self.newcol(idx) for _ in range(r.choice([0, 0, 1]))]
            f = self.mkfs(idx, sorted(set(cols + extra)))
            self.emit("bclr %s %s" % (idx.name, f))
            for c in cols:
                idx.vals.pop(c, None)
            self.g.count("clr")
        # a cleared column that is set again holds the new value only (nothing of the old one survives in the slices)
        if cols and r.random() < 0.7:
            for c in r.sample(cols, min(len(cols), r.choice([1, 2, 3]))):
                v = r.choice([0, 1, 4, 7]) if idx.fixed is None else max(idx.fixed[1], min(idx.fixed[0], r.choice([0, 1, 4])))
                self.do_set(idx, c, v, big=False)
            self.emit("bdump %s" % idx.name)
            self.g.count("clr:refill")

    def op_retain(self, idx):
        r = self.r
        if not idx.is64:
            return self.op_clr(idx)
        if r.random() < 0.15:
            tok = "@"
            cols = list(idx.vals)
        else:
            cols = self.subset(idx, 0.4, 1.0)
            extra = [self.newcol(idx) for _ in range(r.choice([0, 0, 1]))]
            tok = self.mkfs(idx, sorted(set(cols + extra)))
        self.emit("bretain %s %s" % (idx.name, tok))
        idx.vals = {c: idx.vals[c] for c in cols}
        self.g.count("retain")

    def inc_ok(self, idx, targets, addend):
        """Increment/Add domain: touched values (absent = 0) and addends non-negative, result inside the range"""
        if idx.hasneg() and self.av("inc_neg"):
            return False
        if not idx.is64 and idx.fixed is not None and self.av("fixed32_inc"):
            return False
        if idx.is64 and self.av("xor_share") and len({c >> 32 for c in list(idx.vals) + list(targets)}) > 1:
            return False
        for c in targets:
            v = idx.vals.get(c, 0)
            if v < 0 and (idx.is64 or idx.fixed is not None or self.av("inc_neg32")):
                return False
            nv = v + addend.get(c, 1)
            if idx.fixed is not None and not (idx.fixed[1] <= nv <= idx.fixed[0]):
                return False
            if not idx.is64 and nv > I64MAX:
                return False
            if idx.fixed is None and self.av("add_wide") and (blen64(nv) if idx.is64 else blen32(nv)) > idx.bc:
                return False
            if c not in idx.vals and idx.fixed is not None and not (idx.fixed[1] <= 0):
                return False
        return True

    def op_inc(self, idx):
        r = self.r
        if not idx.vals:
            return False
        c = c0 = r.random()
        if c < 0.3:
            targets = list(idx.vals)
            if not self.inc_ok(idx, targets, {}):
                return False
            self.emit(r.choice(["bincall %s", "binc %s -", "binc %s @"]) % idx.name)
            self.g.count("inc:all")
        else:
            targets = self.subset(idx, 0.2, 0.7)
            if r.random() < 0.2 and not self.av("inc_absent"):
                targets.append(self.newcol(idx))
                self.g.count("inc:absent")
            if not targets or not self.inc_ok(idx, targets, {}):
                return False
            f = self.mkfs(idx, sorted(targets))
            self.emit("binc %s %s" % (idx.name, f))
            self.g.count("inc:set")
            post = f
        for c in targets:
            idx.vals[c] = idx.vals.get(c, 0) + 1
            idx.note(idx.vals[c])
        if c0 >= 0.3 and r.random() < 0.6:
            c = r.choice(targets)
            v = r.choice([0, 2, 4, 6, 70000])
            if idx.fixed is None or idx.fixed[1] <= v <= idx.fixed[0]:
                self.do_set(idx, c, v, big=False)
                self.fsdig()
        return True

    def op_add(self, idx):
        r = self.r
        t = Idx(self.g.fresh("s"), idx.is64, None, "nonneg")
        cols = self.subset(idx, 0.2, 0.6) + [self.newcol(idx) for _ in range(r.choice([0, 1, 2]))]
        cols = sorted(set(cols))
        if not cols:
            return False
        addend = {}
        for c in cols:
            addend[c] = r.choice([0, 1, 1, 2, 3, 5, 7, 8, 100, 255, 256, 70000, 1 << 20, 1 << 33])
            if idx.fixed is not None:
                addend[c] = r.choice([0, 1, 1, 2, 3])
        if not self.inc_ok(idx, cols, addend):
            return False
        self.emit("bnew %s %s" % (t.name, "64" if idx.is64 else "32"))
        for c in cols:
            self.do_set(t, c, addend[c], big=False)
        self.emit("badd %s %s" % (idx.name, t.name))
        for c in cols:
            idx.vals[c] = idx.vals.get(c, 0) + addend[c]
            idx.note(idx.vals[c])
        self.emit("bdump %s" % t.name)
        if r.random() < 0.6:
            c = r.choice(cols)
            v = self.val(idx)
            if v >= 0 or not self.av("inc_neg"):
                self.do_set(idx, c, v)
                self.emit("bdump %s" % t.name)
        self.g.count("add")
        return True

    def op_paror(self, idx):
        r = self.r
        n = r.choice([1, 1, 2, 3])
        if idx.is64 and idx.opt and self.av("paror_runopt"):
            return False
        if not idx.is64 and self.av("paror32_multi"):
            n = 1
        ts = []
        used = set(idx.vals)
        for _ in range(n):
            t = Idx(self.g.fresh("s"), idx.is64, None, idx.profile)
            t.fixed = None
            self.emit("bnew %s %s" % (t.name, "64" if idx.is64 else "32"))
            for _ in range(r.choice([0, 1, 2, 3, 5])):
                tmp = Idx("", idx.is64)
                tmp.vals = dict.fromkeys(used)
                c = self.newcol(tmp)
                used.add(c)
                v = self.val(idx)
                self.do_set(t, c, v, big=None)
            ts.append(t)
        if self.av("paror_neg") and idx.is64 and (idx.hasneg() or any(t.hasneg() for t in ts)):
            return False
        if self.av("neg32") and not idx.is64 and any(t.hasneg() for t in ts):
            return False
        self.emit("bparor %s %d %s" % (idx.name, r.choice([0, 1, 2, 7]), " ".join(t.name for t in ts)))
        for t in ts:
            idx.vals.update(t.vals)
            if idx.fixed is None:
                idx.bc = max(idx.bc, t.bc)
            idx.everneg = idx.everneg or t.everneg
        self.g.count("paror:%d" % n)
        if not self.av("paror_alias"):
            # independence: change the target on a column that came from a participant, look at the participant
            cand = [t for t in ts if t.vals]
            if cand and r.random() < 0.7:
                t = r.choice(cand)
                c = r.choice(list(t.vals))
                self.do_set(idx, c, self.val(idx))
                self.emit("bdump %s" % t.name)
                self.g.count("paror:crosscheck")
        return True

    def op_copy(self, idx):
        """returns the copy (an Idx) or None"""
        r = self.r
        kinds = ["clone", "retainset", "marsh"] + (["stream"] if idx.is64 else [])
        k = r.choice(kinds)
        if idx.is64 and idx.hasneg():
            if k in ("clone", "retainset") and self.av("clone_neg"):
                return None
            if k == "marsh" and self.av("marsh_neg"):
                return None
        if idx.is64 and idx.fixed is not None and k == "marsh" and self.av("marsh_fixed"):
            return None
        t = idx.copy_as(self.g.fresh("s"))
        if k == "clone":
            self.emit("bclone %s %s" % (t.name, idx.name))
        elif k == "retainset":
            if r.random() < 0.3:
                tok = "@"
                cols = list(idx.vals)
            else:
                cols = self.subset(idx, 0.3, 1.0)
                tok = self.mkfs(idx, sorted(set(cols + [self.newcol(idx)])) if r.random() < 0.3 else cols)
            self.emit("bretainset %s %s %s" % (t.name, idx.name, tok))
            t.vals = {c: idx.vals[c] for c in cols}
        elif k in ("marsh", "stream"):
            used = ""
            if idx.fixed is None and r.random() < 0.5 and not self.av("reused_receiver"):
                # a receiver that was used before: wider than the source, holding other columns, possibly negative values
                u = self.g.fresh("u")
                self.emit("bnew %s %s" % (u, "64" if idx.is64 else "32"))
                cols = sorted(set([self.newcol(idx)] + self.subset(idx, 0.3, 0.9)[:4] + [r.choice([0, 1, 7, 1 << 33 if idx.is64 else 1 << 20])]))
                negok = not (not idx.is64 and self.av("neg32"))
                for i, c in enumerate(cols):
                    # the first column makes the receiver wider than anything the source holds
                    v = ((1 << 62) + 1) if i == 0 else r.choice([1000, 70000, (1 << 40) + 5, 3, 0] + ([-3, -70000, -(1 << 61) - 3] if negok else []))
                    self.emit("bset %s %d %d" % (u, c, v))
                used = " " + u
                self.g.count("copy:reused-receiver")
            self.emit("%s %s %s%s" % ("bmarsh" if k == "marsh" else "bstream", t.name, idx.name, used))
        self.g.count("copy:" + k)
        self.emit("bdump %s" % t.name)
        if idx.is64 and k != "retainset":
            self.emit("bequals %s %s" % (idx.name, t.name))
            self.emit("bequals %s %s" % (t.name, idx.name))
        # independence: change the copy, look at the original (and vice versa)
        c = self.col(t, 0.5)
        self.do_set(t, c, self.val(t))
        self.emit("bdump %s" % idx.name)
        if idx.is64 and r.random() < 0.5:
            self.emit("bequals %s %s" % (idx.name, t.name))
        if r.random() < 0.5:
            # and the other way round: change the original, look at the copy
            c = self.col(idx, 0.7)
            self.do_set(idx, c, self.val(idx))
            self.emit("bdump %s" % t.name)
        return t

    def op_rebuild_equal(self, idx):
        """an independently built index holding the same map (possibly at another width) must be Equal"""
        r = self.r
        if not idx.is64 or idx.fixed is not None or not idx.vals or len(idx.vals) > 12:
            return
        if idx.hasneg() and self.av("equals_width"):
            return
        t = Idx(self.g.fresh("s"), True, None, idx.profile)
        self.emit("bnew %s 64" % t.name)
        cols = sorted(idx.vals)
        if r.random() < 0.5:
            self.do_set(t, cols[0], self.val(idx))      # history: some other (maybe wider) value first
        for c in cols:
            self.do_set(t, c, idx.vals[c])
        self.emit("bequals %s %s" % (idx.name, t.name))
        self.emit("bequals %s %s" % (t.name, idx.name))
        self.g.count("equals:rebuilt")

    def check(self, idx, full=False):
        r = self.r
        s = idx.name
        self.emit("bdump %s" % s)
        if r.random() < 0.5:
            self.fsdig()
        if r.random() < 0.5 or full:
            self.emit("bchk %s" % s)
            self.emit("bcard %s" % s)
        cols = sorted(idx.vals)
        if len(cols) > 10 and not full:
            cols = r.sample(cols, 10)
        absent = [self.newcol(idx) for _ in range(2)]
        for c in cols + absent:
            v = idx.vals.get(c)
            if idx.is64 and (r.random() < 0.4 or (v is not None and not (I64MIN <= v <= I64MAX) and r.random() < 0.9)):
                self.emit("bgetbig %s %d" % (s, c))
            else:
                self.emit("bget %s %d" % (s, c))
        if r.random() < 0.5:
            self.emit("bexists %s %d" % (s, r.choice(cols + absent)))
        if idx.is64:
            q = [r.choice(cols + absent) for _ in range(r.choice([0, 1, 2, 3, 5, 9]))]
            if r.random() < 0.5 and q:
                q.append(q[0])      # duplicate request
            allint = all(I64MIN <= idx.vals.get(c, 0) <= I64MAX for c in q)
            if allint and r.random() < 0.6:
                self.emit("bgets %s %s" % (s, " ".join(map(str, q))))
            else:
                self.emit("bgetsbig %s %s" % (s, " ".join(map(str, q))))

    # ------------------------------------------------------------------ C19 episode
    def episode_updates(self, nsteps, is64=None):
        r = self.r
        idx = self.newidx(is64)
        ops = ["set"] * 10 + ["setmany"] * 2 + ["clr"] * 2 + ["retain", "inc", "inc", "add", "paror", "copy", "copy", "eqr", "opt"]
        since = 0
        for _ in range(nsteps):
            o = r.choice(ops)
            if o == "opt":
                if not self.av("runopt"):
                    self.emit("bopt %s" % idx.name)
                    idx.opt = True
                    self.g.count("runopt")
            elif o == "eqr":
                self.op_rebuild_equal(idx)
                if r.random() < 0.3 and not self.av("runopt"):
                    self.emit("bopt %s" % idx.name)
                    idx.opt = True
                    self.g.count("runopt")
            elif o == "set":
                self.op_set(idx)
            elif o == "setmany":
                self.op_setmany(idx)
            elif o == "clr":
                self.op_clr(idx)
            elif o == "retain":
                self.op_retain(idx)
            elif o == "inc":
                if not self.op_inc(idx):
                    self.op_set(idx)
            elif o == "add":
                if not self.op_add(idx):
                    self.op_set(idx)
            elif o == "paror":
                if not self.op_paror(idx):
                    self.op_set(idx)
            elif o == "copy":
                t = self.op_copy(idx)
                if t is not None and r.random() < 0.5:
                    idx = t          # continue the history on the copy
            since += 1
            if since >= r.choice([2, 3, 4, 5]):
                self.check(idx)
                since = 0
        self.check(idx, full=True)
        self.emit("bbits %s" % idx.name)
        return idx

    # ------------------------------------------------------------------ C20
    def consts(self, idx, intonly):
        r = self.r
        lo, hi = idx.krange()
        if intonly:
            lo, hi = max(lo, I64MIN), min(hi, I64MAX)
        pool = [0, 1, -1, lo, hi, lo + 1, hi - 1]
        for v in idx.vals.values():
            pool += [v, v - 1, v + 1]
        pool.append(r.randint(lo, hi))
        pool = [k for k in pool if lo <= k <= hi]
        return pool or [lo]

    def fstokens(self, idx):
        """found-set tokens over existing columns: nil, own, all, random subset, singleton"""
        r = self.r
        cols = sorted(idx.vals)
        toks = [("-", cols), ("@", cols)]
        toks.append((self.mkfs(idx, cols), cols))
        sub = [c for c in cols if r.random() < 0.5]
        toks.append((self.mkfs(idx, sub), sub))
        if cols:
            one = [r.choice(cols)]
            toks.append((self.mkfs(idx, one), one))
            sub2 = [c for c in cols if r.random() < 0.3]
            toks.append((self.mkfs(idx, sub2), sub2))
        return toks

    def build_dense(self, idx):
        """several thousand consecutive columns (bitmap / run containers inside the planes), few distinct values"""
        r = self.r
        n = r.choice([4097, 5000, 6000])
        base = r.choice([0, 65536 - 100, 3 * 65536] + ([U32 - 3000, 1 << 40] if idx.is64 else [U32 - n]))
        cuts = sorted(set([0, n] + [r.randrange(n) for _ in range(r.choice([2, 3, 5]))]))
        for lo, hi in zip(cuts, cuts[1:]):
            v = self.val(idx)
            f = self.g.fresh("f")
            self.emit("%s %s %d %d" % ("fsr64" if idx.is64 else "fsr32", f, base + lo, base + hi))
            self.emit("bsetmany %s %s %d" % (idx.name, f, v) if I64MIN <= v <= I64MAX else "bsetmanybig %s %s %d" % (idx.name, f, v))
            for c in range(base + lo, base + hi):
                idx.vals[c] = v
            idx.note(v)
        for _ in range(r.choice([3, 10, 30])):
            self.do_set(idx, base + r.randrange(n), self.val(idx), big=None)
        self.g.count("map:dense")

    def build_map(self, idx, shape):
        r = self.r
        if shape == "dense":
            return self.build_dense(idx)
        n = {"empty": 0, "single": 1, "few": r.randint(2, 6), "some": r.randint(7, 20), "many": r.randint(30, 70)}[shape]
        for _ in range(n):
            self.do_set(idx, self.newcol(idx), self.val(idx), big=None)
        # a few overwrites (narrower values after wide ones) so that the planes have history
        for _ in range(min(n, r.choice([0, 1, 3]))):
            self.do_set(idx, r.choice(list(idx.vals)), self.val(idx), big=None)
        if n > 3 and r.random() < 0.3:
            cols = self.subset(idx, 0.1, 0.3)
            if cols:
                f = self.mkfs(idx, cols)
                self.emit("bclr %s %s" % (idx.name, f))
                for c in cols:
                    idx.vals.pop(c)
        self.g.count("map:" + shape)

    def after_bitmap_result(self, idx, rname):
        """mutate the returned bitmap, then show the index is unchanged"""
        r = self.r
        if r.random() < 0.35:
            cols = list(idx.vals)
            picks = r.sample(cols, min(len(cols), 3)) + [self.newcol(idx)]
            self.emit("%s %s %s" % ("fsflip64" if idx.is64 else "fsflip32", rname, " ".join(map(str, picks))))
            self.emit("bdump %s" % idx.name)
            if r.random() < 0.5:
                self.emit("bchk %s" % idx.name)
            self.g.count("indep")

    def q_cmp(self, idx, toks):
        r = self.r
        op = r.choice(["LT", "LE", "EQ", "GE", "GT", "RANGE", "RANGE"])
        wide = idx.is64 and idx.bc > 63
        if wide and self.av("big_slow"):
            return
        if idx.is64 and idx.bc in (63, 64) and self.av("cmp_wide63"):
            return
        big = idx.is64 and (r.random() < 0.3)
        ks = self.consts(idx, not big)
        k = r.choice(ks)
        k2 = r.choice(ks)
        if op == "RANGE" and k > k2 and (r.random() < 0.9 or self.av("range_rev")):
            k, k2 = k2, k
        tok, _ = r.choice(toks)
        w = r.choice([0, 1, 2, 7])
        rn = self.g.fresh("r")
        args = "%d %d" % (k, k2) if op == "RANGE" else "%d" % k
        self.emit("%s %s %s %d %s %s %s" % ("bcmpbig" if big else "bcmp", rn, idx.name, w, op, args, tok))
        self.g.count("cmp:%s:%s:%s" % ("64" if idx.is64 else "32", op, {"-": "nil", "@": "own"}.get(tok, "set")))
        self.g.count("workers:%d" % w)
        self.after_bitmap_result(idx, rn)

    def q_cmpbsi(self, idx, other, toks):
        r = self.r
        if self.av("cmpbsi"):
            return
        op = r.choice(["LT", "LE", "EQ", "GE", "GT"])
        tok, _ = r.choice(toks)
        rn = self.g.fresh("r")
        self.emit("bcmpbsi %s %s %s %s %s" % (rn, idx.name, op, other.name, tok))
        self.g.count("cmpbsi:" + op)
        self.after_bitmap_result(idx, rn)

    def q_beq(self, idx, toks):
        r = self.r
        lo, hi = idx.krange()
        stored = list(idx.vals.values())
        c = r.random()
        if c < 0.2 and not self.av("beq_cube"):
            # a full cube: all combinations of a few bit positions on top of a base value
            base = r.choice(stored) if stored else 0
            nb = r.choice([1, 2, 3])
            bits = r.sample(range(max(1, min(idx.bc, 62))), min(nb, max(1, min(idx.bc, 62))))
            vs = []
            for m in range(1 << len(bits)):
                v = base
                for i, b in enumerate(bits):
                    v = (v | (1 << b)) if (m >> i) & 1 else (v & ~(1 << b))
                vs.append(v)
            cls = "cube"
        elif c < 0.3 and idx.bc <= 6 and idx.fixed is None:
            vs = list(range(lo, hi + 1))
            cls = "allvalues"
        else:
            vs = [r.choice(stored) for _ in range(r.choice([1, 1, 2, 3, 5]))] if stored else []
            vs += [r.choice(self.consts(idx, False)) for _ in range(r.choice([0, 1, 2, 4]))]
            if vs and r.random() < 0.3:
                vs.append(vs[0])
            cls = "list"
        vs = [v for v in vs if lo <= v <= hi]
        r.shuffle(vs)
        intonly = all(I64MIN <= v <= I64MAX for v in vs)
        w = r.choice([0, 1, 2, 7])
        kind = r.random()
        if idx.is64 and intonly and kind < 0.3 and vs:
            tok, _ = r.choice(toks)
            self.emit("beqvals %s %d %s %s" % (idx.name, w, tok, " ".join(map(str, vs))))
            self.g.count("beqvals:" + cls)
            return
        rn = self.g.fresh("r")
        if idx.is64 and (not intonly or kind < 0.55):
            self.emit("beqbig %s %s %d %s" % (rn, idx.name, w, " ".join(map(str, vs))))
            self.g.count("beqbig:" + cls)
        else:
            self.emit("beq %s %s %d %s" % (rn, idx.name, w, " ".join(map(str, vs))))
            self.g.count("beq:%s:%s" % ("64" if idx.is64 else "32", cls))
        self.after_bitmap_result(idx, rn)

    def q_minmax(self, idx, toks):
        r = self.r
        if not idx.is64 and self.av("minmax32"):
            return
        cands = [(t, c) for (t, c) in toks if c]
        if not cands:
            return
        tok, cols = r.choice(cands)
        op = r.choice(["MIN", "MAX"])
        w = r.choice([0, 1, 2, 7])
        vals = [idx.vals[c] for c in cols]
        ext = min(vals) if op == "MIN" else max(vals)
        if idx.is64 and (not (I64MIN <= ext <= I64MAX) or r.random() < 0.4):
            self.emit("bminmaxbig %s %d %s %s" % (idx.name, w, op, tok))
        else:
            self.emit("bminmax %s %d %s %s" % (idx.name, w, op, tok))
        self.g.count("minmax:%s:%s" % ("64" if idx.is64 else "32", op))

    def q_sum(self, idx, toks):
        r = self.r
        tok, cols = r.choice(toks)
        if idx.is64 and self.av("sum_wide") and (max(1, len(cols)) << idx.bc) >= (1 << 63):
            return
        total = sum(idx.vals[c] for c in cols)
        if idx.is64 and (not (I64MIN <= total <= I64MAX) or r.random() < 0.4):
            self.emit("bsumbig %s %s" % (idx.name, tok))
        elif I64MIN <= total <= I64MAX:
            self.emit("bsum %s %s" % (idx.name, tok))
        self.g.count("sum:%s" % ("64" if idx.is64 else "32"))

    def q_trans(self, idx, toks):
        r = self.r
        bound = min(idx.colbound() - 1, I64MAX)
        if not all(0 <= v <= bound for v in idx.vals.values()):
            return
        w = r.choice([0, 1, 2, 7])
        c = r.random()
        if c < 0.3:
            rn = self.g.fresh("r")
            self.emit("btrans %s %s" % (rn, idx.name))
            self.g.count("trans")
            self.after_bitmap_result(idx, rn)
        elif c < 0.6:
            rn = self.g.fresh("r")
            tok, _ = r.choice(toks)
            self.emit("bitrans %s %s %d %s" % (rn, idx.name, w, tok))
            self.g.count("itrans")
            self.after_bitmap_result(idx, rn)
        elif not self.av("twc"):
            tn = self.g.fresh("s")
            tok, _ = r.choice(toks)
            if idx.is64:
                gk = r.random()
                if gk < 0.25:
                    gt = "-"
                elif gk < 0.4:
                    gt = "@"
                else:
                    vs = sorted(set(idx.vals.values()))
                    pick = [v for v in vs if r.random() < 0.7] + [r.randrange(100)]
                    gt = self.g.fresh("f")
                    self.emit("fs64 %s %s" % (gt, " ".join(map(str, sorted(set(pick))))))
            else:
                gt = "-"
            self.emit("btwc %s %s %d %s %s" % (tn, idx.name, w, tok, gt))
            self.emit("bdump %s" % tn)
            self.g.count("twc:%s" % ("64" if idx.is64 else "32"))

    def episode_queries(self, nq):
        r = self.r
        if r.random() < 0.15:
            idx = self.episode_updates(r.choice([6, 12]))      # a state reached through a mixed update history
            self.g.count("map:history")
        else:
            idx = self.newidx()
            shape = r.choice(["empty", "single", "few", "few", "some", "some", "many", "many", "dense"])
            self.build_map(idx, shape)
            if r.random() < 0.15 and not self.av("runopt"):
                self.emit("bopt %s" % idx.name)
                idx.opt = True
                self.g.count("runopt")
        self.emit("bdump %s" % idx.name)
        self.emit("bbits %s" % idx.name)
        toks = self.fstokens(idx)
        other = None
        if idx.is64:
            other = self.newidx(True)
            # overlapping columns, partly equal values
            base_cols = list(idx.vals)
            if len(base_cols) > 100:
                # dense map: a range set in one go plus a sample of single columns
                lo = min(base_cols)
                f = self.g.fresh("f")
                a, z = lo + r.randrange(50), lo + 1000 + r.randrange(3000)
                v = self.val(other)
                self.emit("fsr64 %s %d %d" % (f, a, z))
                self.emit("bsetmany %s %s %d" % (other.name, f, v) if I64MIN <= v <= I64MAX else "bsetmanybig %s %s %d" % (other.name, f, v))
                for c in range(a, z):
                    other.vals[c] = v
                other.note(v)
                base_cols = r.sample(base_cols, 40)
            for c in base_cols:
                if r.random() < 0.7:
                    v = idx.vals[c] if r.random() < 0.3 else self.val(other)
                    if other.fixed is not None:
                        v = self.val(other)
                    self.do_set(other, c, v, big=None)
            for _ in range(r.choice([0, 1, 3])):
                self.do_set(other, self.newcol(other), self.val(other), big=None)
            self.emit("bdump %s" % other.name)
        qs = ["cmp"] * 8 + ["beq"] * 3 + ["minmax"] * 2 + ["sum"] * 2 + ["trans"] * 2 + (["cmpbsi"] * 2 if other else [])
        for _ in range(nq):
            q = r.choice(qs)
            if q == "cmp":
                self.q_cmp(idx, toks)
            elif q == "cmpbsi":
                self.q_cmpbsi(idx, other, toks)
            elif q == "beq":
                self.q_beq(idx, toks)
            elif q == "minmax":
                self.q_minmax(idx, toks)
            elif q == "sum":
                self.q_sum(idx, toks)
            elif q == "trans":
                self.q_trans(idx, toks)
        self.emit("bdump %s" % idx.name)
        self.emit("bchk %s" % idx.name)


# operations of a 64-bit index after which `bplanes` is emitted at once (t[1] = the changed index / the new copy)
PLANE_OPS64 = ("bparor", "badd", "binc", "bincall", "bsetmany", "bsetmanybig", "bretain", "bopt",
               "bmarsh", "bstream", "btwc", "bclone", "bretainset")


def add_plane_checks(g):
    """after every dump of an index also compare its bit planes with the plane-level model (64-bit: Impl/BSI.lean,
    32-bit: Impl/BSI32.lean)"""
    is64 = set()
    is32 = set()
    out = []
    for l in g.lines:
        t = l.split(" ")
        if t[0] == "bnew" and len(t) >= 3:
            (is64.add if t[2] == "64" else is64.discard)(t[1])
            (is32.add if t[2] == "32" else is32.discard)(t[1])
        elif t[0] in ("bclone", "bretainset", "bmarsh", "bstream", "btwc") and len(t) >= 3:
            (is64.add if t[2] in is64 else is64.discard)(t[1])
            (is32.add if (t[2] in is32 and t[0] != "bstream") else is32.discard)(t[1])
        out.append(l)
        if t[0] in PLANE_OPS64 and len(t) >= 2 and t[1] in is64:
            # 64-bit index: the plane model (Impl/BSI64Ops.lean) replays these operations; compare the planes right after
            # the operation (the subject / the freshly made copy), not only at the next dump
            out.append("bplanes %s" % t[1])
            g.count("bsi:bplanes:" + t[0])
        if t[0] == "bdump" and len(t) == 2 and t[1] in is64:
            out.append("bplanes %s" % t[1])
            g.count("bsi:bplanes")
        elif t[0] == "bdump" and len(t) == 2 and t[1] in is32:
            out.append("bplanes %s" % t[1])
            g.count("bsi:bplanes32")
    g.lines[:] = out


def widen_matrix(g, n):
    """an auto-sized 64-bit index holding negative and small values is widened through EVERY operation that can widen
    (SetValue, SetBigValue, SetMany, SetBigMany, ParOr with a wider participant, Add, Increment carry); every stored value
    must survive (sign extension)"""
    r = g.r
    for _ in range(n):
        for how in ("bset", "bsetbig", "bsetmany", "bsetmanybig", "bparor", "badd", "binc"):
            s = g.fresh("s")
            g.emit("bnew %s 64" % s)
            small = r.choice([[-5, -1, 7], [-1], [-3, 2], [-128, 127, 0], [3, 1]])
            if how in ("badd", "binc"):
                small = [v for v in small if v >= 0] + [-2]          # Add/Increment touch non-negative columns only
            for i, v in enumerate(small):
                g.emit("bset %s %d %d" % (s, i + 1, v))
            big = r.choice([70000, 1 << 20, (1 << 40) + 5, (1 << 62)])
            if how in ("bset", "bsetbig"):
                g.emit("%s %s %d %d" % (how, s, 100, big if r.random() < 0.6 else -big))
            elif how in ("bsetmany", "bsetmanybig"):
                f = g.fresh("f")
                g.emit("fs64 %s %d %d %d" % (f, 100, 101, 4294967296 + 7))
                g.emit("%s %s %s %d" % (how, s, f, big if r.random() < 0.6 else -big))
            elif how == "bparor":
                t = g.fresh("s")
                g.emit("bnew %s 64" % t)
                g.emit("bset %s %d %d" % (t, 200, big if r.random() < 0.6 else -big))
                g.emit("bparor %s %d %s" % (s, r.choice([0, 1, 2]), t))
            elif how == "badd":
                t = g.fresh("s")
                g.emit("bnew %s 64" % t)
                nn = [i + 1 for i, v in enumerate(small) if v >= 0]
                g.emit("bset %s %d %d" % (t, nn[0] if nn else 300, big))
                g.emit("badd %s %s" % (s, t))
            else:
                # carry out of the top value plane: 2^k - 1 incremented
                k = r.choice([3, 7, 16])
                g.emit("bset %s %d %d" % (s, 50, (1 << k) - 1))
                f = g.fresh("f")
                g.emit("fs64 %s 50" % f)
                g.emit("bdump %s" % s)
                g.emit("binc %s %s" % (s, f))
            g.emit("bdump %s" % s)
            g.emit("bchk %s" % s)
            for i in range(len(small)):
                g.emit("bget %s %d" % (s, i + 1))
            g.count("widen:" + how)


def full_width_batch_equal(g, n):
    """BatchEqual with a query covering EVERY value of the index's width (the dense-range collapse of the trie / cube paths),
    on both implementations; the returned bitmap is then modified and the index re-examined (results must be independent)"""
    r = g.r
    for _ in range(n):
        for w in ("32", "64"):
            bc = r.choice([1, 2, 3])
            s = g.fresh("s")
            g.emit("bnew %s %s" % (s, w))
            top = (1 << bc) - 1
            cols = list(range(1, 2 * (top + 1) + 1))
            for i, c in enumerate(cols):
                g.emit("bset %s %d %d" % (s, c, top if i == 0 else r.randrange(0, top + 1)))
            res = g.fresh("r")
            g.emit("beq %s %s %d %s" % (res, s, r.choice([0, 1, 2]), " ".join(str(v) for v in range(0, top + 1))))
            fam = "" if w == "32" else "64"
            g.emit("%s %s %d" % ("rem" + fam, res, cols[0]))
            g.emit("%s %s %d" % ("add" + fam, res, 999))
            g.emit("bdump %s" % s)
            g.emit("bchk %s" % s)
            res2 = g.fresh("r")
            g.emit("beq %s %s %d %s" % (res2, s, 0, " ".join(str(v) for v in range(0, top + 1))))
            g.emit("bcmp %s %s 0 GE 0" % (g.fresh("r"), s))
            g.emit("bsum %s -" % s)
            g.count("beq:fullwidth" + w)


def large_batch_equal(g, b):
    """an index with 120000 / 102500 columns (filled in blocks of 2500, highest block first, one value per block; values of both signs,
    scattered) queried with BatchEqual lists of 128+ scattered values - mixed signs, one sign, with absent values - and with
    short lists, for several worker counts: the large-list path must agree with the map semantics like the short-list path"""
    if b.av("neg32"):
        return
    for w in ("32", "64"):
        fam = "32" if w == "32" else "64"
        s = g.fresh("lg")
        g.emit("bnew %s %s" % (s, w))
        vals = []
        nblk = 48 if w == "32" else 41
        for j in range(nblk - 1, -1, -1):
            v = ((j * 7919) % 4001) - 2000
            vals.append(v)
            f = g.fresh("lf")
            g.emit("fsr%s %s %d %d" % (fam, f, j * 2500, (j + 1) * 2500))
            g.emit("bsetmany %s %s %d" % (s, f, v))
        g.emit("bset %s 5 -123456789" % s)
        g.emit("bset %s %d 987654321" % (s, nblk * 2500 - 1))
        g.emit("bbits %s" % s)
        neg = sorted(v for v in set(vals) if v < 0)
        pos = sorted(v for v in set(vals) if v >= 0)
        absent = [v for v in range(-1999, 2000, 13) if v not in set(vals)]
        lists = [("mixed", neg + pos + absent[:150] + [-123456789, 987654321]), ("mixed-absent", absent[:200]),
                 ("neg", neg + [v for v in absent if v < 0][:140]), ("pos", pos + [v for v in absent if v >= 0][:140]),
                 ("short-mixed", [neg[0], pos[0], pos[-1], neg[-1]]), ("mixed-130", (neg + pos + absent)[:130])]
        for cls, lst in lists:
            for par in (0, 1, 4):
                g.emit("beq %s %s %d %s" % (g.fresh("r"), s, par, " ".join(map(str, lst))))
                g.count("beq-large%s:%s" % (w, cls))
        g.emit("bcmp %s %s 2 RANGE -5 5" % (g.fresh("r"), s))
        g.emit("bsum %s -" % s)


def inc_negative_batch_equal(g, b):
    """32-bit index: Increment / Add touching a negative value, then every query family on the result (tag inc_neg32)"""
    if b.av("inc_neg32"):
        return
    r = g.r
    for how in ("binc", "badd"):
        s = g.fresh("s")
        g.emit("bnew %s 32" % s)
        neg = r.choice([-1, -3, -70000])
        g.emit("bset %s 1 %d" % (s, neg))
        g.emit("bset %s 2 5" % s)
        if how == "binc":
            g.emit("binc %s @" % s)
            res = neg + 1
        else:
            t = g.fresh("s")
            add = r.choice([1, 5, 70001])
            g.emit("bnew %s 32" % t)
            g.emit("bset %s 1 %d" % (t, add))
            g.emit("badd %s %s" % (s, t))
            res = neg + add
        g.emit("bdump %s" % s)
        g.emit("bget %s 1" % s)
        g.emit("bcmp %s %s 1 EQ %d" % (g.fresh("r"), s, res))
        g.emit("bsum %s -" % s)
        g.emit("beq %s %s 1 %d" % (g.fresh("r"), s, res))
        g.count("inc_neg32:" + how)


def fixed_bsi_episodes(g):
    """always present: clearing with the index's own existence bitmap and setting the columns again; loading (stream / marshal)
    into a previously used, wider receiver — for both implementations"""
    for w in ("32", "64"):
        s = g.fresh("fx")
        g.emit("bnew %s %s" % (s, w))
        for c, v in [(1, 6), (2, 1000), (7, 255), (4000000000, 3), (9, 70000)]:
            g.emit("bset %s %d %d" % (s, c, v))
        g.emit("bclr %s @" % s)
        g.emit("bdump %s" % s)
        for c, v in [(1, 1), (2, 7), (7, 0), (9, 4)]:
            g.emit("bset %s %d %d" % (s, c, v))
        g.emit("bdump %s" % s)
        g.emit("bclr %s @" % s)
        g.emit("bset %s 1 2" % s)
        g.emit("bdump %s" % s)
        # narrow source, wide used receiver
        a = g.fresh("fx")
        g.emit("bnew %s %s" % (a, w))
        for c, v in [(1, 5), (2, 6), (3, 2), (1099511627776 if w == "64" else 3000000000, 0)]:
            g.emit("bset %s %d %d" % (a, c, v))
        for how in (["bmarsh", "bstream"] if w == "64" else ["bmarsh"]):
            u, t = g.fresh("fu"), g.fresh("ft")
            g.emit("bnew %s %s" % (u, w))
            for c, v in [(1, 1000), (2, 4611686018427387905), (3, 70000), (8, 12)]:
                g.emit("bset %s %d %d" % (u, c, v))
            g.emit("%s %s %s %s" % (how, t, a, u))
            g.emit("bdump %s" % t)
            g.emit("bset %s 8 1" % t)
            g.emit("bdump %s" % t)
        # Add into an EMPTY fixed-width index (fresh, and used then emptied), then values of the declared range
        if w == "64":
            for emptied in (False, True):
                f, a = g.fresh("fx"), g.fresh("fx")
                g.emit("bnew %s 64 1000 -1000" % f)
                if emptied:
                    g.emit("bset %s 3 999" % f)
                    g.emit("bset %s 4 -7" % f)
                    g.emit("bclr %s @" % f)
                g.emit("bnew %s 64" % a)
                for c, v in [(1, 3), (2, 1), (7, 2)]:
                    g.emit("bset %s %d %d" % (a, c, v))
                g.emit("badd %s %s" % (f, a))
                g.emit("bdump %s" % f)
                g.emit("bset %s 7 900" % f)
                g.emit("bset %s 8 -1000" % f)
                g.emit("badd %s %s" % (f, a))
                g.emit("bdump %s" % f)
        # columns spread over many 2^32 blocks (the existence bitmap and the slices have many buckets), streamed
        if w == "64":
            m = g.fresh("fx")
            g.emit("bnew %s 64" % m)
            for nb in (66, 130):
                for i in range(nb):
                    g.emit("bset %s %d %d" % (m, (i * 3 + 1) * 4294967296 + 7 * i, (i % 4) - 2))
                t = g.fresh("ft")
                g.emit("bstream %s %s" % (t, m))
                g.emit("bdump %s" % t)
                g.emit("bequals %s %s" % (t, m))
        # an index EXACTLY 65 planes wide (it holds MinInt64, or a value of 64-bit magnitude): negative / zero / positive values stored
        # afterwards with every setter, read back every way
        if w == "64":
            for widen in ("bset %s 1 -9223372036854775808", "bsetbig %s 1 9223372036854775813", "bsetbig %s 1 -18446744073709551615"):
                q = g.fresh("fx")
                g.emit("bnew %s 64" % q)
                g.emit(widen % q)
                g.emit("bbits %s" % q)
                for c, v in [(2, -1), (3, -5), (4, 0), (5, 7), (6, -9223372036854775807), (7, 9223372036854775807)]:
                    g.emit("bset %s %d %d" % (q, c, v))
                    g.emit("bgetbig %s %d" % (q, c))
                g.emit("bsetbig %s 8 -2" % q)
                g.emit("fs64 %s 20 21" % (q + "f"))
                g.emit("bsetmany %s %s -3" % (q, q + "f"))
                g.emit("bdump %s" % q)
                g.emit("bgetsbig %s 2 3 4 5 6 7 8 20 21" % q)
                c2 = g.fresh("fx")
                g.emit("bclone %s %s" % (c2, q))
                g.emit("bdump %s" % c2)
                t = g.fresh("ft")
                g.emit("bstream %s %s" % (t, q))
                g.emit("bdump %s" % t)
        # marshal round trips of NON-NEGATIVE maps in which some binary digit below the highest one is set in no value (empty planes in
        # the middle): {1,4,5}, all even, multiples of 1024, one digit emptied by overwrites
        if w == "64":
            for vals in ([1, 4, 5], [2, 4, 6, 128], [1024, 5120, 7168], [0, 16, 17], [9, 9, 1], [4611686018427387904, 1]):
                q = g.fresh("fx")
                g.emit("bnew %s 64" % q)
                for i, v in enumerate(vals):
                    g.emit("bset %s %d %d" % (q, 10 + i, v))
                for how in ("bmarsh", "bstream"):
                    t = g.fresh("ft")
                    g.emit("%s %s %s" % (how, t, q))
                    g.emit("bdump %s" % t)
                    g.emit("bequals %s %s" % (t, q))
                    g.emit("bget %s 10" % t)
        # batch reads with REPEATED column ids — of a column holding 0, a negative value, a wide value, and of absent columns
        if w == "64":
            q = g.fresh("fx")
            g.emit("bnew %s 64" % q)
            for c, v in [(4, 0), (5, 0), (20, 7), (21, -3), (8589934599, 0), (9, 4611686018427387905)]:
                g.emit("bset %s %d %d" % (q, c, v))
            g.emit("bset %s 5 9" % q)
            g.emit("bset %s 5 0" % q)          # overwritten with zero
            for cols in ([4, 4], [4, 5, 4, 5, 5], [20, 4, 20, 4, 77, 77, 21, 21], [8589934599, 3, 8589934599, 9, 9, 4], [77, 4, 77]):
                g.emit("bgets %s %s" % (q, " ".join(map(str, cols))))
                g.emit("bgetsbig %s %s" % (q, " ".join(map(str, cols))))
            cq = g.fresh("fx")
            g.emit("bclone %s %s" % (cq, q))
            g.emit("bgets %s 4 5 4 5 21 21" % cq)
        # an AUTO-SIZED receiver merged (ParOr) / added (Add) with participants created with declared ranges — and the other way round —
        # then values far wider than anything seen so far are stored on the receiver with every setter
        for decl_recv in (False, True):
            rcv, p1, p2 = g.fresh("fr"), g.fresh("fr"), g.fresh("fr")
            g.emit("bnew %s %s%s" % (rcv, w, " 1000000 -1000000" if decl_recv else ""))
            g.emit("bnew %s %s%s" % (p1, w, "" if decl_recv else " 255 0"))
            g.emit("bnew %s %s%s" % (p2, w, "" if decl_recv else " 100 -100"))
            g.emit("bset %s 1 3" % rcv)
            for i, v in enumerate([5, 200, 77]):
                g.emit("bset %s %d %d" % (p1, 10 + i, v))
            for i, v in enumerate([-5, 99, 0]):
                g.emit("bset %s %d %d" % (p2, 20 + i, v))
            g.emit("bparor %s 2 %s %s" % (rcv, p1, p2))
            g.emit("bdump %s" % rcv)
            for c, v in [(30, 70000), (31, -5000), (10, 123456), (32, 999999)]:
                g.emit("bset %s %d %d" % (rcv, c, v))
                g.emit("bget %s %d" % (rcv, c))
            if w == "64":
                g.emit("fs64 %s 40 41" % (rcv + "f"))
            else:
                g.emit("fs32 %s 40 41" % (rcv + "f"))
            g.emit("bsetmany %s %s 123456" % (rcv, rcv + "f"))
            g.emit("bdump %s" % rcv)
            c2 = g.fresh("fr")
            g.emit("bclone %s %s" % (c2, rcv))
            g.emit("bset %s 50 -777777" % c2)
            g.emit("bdump %s" % c2)
        # ParOr of several participants WIDER than the receiver, in every order of their widths (disjoint columns)
        for order in ((0, 1, 2), (2, 1, 0), (1, 2, 0), (2, 0, 1), (1, 0, 2)):
            rcv = g.fresh("fp")
            g.emit("bnew %s %s" % (rcv, w))
            g.emit("bset %s 1 3" % rcv)
            parts = []
            for j, (c0, vals) in enumerate([(10, [5, 7, 6]), (20, [900, 513, 1000]), (30, [70000, 99999, 65536])]):
                t = g.fresh("fp")
                g.emit("bnew %s %s" % (t, w))
                for i, v in enumerate(vals):
                    g.emit("bset %s %d %d" % (t, c0 + i, v))
                parts.append(t)
            g.emit("bparor %s %d %s" % (rcv, 2, " ".join(parts[i] for i in order)))
            g.emit("bdump %s" % rcv)
            g.emit("bget %s 30" % rcv)
            g.emit("bget %s 21" % rcv)
            c2 = g.fresh("fp")
            g.emit("bclone %s %s" % (c2, rcv))
            g.emit("bdump %s" % c2)
        g.count("bsi:fixed-episodes")


@suite("bsi")
def _bsi(g, scale):
    b = BG(g, env_avoid())
    fixed_bsi_episodes(g)
    for _ in range(int(40 * scale)):
        b.episode_updates(g.r.choice([8, 15, 25]))
    widen_matrix(g, max(1, int(2 * scale)))
    add_plane_checks(g)


@suite("bsiq")
def _bsiq(g, scale):
    b = BG(g, env_avoid())
    for _ in range(int(30 * scale)):
        b.episode_queries(g.r.choice([15, 30, 45]))
    full_width_batch_equal(g, max(1, int(3 * scale)))
    inc_negative_batch_equal(g, b)
    large_batch_equal(g, b)
    add_plane_checks(g)


@suite("bsi-clean")
def _bsi_clean(g, scale):
    b = BG(g, set(KNOWN_ACTIVE) | env_avoid())
    for _ in range(int(40 * scale)):
        b.episode_updates(g.r.choice([8, 15, 25]))


@suite("bsiq-clean")
def _bsiq_clean(g, scale):
    b = BG(g, set(KNOWN_ACTIVE) | env_avoid())
    for _ in range(int(30 * scale)):
        b.episode_queries(g.r.choice([15, 30, 45]))



def _exhaustive(g, b, is64, bc, neg, ncols, fixed=None):
    """one small map, every operator x every constant of the range (RANGE: every ordered pair)"""
    r = g.r
    idx = b.newidx(is64, "small")
    lo, hi = (-(1 << bc) + 1, (1 << bc) - 1) if neg else (0, (1 << bc) - 1)
    if fixed is not None:
        lo, hi = fixed[1], fixed[0]
    for c in range(ncols):
        v = r.randint(lo, hi)
        if c == 0:
            v = hi          # make sure the width is reached
        if c == 1 and neg:
            v = lo
        b.do_set(idx, c * 3 + 1, v, big=False)
    g.emit("bdump %s" % idx.name)
    g.emit("bbits %s" % idx.name)
    klo, khi = idx.krange()
    if not is64 and idx.bc >= 64:
        klo, khi = lo - 1, hi + 1        # 64 planes: every int64 is in range; stay near the stored values
    sub_cols = [c for c in sorted(idx.vals) if r.random() < 0.6]
    sub = b.mkfs(idx, sub_cols)
    for tok in ("-", sub):
        for op in ("LT", "LE", "EQ", "GE", "GT"):
            for k in range(klo, khi + 1):
                g.emit("bcmp %s %s 1 %s %d %s" % (g.fresh("r"), idx.name, op, k, tok))
                g.count("x:%s:%s" % ("64" if is64 else "32", op))
        for k in range(klo, khi + 1):
            for k2 in range(k, khi + 1):
                g.emit("bcmp %s %s 2 RANGE %d %d %s" % (g.fresh("r"), idx.name, k, k2, tok))
                g.count("x:%s:RANGE" % ("64" if is64 else "32"))
        if True:
            nonempty = tok == "-" or bool(sub_cols)
            if nonempty and (is64 or not b.av("minmax32")):
                g.emit("bminmax %s 1 MIN %s" % (idx.name, tok))
                g.emit("bminmax %s 2 MAX %s" % (idx.name, tok))
        g.emit("bsum %s %s" % (idx.name, tok))
    for k in range(klo, khi + 1):
        g.emit("beq %s %s 1 %d" % (g.fresh("r"), idx.name, k))
        g.emit("beq %s %s 2 %d %d" % (g.fresh("r"), idx.name, k, min(khi, k + 1)))
    g.emit("bdump %s" % idx.name)


def _exhaustive_big(g, b, base, ncols):
    """64-bit index wider than int64: stored values around `base`, constants = stored +-1, extremes, small"""
    r = g.r
    idx = b.newidx(True, "big")
    vals = [base + d for d in (-2, -1, 0, 1, 2)] + [0, -1, 5, -base]
    r.shuffle(vals)
    for c, v in enumerate(vals[:ncols]):
        b.do_set(idx, c * 5 + 2, v)
    g.emit("bdump %s" % idx.name)
    g.emit("bbits %s" % idx.name)
    lo, hi = idx.krange()
    ks = sorted(set([0, 1, -1, lo, hi, lo + 1, hi - 1] + [v + d for v in idx.vals.values() for d in (-1, 0, 1)]))
    ks = [k for k in ks if lo <= k <= hi]
    sub = b.mkfs(idx, [c for c in sorted(idx.vals) if r.random() < 0.6])
    if not b.av("big_slow"):
        for tok in ("-", sub, "@"):
            for op in ("LT", "LE", "EQ", "GE", "GT"):
                for k in ks:
                    big = not (I64MIN <= k <= I64MAX) or r.random() < 0.5
                    g.emit("%s %s %s %d %s %d %s" % ("bcmpbig" if big else "bcmp", g.fresh("r"), idx.name, r.choice([0, 1, 2, 7]), op, k, tok))
                    g.count("xbig:" + op)
            for i, k in enumerate(ks):
                for k2 in ks[i:]:
                    if r.random() < 0.5:
                        g.emit("bcmpbig %s %s %d RANGE %d %d %s" % (g.fresh("r"), idx.name, r.choice([1, 2]), k, k2, tok))
                        g.count("xbig:RANGE")
    g.emit("bminmaxbig %s 1 MIN -" % idx.name)
    g.emit("bminmaxbig %s 2 MAX -" % idx.name)
    if not b.av("sum_wide"):
        g.emit("bsumbig %s -" % idx.name)
    for k in ks:
        g.emit("beqbig %s %s 1 %d" % (g.fresh("r"), idx.name, k))
    g.emit("bdump %s" % idx.name)


def _big_small_ranges(g, b):
    """64-bit index wider than int64 (one huge value) whose other columns hold EVERY value of [-50, 50]: RANGE for every start in
    [-35, 0] x a spread of ends >= 0 (ranges spanning zero), every start/end pair of one sign on a coarser grid, every operator at
    every constant in [-52, 52] - the per-column comparison automaton on two's-complement values sharing long high prefixes"""
    if b.av("big_slow"):
        return
    for huge in ((1 << 70) + 3, -(1 << 81)):
        idx = b.newidx(True, "big")
        b.do_set(idx, 1, huge)
        for v in range(-50, 51):
            b.do_set(idx, 100 + (v + 50) * 3, v)
        g.emit("bbits %s" % idx.name)
        for s0 in range(-35, 1):
            for e0 in (0, 1, 2, 3, 5, 7, 12, 21, 40):
                g.emit("%s %s %s %d RANGE %d %d -" % ("bcmpbig" if (s0 + e0) % 2 else "bcmp", g.fresh("r"), idx.name, (s0 % 3), s0, e0))
                g.count("xbig:RANGE-across-zero")
        for s0 in range(-50, 51, 7):
            for e0 in range(s0, 51, 5):
                g.emit("bcmpbig %s %s 1 RANGE %d %d -" % (g.fresh("r"), idx.name, s0, e0))
        for op in ("LT", "LE", "EQ", "GE", "GT"):
            for k in range(-52, 53):
                g.emit("bcmp %s %s 2 %s %d -" % (g.fresh("r"), idx.name, op, k))
        g.emit("bdump %s" % idx.name)


@suite("bsix")
def _bsix(g, scale):
    """exhaustive tiny cases (C20): all operators x all constants in range, both implementations"""
    b = BG(g, env_avoid())
    for is64 in (True, False):
        for bc in (1, 2, 3):
            for neg in (False, True):
                if not is64 and neg and b.av("neg32"):
                    continue
                for ncols in (1, 4):
                    _exhaustive(g, b, is64, bc, neg, ncols)
    for base in (1 << 62, 1 << 63, 1 << 64, -(1 << 64), (1 << 70) + 3):
        for ncols in (1, 5, 9):
            _exhaustive_big(g, b, base, ncols)
    _big_small_ranges(g, b)
    add_plane_checks(g)
