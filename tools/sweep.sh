#!/bin/bash
# unchanged-tree sweep: every property, several seeds, quick tier; prints only non-OK lines and a summary
python3 tools/run_check.py --setup > /dev/null 2>&1 || { echo "setup failed"; exit 1; }
FROM=${1:-2}; TO=${2:-9}
bad=0
for p in $(python3 -c "import sys; sys.path.insert(0,'tools'); import props; print(' '.join(sorted(props.PROPS)))"); do
  for s in $(seq $FROM $TO); do
    out=$(VERIF_SEED=$s python3 tools/run_check.py --prop $p 2>&1 | grep -E "^(VIOLATION|OK)" | tail -1)
    case "$out" in OK*) ;; *) echo "seed=$s $p: $out"; bad=$((bad+1)); cp replays/$p-* /tmp/sweep_replays/ 2>/dev/null;; esac
  done
  echo "done $p"
done
echo "SWEEP bad=$bad"
