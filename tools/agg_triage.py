#!/usr/bin/env python3
"""Triage helper for the agg / sched suites (not part of the property runner).

  python3 tools/agg_triage.py <suite> <seed> [scale] [--race]

Runs the generated script once through the Go harness, then splits script and transcript at the `# group` comment
lines and runs the Lean checker on every group separately (groups use disjoint names), so that one defect does not hide
the groups behind it.  Prints every first-mismatch per group and a summary by (operator, group class).
"""
import os
import subprocess
import sys
import collections

ROOT = os.path.dirname(os.path.dirname(os.path.abspath(__file__)))
sys.path.insert(0, os.path.join(ROOT, "tools"))
import gen  # noqa: E402

HBIN = os.path.join(ROOT, "harness", "bin", "harness")
RDRIVER = os.path.join(ROOT, "lean", ".lake", "build", "bin", "rdriver")


def main():
    args = [a for a in sys.argv[1:] if not a.startswith("--")]
    race = "--race" in sys.argv
    suite, seed = args[0], int(args[1])
    scale = float(args[2]) if len(args) > 2 else 1.0
    lines, hist = gen.generate(suite, seed, scale)
    work = os.path.join(ROOT, "scratch")
    os.makedirs(work, exist_ok=True)
    sp = os.path.join(work, "tri_%s_%d_%d.txt" % (suite, seed, os.getpid()))
    with open(sp, "w") as f:
        f.write("\n".join(lines) + "\n")
    hb = HBIN + "-race" if race else HBIN
    for a in sys.argv:
        if a.startswith("--bin="):
            hb = a[6:]
    env = dict(os.environ)
    if race:
        env["GORACE"] = "halt_on_error=0"
    with open(sp) as fin:
        p = subprocess.run([hb], stdin=fin, stdout=subprocess.PIPE, stderr=subprocess.PIPE, env=env)
    out = p.stdout.decode().split("\n")
    if out and out[-1] == "":
        out.pop()
    err = p.stderr.decode(errors="replace")
    print("harness rc=%d lines=%d outputs=%d races=%d" % (p.returncode, len(lines), len(out), err.count("WARNING: DATA RACE")))
    if err.strip():
        print("stderr tail:", err[-3000:])
    out += ["crash"] * (len(lines) - len(out))
    # split
    groups = []
    cur = None
    for i, l in enumerate(lines):
        if l.startswith("# group") or cur is None:
            cur = {"title": l if l.startswith("#") else "# group (head)", "s": [], "o": []}
            groups.append(cur)
        cur["s"].append(l)
        cur["o"].append(out[i])
    summary = collections.Counter()
    nfail = 0
    for gi, gr in enumerate(groups):
        a = os.path.join(work, "tri_g_%d.txt" % os.getpid())
        b = os.path.join(work, "tri_g_%d.out" % os.getpid())
        with open(a, "w") as f:
            f.write("\n".join(gr["s"]) + "\n")
        with open(b, "w") as f:
            f.write("\n".join(gr["o"]) + "\n")
        r = subprocess.run([RDRIVER, a, b], stdout=subprocess.PIPE, text=True)
        for m in r.stdout.splitlines():
            if m.startswith("MISMATCH"):
                nfail += 1
                cmd = m.split("cmd=[", 1)[1].split("]", 1)[0]
                op = cmd.split(" ")[0]
                if op == "sched":
                    op += ":" + cmd.split(" ")[1]
                if op in ("aggindep", "wf", "dig"):
                    # name the aggregate that produced the object
                    y = cmd.split(" ")[1]
                    prod = [l.split(" ")[0] for l in gr["s"] if l.split(" ")[1:2] == [y] and l.split(" ")[0] not in ("wf", "aggindep", "dig")]
                    op += "<-" + (prod[-1] if prod else "?")
                    if cmd.startswith("aggindep"):
                        op += ":" + cmd.split(" ")[3]
                    m += " PRODUCER=" + op
                if op.split(":")[0] in ("paror", "parand", "parheapor", "fastor", "fastand", "heapor", "heapxor", "andany", "sched"):
                    exp = m.split("expected=[", 1)[1].split("]", 1)[0].split(" ")
                    got = m.split("got=[", 1)[1].rsplit("]", 1)[0].split(" ")
                    kinds = []
                    if len(exp) != len(got):
                        kinds.append("shape:" + got[0][:24])
                    else:
                        if exp[0] != got[0]:
                            kinds.append("result")
                        for i in range(1, len(exp)):
                            if exp[i] != got[i]:
                                kinds.append(got[i] if "=" in got[i] else "operand")
                    op += "{" + ",".join(sorted(set(kinds))) + "}"
                summary[(op, " ".join(gr["title"].split(" ")[2:4]))] += 1
                print("group %d %s :: %s" % (gi, gr["title"], m[:420]))
    print("groups=%d mismatches=%d" % (len(groups), nfail))
    for k, v in sorted(summary.items()):
        print("  %-40s %-22s %d" % (k[0], k[1], v))


if __name__ == "__main__":
    main()
