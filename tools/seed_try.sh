#!/bin/bash
# apply a seeded change in the isolated evaluation copy and leave it applied: seed_try.sh <seed-dir> ; then run commands in /tmp/evalverif
# with VERIF_REPO=/tmp/evalrepo ; undo with: git -C /tmp/evalrepo checkout -- .
set -eu
S=${EVAL_SUFFIX:-}; EV=/tmp/evalverif$S; ER=/tmp/evalrepo$S
mkdir -p $EV
rsync -a --delete --exclude .git --exclude scratch --exclude replays /verif/ $EV/
if [ ! -d $ER ]; then git -C /repo worktree add -q --detach $ER HEAD; fi
git -C $ER checkout -q --detach $(git -C /repo rev-parse HEAD)
git -C $ER checkout -- .
git -C $ER apply $1/patch.diff
echo applied $1
